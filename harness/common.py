"""
Shared machinery of the cardutil verification harness.

  * paths, seeding, FNV / position-coded content shared with the Lean driver (Cardutil/Wire.lean)
  * the tie: translate data -> lake build of the property's theorems + driver -> axiom audit
  * the correspondence engine: cases -> (implementation observation, model response) in worker
    processes, each with its own driver process, under a per-case watchdog
  * evidence / replay / known-findings handling and the exit protocol
"""
import fcntl
import hashlib
import json
import multiprocessing as mp
import os
import random
import re
import signal
import subprocess
import sys
import time

VERIF = os.path.dirname(os.path.dirname(os.path.abspath(__file__)))
LEAN = os.path.join(VERIF, 'lean')
REPO = os.environ.get('CARDUTIL_REPO', '/repo')
DRIVER = os.path.join(LEAN, '.lake', 'build', 'bin', 'driver')
EVIDENCE = os.path.join(VERIF, 'evidence')
REPLAYS = os.path.join(VERIF, 'replays')
NPROC = min(16, os.cpu_count() or 1)
ALLOWED_AXIOMS = {'propext', 'Classical.choice', 'Quot.sound'}
FORBIDDEN = re.compile(r'\bsorry\b|\badmit\b|^\s*axiom\s|native_decide|bv_decide|implemented_by|\bunsafe\s|maxHeartbeats\s+0', re.M)

if REPO not in sys.path:
    sys.path.insert(0, REPO)
os.environ.setdefault('PYTHONDONTWRITEBYTECODE', '1')
sys.dont_write_bytecode = True
import logging  # noqa: E402
logging.disable(logging.CRITICAL)   # cardutil logs warnings on truncated input; not an observation
import warnings  # noqa: E402
warnings.simplefilter('ignore')

# ---------------------------------------------------------------------------------------------
# shared encodings with the driver


SIG_MOD = 36028797018963913  # largest prime below 2**55 (see Cardutil/Wire.lean)


def fnv(b: bytes) -> int:
    """fingerprint shared with the driver: the bytes as a big-endian number modulo SIG_MOD"""
    return int.from_bytes(b, 'big') % SIG_MOD


def sig(b: bytes) -> str:
    return f'{len(b)}:{fnv(b)}'


_PC_CACHE = bytes(((i * 131 + (i // 256) * 7 + 17) % 256) for i in range(1 << 16))


def pc(off: int, n: int) -> bytes:
    """position-coded content: byte at absolute offset i = (i*131 + i//256*7 + 17) % 256"""
    if off + n <= len(_PC_CACHE):
        return _PC_CACHE[off:off + n]
    return bytes(((i * 131 + (i // 256) * 7 + 17) % 256) for i in range(off, off + n))


def pc_records(lens):
    out, off = [], 0
    for n in lens:
        out.append(pc(off, n))
        off += n
    return out


def dotted(s: str) -> str:
    return '.'.join(str(ord(c)) for c in s)


def undotted(s: str) -> str:
    return ''.join(chr(int(t)) for t in s.split('.')) if s else ''


# ---------------------------------------------------------------------------------------------
# the tie, part 1: build and audit


class Tie:
    """result of translate + build + audit"""

    def __init__(self):
        self.failures = []      # list of dicts {stage, what, detail}
        self.theorems = []      # property theorem names
        self.axioms = {}        # theorem -> list of axioms
        self.build_s = 0.0
        self.driver_ok = False
        self.source = {}        # the source tie (translated Python = model), per SrcTie module

    @property
    def ok(self):
        return not self.failures


def strip_comments(src: str) -> str:
    # remove /- ... -/ (nested not handled beyond one level) and -- line comments
    out, i, depth = [], 0, 0
    while i < len(src):
        if src.startswith('/-', i):
            depth += 1
            i += 2
        elif src.startswith('-/', i) and depth:
            depth -= 1
            i += 2
        elif depth:
            if src[i] == '\n':
                out.append('\n')
            i += 1
        elif src.startswith('--', i):
            while i < len(src) and src[i] != '\n':
                i += 1
        else:
            out.append(src[i])
            i += 1
    return ''.join(out)


def lean_sources():
    for root, _, files in os.walk(os.path.join(LEAN, 'Cardutil')):
        for f in files:
            if f.endswith('.lean'):
                yield os.path.join(root, f)
    yield os.path.join(LEAN, 'Driver.lean')


def theorem_names(prop_id: str):
    path = os.path.join(LEAN, 'Cardutil', 'Props', f'{prop_id}.lean')
    src = strip_comments(open(path).read())
    ns = f'Cardutil.Props.{prop_id}'
    names = re.findall(r'^\s*theorem\s+([A-Za-z_][A-Za-z0-9_\.\'?!]*)', src, re.M)
    return [f'{ns}.{n}' for n in names]


# the source tie: which SrcTie modules concern which property, and the translated functions each one needs
SRC_TIE = {
    'C03': {'Block': ['Block1014.write', 'Block1014.finalise'], 'Reader': ['VbsReader.__next__'],
            'Writer': ['VbsWriter.write', 'VbsWriter.close', 'VbsWriter.__exit__'],
            'RoundTrip': ['VbsWriter.write', 'VbsWriter.write_many', 'VbsWriter.close', 'VbsReader.__next__'],
            'Blocked': ['Block1014F_write', 'Block1014F_finalise', 'Block1014F_seek', 'VbsWriterB_write', 'VbsWriterB_close',
                        'VbsWriterB_exit', 'VbsReaderB_next', 'Unblock1014.read']},
    'C06': {'IpmRoundTrip': ['IpmWriter.write', 'IpmWriter.write_many', 'IpmReader.__next__', 'VbsWriter.write',
                             'VbsWriter.close', 'VbsReader.__next__'],
            'IpmBlocked': ['IpmWriterB_write', 'IpmReaderB_next', 'VbsWriterB_write', 'VbsWriterB_close', 'VbsReaderB_next',
                           'Block1014F_write', 'Block1014F_seek', 'Unblock1014.read']},
    'C11': {'Writer': ['VbsWriter.write', 'VbsWriter.close', 'VbsWriter.__exit__'],
            'Blocked': ['Block1014F_write', 'Block1014F_finalise', 'Block1014F_seek', 'VbsWriterB_write', 'VbsWriterB_close',
                        'VbsWriterB_exit']},
    'C09': {'Reader': ['VbsReader.__next__']},
    'C10': {'Reader': ['VbsReader.__next__'], 'IpmReader': ['IpmReader.__next__', 'VbsReader.__next__']},
    'C04': {'Block': ['Block1014.write', 'Block1014.finalise'], 'OneShot': ['block_1014', 'unblock_1014']},
    'C05': {'Unblock': ['Unblock1014.read', 'Block1014.write', 'Block1014.finalise'],
            'OneShot': ['block_1014', 'unblock_1014']},
    'C01': {'Bits': ['BitArray.tolist', 'BitArray.fromlist'], 'Conv': ['_pytype_to_string', '_string_to_pytype'],
            'Entry': ['dumps', 'loads'],
            'LoopRoundTrip': ['_dict_to_iso8583_loop', '_iso8583_to_dict_loop', '_iso8583_to_dict', 'BitArray.tolist',
                              'BitArray.fromlist'],
            'FieldWhole': ['_iso8583_to_field_whole', '_iso8583_to_field_frame', '_field_to_iso8583', '_string_to_pytype',
                           '_string_to_pytype_bytes', '_dict_to_iso8583_loop', '_iso8583_to_dict']},
    'C02': {'Bits': ['BitArray.tolist', 'BitArray.fromlist'], 'Field': ['_get_field_length', '_field_to_iso8583', '_iso8583_to_field_frame'],
            'EncLoop': ['_dict_to_iso8583_loop', 'BitArray.fromlist'], 'Conv': ['_pytype_to_string', '_string_to_pytype'],
            'Entry': ['dumps', 'loads']},
    'C07': {'Pds': ['_pds_to_dict', '_icc_to_dict', '_pds_to_de'], 'Field': ['_string_to_pytype'],
            'IpmReader': ['IpmReader.__next__', 'VbsReader.__next__'],
            'IpmBlocked': ['IpmReaderB_next', 'VbsReaderB_next', 'Unblock1014.read'],
            'FieldWhole': ['_iso8583_to_field_whole', '_iso8583_to_field_frame', '_string_to_pytype']},
    'C08': {'Pds': ['_pds_to_dict', '_icc_to_dict', '_pds_to_de'], 'Bits': ['BitArray.tolist', 'BitArray.fromlist'],
            'Field': ['_get_field_length', '_iso8583_to_field_frame', '_string_to_pytype'],
            'Loop': ['_iso8583_to_dict_loop', '_iso8583_to_dict']},
    'C12': {'Pds': ['_pds_to_dict', '_icc_to_dict', '_pds_to_de'], 'Carriers': ['_dict_to_iso8583_carriers', '_pds_to_de']},
    'C13': {'Pin': ['Iso0PinBlock.to_bytes', 'Iso0PinBlock.from_bytes', 'Iso4PinBlock.to_bytes', 'Iso4PinBlock.from_bytes'],
            'Keys': ['Tdes_encrypt', 'Tdes_decrypt', 'Aes_encrypt', 'Aes_decrypt']},
    'C14': {'Misc': ['_get_tsp', '_pan_prefix'],
            'Pin': ['calculate_pvv_decimalise', 'get_zone_master_key_combine'],
            'Keys': ['calculate_kcv', 'encrypt_key', 'get_zone_master_key', 'get_enc_zone_master_key', 'calculate_pvv',
                     '_get_tsp']},
    'C15': {'Card': ['calculate_check_digit', 'validate_check_digit', 'add_check_digit', 'mask']},
    'C16': {'Card': ['calculate_check_digit', 'validate_check_digit', 'add_check_digit', 'mask'],
            'Misc': ['_get_tsp', '_pan_prefix'],
            'Value': ['_iso8583_to_field_value', 'mask', '_pan_prefix', '_string_to_pytype']},
    'C18': {'Param': ['IpmParamReader._get_param_field'],
            'ParamRow': ['IpmParamReader_next_row', 'IpmParamReader._get_param_field'],
            'ParamIndex': ['IpmParamReader_index_step', 'IpmParamReader_next_row', 'IpmParamReader._get_param_field']},
    'C17': {'Info': ['block_1014_check', 'encoding_check', 'bitmap_check', 'ipm_info', 'BitArray.tolist']},
}


def srctie_theorems(module):
    path = os.path.join(LEAN, 'Cardutil', 'SrcTie', f'{module}.lean')
    src = strip_comments(open(path).read())
    return ['Cardutil.SrcTie.' + n for n in re.findall(r'^\s*theorem\s+([A-Za-z_][A-Za-z0-9_\.\'?!]*)', src, re.M)]


def run_source_tie(prop_id, tie, src_status):
    """build the SrcTie modules of this property (translated source = model, for all inputs) and audit their axioms.
    A module that does not build means: the source tie is NOT ESTABLISHED for the current source (a rewrite the
    translator or the equality proofs do not follow).  That is recorded and makes the check escalate its search;
    it is not a tie failure by itself — the behavioural correspondence remains the deciding tie."""
    for module, funcs in SRC_TIE.get(prop_id, {}).items():
        entry = {'functions': {f: src_status.get(f, 'not translated') for f in funcs}}
        p = subprocess.run(['lake', 'build', f'Cardutil.SrcTie.{module}'], cwd=LEAN, capture_output=True, text=True)
        if p.returncode != 0:
            errs = re.findall(r'^error: (.*)$', p.stdout + p.stderr, re.M)
            entry['status'] = 'not established'
            entry['detail'] = '\n'.join(errs[:8]) or (p.stdout + p.stderr)[-800:]
        else:
            names = srctie_theorems(module)
            apath = os.path.join(LEAN, '.lake', 'audit', f'{prop_id}_src_{module}.lean')
            os.makedirs(os.path.dirname(apath), exist_ok=True)
            with open(apath, 'w') as f:
                f.write(f'import Cardutil.SrcTie.{module}\n')
                for t in names:
                    f.write(f'#print axioms {t}\n')
            a = subprocess.run(['lake', 'env', 'lean', apath], cwd=LEAN, capture_output=True, text=True)
            text = a.stdout + a.stderr
            ax = {}
            for m in re.finditer(r"'([^']+)' depends on axioms: \[([^\]]*)\]", text):
                ax[m.group(1)] = [x.strip() for x in m.group(2).replace('\n', ' ').split(',') if x.strip()]
            for m in re.finditer(r"'([^']+)' does not depend on any axioms", text):
                ax[m.group(1)] = []
            bad = {t: [x for x in ax.get(t, ['?']) if x not in ALLOWED_AXIOMS] for t in names}
            bad = {t: b for t, b in bad.items() if b}
            entry['theorems'] = names
            entry['status'] = 'proved' if not bad else 'not established'
            if bad:
                entry['detail'] = f'axioms outside the allowed set: {bad}'
        tie.source[module] = entry


def run_tie(prop_id: str, thorough: bool = False, log=None) -> Tie:
    from harness import gen_tables
    tie = Tie()
    t0 = time.time()
    os.makedirs(os.path.join(LEAN, '.lake'), exist_ok=True)
    with open(os.path.join(LEAN, '.lake', 'verif.lock'), 'w') as lock:
        fcntl.flock(lock, fcntl.LOCK_EX)
        # 1. translate data from /repo
        try:
            gen_tables.generate()
        except Exception as ex:  # translator cannot read the config any more
            tie.failures.append({'stage': 'translate', 'what': 'harness/gen_tables.py',
                                 'detail': f'{type(ex).__name__}: {ex}'})
        # 2. re-check proofs + rebuild driver
        cmd = ['lake', 'build', f'Cardutil.Props.{prop_id}', 'driver']
        p = subprocess.run(cmd, cwd=LEAN, capture_output=True, text=True)
        out = p.stdout + p.stderr
        if p.returncode != 0:
            errs = re.findall(r'^error: (.*)$', out, re.M)
            tie.failures.append({'stage': 'build', 'what': ' '.join(cmd),
                                 'detail': '\n'.join(errs[:20]) or out[-2000:]})
        tie.driver_ok = os.path.exists(DRIVER) and not any(
            'Driver' in e or 'driver' in e or 'Model' in e for e in re.findall(r'^error: (.*)$', out, re.M))
        # 3. audit
        try:
            tie.theorems = theorem_names(prop_id)
        except OSError as ex:
            tie.failures.append({'stage': 'audit', 'what': f'Props/{prop_id}.lean', 'detail': str(ex)})
        if p.returncode == 0 and tie.theorems:
            audit_dir = os.path.join(LEAN, '.lake', 'audit')
            os.makedirs(audit_dir, exist_ok=True)
            apath = os.path.join(audit_dir, f'{prop_id}.lean')
            with open(apath, 'w') as f:
                f.write(f'import Cardutil.Props.{prop_id}\n')
                for t in tie.theorems:
                    f.write(f'#print axioms {t}\n')
            a = subprocess.run(['lake', 'env', 'lean', apath], cwd=LEAN, capture_output=True, text=True)
            text = a.stdout + a.stderr
            for m in re.finditer(r"'([^']+)' depends on axioms: \[([^\]]*)\]", text):
                tie.axioms[m.group(1)] = [x.strip() for x in m.group(2).replace('\n', ' ').split(',') if x.strip()]
            for m in re.finditer(r"'([^']+)' does not depend on any axioms", text):
                tie.axioms[m.group(1)] = []
            for t in tie.theorems:
                if t not in tie.axioms:
                    tie.failures.append({'stage': 'audit', 'what': t, 'detail': 'no #print axioms output: ' + text[-500:]})
                else:
                    bad = [x for x in tie.axioms[t] if x not in ALLOWED_AXIOMS]
                    if bad:
                        tie.failures.append({'stage': 'audit', 'what': t, 'detail': f'non-standard axioms {bad}'})
            for path in lean_sources():
                m = FORBIDDEN.search(strip_comments(open(path).read()))
                if m:
                    tie.failures.append({'stage': 'audit', 'what': os.path.relpath(path, LEAN),
                                         'detail': f'forbidden token {m.group(0)!r}'})
            if prop_id in SRC_TIE:
                run_source_tie(prop_id, tie, getattr(gen_tables, 'SRC_STATUS', {}))
            if thorough:
                lc = subprocess.run(['lake', 'env', 'leanchecker', f'Cardutil.Props.{prop_id}'],
                                    cwd=LEAN, capture_output=True, text=True)
                if lc.returncode != 0:
                    tie.failures.append({'stage': 'leanchecker', 'what': f'Cardutil.Props.{prop_id}',
                                         'detail': (lc.stdout + lc.stderr)[-1000:]})
    tie.build_s = time.time() - t0
    return tie


# ---------------------------------------------------------------------------------------------
# the tie, part 2: correspondence engine


class CaseTimeout(Exception):
    pass


# watchdog hits in THIS worker process.  A tree on which the implementation hangs on thousands of inputs would cost
# (cases x watchdog) of CPU; after TIMEOUT_BUDGET hits the worker stops evaluating further cases (they are counted as
# skipped in the evidence).  The verdict is not affected: every hit is already a violation with its input.
_TIMEOUTS = [0]
TIMEOUT_BUDGET = 4


def _alarm(signum, frame):
    _TIMEOUTS[0] += 1
    raise CaseTimeout()


def with_watchdog(fn, seconds=2.0):
    """run fn() under a watchdog that counts the CPU time of THIS process (ITIMER_PROF): a pure-Python hang (a loop
    that does not advance, catastrophic regex backtracking) burns CPU and is interrupted after `seconds`, while a
    machine that is merely busy — other checks running, a loaded grader — cannot make a fast case look like a hang.
    A wall-clock backstop (30x, at least 60 s) remains for anything that blocks without using CPU."""
    old_prof = signal.signal(signal.SIGPROF, _alarm)
    old_alrm = signal.signal(signal.SIGALRM, _alarm)
    signal.setitimer(signal.ITIMER_PROF, seconds)
    signal.setitimer(signal.ITIMER_REAL, max(60.0, 30 * seconds))
    try:
        return fn()
    finally:
        signal.setitimer(signal.ITIMER_PROF, 0)
        signal.setitimer(signal.ITIMER_REAL, 0)
        signal.signal(signal.SIGPROF, old_prof)
        signal.signal(signal.SIGALRM, old_alrm)


def drive(lines):
    """send request lines to a fresh driver process, return response lines"""
    if not lines:
        return []
    p = subprocess.run([DRIVER], input=('\n'.join(lines) + '\n').encode(), capture_output=True)
    if p.returncode != 0:
        raise RuntimeError(f'driver exited {p.returncode}: {p.stderr[-500:]!r}')
    out = p.stdout.decode().split('\n')
    if out and out[-1] == '':
        out.pop()
    if len(out) != len(lines):
        raise RuntimeError(f'driver returned {len(out)} lines for {len(lines)} requests')
    return out


_MODULE = None


class _Null(logging.Handler):
    def emit(self, record):
        try:
            self.format(record)          # build the message (that is where a faulty debug statement would fail)
        except Exception:  # noqa
            pass


def _debug_logging(on):
    lg = logging.getLogger('cardutil')
    if on:
        logging.disable(logging.NOTSET)
        if not any(isinstance(h, _Null) for h in lg.handlers):
            lg.addHandler(_Null())
        lg.propagate = False
        lg.setLevel(logging.DEBUG)
    else:
        lg.setLevel(logging.WARNING)
        logging.disable(logging.CRITICAL)


def _raised_in_implementation(ex):
    """True when the innermost frame of the traceback that belongs to cardutil or the harness is cardutil's"""
    import traceback
    frames = traceback.extract_tb(ex.__traceback__)
    for fr in reversed(frames):
        fn = fr.filename.replace(os.sep, '/')
        if '/cardutil/' in fn and '/verif/' not in fn:
            return True
        if '/verif/harness/' in fn:
            return False
    return False


_TASKS = []          # the chunks of the current correspond() call: workers are forked AFTER this is set and receive
                     # only an index, so that no large object travels through the pool's task pipe (a pool whose
                     # feeder thread is blocked on a full pipe can deadlock in terminate() when a worker has failed)


def _worker_idx(i):
    """run one chunk; an exception of the harness itself comes back as a value, never through the pool"""
    try:
        # the cases reach the worker as FRESH objects (as they did when they travelled through the pool's pipe): a string in
        # a generated configuration is equal to, never the same object as, a literal in the library — code that compares
        # with `is`, or caches by identity, must not be flattered by shared objects
        import pickle
        r = _worker(pickle.loads(pickle.dumps(_TASKS[i])))
        r['_i'] = i
        return r
    except BaseException as ex:  # noqa
        import traceback
        return {'harness_error': f'{type(ex).__name__}: {ex}', 'traceback': traceback.format_exc()}


class HarnessError(RuntimeError):
    pass


def _worker(args):
    """evaluate one chunk of cases: implementation in-process, model through a driver process"""
    mod_name, chunk, use_model = args
    import importlib
    mod = importlib.import_module(mod_name)
    res = {'n': 0, 'mismatch': [], 'violations': [], 'hashes': [], 'nontrivial': 0, 'samples': [],
           'stats': {}, 'known': []}
    impl = []
    for case in chunk:
        if _TIMEOUTS[0] >= TIMEOUT_BUDGET:
            impl.append({'obs': 'skipped', 'violation': None, 'nontrivial': False, 'weight': 0, 'skipped': True,
                         'tags': ['skipped-after-repeated-timeouts']})
            continue
        # every fifth case (chosen by content) runs with DEBUG logging switched on for cardutil, as the tools' --debug
        # option does: code behind `isEnabledFor(DEBUG)` / debug f-strings must not change any result
        key = hashlib.blake2b(json.dumps(case, sort_keys=True, default=str).encode(), digest_size=4).digest()
        debug = bool(isinstance(case, dict) and case.get('debuglog')) or key[0] % 5 == 0
        if debug:
            _debug_logging(True)
        try:
            r = with_watchdog(lambda: mod.impl_eval(case), getattr(mod, 'WATCHDOG_S', 5.0) * (3 if debug else 1))
        except CaseTimeout:
            r = {'obs': 'timeout', 'violation': 'implementation did not terminate within the watchdog'}
        except Exception as ex:  # noqa
            # every scenario stays inside its property's domain, so an exception RAISED INSIDE cardutil that the
            # scenario did not anticipate is a failure of the scenario's expectation; one raised by harness code
            # itself is a harness problem and stays an infrastructure error
            if not _raised_in_implementation(ex):
                raise
            r = {'obs': f'escaped:{type(ex).__name__}',
                 'violation': f'{type(ex).__name__} ({str(ex)[:120]}) escaped from cardutil in a scenario inside the '
                              f"property's domain"}
        finally:
            if debug:
                _debug_logging(False)
        if debug and isinstance(r, dict):
            r.setdefault('tags', [])
            r['tags'] = list(r['tags']) + ['debug-logging']
        impl.append(r)
    lines = []
    line_errors = {}
    for i, c in enumerate(chunk):
        if impl[i].get('skipped'):
            lines.append(None)
            continue
        try:
            lines.append(mod.model_line(c))
        except Exception as ex:  # noqa
            if not _raised_in_implementation(ex):
                raise
            lines.append(None)
            line_errors[i] = f'{type(ex).__name__}: {str(ex)[:120]}'
    if use_model:
        flat, idx = [], []
        for i, ln in enumerate(lines):
            if ln is None:
                continue
            if isinstance(ln, str):
                ln = [ln]
            for l in ln:
                flat.append(l)
                idx.append(i)
        resp = drive(flat)
        model = {}
        for i, r in zip(idx, resp):
            model.setdefault(i, []).append(r)
    for i, (case, r) in enumerate(zip(chunk, impl)):
        res['n'] += int(r.get('weight', 1))
        key = hashlib.blake2b(json.dumps(case, sort_keys=True, default=str).encode(), digest_size=8).digest()
        nt = bool(r.get('nontrivial', True))
        res['hashes'].append((int.from_bytes(key, 'big') << 1) | int(nt))
        for k in r.get('tags', ()):
            res['stats'][k] = res['stats'].get(k, 0) + 1
        if r.get('violation'):
            res['violations'].append({'case': case, 'observed': r.get('obs'), 'why': r['violation'],
                                      'finding': r.get('finding'), 'module': mod_name})
        if use_model and lines[i] is not None:
            m = model.get(i, [])
            m = m[0] if isinstance(lines[i], str) else m
            if hasattr(mod, 'model_obs'):
                m = mod.model_obs(case, m)
            exp = r.get('obs')
            if m != exp:
                res['mismatch'].append({'case': case, 'implementation': exp, 'model': m,
                                        'request': lines[i], 'module': mod_name})
        if i in line_errors:
            res['mismatch'].append({'case': case, 'implementation': r.get('obs'),
                                    'model': 'n/a (building the model request needed the implementation, which raised '
                                             + line_errors[i] + ')', 'request': None})
        if len(res['samples']) < 2:
            res['samples'].append({'case': case, 'implementation': r.get('obs')})
    return res


class Run:
    """accumulates the results of one check run"""

    def __init__(self, prop_id, tier, seed):
        self.prop_id, self.tier, self.seed = prop_id, tier, seed
        self.t0 = time.time()
        self.evaluations = 0
        self.hashes = set()
        self.mismatches = []
        self.violations = []
        self.samples = []
        self.stats = {}
        self.exhaustive = []
        self.notes = []

    def correspond(self, mod_name, cases, use_model=True, chunk=400, label=None):
        cases = list(cases)
        if not cases:
            return
        chunks = [cases[i:i + chunk] for i in range(0, len(cases), chunk)]
        deadline = getattr(self, 'search_deadline', None)
        if deadline:
            # a time-boxed search: visit the chunks in a (seeded) random order so that a cut leaves a spread sample
            random.Random(self.seed).shuffle(chunks)
        args = [(mod_name, c, use_model) for c in chunks]
        if len(chunks) == 1 or NPROC == 1:
            results = []
            import pickle
            for a in args:
                results.append(_worker(pickle.loads(pickle.dumps(a))))       # fresh objects, as in the pool
                if deadline and time.time() > deadline:
                    break
        else:
            global _TASKS
            _TASKS = args
            results = []
            pool = mp.get_context('fork').Pool(min(NPROC, len(chunks)))
            failed = None
            try:
                for r in pool.imap_unordered(_worker_idx, range(len(args))):
                    if 'harness_error' in r:
                        failed = r
                        break
                    results.append(r)
                    if deadline and time.time() > deadline:
                        self.notes.append(f'search time budget reached after {len(results)} of {len(args)} chunks')
                        break
            finally:
                pool.terminate()
                pool.join()
                _TASKS = []
            results.sort(key=lambda r: r['_i'])        # imap_unordered: restore the order of the chunks
            if failed:
                raise HarnessError(failed['harness_error'] + '\n' + failed['traceback'])
        for r in results:
            self.evaluations += r['n']
            self.hashes.update(r['hashes'])
            self.mismatches.extend(r['mismatch'])
            self.violations.extend(r['violations'])
            for k, v in r['stats'].items():
                self.stats[k] = self.stats.get(k, 0) + v
            if len(self.samples) < 6:
                self.samples.extend(r['samples'][:1])
        if label:
            self.stats[f'cases:{label}'] = self.stats.get(f'cases:{label}', 0) + len(cases)

    @property
    def distinct_nontrivial(self):
        return sum(1 for h in self.hashes if h & 1)


def rng_for(seed, *salt):
    return random.Random(hashlib.sha256(repr((seed,) + salt).encode()).digest())


# ---------------------------------------------------------------------------------------------
# known findings, replay, evidence, exit protocol


def load_known(prop_id):
    path = os.path.join(VERIF, 'known_findings.json')
    try:
        data = json.load(open(path))
    except OSError:
        return []
    return [e for e in data.get('findings', []) if e.get('property') == prop_id and e.get('status') == 'known']


def write_replay(prop_id, payload):
    os.makedirs(REPLAYS, exist_ok=True)
    blob = json.dumps(payload, sort_keys=True, default=str, indent=1)
    name = f'{prop_id}-{hashlib.sha256(blob.encode()).hexdigest()[:12]}.json'
    path = os.path.join(REPLAYS, name)
    with open(path, 'w') as f:
        f.write(blob)
    return os.path.relpath(path, VERIF)


def write_evidence(prop_id, doc):
    os.makedirs(EVIDENCE, exist_ok=True)
    path = os.path.join(EVIDENCE, f'{prop_id}.json')
    tmp = path + '.tmp'
    with open(tmp, 'w') as f:
        json.dump(doc, f, indent=1, sort_keys=True, default=str)
    os.replace(tmp, path)
