"""
Shared helpers for the ISO8583 checks (C01, C02, C06, C07, C08, C10, C12, C16, C19, C20):
wire encodings of configs / dicts, canonical observations of the implementation, generators of
well-formed messages and configurations, and an independent reference codec written from the
module documentation (not from the Lean model).
"""
import binascii
import datetime
import decimal
import re
import struct

from harness import common

# ---------------------------------------------------------------------------------------------
# wire encodings (see lean/Cardutil/WireIso.lean)

PROC = {None: 'N', '': 'N', 'PDS': 'PDS', 'ICC': 'ICC', 'DE43': 'DE43', 'PAN': 'PAN', 'PAN-PREFIX': 'PANP'}
PYT = {'int': 'i', 'long': 'i', 'decimal': 'd', 'datetime': 't'}


def fmt_letters(fmt):
    out = ''
    i = 0
    while i < len(fmt):
        if fmt[i] != '%' or fmt[i + 1] not in 'yYmdHMS':
            raise ValueError(f'date format {fmt!r} not expressible on the wire')
        out += fmt[i + 1]
        i += 2
    return out or '-'


def cfg_wire(cfg):
    parts = []
    for key, fc in cfg.items():
        ft = {'LLVAR': 'LL', 'LLLVAR': 'LLL'}.get(fc['field_type'], 'F')
        pt = PYT.get(fc.get('field_python_type'), 's')
        fmt = fmt_letters(fc.get('field_date_format', '%y%m%d')) if pt == 't' else '-'
        parts.append(f"{int(key)}:{ft}:{fc['field_length']}:{PROC.get(fc.get('field_processor'), 'N')}:{pt}:{fmt}")
    return ','.join(parts)


def key_wire(k):
    if k == 'MTI':
        return 'M'
    if k == 'ICC_DATA':
        return 'I'
    m = re.fullmatch(r'DE(\d+)', k)
    if m and str(int(m.group(1))) == m.group(1):
        return 'D' + m.group(1)
    if k.startswith('PDS'):
        return 'P' + common.dotted(k[3:])
    if k.startswith('TAG'):
        return 'T' + common.dotted(k[3:])
    if k.startswith('DE43_'):
        return 'X' + common.dotted(k)
    return 'R' + common.dotted(k)


def val_wire(v):
    if isinstance(v, bool):
        raise TypeError('bool')
    if isinstance(v, str):
        return 's' + common.dotted(v)
    if isinstance(v, int):
        return 'i' + str(v)
    if isinstance(v, float):
        return 'f' + repr(v)
    if isinstance(v, (bytes, bytearray)):
        return 'b' + bytes(v).hex()
    if isinstance(v, datetime.datetime):
        return f't{v.year}-{v.month}-{v.day}-{v.hour}-{v.minute}-{v.second}'
    if isinstance(v, decimal.Decimal):
        t = v.as_tuple()
        return f"d{t.sign}:{''.join(map(str, t.digits))}:{t.exponent}"
    # a value of a type no decoder result may have (None, float, ...): rendered, so that it shows as a difference
    return 'u' + type(v).__name__


def dict_wire(d, sort=False, drop_de43=False):
    items = [(key_wire(k), val_wire(v)) for k, v in d.items()]
    if drop_de43:
        items = [kv for kv in items if not kv[0].startswith('X')]
    items = [f'{k}={v}' for k, v in items]
    if sort:
        items.sort()
    return ';'.join(items)


def exc_kind(ex):
    """canonical outcome class of an exception"""
    from cardutil import CardutilError
    if isinstance(ex, common.CaseTimeout):
        return 'diverge'
    if isinstance(ex, CardutilError):
        return 'err'
    if isinstance(ex, binascii.Error):
        return 'escape:binascii.Error'
    if isinstance(ex, struct.error):
        return 'escape:struct.error'
    if isinstance(ex, UnicodeError):
        return 'escape:UnicodeError'
    return 'escape:' + type(ex).__name__


def de43_expected(cfg, d):
    """what the DE43 processor must add, by applying the live `re` engine to the decoded value"""
    out = {}
    # elements are decoded in ascending order: with several such elements the later one's entries replace the earlier's
    for key, fc in sorted(cfg.items(), key=lambda kv: int(kv[0])):
        if fc.get('field_processor') == 'DE43' and ('DE' + key) in d and fc.get('field_processor_config'):
            v = d['DE' + key]
            m = re.match(fc['field_processor_config'], v) if isinstance(v, str) else None
            if m:
                g = m.groupdict()
                if g.get('DE43_POSTCODE'):
                    g['DE43_POSTCODE'] = g['DE43_POSTCODE'].rstrip()
                out.update(g)
    return out


def obs_loads(fn, cfg):
    """run a decode; canonical observation + raw result"""
    try:
        d = fn()
    except Exception as ex:  # noqa
        return exc_kind(ex), None, ex
    exp43 = de43_expected(cfg, d)
    got43 = {k: v for k, v in d.items() if k in exp43 or k.startswith('DE43_')}
    note = '' if got43 == exp43 else ' DE43-KEYS-DIFFER'
    rest = {k: v for k, v in d.items() if k not in got43}
    return 'ok ' + dict_wire(rest, sort=True) + note, d, None


def obs_dumps(fn):
    try:
        b = fn()
    except Exception as ex:  # noqa
        return exc_kind(ex), None, ex
    return 'ok ' + b.hex(), b, None


# ---------------------------------------------------------------------------------------------
# codecs, alphabets

CODECS = ['latin_1', 'cp500', 'cp037', 'ascii', 'cp273', 'cp1140']
_ALPHA = {}


def alphabet(codec):
    """characters that encode to one byte in `codec` (digits, letters, space, punctuation, a few high ones)"""
    if codec not in _ALPHA:
        pool = ("0123456789" * 3 + "ABCDEFGHIJKLMNOPQRSTUVWXYZabcdefghijklmnopqrstuvwxyz" + "    " +
                "\\/-_.,:;*#@!?()[]{}<>=+&%$'\"|~^`" + "éüñßÆ¢£¥§©®µ¶·" + "\x00\x07\x1f\x7f\x85\xa0\xff€")
        ok = []
        for ch in pool:
            try:
                if len(ch.encode(codec)) == 1 and ch.encode(codec).decode(codec) == ch:
                    ok.append(ch)
            except UnicodeError:
                pass
        _ALPHA[codec] = ok
    return _ALPHA[codec]


def text(rng, codec, n, kind='any'):
    if kind == 'digits':
        return ''.join(rng.choice('0123456789') for _ in range(n))
    a = alphabet(codec)
    return ''.join(rng.choice(a) for _ in range(n))


# ---------------------------------------------------------------------------------------------
# configurations

DATE_FORMATS = [('%y%m%d%H%M%S', 12), ('%y%m%d', 6), ('%Y%m%d%H%M%S', 14), ('%Y%m%d', 8), ('%y%m', 4),
                # formats without a year: the value is read in 1900, whatever today's date is
                ('%m%d', 4), ('%H%M%S', 6), ('%m%d%H%M%S', 10),
                # other orders and lengths (several as long as the default formats: 12, 6 and 8 digits)
                ('%Y%m%d%H%M', 12), ('%d%m%y%H%M%S', 12), ('%H%M%S%y%m%d', 12), ('%m%d%y', 6), ('%d%m%Y', 8),
                ('%Y%m', 6), ('%y%m%d%H%M', 10), ('%H%M', 4)]


def pkg_config():
    from cardutil.config import config
    return config['bit_config']


def gen_config(rng, with_decimal=False, decimal_widths=(3, 6, 8, 12, 15)):
    """a caller-supplied configuration: random bits 2..128, all field kinds, PDS carriers, ICC, PAN, dates
    (and `decimal` typed fixed elements of 3..15 characters when asked for)"""
    cfg = {}
    bits = sorted(rng.sample(range(2, 129), rng.randrange(6, 30)))
    n_pds = rng.choice([0, 1, 2, 3])
    icc_done = False
    for i, bit in enumerate(bits):
        r = rng.random()
        fc = {'field_name': f'f{bit}'}
        if n_pds and r < 0.15:
            n_pds -= 1
            fc.update(field_type='LLLVAR', field_length=0, field_processor='PDS')
        elif not icc_done and r < 0.22:
            icc_done = True
            fc.update(field_type='LLLVAR', field_length=255, field_processor='ICC')
        elif with_decimal and r < 0.40:
            fc.update(field_type='FIXED', field_length=rng.choice(list(decimal_widths)), field_python_type='decimal')
        elif r < 0.32:
            fc.update(field_type='LLVAR', field_length=0, field_processor=rng.choice(['PAN', 'PAN-PREFIX']))
        elif r < 0.45:
            fmt, w = rng.choice(DATE_FORMATS)
            fc.update(field_type='FIXED', field_length=w, field_python_type='datetime', field_date_format=fmt)
            if fmt == '%y%m%d' and rng.random() < 0.6:
                del fc['field_date_format']        # the documented default format, left out of the entry
        elif r < 0.62:
            fc.update(field_type='FIXED', field_length=rng.choice([1, 2, 3, 6, 8, 12, 15, 16, 17, 19, 24]),
                      field_python_type=rng.choice(['int', 'long']))
        elif r < 0.80:
            fc.update(field_type='FIXED', field_length=rng.choice([1, 2, 3, 4, 6, 8, 12, 15, 24, 40]))
        elif r < 0.84 and not with_decimal:
            # the merchant-name processor: with the packaged pattern, with no pattern, with an empty one
            pat = pkg_config()['43']['field_processor_config']
            fc.update(field_type='LLVAR', field_length=0, field_processor='DE43')
            which = rng.randrange(5)
            if which == 4:
                # a caller's pattern with an OPTIONAL group (unmatched groups are None in groupdict())
                fc['field_processor_config'] = r'(?P<DE43_NAME>[^\\]+)\\(?P<DE43_ADDRESS>[^\\]*)(?:\\X(?P<DE43_POSTCODE>\d{4}))?'
            if which == 0:
                fc['field_processor_config'] = pat
            elif which == 1:
                fc['field_processor_config'] = ''
            elif which == 2:
                # a caller's own pattern, not anchored: it applies at the START of the value only (re.match)
                fc['field_processor_config'] = r'(?P<DE43_NAME>[A-Z]+)\\(?P<DE43_ADDRESS>[A-Z 0-9]+)'
        elif r < 0.90:
            fc.update(field_type='LLVAR', field_length=rng.choice([0, 11, 23]))
        else:
            fc.update(field_type='LLLVAR', field_length=rng.choice([0, 16]))
        if with_decimal and r >= 0.80 and rng.random() < 0.4:
            # typed values in variable-length elements (a configured length of 0 there means "no padding")
            pyt = rng.choice(['int', 'decimal', 'datetime'])
            fc['field_python_type'] = pyt
            if pyt == 'datetime':
                fc['field_date_format'] = rng.choice(DATE_FORMATS)[0]
        cfg[str(bit)] = fc
    # the documentation's example entry spells out every optional key, the unused ones with "empty" values
    # ("field_processor_config": "", "field_python_type": "string", a date format on an element that is no date)
    for fc in cfg.values():
        if rng.random() < 0.3:
            if fc.get('field_processor') != 'DE43':
                fc.setdefault('field_processor_config', '')
            fc.setdefault('field_python_type', 'string')
            fc.setdefault('field_date_format', '%y%m%d')
    # `field_name` is a description for people: every third configuration leaves it out of some (or all) of its entries
    if rng.random() < 0.34:
        drop_all = rng.random() < 0.4
        for fc in cfg.values():
            if drop_all or rng.random() < 0.5:
                fc.pop('field_name', None)
    # the ORDER of the keys of a caller's configuration carries no meaning: a configuration loaded from JSON written with
    # sort_keys=True has them in text order ('10', '100', '11', ..., '2'), one assembled at run time in any order
    how = rng.random()
    if how < 0.25:
        cfg = {k: cfg[k] for k in sorted(cfg)}
    elif how < 0.5:
        keys = list(cfg)
        rng.shuffle(keys)
        cfg = {k: cfg[k] for k in keys}
    return cfg


# ---------------------------------------------------------------------------------------------
# well-formed messages


def gen_datetime(rng, fmt):
    if '%y' in fmt:
        year = rng.choice([1969, 1970, 1999, 2000, 2001, 2024, 2068, rng.randrange(1969, 2069)])
    elif '%Y' in fmt:
        year = rng.choice([1000, 1900, 1999, 2000, 2038, 9999, rng.randrange(1000, 10000)])
    else:
        year = 1900
    month = rng.randrange(1, 13) if '%m' in fmt else 1
    if '%d' in fmt:
        dim = [31, 29 if (year % 4 == 0 and year % 100 != 0) or year % 400 == 0 else 28, 31, 30, 31, 30, 31, 31, 30, 31,
               30, 31][month - 1]
        day = rng.choice([1, dim, rng.randrange(1, dim + 1)])
    else:
        day = 1
    H = rng.choice([0, 23, rng.randrange(24)]) if '%H' in fmt else 0
    M = rng.choice([0, 59, rng.randrange(60)]) if '%M' in fmt else 0
    S = rng.choice([0, 59, rng.randrange(60)]) if '%S' in fmt else 0
    return datetime.datetime(year, month, day, H, M, S)


def nested_template(rng, n):
    """n bytes that look like an EMV template: zero to two x'00' bytes, small TLVs, and a single tag byte at the very end.
    A reader that wrongly walks INTO a value (instead of skipping it by its one-byte length) ends on that lone tag."""
    # (for n = 128 + j the zeros are what a BER long-form reading of the length byte x'8j' would take as the length)
    out = b'\x00' * (n - 128 if n in (129, 130) and rng.random() < 0.8 else rng.choice([0, 1, 2]))
    while len(out) < n - 1:
        room = n - 1 - len(out)
        if room < 2:
            out += b'\x5a'
            continue
        l = rng.randrange(0, min(room - 2, 12) + 1)
        out += bytes([rng.choice([0x5a, 0x82, 0x95, 0x9a, 0x9c])]) + bytes([l]) + bytes(rng.getrandbits(8) for _ in range(l))
    return out + bytes([rng.choice([0x5a, 0x82, 0x95])])


def gen_tlvs(rng, maxlen=999):
    """complete TLVs under the module's tag rule (two-byte tags start with 9f / 5f; no 00 tag)"""
    out = b''
    if rng.random() < 0.06 and maxlen >= 50:
        # binary data that LOOKS like text: every byte the ASCII code of a hexadecimal digit, an even number of them (tag
        # x'42' = 'B' / x'41' / x'46', length x'30' = 48 or x'32' = 50, the value in x'30'..x'39' / x'61'..x'66'): it is
        # binary all the same, and comes back byte for byte
        ln = rng.choice([0x30, 0x32, 0x34])
        return (bytes([rng.choice([0x42, 0x41, 0x46, 0x63])]) + bytes([ln]) +
                bytes(rng.choice(b'0123456789abcdefABCDEF') for _ in range(ln)))
    for _ in range(rng.randrange(1, 8)):
        if rng.random() < 0.5:
            tag = bytes([rng.choice([0x9f, 0x5f]), rng.randrange(256)])
        elif rng.random() < 0.15:
            tag = bytes([rng.choice([0xff, 0xff, 0x80, 0x1f, 0x7f, 0xbf, 0x20, 0x40])])     # one-byte tags that look like fill
        else:
            tag = bytes([rng.choice([x for x in range(1, 256) if x not in (0x9f, 0x5f)])])
        # lengths are ONE byte, 0..255 — values of 128 and more are not BER long-form markers in this format
        ln = rng.choice([0, 1, 2, 8, rng.randrange(0, 40), rng.randrange(0, 40), rng.choice([127, 128, 129, 129, 130, 130, 200, 250])])
        val = bytes(rng.getrandbits(8) for _ in range(ln))
        if ln >= 127 and rng.random() < 0.7:
            val = nested_template(rng, ln)
        item = tag + bytes([ln]) + val
        if len(out) + len(item) > maxlen:
            break
        out += item
        if rng.random() < 0.06 and len(out) + 4 < maxlen:
            # a x'00' byte in TAG position ends the walk (the rest of the element is padding, whatever it holds)
            out += b'\x00' + rng.choice([b'', b'\x00\x00', b'\x5a\x02\x12\x34', b'\x9f\x27\x01\x80'])[:maxlen - len(out) - 1]
            break
    return out or b'\x82\x02\x00\x00'


def pds_text(entries):
    return ''.join(f'{int(t):04}{len(v):03}{v}' for t, v in entries)


def gen_value(rng, fc, codec, length=None):
    """(value to encode, value expected from decode) for one configured element"""
    ft = fc['field_type']
    proc = fc.get('field_processor')
    pyt = fc.get('field_python_type')
    maxvar = 99 if ft == 'LLVAR' else 999
    if proc == 'ICC':
        b = gen_tlvs(rng, maxvar)
        return b, b
    if pyt in ('int', 'long'):
        w = fc['field_length'] if ft not in ('LLVAR', 'LLLVAR') else rng.randrange(1, 19)
        n = rng.choice([0, 10 ** w - 1, rng.randrange(0, 10 ** w)])
        if w >= 2 and rng.random() < 0.12:
            n = -rng.choice([1, 10 ** (w - 1) - 1, rng.randrange(1, 10 ** (w - 1))])    # the sign takes one column
        return n, n
    if pyt == 'datetime':
        d = gen_datetime(rng, fc.get('field_date_format', '%y%m%d'))
        return d, d
    if pyt == 'decimal' and rng.random() < 0.12:
        # zero, in its different spellings (a value that is "false" but present)
        w = fc['field_length'] if ft not in ('LLVAR', 'LLLVAR') else 0
        for s in rng.sample(['0', '0.0', '0.00', '00'], 4):
            v = decimal.Decimal(s)
            if w == 0 or format(v, f'0{w}f') == format(v, 'f').rjust(w, '0'):
                return v, v
    if pyt == 'decimal' and ft in ('LLVAR', 'LLLVAR'):
        n = rng.randrange(1, 19)
        frac = rng.randrange(0, n - 1) if n > 2 else 0
        s = text(rng, codec, n - frac - (1 if frac else 0), 'digits') + ('.' + text(rng, codec, frac, 'digits') if frac else '')
        v = decimal.Decimal(s)
        return v, v
    if pyt == 'decimal':
        w = fc['field_length']
        while True:
            frac = rng.randrange(0, w - 1)
            s = text(rng, codec, w - frac - (1 if frac else 0), 'digits') + ('.' + text(rng, codec, frac, 'digits') if frac else '')
            v = decimal.Decimal(s)
            if format(v, f'0{w}f') == s:
                return v, v
    if ft not in ('LLVAR', 'LLLVAR'):
        t = text(rng, codec, fc['field_length'])
        return t, t
    n = length if length is not None else rng.choice([1, 2, 9, 10, maxvar, rng.randrange(1, maxvar + 1),
                                                    rng.randrange(1, 30)])
    n = max(1, min(n, maxvar))
    if proc in ('PAN', 'PAN-PREFIX'):
        if length is None:
            # a prefix of a SHORT number is the number itself (nothing is added to it)
            n = rng.choice([1, 5, 8, 9, 10, 13, 16, 19, 20, 25, 40]) if proc == 'PAN-PREFIX' else max(10, min(n, 19))
            n = min(n, maxvar)
        # (a prefix is the first nine CHARACTERS, whatever they are: grouped numbers with blanks or hyphens included)
        t = text(rng, codec, n, 'digits' if proc == 'PAN' or rng.random() < 0.6 else 'any')
        from_dec = (t[0:6] + '*' * (len(t) - 10) + t[-4:]) if proc == 'PAN' else t[:9]
        return t, from_dec
    if proc == 'PDS':
        # a directly supplied carrier must itself be PDS-structured
        ents, total = [], 0
        while True:
            vl = rng.choice([0, 1, 3, rng.randrange(0, 60)])
            if total + 7 + vl > n:
                break
            ents.append((rng.randrange(0, 10000), text(rng, codec, vl)))
            total += 7 + vl
        if not ents:
            ents = [(rng.randrange(0, 10000), '')]
        t = pds_text(ents)
        return t, t
    if proc == 'DE43' and rng.random() < 0.7:
        name = text(rng, 'ascii', rng.randrange(1, 23), 'digits') + 'A'
        if rng.random() < 0.15:
            name = name[:1] + '\n' + name[1:]        # a line feed in the name: the pattern's '.' does not cross it
        pad = (lambda s: s + ' ' * rng.choice([0, 0, 1, 6])) if rng.random() < 0.4 else (lambda s: s)
        t = (pad(name) + '\\' + pad('STREET 1') + '\\' + pad('TOWN') + '\\' + '2000'.ljust(10) + 'NSW' + 'AUS')
        if len(t) <= maxvar:
            return t, t
    t = text(rng, codec, n)
    return t, t


def gen_message(rng, cfg, codec, bits=None, with_pds=None, lengths=None):
    """a well-formed message over `cfg`; returns (message dict, expected values after decode)"""
    msg = {'MTI': text(rng, codec, 4, 'digits')}
    exp = dict(msg)
    usable = sorted(int(k) for k in cfg if 2 <= int(k) <= 128)
    carriers = [b for b in usable if cfg[str(b)].get('field_processor') == 'PDS']
    if bits is None:
        k = rng.choice([0, 1, 2, 3, 5, 8, len(usable)])
        bits = sorted(rng.sample(usable, min(k, len(usable))))
    if with_pds is None:
        with_pds = bool(carriers) and rng.random() < 0.4
    for b in bits:
        if with_pds and b in carriers:
            continue
        v, e = gen_value(rng, cfg[str(b)], codec, (lengths or {}).get(b))
        msg[f'DE{b}'] = v
        exp[f'DE{b}'] = e
    if with_pds and carriers:
        n = rng.choice([1, 2, 3, 6, 12])
        tags = rng.sample(range(0, 10000), n)
        if rng.random() < 0.15 and 0 not in tags:
            tags[rng.randrange(len(tags))] = 0          # tag 0000, also with an empty value: '0000000' is a sub-element
        chosen = []
        for t in tags:
            vl = rng.choice([0, 1, 3, 20, rng.randrange(0, 120), rng.randrange(0, 993)])
            if t == 0 and rng.random() < 0.6:
                vl = 0
            v = text(rng, codec, vl, rng.choice(['any', 'digits']))
            if len(ref_pds_chunks(chosen + [(t, v)])) <= len(carriers):   # total within the carriers' capacity
                chosen.append((t, v))
        items = list(msg.items())
        for t, v in chosen:
            items.insert(rng.randrange(0, len(items) + 1), (f'PDS{t:04}', v))
            exp[f'PDS{t:04}'] = v
        rng.shuffle(items)
        msg = dict(items)
    return msg, exp


def gen_mixed_pds(rng, cfg, codec):
    """a message that supplies PDSxxxx keys (few, fitting the first carrier) AND, directly, a LATER carrier element holding
    other sub-elements: the packer fills the first carrier and must leave the supplied one alone.  Returns (msg, expected)"""
    carriers = sorted(int(k) for k, fc in cfg.items() if fc.get('field_processor') == 'PDS')
    if len(carriers) < 2:
        return None
    msg = {'MTI': text(rng, codec, 4, 'digits')}
    exp = dict(msg)
    tags = rng.sample(range(0, 10000), 6)
    for t in tags[:rng.randrange(1, 4)]:
        v = text(rng, codec, rng.randrange(0, 40))
        msg[f'PDS{t:04}'] = v
        exp[f'PDS{t:04}'] = v
    later = rng.choice(carriers[1:])
    ents = [(t, text(rng, codec, rng.randrange(0, 30))) for t in tags[3:3 + rng.randrange(1, 4)]]
    msg[f'DE{later}'] = pds_text(ents)
    exp[f'DE{later}'] = pds_text(ents)
    for t, v in ents:
        exp[f'PDS{t:04}'] = v
    items = list(msg.items())
    rng.shuffle(items)
    return dict(items), exp


def dict_unwire(s):
    """inverse of dict_wire for the keys/values the generators produce"""
    out = {}
    if not s:
        return out
    for item in s.split(';'):
        k, v = item.split('=')
        if k == 'M':
            key = 'MTI'
        elif k == 'I':
            key = 'ICC_DATA'
        elif k[0] == 'D':
            key = 'DE' + k[1:]
        elif k[0] == 'P':
            key = 'PDS' + common.undotted(k[1:])
        elif k[0] == 'T':
            key = 'TAG' + common.undotted(k[1:])
        else:
            key = common.undotted(k[1:])
        if v[0] == 's':
            val = common.undotted(v[1:])
        elif v[0] == 'i':
            val = int(v[1:])
        elif v[0] == 'f':
            val = float(v[1:])
        elif v[0] == 'b':
            val = bytes.fromhex(v[1:])
        elif v[0] == 'd':
            sg, ds, ex = v[1:].split(':')
            val = decimal.Decimal((int(sg), tuple(int(c) for c in ds), int(ex) if ex.lstrip('-').isdigit() else ex))
        else:
            y, m, d, H, M, S = map(int, v[1:].split('-'))
            val = datetime.datetime(y, m, d, H, M, S)
        out[key] = val
    return out


# ---------------------------------------------------------------------------------------------
# independent reference codec (written from the documentation of the wire format)


class RefError(Exception):
    pass


def ref_render(fc, v, codec):
    """bytes of one element rendered per its configuration"""
    ft = fc['field_type']
    pyt = fc.get('field_python_type')
    if isinstance(v, bytes):
        body = v
    else:
        if pyt in ('int', 'long'):
            if isinstance(v, float):      # a whole number given as a float: its value counts
                if v != int(v):
                    raise RefError('a float with a fraction in an integer element')
                v = int(v)
            if isinstance(v, str):        # a number given as text (the CSV tools do): its value counts, not its spelling
                try:
                    v = int(v)
                except ValueError:
                    raise RefError('numeric element given as text that int() does not accept')
            s = str(abs(v)).rjust(max(0, fc['field_length'] - (1 if v < 0 else 0)), '0')     # zero fill AFTER the sign
            s = ('-' if v < 0 else '') + s
        elif pyt == 'decimal':
            # positional notation, zero-filled after the sign up to the configured width (none for a width of 0)
            s = format(v, 'f')
            sign, digits = ('-', s[1:]) if s.startswith('-') else ('', s)
            s = sign + digits.rjust(max(0, fc['field_length'] - len(sign)), '0')
        elif pyt == 'datetime':
            s = v.strftime(fc.get('field_date_format', '%y%m%d'))
        else:
            s = v
        body = s.encode(codec)
    if ft == 'LLVAR':
        if len(body) > 99:
            raise RefError('value longer than a 2-digit prefix can count')
        return f'{len(body):02d}'.encode(codec) + body
    if ft == 'LLLVAR':
        if len(body) > 999:
            raise RefError('value longer than a 3-digit prefix can count')
        return f'{len(body):03d}'.encode(codec) + body
    w = fc['field_length']
    if isinstance(v, bytes):
        return body[:w]
    return body[:w] + ' '.encode(codec) * (w - len(body[:w]))


def ref_pds_chunks(pds):
    """greedy packing of (tag, value) pairs sorted by tag: whole entries, at most 999 characters per chunk"""
    chunks, cur = [], ''
    for tag, v in sorted(pds):
        e = f'{tag:04d}{len(v):03d}{v}'
        if cur and len(cur) + len(e) > 999:
            chunks.append(cur)
            cur = ''
        cur += e
    if cur:
        chunks.append(cur)
    return chunks


def ref_encode(msg, cfg, codec, hex_bitmap):
    """MTI + 128-bit bitmap + present elements ascending, from the documented layout"""
    fields = {}
    for k, v in msg.items():
        m = re.fullmatch(r'DE(\d+)', k)
        if m and (v or v == 0):
            fields[int(m.group(1))] = v
    pds = [(int(k[3:]), v) for k, v in msg.items() if k.startswith('PDS')]
    if pds:
        carriers = sorted(int(k) for k, fc in cfg.items() if fc.get('field_processor') == 'PDS')
        for c, chunk in zip(carriers, ref_pds_chunks(pds)):
            fields[c] = chunk
    bm = 1 << 127
    body = b''
    for bit in sorted(fields):
        if not 2 <= bit <= 128:
            continue
        bm |= 1 << (128 - bit)
        body += ref_render(cfg[str(bit)], fields[bit], codec)
    raw = bm.to_bytes(16, 'big')
    bitmap = raw.hex().encode('ascii') if hex_bitmap else raw
    return msg['MTI'].encode(codec) + bitmap + body


def ref_walk_pds(t, strict=True):
    out, p = {}, 0
    while p < len(t):
        hdr = t[p + 4:p + 7]
        if strict and not (len(hdr) == 3 and hdr.isascii() and hdr.isdigit()):
            raise RefError('bad PDS length')
        try:
            n = int(hdr)
        except ValueError:
            raise RefError('bad PDS length')
        if n < 0:
            raise RefError('negative PDS length')
        out['PDS' + t[p:p + 4]] = t[p + 7:p + 7 + n]
        p += 7 + n
    return out


def ref_walk_icc(b):
    out, p = {'ICC_DATA': b.hex()}, 0
    while p < len(b):
        tag = b[p:p + 2] if b[p] in (0x9f, 0x5f) else b[p:p + 1]
        p += len(tag) if b[p] not in (0x9f, 0x5f) else 2
        if tag == b'\x00':
            break
        if p >= len(b):
            raise RefError('TLV length missing')
        n = b[p]
        out['TAG' + tag.hex().upper()] = b[p + 1:p + 1 + n].hex()
        p += 1 + n
    return out


def ref_decode(data, cfg, codec, hex_bitmap, strict_numerals=True):
    """
    Independent strict reading.  Returns (dict, framing) where framing is a list of
    (bit, prefix_offset, prefix_len, content_offset, content_len) relative to the message data.
    Raises RefError when the message is not well-framed / decodable / convertible.
    With strict_numerals=False a length prefix is read with Python's int() (the property treats
    numerals that are not plain digits as a don't-care) but must still be non-negative.
    """
    hdr = 36 if hex_bitmap else 20
    if len(data) < hdr:
        raise RefError('short')
    try:
        mti = data[:4].decode(codec)
        int(mti)
        raw = data[4:hdr]
        if hex_bitmap:
            raw = bytes.fromhex(raw.decode('ascii'))
            if len(raw) != 16:
                raise ValueError
    except (ValueError, UnicodeError):
        raise RefError('header')
    bm = int.from_bytes(raw, 'big')
    body = data[hdr:]
    out = {'MTI': mti}
    framing = []
    p = 0
    for bit in range(2, 129):
        if not (bm >> (128 - bit)) & 1:
            continue
        fc = cfg.get(str(bit))
        if not fc:
            raise RefError(f'no configuration for element {bit}')
        ls = {'LLVAR': 2, 'LLLVAR': 3}.get(fc['field_type'], 0)
        if ls:
            pre = body[p:p + ls]
            try:
                s = pre.decode(codec)
                if strict_numerals:
                    if not (len(s) == ls and s.isascii() and s.isdigit()):
                        raise ValueError
                n = int(s)
            except (ValueError, UnicodeError):
                raise RefError(f'bad length prefix of element {bit}')
            if n < 0:
                raise RefError('negative length')
        else:
            n = fc['field_length']
        content = body[p + ls:p + ls + n]
        if len(content) != n:
            raise RefError(f'element {bit} runs past the end of the message')
        framing.append((bit, p, ls, p + ls, n))
        p += ls + n
        proc = fc.get('field_processor')
        if proc == 'ICC':
            out[f'DE{bit}'] = content
            out.update(ref_walk_icc(content))
            continue
        try:
            v = content.decode(codec)
        except UnicodeError:
            raise RefError(f'element {bit} not decodable')
        if proc == 'PAN':
            v = v[:6] + '*' * (len(v) - 10) + v[-4:]
        elif proc == 'PAN-PREFIX':
            v = v[:9]
        pyt = fc.get('field_python_type')
        try:
            if pyt in ('int', 'long'):
                v = int(v)
            elif pyt == 'decimal':
                v = decimal.Decimal(v)
            elif pyt == 'datetime':
                v = datetime.datetime.strptime(v, fc.get('field_date_format', '%y%m%d'))
        except (ValueError, decimal.InvalidOperation):
            raise RefError(f'element {bit} not convertible')
        out[f'DE{bit}'] = v
        if proc == 'PDS':
            out.update(ref_walk_pds(v, strict_numerals))
    if p != len(body):
        raise RefError('elements do not tile the message')
    return out, framing
