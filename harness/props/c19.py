"""C19 — encoding/format conversion tools preserve every record and are reversible."""
import io
import os
import tempfile

from harness import common, isoutil as iu
from harness.props import c06, c07
from harness.props.vbsutil import read_all, render_end

PROP = 'C19'
RULE = ("writer-produced IPM files (PDS via PDSxxxx keys, directly supplied carriers in canonical AND non-canonical tag "
        "order, ICC data, typed fields, random element subsets) and arbitrary-byte parameter files (also records with x'40' / x'00' runs covering whole blocks; ICC values of 127..250 bytes shaped like nested templates) x ordered pairs of "
        "{latin_1, cp500, cp037} x {vbs,1014}^2 through mci_ipm_encode, mideu convert (real files), mci_ipm_param_encode and "
        "paramconv: records of the output decoded under B must equal the input's decoded under A (count, order, ICC bytes), "
        "and converting back must reproduce the original file byte for byte. Non-trivial = A != B or the formats differ; "
        "distinct = distinct (tool, file, pair, formats)")
TRUSTED = ["Model/Cli.lean models the function entry points of the four tools over the reader/writer/codec models; open(), "
           "argparse and file naming are exercised, not modelled"]
ASSUMPTIONS = ["latin_1, cp500 and cp037 are bijections of 0..255 (generated tables)"]

PAIR_NAMES = {'latin_1': 'latin_1', 'cp500': 'cp500', 'cp037': 'cp037'}


def canon(data, blocked):
    return c06.canon_file(data, blocked)


def run_tool(case, data, a, b, in_b, out_b):
    """one conversion through the tool named in the case"""
    tool = case['tool']
    # strings as a command line delivers them: built at run time, equal to but not identical with any literal in the code
    fmt = lambda x: ''.join(['10', '14']) if x else ''.join(['v', 'bs'])   # noqa: E731
    a, b = ''.join(list(a)), ''.join(list(b))
    if tool == 'encode':
        from cardutil.cli import mci_ipm_encode
        out = io.BytesIO()
        out.close = lambda: None
        mci_ipm_encode.mci_ipm_encode(io.BytesIO(data), out_file=out, in_encoding=a, out_encoding=b,
                                      in_format=fmt(in_b), out_format=fmt(out_b))
        return out.getvalue()
    if tool == 'param':
        from cardutil.cli import mci_ipm_param_encode
        out = io.BytesIO()
        mci_ipm_param_encode.mci_ipm_param_encode(io.BytesIO(data), out, in_encoding=a, out_encoding=b,
                                                  in_format=fmt(in_b), out_format=fmt(out_b))
        return out.getvalue()
    d = tempfile.mkdtemp(prefix='verif_c19_')
    path = os.path.join(d, case.get('fname', 'in.bin'))
    try:
        open(path, 'wb').write(data)
        import contextlib
        with contextlib.redirect_stdout(io.StringIO()):
            if tool in ('param-cli-default', 'encode-cli-default'):
                # no output name given: the tool picks one; it must be a NEW file (the input stays what it was)
                before = set(os.listdir(d))
                if tool == 'param-cli-default':
                    from cardutil.cli import mci_ipm_param_encode as mod
                else:
                    from cardutil.cli import mci_ipm_encode as mod
                rc = mod.cli_run(in_filename=path, in_encoding=a, out_encoding=b, in_format=fmt(in_b), out_format=fmt(out_b))
                new = sorted(set(os.listdir(d)) - before)
                if rc == -1:
                    raise RuntimeError('tool returned -1')
                if len(new) != 1 or open(path, 'rb').read() != data:
                    raise RuntimeError(f'default output name: new files {new}, input file intact: '
                                       f'{open(path, "rb").read() == data}')
                return open(os.path.join(d, new[0]), 'rb').read()
            if tool == 'mideu':
                from cardutil.cli import mideu
                rc = mideu.cli_run(func=mideu.convert, input=path, sourceformat='ebcdic' if a == 'cp500' else 'ascii',
                                   no1014blocking=not in_b)
                outp = path + '.out'
            elif tool == 'paramconv':
                from cardutil.cli import paramconv
                rc = paramconv.cli_run(input=path, output=path + '.out',
                                       sourceformat='ebcdic' if a == 'cp500' else 'ascii', no1014blocking=not in_b)
                outp = path + '.out'
            elif tool in ('encode-argv', 'param-argv'):
                # the REAL command line: the tool's own argument parser turns the words into options (with its defaults)
                # and hands them to cli_run; both ways of asking for an unblocked file: the format options, and the older
                # --no1014blocking switch (when both sides are unblocked)
                from cardutil.cli import mci_ipm_encode, mci_ipm_param_encode
                mod = mci_ipm_encode if tool == 'encode-argv' else mci_ipm_param_encode
                argv = [path, '-o', path + '.out', '--in-encoding', a, '--out-encoding', b]
                if not in_b and not out_b and case.get('switch'):
                    argv += ['--no1014blocking']
                else:
                    argv += ['--in-format', fmt(in_b), '--out-format', fmt(out_b)]
                rc = mod.cli_run(**vars(mod.cli_parser().parse_args(argv)))
                outp = path + '.out'
            elif tool == 'encode-cli':
                from cardutil.cli import mci_ipm_encode
                rc = mci_ipm_encode.cli_run(in_filename=path, out_filename=path + '.out', in_encoding=a, out_encoding=b,
                                            in_format=fmt(in_b), out_format=fmt(out_b))
                outp = path + '.out'
            else:
                from cardutil.cli import mci_ipm_param_encode
                rc = mci_ipm_param_encode.cli_run(in_filename=path, out_filename=path + '.out', in_encoding=a,
                                                  out_encoding=b, in_format=fmt(in_b), out_format=fmt(out_b))
                outp = path + '.out'
        if rc == -1:
            raise RuntimeError('tool returned -1')
        return open(outp, 'rb').read()
    finally:
        for f in os.listdir(d):
            os.unlink(os.path.join(d, f))
        os.rmdir(d)


def source_file(case):
    from cardutil import mciipm
    if case['kind'] == 'ipm':
        msgs = [iu.dict_unwire(w) for w in case['msgs']]
        return c06.write_file(msgs, case['a'], None, bool(case['inb']))
    recs = [bytes.fromhex(h) for h in case['recs']]
    return mciipm.vbs_list_to_bytes(recs, blocked=bool(case['inb']))


def impl_eval(case):
    from cardutil import mciipm
    a, b, in_b, out_b = case['a'], case['b'], bool(case['inb']), bool(case['outb'])
    src = source_file(case)
    why = None
    try:
        out = run_tool(case, src, a, b, in_b, out_b)
        back = run_tool(case, out, b, a, out_b, in_b)
    except Exception as ex:  # noqa
        return {'obs': ['escape:' + type(ex).__name__, 'n/a'], 'violation': f'conversion failed: {ex!r}',
                'tags': [f"tool:{case['tool']}"]}
    if case['kind'] == 'ipm':
        ra, ea = read_all(mciipm.IpmReader(io.BytesIO(src), encoding=a, blocked=in_b))
        rb, eb = read_all(mciipm.IpmReader(io.BytesIO(out), encoding=b, blocked=out_b))
        if ea is not None or eb is not None:
            why = f'reading input/output ended with {render_end(ea)} / {render_end(eb)}'
        elif len(ra) != len(rb):
            why = f'{len(ra)} records in, {len(rb)} records out'
        elif ra != rb:
            i = next(i for i, (x, y) in enumerate(zip(ra, rb)) if x != y)
            keys = sorted(k for k in set(ra[i]) | set(rb[i]) if ra[i].get(k) != rb[i].get(k))
            why = f'record {i + 1} decodes differently after conversion {a}->{b}: keys {keys[:5]}'
    else:
        ra, ea = read_all(mciipm.VbsReader(io.BytesIO(src), blocked=in_b))
        rb, eb = read_all(mciipm.VbsReader(io.BytesIO(out), blocked=out_b))
        if [r.decode(a) for r in ra] != [r.decode(b) for r in rb] or ea is not None or eb is not None:
            why = f'parameter records differ after conversion {a}->{b} ({len(ra)} in, {len(rb)} out)'
    if why is None and back != src and canon(back, in_b) != canon(src, in_b):
        k = next((i for i in range(min(len(back), len(src))) if back[i] != src[i]), min(len(back), len(src)))
        why = f'converting back to {a} does not reproduce the original file (first difference at byte {k})'
    elif why is None and back != src:
        why = 'converting back differs from the original file by a trailing fill-only block'
    return {'obs': [common.sig(canon(out, out_b)), common.sig(canon(back, in_b))], 'violation': why,
            'nontrivial': a != b or in_b != out_b,
            'tags': [f"tool:{case['tool']}", f'{a}->{b}', f"{'1014' if in_b else 'vbs'}->{'1014' if out_b else 'vbs'}"]}


def model_line(case):
    a, b, inb, outb = case['a'], case['b'], case['inb'], case['outb']
    src = source_file(case)
    op = 'cli.param' if case['kind'] == 'param' else 'cli.encode\tnopds'
    try:
        out = run_tool(case, src, a, b, bool(inb), bool(outb))
    except Exception:  # noqa
        out = b''
    return [f'{op}\t{a}\t{b}\t{inb}\t{outb}\thex:{src.hex()}', f'{op}\t{b}\t{a}\t{outb}\t{inb}\thex:{out.hex()}']


def model_obs(case, resp):
    out = []
    for r, blk in zip(resp, (case['outb'], case['inb'])):
        out.append(common.sig(canon(bytes.fromhex(r[3:]), bool(blk))) if r.startswith('ok ') else r)
    return out


def gen_ipm_messages(rng, codec, n):
    pkg = iu.pkg_config()
    msgs = []
    while len(msgs) < n:
        r = rng.random()
        m, _ = iu.gen_message(rng, pkg, codec, with_pds=(r < 0.3) or None)
        if 0.3 <= r < 0.5:
            ents = [(rng.randrange(10000), iu.text(rng, codec, rng.randrange(0, 30))) for _ in range(rng.randrange(1, 5))]
            if r < 0.4:
                ents.sort()
            m = {k: v for k, v in m.items() if not k.startswith('PDS')}
            m['DE48'] = iu.pds_text(ents)             # a directly supplied carrier, canonical or not
        if r > 0.8:
            m['DE55'] = iu.gen_tlvs(rng)
        if 0.5 <= r < 0.58:
            # a file trailer (1644 / function code 695) or header (697) message, wherever it stands in the file
            m = {'MTI': '1644', 'DE24': '695' if r < 0.55 else '697', 'DE71': str(rng.randrange(1, 99999999))}
        try:
            if len(iu.ref_encode(m, pkg, codec, False)) <= c07.c03max():
                msgs.append(m)
        except iu.RefError:
            pass
    return msgs


def explore(run, tier):
    rng = common.rng_for(run.seed, PROP)
    codecs3 = ['latin_1', 'cp500', 'cp037']
    cases = []
    nfiles = 50 if tier == 'quick' else 300
    for i in range(nfiles):
        a = codecs3[i % 3]
        msgs = [iu.dict_wire(m) for m in gen_ipm_messages(rng, a, rng.choice([1, 2, 5, 12]))]
        for b in codecs3:
            if b == a and i % 4:
                continue
            for inb in (0, 1):
                for outb in (0, 1):
                    if (i + inb + outb) % 2 and tier == 'quick':
                        continue
                    tool = 'encode-cli' if (tier == 'thorough' and i % 3 == 0) else 'encode'
                    cases.append({'kind': 'ipm', 'tool': tool, 'a': a, 'b': b, 'inb': inb, 'outb': outb, 'msgs': msgs})
        if a in ('latin_1', 'cp500'):
            b = 'cp500' if a == 'latin_1' else 'latin_1'
            for blk in (0, 1):
                cases.append({'kind': 'ipm', 'tool': 'mideu', 'a': a, 'b': b, 'inb': blk, 'outb': blk, 'msgs': msgs})
    # binary ICC data whose ONE-byte lengths have the top bit set (128..255: no long-form marker in this format), values shaped
    # like nested templates — deterministic, whatever the seed draws elsewhere
    for ai, (a, b) in enumerate((('latin_1', 'cp500'), ('cp500', 'cp037'), ('cp037', 'latin_1'))):
        msgs = []
        for ln in (128, 129, 130, 144, 200, 250, 255):
            val = iu.nested_template(rng, ln)
            icc = b'\x9a\x03\x24\x01\x02' + b'\x9f\x10' + bytes([ln]) + val      # (the template is the LAST data object)
            msgs.append(iu.dict_wire({'MTI': '1240', 'DE2': '5' * 16, 'DE55': icc}))
        for inb, outb in ((0, 0), (1, 1), (0, 1), (1, 0)):
            cases.append({'kind': 'ipm', 'tool': 'encode', 'a': a, 'b': b, 'inb': inb, 'outb': outb, 'msgs': msgs})
        if a in ('latin_1', 'cp500'):
            cases.append({'kind': 'ipm', 'tool': 'mideu', 'a': a, 'b': 'cp500' if a == 'latin_1' else 'latin_1', 'inb': ai % 2,
                          'outb': ai % 2, 'msgs': msgs})
    # numbers and dates given as TEXT in spellings that are not the canonical one (a sign, blanks, an underscore; exactly
    # the element's width or not): the library writes the canonical rendering, so the file converts there and back to
    # itself byte for byte
    for a, b in (('latin_1', 'cp500'), ('cp500', 'cp037'), ('cp037', 'latin_1')):
        msgs = [iu.dict_wire(m) for m in (
            {'MTI': '1240', 'DE2': '5' * 16, 'DE4': '+00000002500', 'DE71': ' 0000003'},
            {'MTI': '1240', 'DE2': '4' * 16, 'DE4': '00000_002500', 'DE71': '3'},
            {'MTI': '1240', 'DE2': '4' * 16, 'DE4': ' 2500       ', 'DE71': '00000004', 'DE5': '-00000000012'},
            {'MTI': '1240', 'DE2': '4' * 16, 'DE4': 2500, 'DE71': 5})]
        for inb, outb in ((0, 0), (1, 1), (0, 1)):
            cases.append({'kind': 'ipm', 'tool': 'encode', 'a': a, 'b': b, 'inb': inb, 'outb': outb, 'msgs': msgs})
    # records at and next to the maximum record length, and sized to end on a 1012-byte payload boundary
    ml = c07.c03max()
    for j, total in enumerate([ml, ml - 1, 2020, 1008, 3032]):
        for a in codecs3:
            m = c06.sized_message(rng, a, min(total, 38 + 4 * 1002))
            if total > 38 + 4 * 1002:      # top up to the requested size with PDS carriers
                m = dict(m)
                left = total - (38 + 4 * 1002)
                for bit in (48, 62):
                    take = min(left, 1002)
                    if take >= 3 + 7:
                        m[f'DE{bit}'] = iu.pds_text([(1, iu.text(rng, a, take - 3 - 7))])
                        left -= take
                if left or len(iu.ref_encode(m, iu.pkg_config(), a, False)) != total:
                    continue
            b = codecs3[(codecs3.index(a) + 1 + j) % 3]
            for inb, outb in ((0, 0), (0, 1), (1, 0), (1, 1)):
                cases.append({'kind': 'ipm', 'tool': 'encode', 'a': a, 'b': b, 'inb': inb, 'outb': outb,
                              'msgs': [iu.dict_wire(m)]})
    for n in (ml, ml - 1):
        rec = bytes((i * 7 + 3) % 256 for i in range(n)).hex()
        for inb, outb in ((0, 0), (0, 1), (1, 0), (1, 1)):
            cases.append({'kind': 'param', 'tool': 'param', 'a': 'latin_1', 'b': 'cp500', 'inb': inb, 'outb': outb,
                          'recs': ['01', rec, '02']})
    # records with long runs of x'40' (the EBCDIC blank, '@' in latin-1, and the 1014 filler byte): blank-padded rows
    # that cover one or more whole 1012-byte payload blocks are DATA, wherever the block boundaries fall
    for recs in (['c1', '40' * 2600, 'c2'], ['40' * 1008], ['40' * 1004, '40' * 1012, 'f1'], ['40' * 3000, '4040'],
                 ['c1c2', '40' * 2021, '40' * 5], ['00' * 2600, 'c1']):
        for inb, outb in ((0, 1), (1, 0), (1, 1)):
            cases.append({'kind': 'param', 'tool': 'param', 'a': 'cp500', 'b': 'latin_1', 'inb': inb, 'outb': outb,
                          'recs': recs})
        cases.append({'kind': 'param', 'tool': 'paramconv', 'a': 'cp500', 'b': 'latin_1', 'inb': 1, 'outb': 1, 'recs': recs})
        cases.append({'kind': 'param', 'tool': 'paramconv', 'a': 'latin_1', 'b': 'cp500', 'inb': 1, 'outb': 1, 'recs': recs})
    # parameter files whose record stream (length prefixes, records, terminator) is an EXACT multiple of 1012 bytes: the
    # library's writer closes such a blocked file with one fill-only block, and the conversion back must as well
    for lens in ([1004], [1000, 1012], [3028], [500, 496, 4, 996], [1003], [1005]):
        recs = [bytes((i * 11 + n) % 256 for i in range(n)).hex() for n in lens]
        for a, b in (('latin_1', 'cp500'), ('cp500', 'cp037')):
            for inb, outb in ((1, 1), (1, 0), (0, 1)):
                cases.append({'kind': 'param', 'tool': 'param', 'a': a, 'b': b, 'inb': inb, 'outb': outb, 'recs': recs})
        cases.append({'kind': 'param', 'tool': 'paramconv', 'a': 'cp500', 'b': 'latin_1', 'inb': 1, 'outb': 1, 'recs': recs})
    # the tools through their own ARGUMENT PARSERS (defaults of the parser included), with the format options and with the
    # older --no1014blocking switch
    for a, b in (('latin_1', 'cp500'), ('cp500', 'latin_1')):
        for inb, outb in ((0, 0), (1, 1), (0, 1), (1, 0)):
            for sw in (False, True):
                cases.append({'kind': 'param', 'tool': 'param-argv', 'a': a, 'b': b, 'inb': inb, 'outb': outb, 'switch': sw,
                              'recs': ['c1c2c3', '0102030405' * 30, '4040' * 600]})
                cases.append({'kind': 'ipm', 'tool': 'encode-argv', 'a': a, 'b': b, 'inb': inb, 'outb': outb, 'switch': sw,
                              'msgs': [iu.dict_wire({'MTI': '1240', 'DE2': '5' * 16, 'DE42': 'MERCHANT'.ljust(15)}),
                                       iu.dict_wire({'MTI': '1240', 'DE2': '4' * 16, 'DE72': 'x' * 900}),
                                       iu.dict_wire({'MTI': '1240', 'DE2': '4' * 16, 'DE72': 'y' * 900})]})
    # command entry points with the DEFAULT output name, on input files called x.bin, x.out, x (the second leg of a
    # round trip done with default names converts a file that is itself called *.out)
    for fname in ('params.bin', 'params.out', 'params', 'a.b.out'):
        for inb, outb in ((0, 1), (1, 1)):
            cases.append({'kind': 'param', 'tool': 'param-cli-default', 'a': 'latin_1', 'b': 'cp500', 'inb': inb, 'outb': outb,
                          'recs': ['c1c2c3', '0102030405'], 'fname': fname})
    for i in range(40 if tier == 'quick' else 400):
        recs = [bytes(rng.getrandbits(8) for _ in range(rng.choice([1, 5, 80, 300, 1012, 2000]))).hex()
                for _ in range(rng.randrange(1, 8))]
        a, b = rng.sample(codecs3, 2) if i % 5 else (codecs3[i % 3], codecs3[i % 3])
        for inb in (0, 1):
            for outb in (0, 1):
                tool = 'param-cli' if (tier == 'thorough' and i % 4 == 0) else 'param'
                cases.append({'kind': 'param', 'tool': tool, 'a': a, 'b': b, 'inb': inb, 'outb': outb, 'recs': recs})
        for blk in (0, 1):
            aa = rng.choice(['latin_1', 'cp500'])
            cases.append({'kind': 'param', 'tool': 'paramconv', 'a': aa, 'b': 'cp500' if aa == 'latin_1' else 'latin_1',
                          'inb': blk, 'outb': blk, 'recs': recs})
    # files with NO record at all (what a writer closed straight away produces: the terminator only, blocked or not): they
    # convert to files with no record, through every tool
    for a, b in (('latin_1', 'cp500'), ('cp500', 'cp037'), ('cp037', 'latin_1'), ('latin_1', 'latin_1')):
        for inb, outb in ((0, 0), (1, 1), (0, 1), (1, 0)):
            cases.append({'kind': 'ipm', 'tool': 'encode', 'a': a, 'b': b, 'inb': inb, 'outb': outb, 'msgs': []})
            cases.append({'kind': 'param', 'tool': 'param', 'a': a, 'b': b, 'inb': inb, 'outb': outb, 'recs': []})
        if (a, b) in (('latin_1', 'cp500'),):
            for blk in (0, 1):
                cases.append({'kind': 'ipm', 'tool': 'mideu', 'a': a, 'b': b, 'inb': blk, 'outb': blk, 'msgs': []})
                cases.append({'kind': 'param', 'tool': 'paramconv', 'a': a, 'b': b, 'inb': blk, 'outb': blk, 'recs': []})
            cases.append({'kind': 'ipm', 'tool': 'encode-argv', 'a': a, 'b': b, 'inb': 1, 'outb': 1, 'switch': False, 'msgs': []})
    run.correspond(__name__, cases, use_model=run.use_model, chunk=12)
