"""shared helpers for the mciipm family of checks (independent reference readings of the formats)"""
import io
import struct

from harness import common

P = 1012


def ref_vbs(recs):
    """documented VBS layout: 4-byte big-endian length + record, then a zero length"""
    return b''.join(struct.pack('>I', len(r)) + r for r in recs) + b'\x00\x00\x00\x00'


def ref_payload(f: bytes) -> bytes:
    """payload stream of a 1014-blocked byte string (short last block contributes what it has)"""
    return b''.join(f[i:i + 1012] for i in range(0, len(f), 1014))


def ref_blockify(d: bytes) -> bytes:
    out = bytearray()
    for i in range(0, len(d), P):
        c = d[i:i + P]
        out += c + b'\x40' * (P - len(c)) + b'\x40\x40'
    return bytes(out)


def render_end(exc):
    """canonical ending of an iteration: eof | err:<recno>:<sig ctx> | escape:<type>"""
    from cardutil import CardutilError
    if exc is None:
        return 'eof'
    if isinstance(exc, CardutilError):
        ctx = exc.binary_context_data or b''
        return f'err:{exc.record_number}:{common.sig(ctx)}'
    return f'escape:{type(exc).__name__}'


def read_all(reader):
    """iterate a reader; returns (records, exception-or-None)"""
    out = []
    try:
        for r in reader:
            out.append(r)
    except Exception as ex:  # noqa
        return out, ex
    return out, None


def read_pattern(reader, pattern):
    """the same iteration, consumed the ways applications do: 'for' (one loop), 'next-for' (take the header record with
    next(), then loop), 'two-loops' (leave a first loop after two records, resume in a second one), 'next-only'"""
    out = []
    try:
        if pattern == 'next-for':
            out.append(next(reader))
            for r in reader:
                out.append(r)
        elif pattern == 'two-loops':
            for r in reader:
                out.append(r)
                if len(out) == 2:
                    break
            for r in reader:
                out.append(r)
        elif pattern == 'next-only':
            it = iter(reader)
            while True:
                out.append(next(it))
        else:
            for r in reader:
                out.append(r)
    except StopIteration:
        return out, None
    except Exception as ex:  # noqa
        return out, ex
    return out, None


class KeepOpen(io.BytesIO):
    def close(self):
        pass
