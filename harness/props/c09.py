"""C09 — a file cut short at any byte yields only its complete records, then stops / errors."""
import io
import struct

from harness import common
from harness.props.vbsutil import P, ref_payload, read_all, render_end
from harness.props import c03

PROP = 'C09'
RULE = ("writer-produced VBS and 1014-blocked files (1..many records, lengths around block boundaries) cut at EVERY byte "
        "offset 0..len (exhaustive per file) and read with VbsReader, also records made of the filler byte x'40' / of x'00' ending one or two bytes into a block; one case = one file with all its cuts. Non-trivial = "
        "the file has a cut inside a length prefix, inside a record, inside fill and (blocked) inside a trailer — i.e. every "
        "file with at least one record; distinct = distinct (format, record lengths)")
TRUSTED = c03.TRUSTED
ASSUMPTIONS = c03.ASSUMPTIONS


def expected_count(recs, blocked, n, file_len):
    """independent reading of the property: number of records wholly contained in the surviving bytes"""
    surviving = n
    if blocked:
        q, r = divmod(min(n, file_len), 1014)
        surviving = q * P + min(r, P)
    k, off = 0, 0
    for r in recs:
        off += 4 + len(r)
        if off <= surviving:
            k += 1
        else:
            break
    return k


def records_of(case):
    """position-coded content, or (case['fill']) records made of ONE byte value — x'40' is both the blocking filler and
    the EBCDIC blank, x'00' looks like the terminator"""
    if 'fill' in case:
        return [bytes([case['fill']]) * n for n in case['lens']]
    return common.pc_records(case['lens'])


def ipm_eval(case):
    """IPM files: every cut of a file written by IpmWriter, read with IpmReader"""
    from cardutil import mciipm, iso8583
    from harness import isoutil as iu
    from harness.props import c06
    msgs = [iu.dict_unwire(w) for w in case['msgs']]
    blocked = bool(case['b'])
    data = c06.write_file(msgs, case['codec'], None, blocked)
    recs = [iso8583.dumps(dict(m), encoding=case['codec']) for m in msgs]
    full = [iso8583.loads(r, encoding=case['codec']) for r in recs]
    parts, why = [], None
    for n in range(0, len(data) + 1, case.get('step', 1)):
        # an unblocked file read with the format option given (blocked=False) or, at every other cut, LEFT OUT: the
        # documented default is the unblocked format
        kwb = {} if (not blocked and n % 2) else {'blocked': blocked}
        back, exc = read_all(mciipm.IpmReader(io.BytesIO(data[:n]), encoding=case['codec'], **kwb))
        parts.append(f'{len(back)}:{render_end(exc)}')
        if why is None:
            k = expected_count(recs, blocked, n, len(data))
            if back != full[:k]:
                why = f'cut at {n}: delivered {len(back)} messages, exactly {k} records are wholly contained (or one is altered)'
            elif exc is not None and not isinstance(exc, mciipm.MciIpmDataError):
                why = f'cut at {n}: iteration ended with {type(exc).__name__}'
            elif isinstance(exc, mciipm.MciIpmDataError) and exc.record_number != k + 1:
                why = f'cut at {n}: error reports record {exc.record_number}, the incomplete record is {k + 1}'
    return {'obs': 'ok ' + ';'.join(parts), 'violation': why, 'nontrivial': True, 'weight': len(parts),
            'tags': [f"fmt:ipm-{'1014' if blocked else 'vbs'}"]}


def impl_eval(case):
    from cardutil import mciipm
    if 'msgs' in case:
        return ipm_eval(case)
    recs = records_of(case)
    blocked = bool(case['b'])
    data = mciipm.vbs_list_to_bytes(recs, blocked=blocked)
    step = case.get('step', 1)
    parts, why = [], None
    tmpdir = None
    if case.get('real'):
        import tempfile
        tmpdir = tempfile.mkdtemp(prefix='verif_c09_')
    for n in range(0, len(data) + 1, step):
        if tmpdir:
            # the surviving bytes as a REAL file on disk, opened 'rb' (what an interrupted transfer leaves behind)
            import os
            path = os.path.join(tmpdir, 'cut.bin')
            with open(path, 'wb') as fh:
                fh.write(data[:n])
            with open(path, 'rb') as fh:
                try:
                    back, exc = read_all(mciipm.VbsReader(fh, blocked=blocked))
                except Exception as ex:  # noqa  (raised by the constructor)
                    back, exc = [], ex
        else:
            kwb = {} if (not blocked and n % 2) else {'blocked': blocked}
            back, exc = read_all(mciipm.VbsReader(io.BytesIO(data[:n]), **kwb))
        parts.append(f'{len(back)}:{common.sig(b"".join(back))}:{render_end(exc)}')
        if why is None and (n % 3 == 0 or len(data) - n < 12 or n < 12):
            # the list-returning convenience function on the same bytes: the same records, or the library error
            try:
                lst, fexc = (mciipm.vbs_bytes_to_list(data[:n], blocked=True) if blocked else mciipm.vbs_bytes_to_list(data[:n])), None
            except Exception as ex:  # noqa
                lst, fexc = None, ex
            if fexc is not None and not isinstance(fexc, mciipm.MciIpmDataError):
                why = f'cut at {n}: vbs_bytes_to_list ended with {type(fexc).__name__}, not the library data error'
            elif (fexc is None) != (exc is None) or (fexc is None and lst != back):
                why = f'cut at {n}: vbs_bytes_to_list and VbsReader disagree on the truncated bytes'
            else:
                # the reader handed to list() / tuple() (which ask an iterator for a length hint first): the same again
                for ctor in (list, tuple):
                    try:
                        got2, cexc = list(ctor(mciipm.VbsReader(io.BytesIO(data[:n]), blocked=blocked))), None
                    except Exception as ex:  # noqa
                        got2, cexc = None, ex
                    if cexc is not None and not isinstance(cexc, mciipm.MciIpmDataError):
                        why = f'cut at {n}: {ctor.__name__}(reader) ended with {type(cexc).__name__}, not the library data error'
                    elif (cexc is None) != (exc is None) or (cexc is None and got2 != back):
                        why = f'cut at {n}: {ctor.__name__}(reader) and a loop over the reader disagree on the truncated bytes'
        if why is None:
            k = expected_count(recs, blocked, n, len(data))
            if back != recs[:k]:
                why = (f'cut at {n}: delivered {len(back)} records, but exactly {k} are wholly contained in the '
                       f'surviving bytes (or a delivered record is altered)')
            elif exc is not None and not isinstance(exc, mciipm.MciIpmDataError):
                why = f'cut at {n}: iteration ended with {type(exc).__name__}, not end-of-data or the library data error'
            elif isinstance(exc, mciipm.MciIpmDataError) and exc.record_number != k + 1:
                why = f'cut at {n}: error reports record {exc.record_number}, the incomplete record is {k + 1}'
    if tmpdir:
        import shutil
        shutil.rmtree(tmpdir, ignore_errors=True)
    return {'obs': 'ok ' + ';'.join(parts), 'violation': why, 'nontrivial': len(recs) > 0,
            'weight': len(parts), 'tags': [f"fmt:{'1014' if blocked else 'vbs'}"] + (['real-file'] if tmpdir else [])}


def model_line(case):
    if 'msgs' in case:
        from harness import isoutil as iu
        from harness.props import c06
        data = c06.write_file([iu.dict_unwire(w) for w in case['msgs']], case['codec'], None, bool(case['b']))
        return (f"ipm.cuts\tpkg\t{case['codec']}\t{case['b']}\t{c03.max_len()}\thex:{data.hex()}\t{case.get('step', 1)}")
    if 'fill' in case:
        return (f"vbs.cutshex\t{'1' if case['b'] else '0'}\t{c03.max_len()}\t"
                + ','.join(r.hex() for r in records_of(case)) + f"\t{case.get('step', 1)}")
    return (f"vbs.cuts\t{'1' if case['b'] else '0'}\t{c03.max_len()}\t" + ','.join(map(str, case['lens']))
            + f"\t{case.get('step', 1)}")


def explore(run, tier):
    rng = common.rng_for(run.seed, PROP)
    cases = []
    fixed = [[1], [5], [1004], [1008], [1009], [1012], [1013], [2020], [3, 3, 3], [1000, 4, 1], [1004, 4], [1005, 1005],
             [500, 504, 1000], [1, 1, 1, 1, 1, 1, 1, 1], [2016, 1], [], [1008, 1008]]
    for lens in fixed:
        for b in (0, 1):
            cases.append({'b': b, 'lens': lens})
    # the same through REAL files on disk (a reader may ask the operating system about the file), a stride of cut positions
    for lens in ([1004, 4], [500, 504, 1000], [2016, 1], [3000, 10]):
        for b in (0, 1):
            cases.append({'b': b, 'lens': lens, 'real': True, 'step': 53})
            cases.append({'b': b, 'lens': lens, 'real': True, 'step': 1014})
    for _ in range(40 if tier == 'quick' else 400):
        k = rng.choice([1, 2, 3, 4, 6])
        lens = [rng.choice([1, 4, rng.randrange(1, 40), rng.randrange(400, 1100), rng.randrange(1000, 1020)])
                for _ in range(k)]
        cases.append({'b': rng.randrange(2), 'lens': lens})
    # records made of the filler byte / the terminator byte, ending one or two bytes into a block (4 + 1009 = 1013,
    # 4 + 500 + 4 + 505 = 1013, 4 + 2021 = 2 * 1012 + 1, ...): a reader must not take record CONTENT for filler
    for lens in ([1009], [1010], [1009, 5], [500, 505], [500, 506], [2021], [2022, 30], [1004, 1], [1004, 2], [3, 1006, 1010]):
        for fill in (0x40, 0x00):
            cases.append({'b': 1, 'lens': lens, 'fill': fill})
        cases.append({'b': 0, 'lens': lens, 'fill': 0x40})
    # MANY records (more than a thousand small ones) in memory streams, cut at sampled offsets
    for b in (0, 1):
        cases.append({'b': b, 'lens': [1 + i % 3 for i in range(1100)], 'step': 211})
        cases.append({'b': b, 'lens': [2] * 2300, 'step': 977})
    if tier == 'thorough':
        for lens in ([6000, 6000], [3000, 17, 4000, 1]):
            for b in (0, 1):
                cases.append({'b': b, 'lens': lens})
    from harness import isoutil as iu
    pkg = iu.pkg_config()
    for i in range(6 if tier == 'quick' else 60):
        codec = ['latin_1', 'cp500'][i % 2]
        msgs = []
        for _ in range(rng.choice([1, 2, 4])):
            m, _ = iu.gen_message(rng, pkg, codec)
            while len(iu.ref_encode(m, pkg, codec, False)) > 700:
                m, _ = iu.gen_message(rng, pkg, codec)
            msgs.append(iu.dict_wire(m))
        cases.append({'b': i % 2, 'codec': codec, 'msgs': msgs})
    # IPM files of several blocks' length (eight messages of 300 .. 440 bytes), unblocked and blocked: cuts beyond the first
    # 1012 bytes, with the reader's format option given or (unblocked) left out
    for codec in ('latin_1', 'cp500'):
        msgs = [iu.dict_wire({'MTI': '1240', 'DE2': '5' * 16, 'DE3': f'{j:06d}', 'DE72': ('free text %d ' % j) * (22 + 2 * j)})
                for j in range(8)]
        for b in (0, 1):
            cases.append({'b': b, 'codec': codec, 'msgs': msgs})
    # … and files that hold a message WITHOUT any data element (MTI and an empty bitmap: a 20-byte record) first, in the
    # middle and last — by construction, whatever the seed draws elsewhere
    for codec in ('latin_1', 'cp500'):
        full = {'MTI': '1240', 'DE2': '5' * 16, 'DE3': '000000'}
        for shape in ([{'MTI': '1644'}, full, full], [full, {'MTI': '1644'}, full], [full, full, {'MTI': '1644'}],
                      [{'MTI': '1644'}], [{'MTI': '1644'}, {'MTI': '1644'}]):
            for b in (0, 1):
                cases.append({'b': b, 'codec': codec, 'msgs': [iu.dict_wire(m) for m in shape]})
    run.exhaustive.append('every cut offset 0..len(file) of each generated file')
    run.correspond(__name__, cases, use_model=run.use_model, chunk=2)
