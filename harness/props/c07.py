"""C07 — decoding never hangs or crashes: any bytes give a result or the library error."""
import io
import os
import tempfile

from harness import common, isoutil as iu
from harness.props import c01
from harness.props.vbsutil import read_all, render_end

PROP = 'C07'
WATCHDOG_S = 2.0
RULE = ("byte strings as messages and as files: random bytes; well-formed messages (packaged + generated configurations, "
        "ASCII/EBCDIC codecs, both bitmap forms, PDS + ICC) with every byte of every length prefix, PDS sub-length / tag, "
        "bitmap byte, MTI, TLV length and every byte of `decimal` typed elements substituted from the class alphabet {digits, sign, space, underscore, NBSP, NUL, "
        "high bytes}; truncation at every offset, insert / delete / bit-flip multi-point mutations; IPM/VBS files with "
        "mutated records and lengths, blocked and unblocked; command-line tools on malformed files (sampled mutations plus every MTI / bitmap byte of the first two records substituted). Every case under a "
        "2 s CPU-time watchdog. Non-trivial = the mutated input differs from a valid message; distinct = distinct input bytes")
TRUSTED = c01.TRUSTED + ["a pure-Python hang is interrupted by the watchdog (2 s of CPU time of the worker process, wall-clock backstop 60 s) and reported as `diverge`"]
ASSUMPTIONS = c01.ASSUMPTIONS + ["`decimal` typed elements of at most 15 characters in the correspondence (CPython refuses "
                                 "exponents beyond about 10^18, which the Lean model of Decimal() does not bound; the "
                                 "theorems do not depend on it)"]

cfg_of, cfg_id = c01.cfg_of, c01.cfg_id


class Pipe(io.RawIOBase):
    """a non-seekable byte stream (stdin, an OS pipe, a socket file): read() only; tell() / seek() are unsupported"""

    def __init__(self, data):
        super().__init__()
        self._b = io.BytesIO(data)

    def readable(self):
        return True

    def seekable(self):
        return False

    def read(self, n=-1):
        return self._b.read(n)

    def tell(self):
        raise io.UnsupportedOperation('tell')

    def seek(self, *a):
        raise io.UnsupportedOperation('seek')


def impl_eval(case):
    from cardutil import iso8583, mciipm
    cfg = cfg_of(case)
    codec = case['codec']
    if case['k'] == 'msg':
        data = bytes.fromhex(case['data'])
        obs, d, ex = iu.obs_loads(lambda: iso8583.loads(data, encoding=codec, iso_config=cfg,
                                                        hex_bitmap=bool(case['hex'])), cfg)
        why = None
        if not (obs.startswith('ok') or obs == 'err'):
            why = f'loads raised {obs} — neither a dictionary nor the library data error'
        return {'obs': obs, 'violation': why, 'nontrivial': True,
                'tags': [f"mut:{case.get('mut', '?')}", 'out:' + obs.split(' ')[0].split(':')[0]]}
    if case['k'] == 'file':
        data = bytes.fromhex(case['data'])
        blocked = bool(case['b'])
        src = Pipe(data) if case.get('pipe') else io.BytesIO(data)
        if case.get('reader') == 'vbs':
            rd = mciipm.VbsReader(src, blocked=blocked)
            recs, exc = read_all(rd)
            body = ','.join(common.sig(r) for r in recs)
        else:
            rd = mciipm.IpmReader(src, encoding=codec, iso_config=cfg, blocked=blocked)
            recs, exc = read_all(rd)
            body = '|'.join(iu.dict_wire({k: v for k, v in r.items() if not k.startswith('DE43_')}, sort=True)
                            for r in recs)
        end = render_end(exc) if not isinstance(exc, common.CaseTimeout) else 'diverge'
        end = end.split(':')[0] if end.startswith('err') else end     # C07 speaks of the outcome class only (C10: number/context)
        why = None
        if exc is not None and not isinstance(exc, mciipm.MciIpmDataError):
            why = f'reader iteration raised {type(exc).__name__} — not end-of-data or the library data error'
        elif exc is None:
            # the exhausted reader asked AGAIN (next() after the end, a second loop over it): end of data again, or the
            # library's data error — nothing else
            for again in ('next', 'loop'):
                try:
                    if again == 'next':
                        next(rd)
                    else:
                        for _ in rd:
                            break
                except (StopIteration, mciipm.MciIpmDataError):
                    pass
                except Exception as ex2:  # noqa
                    why = f'asking the exhausted reader again ({again}) raised {type(ex2).__name__}'
                    break
        return {'obs': f'ok {body} {end}', 'violation': why, 'nontrivial': True,
                'tags': [f"file:{case.get('reader', 'ipm')}", 'end:' + end.split(':')[0]]}
    if case['k'] == 'cli':
        return cli_eval(case)
    raise ValueError(case['k'])


def cli_eval(case):
    """the tools catch only the library error: a malformed file must give a diagnostic and -1, never a traceback"""
    import contextlib
    data = bytes.fromhex(case['data'])
    d = tempfile.mkdtemp(prefix='verif_c07_')
    path = os.path.join(d, 'in.ipm')
    open(path, 'wb').write(data)
    out = io.StringIO()
    why = None
    try:
        with contextlib.redirect_stdout(out):
            if case['tool'] == 'mci_ipm_to_csv':
                from cardutil.cli import mci_ipm_to_csv
                rc = mci_ipm_to_csv.cli_run(in_filename=path, out_filename=path + '.csv',
                                            in_encoding=case['codec'], no1014blocking=not case['b'])
            else:
                from cardutil.cli import mideu
                rc = mideu.cli_run(func=mideu.extract, input=path, csvoutputfile=path + '.csv',
                                   sourceformat='ascii' if case['codec'] == 'latin_1' else 'ebcdic',
                                   no1014blocking=not case['b'])
        res = f'rc:{rc}'
        if rc == -1 and '*** ERROR' not in out.getvalue():
            why = 'tool returned -1 without printing a diagnostic'
    except Exception as ex:  # noqa
        res = 'escape:' + type(ex).__name__
        why = f'{case["tool"]} ended with a {type(ex).__name__} traceback instead of a diagnostic'
    finally:
        for f in os.listdir(d):
            os.unlink(os.path.join(d, f))
        os.rmdir(d)
    return {'obs': res, 'violation': why, 'nontrivial': True, 'tags': [f"cli:{case['tool']}", res.split(':')[0] + ':' + res.split(':')[1][:3]]}


def model_line(case):
    cid = cfg_id(case)
    lines = []
    if cid != 'pkg':
        lines.append(f'cfg.def\t{cid}\t{iu.cfg_wire(case["cfg"])}')
    if case['k'] == 'msg':
        lines.append(f"iso.loads\t{cid}\t{case['codec']}\t{case['hex']}\t{case['data']}")
    elif case['k'] == 'file':
        if case.get('reader') == 'vbs':
            lines.append(f"vbs.read\t{case['b']}\t{c03max()}\thex:{case['data']}")
        else:
            lines.append(f"ipm.read\t{cid}\t{case['codec']}\t{case['b']}\t{c03max()}\thex:{case['data']}")
    else:
        return None
    return lines


def c03max():
    from cardutil import config
    return config.config.get('MAX_VBS_RECORD_LENGTH', 6000)


def model_obs(case, resp):
    r = resp[-1]
    if case['k'] == 'file':
        head, _, end = r.rpartition(' ')
        if end.startswith('err'):
            r = head + ' err'
    return r


# ---------------------------------------------------------------------------------------------
# structure-aware mutation


def positions(data, cfg, codec, hexbm):
    """byte offsets of the structural parts of a valid message"""
    hdr = 36 if hexbm else 20
    pos = {'mti': list(range(0, 4)), 'bitmap': list(range(4, hdr)), 'prefix': [], 'pdslen': [], 'pdstag': [], 'tlvlen': [],
           'content': [], 'decimal': []}
    try:
        d, framing = iu.ref_decode(data, cfg, codec, hexbm)
    except iu.RefError:
        return pos
    for bit, po, pl, co, cl in framing:
        pos['prefix'] += [hdr + po + i for i in range(pl)]
        if cl:
            pos['content'].append(hdr + co)
            pos['content'].append(hdr + co + cl - 1)
        fc = cfg[str(bit)]
        if fc.get('field_python_type') == 'decimal':
            pos['decimal'] += [hdr + co + i for i in range(cl)]
        if fc.get('field_processor') == 'PDS':
            p = 0
            text = data[hdr + co:hdr + co + cl].decode(codec)
            while p + 7 <= len(text):
                pos['pdstag'] += [hdr + co + p + i for i in range(4)]
                pos['pdslen'] += [hdr + co + p + 4 + i for i in range(3)]
                p += 7 + int(text[p + 4:p + 7])
        if fc.get('field_processor') == 'ICC':
            b = data[hdr + co:hdr + co + cl]
            p = 0
            while p < len(b):
                p += 2 if b[p] in (0x9f, 0x5f) else 1
                if p >= len(b):
                    break
                pos['tlvlen'].append(hdr + co + p)
                p += 1 + b[p]
    return pos


def alphabet_bytes(codec):
    out = set()
    for ch in '0159-+ _\xa0\x00\x85':
        try:
            e = ch.encode(codec)
            if len(e) == 1:
                out.add(e[0])
        except UnicodeError:
            pass
    out |= {0x00, 0xff, 0x80, 0x2d, 0x60, 0x40, 0x5f}
    return sorted(out)


def decimal_alphabet(codec):
    out = set(alphabet_bytes(codec))
    for ch in '.eE+-nNaAsSiIfFtTyY_ 09':
        e = ch.encode(codec)
        if len(e) == 1:
            out.add(e[0])
    return sorted(out)


DECIMAL_TEXTS = ['12.5', '0012.50', '-00.00', '1_0.e+5', '.5E-3', 'NaN', 'nAn0012', '-sNaN', 'sNaN7', '+InFiNiTy', 'inf', '-Inf',
                 'infin', 'infinity0', '.', '1e', '1e+', '1e-0', '1 2', '1.2.3', '1e5e5', '1e5.0', '_', '_1_', '0.e5', '00',
                 '--1', '+-1', '12ab.5', '1\x00', '\xa01\x85', '1e999', '-0', '+.5', '5.', 'e5', 'nan_', 'na', 'snan-1', 'Infinity_',
                 '1__2', '1_._2', '१२.५', '1\xb2', '0x10', '1,5', "1'5", '1E+05']


def decimal_corpus():
    """hand-made: every interesting text of Decimal()'s grammar, padded both ways, in a 10- and a 3-character element"""
    bm = lambda bits: sum(1 << (128 - b) for b in [1] + bits).to_bytes(16, 'big')   # noqa: E731
    cfg = {'4': {'field_name': 'd10', 'field_type': 'FIXED', 'field_length': 10, 'field_python_type': 'decimal'},
           '5': {'field_name': 'd3', 'field_type': 'FIXED', 'field_length': 3, 'field_python_type': 'decimal'},
           '6': {'field_name': 'dv', 'field_type': 'LLVAR', 'field_length': 0, 'field_python_type': 'decimal'}}
    out = []
    for codec in ('latin_1', 'cp500'):
        for raw in DECIMAL_TEXTS:
            t = raw
            for variant in (t.ljust(10), t.rjust(10), t.center(10)):
                try:
                    body = variant[:10].encode(codec)
                except UnicodeError:
                    continue
                if len(body) == 10:
                    out.append((cfg, codec, b'1240'.decode().encode(codec) + bm([4]) + body))
            try:
                body = t.encode(codec)
                if len(body) <= 99:
                    out.append((cfg, codec, '1240'.encode(codec) + bm([6]) + f'{len(body):02d}'.encode(codec) + body))
                if len(body) == 3:
                    out.append((cfg, codec, '1240'.encode(codec) + bm([5]) + body))
            except UnicodeError:
                pass
    return out


def hex_spellings(rng, pkg):
    """messages whose 32 "hex bitmap" characters are something int(.., 16) or bytes.fromhex would tolerate (sign, blanks,
    underscores, 0x) followed by element data laid out for the bitmap such a lenient reading produces"""
    out = []
    for codec in ('latin_1', 'cp500'):
        for bits in ([5, 6], [2], [3, 4, 12], [24, 71]):
            value = sum(1 << (128 - b) for b in bits)
            fields = {f'DE{b}': iu.gen_value(rng, pkg[str(b)], codec)[0] for b in bits}
            body = b''.join(iu.ref_render(pkg[str(b)], fields[f'DE{b}'], codec) for b in bits)
            h31, h30 = '%031x' % value, '%030x' % value if value < 16 ** 30 else None
            spell = [' ' + h31, '+' + h31, h31 + ' ', h31[:5] + '_' + h31[5:], h31 + '\n', '\t' + h31]
            if h30:
                spell += ['  ' + h30, h30[:8] + '  ' + h30[8:], ' ' + h30 + ' ', h30[:3] + '__' + h30[3:], '0x' + h30,
                          h30[:16] + ' ' + h30[16:] + ' ']
            spell += [' ' * 32, '0' * 16 + ' ' * 16, ' ' * 16 + '0' * 16]
            for sp in spell:
                if len(sp) == 32:
                    out.append((codec, '1240'.encode(codec) + sp.encode('ascii') + body))
    return out


def mutants(rng, data, cfg, codec, hexbm, per_class, thorough):
    pos = positions(data, cfg, codec, hexbm)
    alpha = alphabet_bytes(codec)
    dalpha = decimal_alphabet(codec)
    out = []
    for cls, offs in pos.items():
        offs = sorted(set(offs))
        if not thorough and len(offs) > per_class:
            offs = sorted(rng.sample(offs, per_class))
        for o in offs:
            vals = range(256) if (cls in ('bitmap', 'tlvlen') and thorough) else dalpha if cls == 'decimal' else (
                alpha if cls not in ('bitmap', 'tlvlen') else [0x00, 0x01, 0x7f, 0x80, 0xff, data[o] ^ 1, data[o] ^ 0x80, 0x30, 0x66, 0x7a])
            for v in vals:
                if v != data[o]:
                    out.append((cls, data[:o] + bytes([v]) + data[o + 1:]))
    return out


def explore(run, tier):
    rng = common.rng_for(run.seed, PROP)
    thorough = tier == 'thorough'
    pkg = iu.pkg_config()
    cases = []
    seeds = []
    nseed = 60 if not thorough else 200
    for i in range(nseed):
        cfg = 'pkg' if i % 3 else iu.gen_config(rng, with_decimal=(i % 2 == 0))
        codec = ['latin_1', 'cp500', 'cp037', 'ascii'][i % 4]
        hexbm = i % 2
        from cardutil import iso8583
        m, _ = iu.gen_message(rng, pkg if cfg == 'pkg' else cfg, codec, with_pds=(i % 2 == 0) or None)
        if i % 5 == 0 and cfg == 'pkg':
            m['DE55'] = iu.gen_tlvs(rng)
        try:
            data = iso8583.dumps(dict(m), encoding=codec, iso_config=pkg if cfg == 'pkg' else cfg, hex_bitmap=bool(hexbm))
        except Exception:  # noqa
            continue
        seeds.append((cfg, codec, hexbm, data))
    for cfg, codec, hexbm, data in seeds:
        cdict = pkg if cfg == 'pkg' else cfg
        base = {'k': 'msg', 'cfg': cfg, 'codec': codec, 'hex': hexbm}
        for cls, mdata in mutants(rng, data, cdict, codec, hexbm, 6, thorough):
            cases.append(dict(base, data=mdata.hex(), mut=cls))
        # truncation / extension / insert / delete / bit flips
        cuts = range(len(data) + 1) if (thorough or len(data) < 80) else sorted(rng.sample(range(len(data) + 1), 25))
        for n in cuts:
            cases.append(dict(base, data=data[:n].hex(), mut='truncate'))
        # surplus bytes after a message that parses cleanly (also bytes the codec cannot decode), and every flagged
        # bit cleared in turn (that element's bytes are left over)
        for tail in (b'\x00', b'\x20', b'\x40', b'\x80', b'\xff', b'\xe9\xe9', b'0', b'\xc3\xa9\x80'):
            cases.append(dict(base, data=(data + tail).hex(), mut='extend'))
        if not hexbm and len(data) >= 20:
            bitmap = int.from_bytes(data[4:20], 'big')
            for bit in range(2, 129):
                if bitmap >> (128 - bit) & 1:
                    cleared = (bitmap & ~(1 << (128 - bit))).to_bytes(16, 'big')
                    cases.append(dict(base, data=(data[:4] + cleared + data[20:]).hex(), mut='clearbit'))
        for _ in range(12):
            o = rng.randrange(len(data) + 1)
            cases.append(dict(base, data=(data[:o] + bytes([rng.getrandbits(8)]) + data[o:]).hex(), mut='insert'))
            if len(data):
                o = rng.randrange(len(data))
                cases.append(dict(base, data=(data[:o] + data[o + 1:]).hex(), mut='delete'))
                b = bytearray(data)
                for _ in range(rng.randrange(1, 4)):
                    b[rng.randrange(len(b))] ^= 1 << rng.randrange(8)
                cases.append(dict(base, data=bytes(b).hex(), mut='bitflip'))
    # hand-made corpus: the defect witnesses of DESIGN.md §9
    bm = lambda bits: sum(1 << (128 - b) for b in [1] + bits).to_bytes(16, 'big')   # noqa: E731
    corpus = [
        ('pkg', 'latin_1', 0, b'1144' + bm([48]) + b'0040001'),             # PDS sub-element cut short
        ('pkg', 'latin_1', 0, b'1144' + bm([48]) + b'0070001-07'),          # negative PDS length: pointer stalls
        ('pkg', 'latin_1', 0, b'1144' + bm([48]) + b'0070001 -7'),
        ('pkg', 'latin_1', 0, b'1144' + bm([55]) + b'001\x9a'),             # TLV tag at end of field
        ('pkg', 'latin_1', 0, b'1144' + bm([55]) + b'001\x9f'),
        ('pkg', 'latin_1', 1, b'1144' + b'zz' * 16),                         # non-hex hex bitmap
        ('pkg', 'latin_1', 1, b'1144' + b'c' * 31 + b' '),
        ('pkg', 'latin_1', 0, b'1144' + bm([2]) + b'-2' + b'1234'),
        ('pkg', 'latin_1', 0, b'1144' + bm([2, 128]) + b'03123'),
        ('pkg', 'ascii', 0, b'1144' + bm([2]) + b'02\xff\xfe'),
        ('pkg', 'ascii', 0, b'11\xff4' + bm([])),
        ('pkg', 'latin_1', 0, b'1144' + bm([12]) + b'15081517150'),
        ('pkg', 'latin_1', 0, b'1144' + bm([12]) + b'150230121212'),
        ('pkg', 'latin_1', 0, b'1144' + bm([4]) + b'00000000\xa012\xa0'),
        ('pkg', 'latin_1', 0, b''), ('pkg', 'latin_1', 1, b'1144'), ('pkg', 'latin_1', 0, b'1144' + bm([])),
    ]
    for cfg, codec, hexbm, data in corpus:
        cases.append({'k': 'msg', 'cfg': cfg, 'codec': codec, 'hex': hexbm, 'data': data.hex(), 'mut': 'corpus'})
    for codec, data in hex_spellings(rng, pkg):
        cases.append({'k': 'msg', 'cfg': 'pkg', 'codec': codec, 'hex': 1, 'data': data.hex(), 'mut': 'hexspelling'})
    for cfg, codec, data in decimal_corpus():
        cases.append({'k': 'msg', 'cfg': cfg, 'codec': codec, 'hex': 0, 'data': data.hex(), 'mut': 'decimal-corpus'})
    # the same texts (everything Decimal()'s grammar knows: exponents, a trailing point, Infinity, NaN, signs, blanks) in an
    # INTEGER element of the packaged configuration (DE4, twelve characters): a value int() reads, or the library error
    for codec in ('latin_1', 'cp500'):
        for raw in DECIMAL_TEXTS:
            for variant in (raw.ljust(12), raw.rjust(12), raw.rjust(12, '0')):
                try:
                    body = variant.encode(codec)
                except UnicodeError:
                    continue
                if len(body) == 12:
                    cases.append({'k': 'msg', 'cfg': 'pkg', 'codec': codec, 'hex': 0,
                                  'data': ('1240'.encode(codec) + bm([4]) + body).hex(), 'mut': 'int-corpus'})
    # card-number elements (the documented PAN and PAN-PREFIX processors, in a caller's configuration) holding characters
    # that str.isdigit() calls digits and int() does not read (superscripts), circled digits, Arabic-Indic digits where the
    # codec has them, blanks, signs — at the first, a middle and the last position
    for proc in ('PAN', 'PAN-PREFIX'):
        pcfg = {'2': {'field_name': 'pan', 'field_type': 'LLVAR', 'field_length': 0, 'field_processor': proc},
                '3': {'field_name': 'pc', 'field_type': 'FIXED', 'field_length': 6}}
        for codec in ('latin_1', 'cp500', 'cp037'):
            odd = [ch for ch in '\xb2\xb3\xb9\xbc\xbd \xa0-+.x' if len(ch.encode(codec, 'ignore')) == 1]
            for ch in odd:
                for at in (0, 7, 14, 15):
                    pan = list('5412750000000001')
                    pan[at] = ch
                    body = '16'.encode(codec) + ''.join(pan).encode(codec) + '000000'.encode(codec)
                    cases.append({'k': 'msg', 'cfg': pcfg, 'codec': codec, 'hex': 0,
                                  'data': ('1240'.encode(codec) + bm([2, 3]) + body).hex(), 'mut': 'pan-corpus'})
    for _ in range(1500 if not thorough else 30000):
        n = rng.choice([0, 3, 4, 19, 20, 21, 36, 40, rng.randrange(0, 200)])
        data = bytes(rng.getrandbits(8) for _ in range(n))
        if rng.random() < 0.5 and n >= 20:
            data = b'1240' + data[4:]
        cases.append({'k': 'msg', 'cfg': 'pkg', 'codec': rng.choice(['latin_1', 'cp500', 'ascii']), 'hex': rng.randrange(2),
                      'data': data.hex(), 'mut': 'random'})
    # files
    from cardutil import mciipm
    for i in range(40 if not thorough else 400):
        codec = ['latin_1', 'cp500'][i % 2]
        blocked = i % 2
        recs = []
        for cfg, c, hexbm, data in rng.sample(seeds, min(4, len(seeds))):
            if cfg == 'pkg' and not hexbm and c == codec:
                recs.append(data)
        if not recs:
            recs = [b'1144' + bm([2]) + b'02' + '12'.encode(codec)]
        good = mciipm.vbs_list_to_bytes(recs, blocked=bool(blocked))
        variants = [good]
        for _ in range(10):
            b = bytearray(good)
            o = rng.randrange(len(b))
            b[o] = rng.choice([0, 0xff, 0x40, b[o] ^ 1, rng.getrandbits(8)])
            variants.append(bytes(b))
            variants.append(good[:rng.randrange(len(good) + 1)])
        for o in range(0, min(len(good), 8)):   # every byte of the first length prefix
            for v in (0x00, 0x01, 0x17, 0x18, 0x80, 0xff):
                variants.append(good[:o] + bytes([v]) + good[o + 1:])
        for j, v in enumerate(variants):
            cases.append({'k': 'file', 'cfg': 'pkg', 'codec': codec, 'b': blocked, 'data': v.hex(),
                          'reader': 'vbs' if (len(v) + i) % 3 == 0 else 'ipm'})
            if j % 3 == 0:          # the same through a non-seekable stream
                cases.append({'k': 'file', 'cfg': 'pkg', 'codec': codec, 'b': blocked, 'data': v.hex(),
                              'reader': 'ipm' if j % 2 else 'vbs', 'pipe': True})
            if (len(v) % 7 == 0 or thorough) and codec in ('latin_1', 'cp500'):
                cases.append({'k': 'cli', 'cfg': 'pkg', 'codec': codec, 'b': blocked, 'data': v.hex(),
                              'tool': 'mci_ipm_to_csv' if i % 2 else 'mideu'})
        # the tools' own error path (they inspect the file with ipm_info before printing the diagnostic): a non-digit
        # in each MTI position and a changed byte in each bitmap position of the FIRST record, and of the second
        if i < (6 if not thorough else 60) and codec in ('latin_1', 'cp500'):
            second = 4 + len(recs[0]) if len(recs) > 1 and not blocked else None
            for base in (0, second):
                if base is None:
                    continue
                for o in range(base + 4, base + 4 + 20):
                    for byte in ('X'.encode(codec)[0], 0x00, 0xff):
                        v = good[:o] + bytes([byte]) + good[o + 1:]
                        for tool in ('mci_ipm_to_csv', 'mideu'):
                            cases.append({'k': 'cli', 'cfg': 'pkg', 'codec': codec, 'b': blocked, 'data': v.hex(), 'tool': tool})
                # the four MTI bytes replaced by characters that are NUMERIC to str.isnumeric() but no digits to int()
                # (superscripts, fractions — x'B2 B3 B9 BC BD BE' in latin-1 and their EBCDIC positions), and by zeros
                for repl in (b'\xb2\xb3\xb9\xbc', b'\xbd\xbe\xb2\xb2', b'\xea\xfa\xda\xb7', b'0000', b'\xf0\xf0\xf0\xf0',
                             b'\xb2000', b'\xf0\xf0\xf0\xea'):
                    v = good[:base + 4] + repl + good[base + 8:]
                    for tool in ('mci_ipm_to_csv', 'mideu'):
                        cases.append({'k': 'cli', 'cfg': 'pkg', 'codec': codec, 'b': blocked, 'data': v.hex(), 'tool': tool})
    # files that hold NO record: empty, the terminator only (plain, in one 1014 block, followed by junk), stray bytes
    # shorter than a length prefix — through both tools and both formats: a diagnostic or an empty table, never a traceback
    for data in (b'', b'\x00' * 4, b'\x00' * 4 + b'\x40' * 1008 + b'\x40\x40', b'\x00' * 4 + b'junk after the end',
                 b'\x00', b'\x00\x00\x00', b'\x40' * 1014, b'\x00' * 1012 + b'\x40\x40'):
        for codec in ('latin_1', 'cp500'):
            for blocked in (0, 1):
                for tool in ('mci_ipm_to_csv', 'mideu'):
                    cases.append({'k': 'cli', 'cfg': 'pkg', 'codec': codec, 'b': blocked, 'data': data.hex(), 'tool': tool})
                cases.append({'k': 'file', 'cfg': 'pkg', 'codec': codec, 'b': blocked, 'data': data.hex(), 'reader': 'ipm'})
    run.correspond(__name__, cases, use_model=run.use_model, chunk=200)
