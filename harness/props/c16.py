"""C16 — masking never discloses more than the first six and last four digits."""
from harness import common

PROP = 'C16'
RULE = ("mask(): card numbers of every length 10..40 over digits and arbitrary characters x a set of mask characters "
        "(plus shorter inputs for the model tie only); decode under configurations that put PAN / PAN-PREFIX on "
        "variable-length elements. Non-trivial = length > 10 (at least one masked position); distinct = distinct "
        "(input, mask char / configuration)")
TRUSTED = ["Model/Card.lean `mask`/`panPrefix` (hand-written; tied by this correspondence)"]
ASSUMPTIONS = ["the mask is a single character"]


def impl_eval(case):
    from cardutil import card
    s, m = case['s'], case['m']
    out = card.mask(s, m)
    why = None
    if len(s) >= 10:
        if len(out) != len(s):
            why = f'masked value has length {len(out)}, input {len(s)}'
        elif out[:6] != s[:6] or out[-4:] != s[-4:]:
            why = 'masked value does not start with the first six / end with the last four characters'
        elif any(ch != m for ch in out[6:-4]):
            why = 'a middle position does not hold the mask character'
    return {'obs': 'ok ' + common.dotted(out), 'violation': why, 'nontrivial': len(s) > 10,
            'tags': [f'len:{min(len(s), 41)}']}


def model_line(case):
    return f"mask\t{common.dotted(case['s'])}\t{ord(case['m'])}"


def explore(run, tier):
    rng = common.rng_for(run.seed, PROP)
    cases = []
    masks = ['*', 'X', '#', ' ', '0', '•', 'é', '9', '-', '\x00', 'x', '.', '?', 'N', '_', '=', '+', 'Z', '1', '~',
             '{', '}', '%', '\\', '$', '&']          # (characters that mean something to a formatting mini-language)
    alpha = '0123456789'
    wild = '0123456789ABCxyz -*é中\x00'
    for n in range(0, 41):
        for m in masks:
            cases.append({'s': ''.join(rng.choice(alpha) for _ in range(n)), 'm': m})
            cases.append({'s': ''.join(rng.choice(wild) for _ in range(n)), 'm': m})
    for n in range(10, 41):
        for ch in '09 *Xé':          # one repeated character (zero-filled placeholders, blanks, the mask character itself)
            cases.append({'s': ch * n, 'm': masks[n % len(masks)]})
    for _ in range(1000 if tier == 'quick' else 50000):
        n = rng.randrange(10, 41)
        cases.append({'s': ''.join(rng.choice(rng.choice([alpha, wild])) for _ in range(n)), 'm': rng.choice(masks)})
    run.exhaustive.append('every length 0..40 x 26 mask characters (digits and arbitrary characters)')
    run.correspond(__name__, cases, use_model=run.use_model)
    from harness.props import c16b
    c16b.explore(run, tier)
