"""C20 — CSV to IPM to CSV returns the same rows."""
import csv
import io
import os
import tempfile

from harness import common, isoutil as iu

PROP = 'C20'
RULE = ("CSV tables over the configured output columns (MTI, DE and PDS columns; derived DE43_* / ICC_DATA excluded), 1..40 "
        "rows, cells well-formed for their element (exact-width fixed text, canonical decimals incl. 0 and the maximum, ISO "
        "date-times across the two-digit-year window, empty = absent, a carrier column never combined with PDS columns), "
        "values containing commas, quotes, leading/trailing spaces and boundary lengths x {latin_1, cp500, cp037} x {VBS, "
        "1014}, through mci_csv_to_ipm / mci_ipm_to_csv (quick: function entry points; thorough: command entry points on "
        "real files too). Non-trivial = at least two non-empty data columns; distinct = distinct (table, codec, format)")
TRUSTED = ["Model/Cli.lean `csvRow` models row -> dict dropping empty cells -> dumps -> loads -> str(); the `csv` module "
           "(quoting, parsing) and dateutil's parser (ISO date-times) are trusted and exercised, not modelled"]
ASSUMPTIONS = ["cells contain no CR/LF (the property speaks of commas, quotes and spaces)",
               "date-time cells are 'YYYY-MM-DD HH:MM:SS'"]

SKIP = ('DE43_', 'ICC_DATA')


def columns():
    from cardutil.config import config
    return [c for c in config['output_data_elements'] if not c.startswith(SKIP)]


def all_columns():
    from cardutil.config import config
    return config['output_data_elements']


# text that spreadsheet / database tooling gives a meaning to: in a CSV cell it is just text
WORDS = ['NULL', 'None', 'null', 'NONE', 'N/A', 'nan', 'NaN', 'TRUE', 'False', '#N/A', '-', '0', '00', '=1+1', '+1', '@x', "'1",
         'inf', '1e5', '0x10', ' ', '""']


def gen_cell(rng, col, codec, pkg):
    special = [',', '"', ' ', '""', "'", ';', ', ', '" "']
    if col == 'MTI':
        return iu.text(rng, codec, 4, 'digits')
    if col.startswith('PDS'):
        if rng.random() < 0.08:
            return rng.choice(WORDS)
        n = rng.choice([1, 2, 5, 30, rng.randrange(1, 200)])
        return tweak(rng, iu.text(rng, codec, n), special)
    fc = pkg.get(col[2:]) if col.startswith('DE') else None
    if fc is None:
        # a column of the configured output list that names no element of the configuration in force: still a column of
        # the table — a short text value
        return iu.text(rng, 'ascii', rng.randrange(1, 9)).strip() or 'x'
    pyt = fc.get('field_python_type')
    if pyt in ('int', 'long'):
        w = fc['field_length']
        return str(rng.choice([0, 1, 10 ** w - 1, rng.randrange(0, 10 ** w)]))
    if pyt == 'datetime':
        d = iu.gen_datetime(rng, fc.get('field_date_format', '%y%m%d'))
        # ISO form: date and time separated by a blank or by the letter T (both are ISO 8601 spellings of the same value)
        return d.strftime('%Y-%m-%d %H:%M:%S') if rng.random() < 0.7 else d.strftime('%Y-%m-%dT%H:%M:%S')
    if fc['field_type'] in ('LLVAR', 'LLLVAR'):
        mx = 99 if fc['field_type'] == 'LLVAR' else 999
        n = rng.choice([1, 2, 10, mx, rng.randrange(1, mx + 1), rng.randrange(1, 25)])
        if not fc.get('field_processor') and rng.random() < 0.08:
            return rng.choice(WORDS)
        if fc.get('field_processor') == 'PDS':
            ents = [(rng.randrange(10000), tweak(rng, iu.text(rng, codec, rng.randrange(0, 20)), special))
                    for _ in range(rng.randrange(1, 4))]
            return iu.pds_text(ents)
        return tweak(rng, iu.text(rng, codec, n), special)
    return tweak(rng, iu.text(rng, codec, fc['field_length']), special)


def tweak(rng, s, special):
    """put CSV metacharacters and edge spaces into a value without changing its length"""
    if not s or rng.random() < 0.5:
        return s
    s = list(s)
    for _ in range(rng.randrange(1, 3)):
        ch = rng.choice(special)
        if len(ch) <= len(s):
            i = rng.choice([0, len(s) - len(ch), rng.randrange(0, len(s) - len(ch) + 1)])
            s[i:i + len(ch)] = ch
    return ''.join(s).replace('\r', ' ').replace('\n', ' ')


def same_cell(col, a, b):
    """cell equality: text, except for date-time columns where two ISO spellings of one instant are the same value"""
    if a == b:
        return True
    from cardutil.config import config
    fc = config['bit_config'].get(col[2:], {}) if col.startswith('DE') else {}
    if fc.get('field_python_type') == 'datetime' and a and b:
        import datetime
        try:
            return datetime.datetime.fromisoformat(a) == datetime.datetime.fromisoformat(b)
        except ValueError:
            return False
    return False


def make_csv(rows, cols, quote_all=False):
    out = io.StringIO(newline='')
    w = csv.DictWriter(out, fieldnames=cols, lineterminator='\n', quoting=csv.QUOTE_ALL if quote_all else csv.QUOTE_MINIMAL)
    w.writeheader()
    for r in rows:
        w.writerow(r)
    return out.getvalue()


def impl_eval(case):
    from cardutil.cli import mci_csv_to_ipm, mci_ipm_to_csv
    from cardutil.config import config
    rows, cols = case['rows'], case['cols']
    codec, blocked = case['codec'], bool(case['b'])
    text = make_csv(rows, cols, bool(case.get('quoteall')))
    why = None
    try:
        if case.get('cli'):
            d = tempfile.mkdtemp(prefix='verif_c20_')
            try:
                import contextlib
                p = os.path.join(d, 'in.csv')
                open(p, 'w', encoding='utf-8', newline='').write(text)
                csv_enc = {} if case.get('defaultenc') else {'in_encoding': 'utf-8'}
                csv_out = {} if case.get('defaultenc') else {'out_encoding': 'utf-8'}
                ipm_enc_w = {} if case.get('noipmenc') else {'out_encoding': codec}
                ipm_enc_r = {} if case.get('noipmenc') else {'in_encoding': codec}
                if case.get('defaultenc'):       # no --in-encoding / --out-encoding: the platform's text encoding both ways
                    open(p, 'w', newline='').write(text)
                extra = {}
                saved_env = os.environ.get('CARDUTIL_CONFIG')
                if case.get('cfgfile'):
                    # --config-file with the packaged configuration plus element 7 (which the packaged one lacks) in the
                    # bit configuration and in the output columns; optionally a CARDUTIL_CONFIG directory holding a
                    # DIFFERENT site configuration, over which the file named on the command line takes precedence
                    import copy
                    import json
                    cfg = copy.deepcopy(config)
                    cfg['bit_config']['7'] = {'field_name': 'extra', 'field_type': 'FIXED', 'field_length': 10}
                    cfg['output_data_elements'] = list(cfg['output_data_elements']) + ['DE7']
                    cpath = os.path.join(d, 'my.json')
                    json.dump(cfg, open(cpath, 'w'))
                    extra['config_file'] = cpath
                    if case['cfgfile'] == 'env':
                        site = copy.deepcopy(config)
                        site['output_data_elements'] = ['MTI', 'DE2']
                        os.mkdir(os.path.join(d, 'site'))
                        json.dump(site, open(os.path.join(d, 'site', 'cardutil.json'), 'w'))
                        os.environ['CARDUTIL_CONFIG'] = os.path.join(d, 'site')
                try:
                    with contextlib.redirect_stdout(io.StringIO()), contextlib.redirect_stderr(io.StringIO()):
                        if case.get('argv'):
                            # through the tools' own ARGUMENT PARSERS, the IPM encoding named as the caller spells it
                            # (any name Python knows the codec by: 'latin-1', 'ibm500', 'IBM037', ...)
                            name = case['argv']
                            sw = [] if blocked else ['--no1014blocking']
                            try:
                                a1 = mci_csv_to_ipm.cli_parser().parse_args(
                                    [p, '-o', p + '.ipm', '--in-encoding', 'utf-8', '--out-encoding', name] + sw)
                                a2 = mci_ipm_to_csv.cli_parser().parse_args(
                                    [p + '.ipm', '-o', p + '.out.csv', '--in-encoding', name, '--out-encoding', 'utf-8'] + sw)
                            except SystemExit as se:
                                raise RuntimeError(f'the argument parser refused the options (exit {se.code})')
                            mci_csv_to_ipm.cli_run(**vars(a1))
                            mci_ipm_to_csv.cli_run(**vars(a2))
                        else:
                            mci_csv_to_ipm.cli_run(in_filename=p, out_filename=p + '.ipm', **ipm_enc_w,
                                                   no1014blocking=not blocked, **csv_enc, **extra)
                            mci_ipm_to_csv.cli_run(in_filename=p + '.ipm', out_filename=p + '.out.csv', **ipm_enc_r,
                                                   no1014blocking=not blocked, **csv_out, **extra)
                finally:
                    if case.get('cfgfile') == 'env':
                        if saved_env is None:
                            os.environ.pop('CARDUTIL_CONFIG', None)
                        else:
                            os.environ['CARDUTIL_CONFIG'] = saved_env
                got_text = (open(p + '.out.csv', 'r', newline='') if case.get('defaultenc')
                            else open(p + '.out.csv', 'r', encoding='utf-8', newline='')).read()
            finally:
                import shutil
                shutil.rmtree(d, ignore_errors=True)
        else:
            ipm = io.BytesIO()
            ipm.close = lambda: None
            # the blocking option as a caller may spell it: True / False, or — for a blocked file — None, 0 or left out
            nb = {'no1014blocking': not blocked}
            if blocked and case.get('nb') in ('none', 'zero'):
                nb = {'no1014blocking': None if case['nb'] == 'none' else 0}
            elif blocked and case.get('nb') == 'omit':
                nb = {}
            mci_csv_to_ipm.mci_csv_to_ipm(in_csv=io.StringIO(text, newline=''), out_ipm=ipm, config=config,
                                          out_encoding=codec, **nb)
            out = io.StringIO(newline='')
            # the file handed on: a fresh file object over the bytes written, or the SAME object as the creator left it
            # (finalised and rewound, like every file the library's writer closes)
            mci_ipm_to_csv.mci_ipm_to_csv(in_ipm=ipm if case.get('samefile') else io.BytesIO(ipm.getvalue()), out_csv=out,
                                          config=config, in_encoding=codec, **nb)
            got_text = out.getvalue()
    except Exception as ex:  # noqa
        return {'obs': 'escape:' + type(ex).__name__, 'violation': f'CSV -> IPM -> CSV failed: {ex!r}'}
    got = list(csv.DictReader(io.StringIO(got_text, newline='')))
    if len(got) != len(rows):
        why = f'{len(rows)} rows in, {len(got)} rows out'
    else:
        for i, (a, b) in enumerate(zip(rows, got)):
            bad = [c for c in cols if not same_cell(c, a.get(c, ''), b.get(c, ''))
                   and not (case.get('supplied_only') and a.get(c, '') == '')]
            if bad:
                why = f'row {i + 1}: column {bad[0]} was {a.get(bad[0], "")!r}, came back {b.get(bad[0])!r}'
                break
    keep = set(columns())
    obs = '|'.join(';'.join(sorted(f'{iu.key_wire(k)}=s{common.dotted(v)}' for k, v in r.items() if v and k in keep))
                   for r in got)
    ncols = max((sum(1 for v in r.values() if v) for r in rows), default=0)
    return {'obs': 'ok ' + obs, 'violation': why, 'nontrivial': ncols >= 3,
            'tags': [f'codec:{codec}', f"fmt:{'1014' if blocked else 'vbs'}", 'cli' if case.get('cli') else 'func',
                     f'rows:{min(len(rows), 9)}']}


def model_line(case):
    if case.get('cfgfile'):
        return None          # a configuration the model's packaged tables do not have: judged by the round trip itself
    rows = ['|'.join([]) for _ in ()]
    wires = []
    from cardutil.config import config
    def norm(k, v):
        # the model's date parser reads 'YYYY-MM-DD HH:MM:SS'; the letter T between date and time is the same value in the
        # other ISO spelling (what the installed date parser makes of it is measured on the implementation side)
        fc = config['bit_config'].get(k[2:], {}) if k.startswith('DE') else {}
        if fc.get('field_python_type') == 'datetime' and len(v) == 19 and v[10] == 'T':
            return v[:10] + ' ' + v[11:]
        return v
    for r in case['rows']:
        wires.append(';'.join(f'{iu.key_wire(k)}=s{common.dotted(norm(k, v))}' for k, v in r.items()))
    return f"cli.csvrows\t{case['codec']}\t{case['codec']}\t" + '|'.join(wires)


def model_obs(case, resp):
    if not resp.startswith('ok '):
        return resp
    keep = {iu.key_wire(c) for c in columns()}
    out = []
    for row in resp[3:].split('|') if resp[3:] else []:
        cells = [c for c in row.split(';') if c and c.split('=')[0] in keep and c.split('=')[1] != 's']
        out.append(';'.join(sorted(cells)))
    if len(case['rows']) == 1 and not out:
        out = ['']
    return 'ok ' + '|'.join(out)


def explore(run, tier):
    rng = common.rng_for(run.seed, PROP)
    pkg = iu.pkg_config()
    cols = columns()
    carriers = [c for c in cols if c.startswith('DE') and pkg.get(c[2:], {}).get('field_processor') == 'PDS']
    pdscols = [c for c in cols if c.startswith('PDS')]
    cases = []
    n = 300 if tier == 'quick' else 3000
    for i in range(n):
        codec = ['latin_1', 'cp500', 'cp037'][i % 3]
        nrows = rng.choice([1, 2, 3, 10]) if i % 25 else 40
        use_carrier = rng.random() < 0.3
        table_cols = ['MTI'] + [c for c in cols if c != 'MTI' and rng.random() < rng.choice([0.2, 0.5, 1.0])
                                and not (c in pdscols and use_carrier) and not (c in carriers and not use_carrier)]
        rows = []
        for _ in range(nrows):
            r = {}
            for c in table_cols:
                r[c] = gen_cell(rng, c, codec, pkg) if (c == 'MTI' or rng.random() < 0.8) else ''
            rows.append(r)
        cases.append({'rows': rows, 'cols': table_cols, 'codec': codec, 'b': i % 2,
                      'cli': (tier == 'thorough' and i % 3 == 0) or i % 40 == 0})
    # every cell QUOTED, header line included (what spreadsheet exports with "quote all" produce); the function entry points
    # chained on ONE in-memory file; the blocking option spelt None / 0 / left out, on tables longer than one block
    for i, codec in enumerate(('latin_1', 'cp500', 'cp037')):
        rows = [{'MTI': '1240', 'DE2': '5' * 16, 'DE42': f'MERCHANT {j:06d}', 'DE38': f'A{j:04d} '} for j in range(40)]
        tcols = ['MTI', 'DE2', 'DE38', 'DE42']
        for b in (0, 1):
            cases.append({'rows': rows[:5], 'cols': tcols, 'codec': codec, 'b': b, 'cli': False, 'quoteall': True})
            cases.append({'rows': rows[:5], 'cols': tcols, 'codec': codec, 'b': b, 'cli': True, 'quoteall': True})
            cases.append({'rows': rows, 'cols': tcols, 'codec': codec, 'b': b, 'cli': False, 'samefile': True})
            cases.append({'rows': rows[:2], 'cols': tcols, 'codec': codec, 'b': b, 'cli': False, 'samefile': True})
        for nb in ('none', 'zero', 'omit'):
            cases.append({'rows': rows, 'cols': tcols, 'codec': codec, 'b': 1, 'cli': False, 'nb': nb})
            cases.append({'rows': rows[:3], 'cols': tcols, 'codec': codec, 'b': 1, 'cli': False, 'nb': nb, 'samefile': bool(i % 2)})
    # tables that hold file header / trailer messages (1644 with function code 697 / 695) in the MIDDLE, several of them,
    # trailer before header, message numbers descending: the rows come back in the order given, with the values given
    if 'DE24' in cols and 'DE71' in cols:
        for ci, codec in enumerate(('latin_1', 'cp500', 'cp037')):
            for cli in (False, True):
                rows = [{'MTI': '1240', 'DE2': '5' * 16, 'DE24': '200', 'DE71': '40'},
                        {'MTI': '1644', 'DE2': '', 'DE24': '695', 'DE71': '30'},
                        {'MTI': '1240', 'DE2': '4' * 16, 'DE24': '200', 'DE71': '20'},
                        {'MTI': '1644', 'DE2': '', 'DE24': '697', 'DE71': '10'},
                        {'MTI': '1644', 'DE2': '', 'DE24': '697', 'DE71': '10'},
                        {'MTI': '1240', 'DE2': '3' * 16, 'DE24': '205', 'DE71': '5'},
                        {'MTI': '1644', 'DE2': '', 'DE24': '695', 'DE71': '99999999'}]
                cases.append({'rows': rows, 'cols': ['MTI', 'DE2', 'DE24', 'DE71'], 'codec': codec, 'b': (ci + int(cli)) % 2, 'cli': cli})
    # the commands through their own argument parsers, the IPM encoding named by an ALIAS of the codec
    for name, canon in (('latin-1', 'latin_1'), ('iso-8859-1', 'latin_1'), ('ibm500', 'cp500'), ('IBM037', 'cp037'),
                        ('cp500', 'cp500'), ('L1', 'latin_1')):
        for b in (0, 1):
            rows = [{'MTI': '1240', 'DE2': '5' * 16, 'DE42': f'MERCHANT {j:06d}', 'DE38': f'A{j:04d} '} for j in range(3)]
            cases.append({'rows': rows, 'cols': ['MTI', 'DE2', 'DE38', 'DE42'], 'codec': canon, 'b': b, 'cli': True, 'argv': name})
    # through the COMMAND entry points on real files: tables whose records are mostly blanks (0x40 in EBCDIC), so that an
    # unblocked file has 0x40 0x40 where block trailers would be (offsets 1012-1013, 2026-2027, ...): the options given
    # on the command line decide the format, not the content
    if 'PDS0158' in cols:
        for codec in ('cp500', 'cp037', 'latin_1'):
            for b in (0, 1):
                for width in (900, 950, 992):
                    rows = [{'MTI': '1240', 'DE2': '5' * 16, 'PDS0158': 'X' + ' ' * (width - 2) + 'X'} for _ in range(6)]
                    cases.append({'rows': rows, 'cols': ['MTI', 'DE2', 'PDS0158'], 'codec': codec, 'b': b, 'cli': True})
                    cases.append({'rows': rows, 'cols': ['MTI', 'DE2', 'PDS0158'], 'codec': codec, 'b': b, 'cli': False})
    # the command entry points with NO text-encoding option (platform default on both sides) and non-ASCII cells
    import locale
    try:
        'CAFÉ Ölß Ü naïve señor'.encode(locale.getpreferredencoding(False))
        default_ok = True
    except (UnicodeError, LookupError):
        default_ok = False          # a platform whose default text encoding cannot hold these cells: nothing to test
    for codec in (('latin_1', 'cp500') if default_ok else ()):
        for b in (0, 1):
            rows = [{'MTI': '1240', 'DE2': '5' * 16, 'PDS0023': v} for v in ('CAFÉ', 'Ölß Ü', 'naïve señor', 'plain')]
            cases.append({'rows': rows, 'cols': ['MTI', 'DE2', 'PDS0023'], 'codec': codec, 'b': b, 'cli': True,
                          'defaultenc': True})
    # the commands with the CSV text encoding given (utf-8) and NO encoding for the IPM side: the IPM file is written and
    # read in the documented default (latin-1), whatever the CSV's encoding is
    for b in (0, 1):
        rows = [{'MTI': '1240', 'DE2': '5' * 16, 'DE42': 'CAF\xc9 M\xdcNCHEN 01', 'DE38': 'AB\xa3 5 '},
                {'MTI': '1240', 'DE2': '4' * 16, 'DE42': 'Stra\xdfe \xa35      ', 'DE38': 'plain '}]
        cases.append({'rows': rows, 'cols': ['MTI', 'DE2', 'DE38', 'DE42'], 'codec': 'latin_1', 'b': b, 'cli': True,
                      'noipmenc': True})
    # tables that have PDS columns AND a carrier column: each row uses one or the other (what a row supplies is decided
    # row by row, not from the header)
    if 'PDS0158' in cols and 'DE48' in cols:
        for codec in ('latin_1', 'cp500'):
            for b in (0, 1):
                rows = []
                for i in range(6):
                    r = {'MTI': '1240', 'DE2': '5' * 16, 'PDS0158': '', 'PDS0023': '', 'DE48': ''}
                    if i % 2:
                        r['PDS0158'] = 'ROW%d VALUE' % i
                        r['PDS0023'] = 'T%02d' % i
                    else:
                        r['DE48'] = iu.pds_text([(1, 'A%d' % i), (9998, 'DIRECT %d' % i)])
                    rows.append(r)
                # (a cell the row leaves empty may come back filled with what the other representation implies: the
                # carrier of the row's PDS cells — only the supplied cells are compared)
                cases.append({'rows': rows, 'cols': ['MTI', 'DE2', 'DE48', 'PDS0023', 'PDS0158'], 'codec': codec, 'b': b,
                              'cli': b == 1, 'supplied_only': True})
    # the command entry points with --config-file (an element the packaged configuration lacks, first in the first
    # record), alone and together with a CARDUTIL_CONFIG directory holding another configuration
    for codec in ('latin_1', 'cp500'):
        for b in (0, 1):
            for how in ('file', 'env'):
                rows = [{'MTI': '1240', 'DE2': '5' * 16, 'DE7': f'{i:010d}', 'DE38': 'AB12 Z'} for i in range(3)]
                cases.append({'rows': rows, 'cols': ['MTI', 'DE2', 'DE7', 'DE38'], 'codec': codec, 'b': b, 'cli': True,
                              'cfgfile': how})
    # cells that hold LINES (a quoted cell may contain line feeds, also two in a row and lines of blanks only): a cell is a
    # value, whatever it looks like to a line-oriented reader; function and command entry points
    if 'PDS0023' in cols:
        for codec in ('latin_1', 'cp500'):
            for b in (0, 1):
                for cli in (True, False):
                    rows = [{'MTI': '1240', 'DE2': '5' * 16, 'PDS0023': v, 'DE42': w.ljust(15)}
                            for v, w in (('A\n\nB', 'M1'), ('A\n  \nB', 'LINE\n\nTWO'), ('\nX', ' \n \n '), ('X\n', 'M4'),
                                         ('one,\n"two"\n\n\nthree', 'M5'), ('plain', 'M6'))]
                    cases.append({'rows': rows, 'cols': ['MTI', 'DE2', 'DE42', 'PDS0023'], 'codec': codec, 'b': b, 'cli': cli})
    # card numbers keyed in GROUPS (blanks or hyphens between groups of digits) and date-times with the letter T: a cell is
    # a value, however it happens to look
    for codec in ('latin_1', 'cp500'):
        for cli in (True, False):
            rows = [{'MTI': '1240', 'DE2': v, 'DE12': t, 'DE42': 'M'.ljust(15)}
                    for v, t in (('5412 7500 0000 0001', '2024-02-29T23:59:58'), ('5412-7500-0000-0001', '2024-02-29 23:59:58'),
                                 ('4000 123456 78901', '2031-12-31T00:00:00'), ('6011 0000 0000 0004 123', '2000-01-01T12:00:00'),
                                 ('5412750000000001', '1999-12-31T23:59:59'))]
            cases.append({'rows': rows, 'cols': ['MTI', 'DE2', 'DE12', 'DE42'], 'codec': codec, 'b': int(cli), 'cli': cli})
    # tables whose FIRST column is a text column, with values that begin like something else to a line-oriented reader:
    # a hash, a semicolon, two slashes, a blank, a quote — every line of a table is a row
    if 'DE42' in cols and 'DE38' in cols:
        for codec in ('latin_1', 'cp500'):
            for cli in (True, False):
                rows = [{'DE42': v.ljust(15), 'MTI': '1240', 'DE2': '5' * 16, 'DE38': w}
                        for v, w in (('#HASH SHOP', 'A1B2C3'), ('PLAIN', '#12345'), ('; SEMI', 'ZZZZZZ'), ('// SLASH', '//////'),
                                     (' LEADING', ' X    '), ('#', '######'), ('"Q" SHOP', '"a,b" '))]
                cases.append({'rows': rows, 'cols': ['DE42', 'MTI', 'DE2', 'DE38'], 'codec': codec, 'b': int(cli), 'cli': cli})
                cases.append({'rows': rows, 'cols': ['DE38', 'DE42', 'DE2', 'MTI'], 'codec': codec, 'b': 1 - int(cli), 'cli': cli})
    run.correspond(__name__, cases, use_model=run.use_model, chunk=12)
