"""C18 — parameter extraction returns exactly the requested table's rows and columns."""
import csv
import io

from harness import common, isoutil as iu
from harness.props.vbsutil import read_all, KeepOpen

PROP = 'C18'
RULE = ("synthetic parameter extract files: a table index with random sub-id assignments (incl. re-assigned sub-ids and "
        "non-index records before the trailer), the IP0000T1 trailer, then 0..many rows of several tables interleaved; "
        "every configured table and generated layouts; runs of 1500 / 2600 consecutive rows of other tables; compressed and expanded representation of the same logical rows; "
        "latin_1 / cp500; VBS / 1014; plus files without trailer and unconfigured tables; rows compared with an "
        "independent slicing of the generated logical rows, CSV of mci_ipm_param_to_csv compared cell by cell. Non-trivial "
        "= at least two tables present in the data rows; distinct = distinct (file, table, representation)")
TRUSTED = ["Model/Param.lean models IpmParamReader (index scan, row filter, column slicing with the -8 offset), over the "
           "record list of the VBS model; mci_parameter_tables is re-translated from /repo on every run"]
ASSUMPTIONS = ["single-byte codecs; csv module trusted for the CSV comparison"]

FILL = 'abcdefghijklmnopqrstuvwxyzABCDEFGHIJKLMNOPQRSTUVWXYZ0123456789 .-,,"' + "\\\x00\x7f';%|\xa0\n\n"  


def layouts():
    from cardutil.config import config
    return config['mci_parameter_tables']


def build(case):
    """file bytes + expected rows for the requested table"""
    rng = common.rng_for(case['seed'], 'c18file')
    lay = case.get('layout') or layouts().get(case['table'])
    all_layouts = dict(layouts())
    if case.get('layout'):
        all_layouts[case['table']] = case['layout']
    tables = case['tables']
    recs = []
    index = {}
    subids = {}
    n = 0
    for t in tables:
        n += 1
        sub = f'{rng.randrange(1000):03d}' if rng.random() < 0.8 else f'{n:03d}'
        if case.get('alphasub'):
            # sub-ids that are not three digits: letters, blanks, a sign — a sub-id is three characters of the index entry
            sub = ['A36', ' 06', '3 6', '-06', 'ABC', '0A0', 'x_y', '  7'][(n + case['seed']) % 8]
        rec = list(' ' * 300)
        if rng.random() < 0.5:
            # free text in the columns the reader does not look at (a description), with characters whose case mapping
            # changes length (ß) or that are not ASCII
            for pos in range(27, 243):
                if rng.random() < 0.3:
                    rec[pos] = rng.choice('abcdefghijxyz -,' if case.get('rawgap') or case.get('ascii7') else 'abcdefghijxyz ßÄöü-,')
        rec[0:10] = '2023010100'
        rec[10:11] = rng.choice('AAI')        # the index entry's own active / inactive code does not select rows
        rec[11:19] = 'IP0000T1'
        rec[19:27] = t
        rec[243:246] = sub
        index[sub] = t            # dict semantics: a sub-id assigned twice points to the later table
        subids.setdefault(t, []).append(sub)      # a table indexed twice owns BOTH sub-ids
        recs.append(''.join(rec))
        if rng.random() < 0.2:
            recs.append('HEADER ' + ''.join(rng.choice(FILL[:60] if case.get('rawgap') else FILL)
                                            for _ in range(rng.randrange(20, 120))))
    if not case.get('notrailer'):
        recs.append('TRAILER RECORD IP0000T1  ' + f'{len(tables):08d}')
    expected = []
    run_at = case['nrows'] // 2 if case.get('run') else None
    for i in range(case['nrows'] + case.get('run', 0)):
        t = rng.choice(tables + ['IP0999T9'])
        if run_at is not None and run_at <= i < run_at + case['run']:
            # a long RUN of consecutive rows of other tables (real extracts hold thousands per table, one table after
            # the other): skipping them must not cost stack depth
            t = rng.choice([x for x in tables + ['IP0999T9'] if x != case['table']])
        width = 260
        body = [rng.choice(FILL) for _ in range(width)]
        if case.get('ascii7'):
            body = [ch if ' ' <= ch < '\x7f' else 'x' for ch in body]
        if case.get('selfref') and i % 3 != 2:
            # a column that REFERS to a table: the first eight value characters of the row (positions 11..18 of a
            # compressed row, 19..26 of an expanded one) spell a table id — the requested one, or another
            body[19:27] = list(case['table'] if i % 3 == 0 else tables[i % len(tables)])
        eff = ''.join(rng.choice('0123456789') for _ in range(10))
        code = rng.choice('AI')
        sub = rng.choice(subids[t]) if t in subids else '999'
        if case['expanded']:
            row = eff + code + t + ''.join(body[19:])
            effv = eff
        else:
            row = eff[:7] + code + sub + ''.join(body[19:])
            effv = eff[:7]
        if rng.random() < 0.1 or (run_at is not None and run_at <= i < run_at + case['run']):
            row = row[:rng.randrange(11, 40)]        # short row: slices come back short, never an error
        if case.get('rawgap') and lay:
            # bytes the file's character set does not have, at positions NO column (and no header field) covers: a column is
            # decoded from its own bytes, whatever stands between the columns
            off = 0 if case['expanded'] else 8
            covered = set(range(0, 19 - off))
            for v in lay.values():
                covered.update(range(v['start'] - off, v['end'] - off))
            row = ''.join('\xe9' if (p not in covered and p % 3 == 0) else
                          (ch if ord(ch) < 128 and ch not in '\x00\x7f' else 'x') for p, ch in enumerate(row))
        recs.append(row)
        if rng.random() < 0.08:
            # every table of a real extract ends with its own trailer row: not a row of any table, and NOT the end of the
            # index (only the IP0000T1 trailer is)
            recs.append(f'TRAILER RECORD {rng.choice(tables)}  {rng.randrange(10 ** 8):08d}')
        resolved = row[11:19] if case['expanded'] else index.get(row[8:11])
        if resolved == case['table'] and lay:
            off = 0 if case['expanded'] else 8
            expected.append({'table_id': case['table'], 'effective_timestamp': effv, 'active_inactive_code': code,
                             **{c: row[v['start'] - off:v['end'] - off] for c, v in lay.items()}})
    from cardutil import mciipm
    enc = 'latin_1' if case.get('rawgap') else case['codec']
    data = mciipm.vbs_list_to_bytes([r.encode(enc) for r in recs], blocked=bool(case['b']))
    if case.get('cut'):
        data = data[:len(data) - case['cut']]
    return data, expected


def pair_eval(case):
    """TWO readers on two files (different index assignments) created one after the other and only then iterated: each
    returns the rows of its own file"""
    from cardutil import mciipm
    built = [build(c) for c in case['pair']]
    kw = {}
    shared = None
    if case.get('sharedlayout'):
        # ONE layout object handed to both readers (a caller keeps one configuration): each still returns its own rows
        import copy
        shared = {c['table']: copy.deepcopy(c['layout']) for c in case['pair']}
        kw = {'param_config': shared}
    readers = [mciipm.IpmParamReader(io.BytesIO(d), c['table'], encoding=c['codec'], blocked=bool(c['b']),
                                     expanded=bool(c['expanded']), **kw) for (d, _), c in zip(built, case['pair'])]
    why = None
    obs = []
    results = []
    if case.get('zipped'):
        # both readers advanced in turns (zip): a row of one is read between two rows of the other
        its = [iter(r) for r in readers]
        outs = [[], []]
        ends = [None, None]
        live = [True, True]
        while any(live):
            for i in (0, 1):
                if live[i]:
                    try:
                        outs[i].append(next(its[i]))
                    except StopIteration:
                        live[i] = False
                    except Exception as ex:  # noqa
                        live[i], ends[i] = False, ex
        results = list(zip(outs, ends))
    for i, (r, (_, expected)) in enumerate(zip(readers, built)):
        rows, exc = results[i] if results else read_all(r)
        obs.append(f'{len(rows)}:{"eof" if exc is None else type(exc).__name__}')
        if why is None and (exc is not None or rows != expected):
            why = (f'reader {i + 1} of two created before either was iterated returned {len(rows)} rows '
                   f'({"end of data" if exc is None else type(exc).__name__}); its own file holds {len(expected)} rows of the table')
    return {'obs': 'ok ' + ' '.join(obs), 'violation': why, 'nontrivial': True, 'tags': ['two-readers']}


def impl_eval(case):
    if 'pair' in case:
        return pair_eval(case)
    from cardutil import mciipm
    from cardutil.cli import mci_ipm_param_to_csv
    data, expected = build(case)
    kw = dict(encoding=case['codec'], blocked=bool(case['b']), expanded=bool(case['expanded']))
    lay_arg = None
    if case.get('layout'):
        import copy as _copy
        lay_arg = _copy.deepcopy(case['layout'])
        kw['param_config'] = {case['table']: lay_arg}
    try:
        reader = mciipm.IpmParamReader(io.BytesIO(data), case['table'], **kw)
        rows, exc = read_all(reader)
    except Exception as ex:  # noqa
        rows, exc = [], ex
    # (the layout is handed over as a copy so that whatever a reader may note in it stays out of the case description;
    # what counts is the rows — two readers sharing ONE layout object are compared in the pair scenarios)
    end = 'eof' if exc is None else ('err' if isinstance(exc, mciipm.MciIpmDataError) else 'escape:' + type(exc).__name__)
    why = None
    lay = case.get('layout') or layouts().get(case['table'])
    if case.get('notrailer') or not lay:
        if end != 'err' or rows:
            why = (f"a file without the index trailer / a table without configuration was not refused with the library "
                   f"error ({end}, {len(rows)} rows)")
    elif not case.get('cut'):
        if end != 'eof':
            why = f'iteration ended with {end}'
        elif rows != expected:
            k = next((i for i, (a, b) in enumerate(zip(rows, expected)) if a != b), min(len(rows), len(expected)))
            why = f'{len(rows)} rows returned, {len(expected)} expected; first difference at row {k}'
        elif case.get('cfgfile'):
            # the COMMAND entry point with --config-file naming the layout (alone, or with a CARDUTIL_CONFIG directory
            # that holds another layout for the same table: the file named on the command line takes precedence)
            import contextlib
            import copy
            import json
            import os
            import shutil
            import tempfile
            from cardutil.config import config as pkgconf
            d = tempfile.mkdtemp(prefix='verif_c18_')
            saved = os.environ.get('CARDUTIL_CONFIG')
            try:
                mine = copy.deepcopy(pkgconf)
                mine['mci_parameter_tables'] = {case['table']: lay}
                json.dump(mine, open(os.path.join(d, 'my.json'), 'w'))
                open(os.path.join(d, 'in.bin'), 'wb').write(data)
                if case['cfgfile'] == 'env':
                    site = copy.deepcopy(pkgconf)
                    site['mci_parameter_tables'] = {case['table']: {'other': {'start': 19, 'end': 21}}}
                    os.mkdir(os.path.join(d, 'site'))
                    json.dump(site, open(os.path.join(d, 'site', 'cardutil.json'), 'w'))
                    os.environ['CARDUTIL_CONFIG'] = os.path.join(d, 'site')
                # --out-encoding given, or left out: the CSV is then a text file in the platform's default encoding,
                # whatever the extract's own character set is
                oenc = None if case.get('noout') else 'utf-8'
                with contextlib.redirect_stdout(io.StringIO()):
                    mci_ipm_param_to_csv.cli_run(in_filename=os.path.join(d, 'in.bin'), table_id=case['table'],
                                                 out_filename=os.path.join(d, 'out.csv'), in_encoding=case['codec'],
                                                 out_encoding=oenc, no1014blocking=not case['b'],
                                                 expanded=bool(case['expanded']), config_file=os.path.join(d, 'my.json'))
                try:
                    got = list(csv.DictReader(open(os.path.join(d, 'out.csv'), encoding=oenc, newline='')))
                except UnicodeDecodeError:
                    got = None
                if got is None:
                    why = ('the CSV written by the mci_ipm_param_to_csv command '
                           + ('without --out-encoding is not text in the default encoding' if oenc is None
                              else 'is not text in the requested output encoding'))
                elif got != [{k: v for k, v in e.items()} for e in expected]:
                    why = 'CSV written by the mci_ipm_param_to_csv command with --config-file differs from the expected rows'
            finally:
                if saved is None:
                    os.environ.pop('CARDUTIL_CONFIG', None)
                else:
                    os.environ['CARDUTIL_CONFIG'] = saved
                shutil.rmtree(d, ignore_errors=True)
        elif case.get('csv'):
            out = io.StringIO(newline='')
            cfg = {case['table']: lay}
            mci_ipm_param_to_csv.mci_ipm_param_to_csv(in_param=io.BytesIO(data), out_csv=out, table_id=case['table'],
                                                      config=cfg, in_encoding=case['codec'],
                                                      no1014blocking=not case['b'], expanded=bool(case['expanded']))
            got = list(csv.DictReader(io.StringIO(out.getvalue(), newline='')))
            if got != [{k: v for k, v in e.items()} for e in expected]:
                why = 'CSV written by mci_ipm_param_to_csv differs cell by cell from the expected rows'
    body = '|'.join(','.join(common.dotted(v) for v in r.values()) for r in rows)
    return {'obs': f'ok {body} {end}', 'violation': why, 'nontrivial': len(set(case['tables'])) >= 2 and case['nrows'] > 1,
            'tags': [f"tbl:{case['table']}", 'expanded' if case['expanded'] else 'compressed',
                     f"fmt:{'1014' if case['b'] else 'vbs'}", f"codec:{case['codec']}", f'end:{end}']}


def model_line(case):
    if 'pair' in case:
        return None
    data, _ = build(case)
    if case.get('layout'):
        cols = ','.join(f"{v['start']}:{v['end']}" for v in case['layout'].values())
    else:
        cols = 'pkg'
    return (f"param\t{case['codec']}\t{case['expanded']}\t{common.dotted(case['table'])}\t{cols}\t{case['b']}\t"
            f"hex:{data.hex()}")


def gen_layout(rng):
    lay, pos = {}, 19
    for i in range(rng.randrange(1, 12)):
        pos += rng.choice([0, 0, 1, 3])
        w = rng.choice([1, 2, 3, 6, 11, 28])
        lay[f'col{i}'] = {'start': pos, 'end': pos + w}
        pos += w
    return lay


def explore(run, tier):
    rng = common.rng_for(run.seed, PROP)
    cases = []
    configured = list(layouts())
    n = 300 if tier == 'quick' else 5000
    for i in range(n):
        tables = rng.sample(configured + ['IP0012T1', 'IP0072T1'], rng.randrange(1, 6))
        if rng.random() < 0.3:
            tables.append(tables[0])          # the same table indexed twice (second sub-id wins for that table)
        table = rng.choice(configured)
        base = {'seed': rng.getrandbits(40), 'tables': tables, 'nrows': rng.choice([0, 1, 2, 5, 12, 40]),
                'codec': rng.choice(['latin_1', 'cp500']), 'b': rng.randrange(2), 'table': table}
        for expanded in (0, 1):
            cases.append(dict(base, expanded=expanded, csv=(i % 5 == 0)))
        if i % 4 == 1:
            for expanded in (0, 1):
                cases.append(dict(base, expanded=expanded, selfref=True, nrows=max(base['nrows'], 6)))
        if i % 4 == 2:
            for expanded in (0, 1):
                cases.append(dict(base, expanded=expanded, alphasub=True, nrows=max(base['nrows'], 6)))
        if i % 6 == 0:
            lay = gen_layout(rng)
            t = rng.choice(tables)
            for expanded in (0, 1):
                cases.append(dict(base, expanded=expanded, table=t, layout=lay))
            for expanded in (0, 1):
                cases.append(dict(base, expanded=expanded, table=t, layout=lay, codec='ascii', rawgap=True))
            if i % 12 == 0:
                plain = dict(base, codec='latin_1')       # text free of characters the default CSV encoding lacks
                cases.append(dict(plain, expanded=i % 24 // 12, table=t, layout=lay, cfgfile='file'))
                cases.append(dict(plain, expanded=1 - i % 24 // 12, table=t, layout=lay, cfgfile='env'))
                # an EBCDIC extract through the command without --out-encoding (7-bit content: any default encoding has it)
                cases.append(dict(base, codec='cp500', ascii7=True, noout=True, expanded=i % 24 // 12, table=t, layout=lay,
                                  cfgfile='file'))
                cases.append(dict(base, codec='latin_1', ascii7=True, noout=True, expanded=1 - i % 24 // 12, table=t,
                                  layout=lay, cfgfile='file'))
        if i % 100 == 7:
            cases.append(dict(base, expanded=i % 2, run=[1500, 2600][(i // 100) % 2]))
        if i % 10 == 0:
            for expanded in (0, 1):
                cases.append(dict(base, expanded=expanded, notrailer=True))
                cases.append(dict(base, expanded=expanded, table='IP0072T1'))
            cases.append(dict(base, expanded=(i // 10) % 2, cut=rng.randrange(1, 200)))
    # two readers at the same time (state must belong to the reader, not to the class)
    for i in range(12 if tier == 'quick' else 120):
        pair = []
        for j in range(2):
            tables = rng.sample(configured, min(len(configured), 3))
            pair.append({'seed': rng.getrandbits(40), 'tables': tables, 'nrows': 12, 'codec': ['latin_1', 'cp500'][(i + j) % 2],
                         'b': (i + j) % 2, 'table': tables[0], 'expanded': 0})
        # the SAME sub-ids assigned to the tables in the opposite order in the second file (same seed, tables reversed)
        pair[1]['seed'] = pair[0]['seed']
        pair[1]['tables'] = list(reversed(pair[0]['tables']))
        pair[1]['table'] = pair[1]['tables'][0] if i % 2 else pair[0]['table']
        cases.append({'pair': pair})
    # two readers of DIFFERENT representations (one compressed, one expanded) alive at the same time, advanced in turns,
    # with the packaged layouts or with one caller-owned layout object shared by both
    for i in range(8 if tier == 'quick' else 60):
        tables = rng.sample(configured, min(len(configured), 3))
        lay = gen_layout(rng)
        for shared in (False, True):
            pair = []
            for j in range(2):
                c = {'seed': rng.getrandbits(40), 'tables': tables, 'nrows': 10, 'codec': ['latin_1', 'cp500'][(i + j) % 2],
                     'b': (i + j) % 2, 'table': tables[0], 'expanded': (i + j) % 2}
                if shared:
                    c['layout'] = lay
                pair.append(c)
            cases.append({'pair': pair, 'zipped': True, 'sharedlayout': shared})
            cases.append({'pair': pair, 'zipped': False, 'sharedlayout': shared})
    run.correspond(__name__, cases, use_model=run.use_model, chunk=40)
