"""C06 — IPM file round trip: messages written are the messages read back."""
import hashlib
import io

from harness import common, isoutil as iu
from harness.props import c01, c07
from harness.props.vbsutil import read_all, render_end, KeepOpen

PROP = 'C06'
RULE = ("lists of 1..60 (quick) / 1..300 (thorough) heterogeneous well-formed messages written with IpmWriter and read back "
        "with IpmReader: {latin_1, cp500, cp037} x {VBS, 1014} x {packaged, generated} configuration, files spanning many "
        "blocks; records tuned so that their ends / prefixes fall on or next to a 1012-byte payload boundary;  plus 2-4 reader/writer instances driven in interleaved order (one of them hitting a data error while the "
        "others continue), compared with the per-instance model. Non-trivial = at least two messages or an interleaving; "
        "distinct = distinct (config, codec, format, message list / schedule)")
TRUSTED = c01.TRUSTED + ["instance isolation (class-level defaults, __getattr__ proxies) is established by this "
                         "correspondence, not by a theorem: it is a fact about Python's object model"]
ASSUMPTIONS = c01.ASSUMPTIONS

cfg_of, cfg_id = c01.cfg_of, c01.cfg_id


def canon_file(data, blocked):
    if blocked and len(data) >= 1014 and data[-1014:] == b'\x40' * 1014:
        return data[:-1014]
    return data


def dicts_digest(wires):
    return f'{len(wires)}:' + hashlib.sha1('|'.join(wires).encode()).hexdigest()[:16]


def write_file(msgs, codec, cfg, blocked, use_with=False, many=False, positional=False):
    from cardutil import mciipm
    f = KeepOpen()
    kw = dict(encoding=codec, blocked=blocked)
    if codec is None:
        del kw['encoding']
    if cfg is not None:
        kw['iso_config'] = cfg
    if positional:
        w = mciipm.IpmWriter(f, *([codec] + ([cfg] if cfg is not None else [])), blocked=blocked)
        for m in msgs:
            w.write(dict(m))
        w.close()
        return f.getvalue()
    if use_with:
        with mciipm.IpmWriter(f, **kw) as w:
            if many:
                w.write_many(dict(m) for m in msgs)
            else:
                for m in msgs:
                    w.write(dict(m))
    else:
        w = mciipm.IpmWriter(f, **kw)
        for m in msgs:
            w.write(dict(m))
        w.close()
    return f.getvalue()


def impl_eval(case):
    from cardutil import mciipm
    if case['k'] == 'interleave':
        return interleave_eval(case)
    cfg = cfg_of(case)
    # 'codec' names the character set (what the model and the reference use); 'codec_name' is the SPELLING handed to the
    # library — any name or alias Python's codec registry resolves to that character set
    codec, blocked = case.get('codec_name') or case['codec'], bool(case['b'])
    msgs = [iu.dict_unwire(w) for w in case['msgs']]
    exps = [iu.dict_unwire(w) for w in case['exps']]
    try:
        data = write_file(msgs, None if case.get('noenc') else codec,
                          None if case['cfg'] == 'pkg' and case.get('defaultcfg') else cfg, blocked,
                          use_with=case.get('with', False), many=case.get('many', False),
                          positional=case.get('positional', False))
    except Exception as ex:  # noqa
        return {'obs': ['write:' + iu.exc_kind(ex), 'n/a'], 'violation': f'writing well-formed messages failed: {ex!r}'}
    kw = dict(encoding=codec, blocked=blocked)
    if case.get('noenc'):
        del kw['encoding']
    if not (case['cfg'] == 'pkg' and case.get('defaultcfg')):
        kw['iso_config'] = cfg
    if case.get('positional'):
        # the documented parameter order (file, encoding, iso_config), given by position
        pos = [codec] + ([kw['iso_config']] if 'iso_config' in kw else [])
        try:
            reader = mciipm.IpmReader(io.BytesIO(data), *pos, blocked=blocked)
        except TypeError as ex:
            return {'obs': ['construct:TypeError', 'n/a'],
                    'violation': f'IpmReader(file, encoding, iso_config, blocked=...) refused its documented arguments: {ex}'}
        got, exc = read_all(reader)
    else:
        # the caller's file object is read, the reader is dropped, and the SAME file object (rewound) is read once more
        # by a new reader: the file is the caller's — still open, and it reads the same the second time
        import gc
        fobj = io.BytesIO(data)
        got, exc = read_all(mciipm.IpmReader(fobj, **kw))
        gc.collect()
        again = None
        if exc is None:
            try:
                fobj.seek(0)
                again = read_all(mciipm.IpmReader(fobj, **kw))
            except Exception as ex2:  # noqa
                again = ([], ex2)
    why = None
    if exc is None and not case.get('positional') and again is not None and (again[1] is not None or again[0] != got):
        why = (f'a second reader over the same (rewound) file object ended with {render_end(again[1])} and '
               f'{len(again[0])} messages; the first read gave {len(got)}')
    elif exc is not None:
        why = f'reading the written file ended with {render_end(exc)}'
    elif len(got) != len(msgs):
        why = f'wrote {len(msgs)} messages, read {len(got)}'
    else:
        for i, (g, e) in enumerate(zip(got, exps)):
            bad = [k for k, v in e.items() if g.get(k) != v or type(g.get(k)) is not type(v)]
            if bad:
                why = f'message {i + 1}: keys {bad[:4]} differ after the file round trip'
                break
    wires = [iu.dict_wire({k: v for k, v in g.items() if not k.startswith('DE43_')}, sort=True) for g in got]
    return {'obs': [common.sig(canon_file(data, blocked)), dicts_digest(wires) + ' ' + render_end(exc)],
            'violation': why, 'nontrivial': len(msgs) >= 2,
            'tags': [f'codec:{codec}', f"fmt:{'1014' if blocked else 'vbs'}", f"cfg:{'pkg' if case['cfg'] == 'pkg' else 'gen'}",
                     f'blocks:{min(len(data) // 1014, 9)}'], '_data': data.hex()}


def model_line(case):
    if case['k'] == 'interleave':
        return interleave_lines(case)
    cid = cfg_id(case)
    lines = []
    if cid != 'pkg':
        lines.append(f'cfg.def\t{cid}\t{iu.cfg_wire(case["cfg"])}')
    lines.append(f"ipm.write\t{cid}\t{case['codec']}\t{case['b']}\t" + '|'.join(case['msgs']))
    # read what the IMPLEMENTATION wrote
    try:
        data = write_file([iu.dict_unwire(w) for w in case['msgs']], case['codec'], cfg_of(case), bool(case['b']))
        lines.append(f"ipm.read\t{cid}\t{case['codec']}\t{case['b']}\t{c07.c03max()}\thex:{data.hex()}")
    except Exception:  # noqa
        lines.append('ping')
    return lines


def model_obs(case, resp):
    if case['k'] == 'interleave':
        return interleave_model_obs(case, resp)
    resp = resp[-2:]
    out = []
    if resp[0].startswith('ok '):
        data = bytes.fromhex(resp[0][3:])
        out.append(common.sig(canon_file(data, bool(case['b']))))
    else:
        out.append('write:' + resp[0])
    if resp[1].startswith('ok '):
        body, _, end = resp[1][3:].rpartition(' ')
        wires = body.split('|') if body else []
        out.append(dicts_digest(wires) + ' ' + end)
    else:
        out.append('n/a')
    return out


# ---------------------------------------------------------------------------------------------
# several instances at the same time


def interleave_eval(case):
    """writers then readers, all alive at once, stepped in the order given by the schedule"""
    from cardutil import mciipm
    insts = case['insts']
    files = [KeepOpen() for _ in insts]
    writers = [mciipm.IpmWriter(f, encoding=i['codec'], blocked=bool(i['b'])) for f, i in zip(files, insts)]
    pending = [[iu.dict_unwire(w) for w in i['msgs']] for i in insts]
    for ix in case['wsched']:
        if pending[ix]:
            writers[ix].write(dict(pending[ix].pop(0)))
    for ix, rest in enumerate(pending):          # whatever the schedule did not reach
        for m in rest:
            writers[ix].write(dict(m))
    for w in writers:
        w.close()
    datas = [f.getvalue() for f in files]
    # corrupt one file so that its reader raises while the others continue
    bad = case.get('bad')
    if bad is not None:
        d = bytearray(datas[bad])
        d[8 + 4] ^= 0xff          # a byte of the first record's bitmap region
        datas[bad] = bytes(d)
    readers = [iter(mciipm.IpmReader(io.BytesIO(d), encoding=i['codec'], blocked=bool(i['b']))) for d, i in zip(datas, insts)]
    got = [[] for _ in insts]
    ends = [None] * len(insts)
    done = [False] * len(insts)
    sched = list(case['rsched'])
    guard = 0
    while not all(done) and guard < 10000:
        guard += 1
        ix = sched.pop(0) if sched else next(i for i, d in enumerate(done) if not d)
        if done[ix]:
            continue
        try:
            got[ix].append(next(readers[ix]))
        except StopIteration:
            done[ix] = True
        except Exception as ex:  # noqa
            done[ix] = True
            ends[ix] = ex
    obs = []
    why = None
    for ix, i in enumerate(insts):
        wires = [iu.dict_wire({k: v for k, v in g.items() if not k.startswith('DE43_')}, sort=True) for g in got[ix]]
        obs.append(dicts_digest(wires) + ' ' + render_end(ends[ix]))
        # independent expectation: each instance behaves as if it were alone
        alone, exc = read_all(mciipm.IpmReader(io.BytesIO(datas[ix]), encoding=i['codec'], blocked=bool(i['b'])))
        if why is None and (alone != got[ix] or render_end(exc) != render_end(ends[ix])):
            why = f'instance {ix} behaves differently when other readers/writers are active'
        if why is None and ix != bad and (ends[ix] is not None or len(got[ix]) != len(i['msgs'])):
            why = f'instance {ix}: {len(got[ix])} of {len(i["msgs"])} messages read back ({render_end(ends[ix])})'
    return {'obs': obs, 'violation': why, 'nontrivial': True, 'tags': [f'instances:{len(insts)}',
                                                                          'with-error' if bad is not None else 'clean'],
            }


def interleave_lines(case):
    """the functional model has one state per instance: each file is written and read on its own"""
    from cardutil import mciipm
    lines = []
    for ix, i in enumerate(case['insts']):
        data = write_file([iu.dict_unwire(w) for w in i['msgs']], i['codec'], None, bool(i['b']))
        if case.get('bad') == ix:
            d = bytearray(data)
            d[8 + 4] ^= 0xff
            data = bytes(d)
        lines.append(f"ipm.read\tpkg\t{i['codec']}\t{i['b']}\t{c07.c03max()}\thex:{data.hex()}")
    return lines


def interleave_model_obs(case, resp):
    out = []
    for r in resp:
        body, _, end = r[3:].rpartition(' ')
        wires = body.split('|') if body else []
        out.append(dicts_digest(wires) + ' ' + end)
    return out


def sized_message(rng, codec, total):
    """a packaged-configuration message (MTI, DE2, plain LLLVAR text elements) whose encoding is exactly `total` bytes"""
    base = 4 + 16 + 2 + 16
    fillers = [54, 72, 111, 127]
    rest = total - base
    if rest < 4 or rest > len(fillers) * 1002:
        return None
    m = {'MTI': '1240', 'DE2': ''.join(rng.choice('0123456789') for _ in range(16))}
    for i, bit in enumerate(fillers):
        left = len(fillers) - i - 1
        if rest <= 0:
            break
        take = min(1002, rest) if rest - min(1002, rest) == 0 or rest - min(1002, rest) >= 4 else rest - 4
        if left == 0:
            take = rest
        m[f'DE{bit}'] = iu.text(rng, codec, take - 3, 'any')
        rest -= take
    assert len(iu.ref_encode(m, iu.pkg_config(), codec, False)) == total, (total, rest)
    return m


def explore(run, tier):
    rng = common.rng_for(run.seed, PROP)
    pkg = iu.pkg_config()
    cases = []
    counts = [1, 2, 3, 5, 12, 30, 60] if tier == 'quick' else [1, 2, 3, 5, 12, 30, 60, 150, 300]
    codecs3 = ['latin_1', 'cp500', 'cp037']
    i = 0
    for n in counts:
        for codec in codecs3:
            for b in (0, 1):
                for cfgkind in ('pkg', 'gen'):
                    i += 1
                    if cfgkind == 'gen' and n > 60:
                        continue
                    cfg = 'pkg' if cfgkind == 'pkg' else iu.gen_config(rng, with_decimal=(i % 3 == 0))
                    pairs = []
                    while len(pairs) < n:
                        m, e = iu.gen_message(rng, pkg if cfg == 'pkg' else cfg, codec)
                        try:       # the property speaks of messages up to the maximum record length
                            if len(iu.ref_encode(m, pkg if cfg == 'pkg' else cfg, codec, False)) <= c07.c03max():
                                pairs.append((m, e))
                        except iu.RefError:
                            pass
                    cases.append({'k': 'file', 'cfg': cfg, 'codec': codec, 'b': b,
                                  'msgs': [iu.dict_wire(m) for m, _ in pairs], 'exps': [iu.dict_wire(e) for _, e in pairs],
                                  'with': i % 2 == 0, 'many': i % 4 == 0, 'defaultcfg': cfg == 'pkg' and i % 3 == 0,
                                  'positional': i % 5 == 0})
    # the other single-byte character sets, and other SPELLINGS of the same ones (aliases, capitals): short fixed-width
    # text is padded with the character set's own blank, whatever the codec is called
    spellings = [('cp273', None), ('cp1140', None), ('ascii', None), ('cp500', 'IBM500'), ('cp500', 'CP500'),
                 ('cp500', 'ebcdic-cp-be'), ('cp037', 'IBM037'), ('cp037', 'ebcdic_cp_us'), ('latin_1', 'iso-8859-1'),
                 ('latin_1', 'L1'), ('cp1140', 'ibm1140'), ('cp273', 'IBM273')]
    for si, (codec, name) in enumerate(spellings):
        for b in (0, 1):
            pairs = []
            for n in range(4):
                short = {'MTI': '1240', 'DE41': 'TERM' + str(n), 'DE42': 'MERCHANT ' + str(n), 'DE37': 'RRN',
                         'DE2': '5' * (13 + n), 'DE3': '000000'}
                pairs.append((short, {**short, 'DE41': short['DE41'].ljust(8), 'DE42': short['DE42'].ljust(15),
                                      'DE37': 'RRN'.ljust(12)}))
                m, e = iu.gen_message(rng, pkg, codec, with_pds=(n % 2 == 0))
                if len(iu.ref_encode(m, pkg, codec, False)) <= c07.c03max():
                    pairs.append((m, e))
            c = {'k': 'file', 'cfg': 'pkg', 'codec': codec, 'b': b,
                 'msgs': [iu.dict_wire(m) for m, _ in pairs], 'exps': [iu.dict_wire(e) for _, e in pairs],
                 'with': si % 2 == 0, 'many': False, 'defaultcfg': si % 3 == 0}
            if name:
                c['codec_name'] = name
            cases.append(c)
    # two logical files — file header (1644 / function code 697) ... file trailer (1644 / 695) — in ONE physical file:
    # every message is a record like any other, wherever the trailer messages stand
    for codec in codecs3:
        for b in (0, 1):
            body = []
            for _ in range(4):
                m, e = iu.gen_message(rng, pkg, codec, with_pds=False)
                if len(iu.ref_encode(m, pkg, codec, False)) <= 900:
                    body.append((m, e))
            hdr = {'MTI': '1644', 'DE24': '697', 'DE71': 1}
            trl = {'MTI': '1644', 'DE24': '695', 'DE71': 9}
            pairs = [(hdr, hdr)] + body[:2] + [(trl, trl), (hdr, hdr)] + body[2:] + [(trl, trl)]
            cases.append({'k': 'file', 'cfg': 'pkg', 'codec': codec, 'b': b,
                          'msgs': [iu.dict_wire(m) for m, _ in pairs], 'exps': [iu.dict_wire(e) for _, e in pairs],
                          'with': False, 'many': b == 1, 'defaultcfg': True})
    # writer and reader created WITHOUT an encoding (the documented default, latin-1), text over the whole byte range
    for b in (0, 1):
        pairs = []
        while len(pairs) < 6:
            m, e = iu.gen_message(rng, pkg, 'latin_1', with_pds=False)
            if len(iu.ref_encode(m, pkg, 'latin_1', False)) <= 900:
                pairs.append((m, e))
        extra = {'MTI': '1240', 'DE38': '\xa4\xa6\xa8\xb4\xb8\xbc', 'DE42': '\xbd\xbeCAF\xc9 \xd6l\xdf XX  '}
        pairs.append((extra, extra))
        cases.append({'k': 'file', 'cfg': 'pkg', 'codec': 'latin_1', 'b': b, 'noenc': True,
                      'msgs': [iu.dict_wire(m) for m, _ in pairs], 'exps': [iu.dict_wire(e) for _, e in pairs],
                      'with': False, 'many': False, 'defaultcfg': True})
    # messages mixing PDSxxxx keys with a directly supplied later carrier element
    for codec in codecs3:
        for b in (0, 1):
            pairs = [p for p in (iu.gen_mixed_pds(rng, pkg, codec) for _ in range(6)) if p]
            if pairs:
                cases.append({'k': 'file', 'cfg': 'pkg', 'codec': codec, 'b': b,
                              'msgs': [iu.dict_wire(m) for m, _ in pairs], 'exps': [iu.dict_wire(e) for _, e in pairs],
                              'with': b == 1, 'many': False, 'defaultcfg': True})
    # records whose ends / length prefixes land exactly on (or next to) a 1012-byte payload boundary, spanning
    # zero to three further blocks: message sizes are tuned with plain LLLVAR text elements
    for codec in codecs3:
        for b in (0, 1):
            for npre in (0, 1, 3):
                for k in (0, 1, 2, 3):      # k = 0: the record ends in the block it starts in (the write that completes it
                    #                        is shorter than a block), k > 0: it spans k further blocks
                    for d in ((-1, 0, 1) if tier == 'quick' else (-5, -4, -3, -2, -1, 0, 1, 2, 3, 4)):
                        pre = []
                        while len(pre) < npre:
                            m, e = iu.gen_message(rng, pkg, codec)
                            try:
                                if len(iu.ref_encode(m, pkg, codec, False)) <= 700:
                                    pre.append((m, e))
                            except iu.RefError:
                                pass
                        o = sum(4 + len(iu.ref_encode(m, pkg, codec, False)) for m, _ in pre)
                        want = 1012 * (o // 1012 + 1 + k) + d - (o + 4)
                        tuned = sized_message(rng, codec, want)
                        if tuned is None:
                            continue
                        tail = iu.gen_message(rng, pkg, codec, bits=[2, 3, 4])
                        pairs = pre + [(tuned, dict(tuned)), tail]
                        cases.append({'k': 'file', 'cfg': 'pkg', 'codec': codec, 'b': b,
                                      'msgs': [iu.dict_wire(m) for m, _ in pairs],
                                      'exps': [iu.dict_wire(e) for _, e in pairs],
                                      'with': k % 2 == 0, 'many': d == 0, 'defaultcfg': npre == 1})
    for _ in range(40 if tier == 'quick' else 400):
        k = rng.randrange(2, 5)
        insts = []
        for _ in range(k):
            codec = rng.choice(codecs3)
            n = rng.randrange(1, 6)
            ms = []
            while len(ms) < n:
                m, _ = iu.gen_message(rng, pkg, codec)
                try:
                    if len(iu.ref_encode(m, pkg, codec, False)) <= c07.c03max():
                        ms.append(iu.dict_wire(m))
                except iu.RefError:
                    pass
            insts.append({'codec': codec, 'b': rng.randrange(2), 'msgs': ms})
        total = sum(len(i['msgs']) for i in insts)
        cases.append({'k': 'interleave', 'insts': insts,
                      'wsched': [rng.randrange(k) for _ in range(total * 3)],
                      'rsched': [rng.randrange(k) for _ in range(total * 3 + 6)],
                      'bad': rng.choice([None, rng.randrange(k)])})
    run.correspond(__name__, cases, use_model=run.use_model, chunk=8)
