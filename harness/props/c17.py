"""C17 — file inspection recognises writer output: validity, encoding family, blocking."""
import io
import re
import struct

from harness import common, isoutil as iu
from harness.props import c01, c06, c07

PROP = 'C17'
RULE = ("IPM files produced by IpmWriter over message lists sized to give each block count 1..10 (and 12, 20) x {latin_1, "
        "cp500, cp037, cp273, cp1140, ascii} x {VBS, 1014} x 20 first messages; invalid classes at their boundaries: "
        "23/24-byte inputs, first length 6000/6001/2^32-1, each unconfigured bit 2..128 with and without bit 1, every input length 0..24, configuration edited between two inspections, hand-built 1013/1014/2027/2028-"
        "byte samples, all 16 patterns of 0x40 at the four trailer positions. Non-trivial = file of at least two blocks or an invalid-class boundary; distinct = distinct file")
TRUSTED = c01.TRUSTED + ["Model/Info.lean models ipm_info / block_1014_check / bitmap_check / encoding_check; str.isnumeric() "
                         "per byte of latin1 and cp037 is a table regenerated from the interpreter on every run"]
ASSUMPTIONS = ["ASCII-family codec = digits encode to 0x30..0x39; EBCDIC-family = digits encode to 0xF0..0xF9"]

ASCII_FAMILY = {'latin_1', 'ascii', 'cp1252'}


def reason_class(r):
    if r is None:
        return '?'
    if 'sufficient data' in r:
        return 'short'
    if 'exceeds the configured maximum' in r or 'negative' in r:
        return 'length'
    m = re.search(r'DE(\d+)', r)
    return 'bitmap:' + (m.group(1) if m else '?')


def file_of(case):
    if 'hex' in case:
        return bytes.fromhex(case['hex'])
    msgs = [iu.dict_unwire(w) for w in case['msgs']]
    return c06.write_file(msgs, case['codec'], None, bool(case['b']))


def impl_eval(case):
    from cardutil import mciipm, config
    data = file_of(case)
    saved = None
    if case.get('preload'):
        # a HISTORY: earlier in the same process a message that uses the same unconfigured element was (unsuccessfully)
        # decoded with the packaged configuration — the inspection that follows says what it would say in a fresh process
        from cardutil import iso8583
        try:
            iso8583.loads(bytes.fromhex(case['preload']))
        except Exception:  # noqa
            pass
    try:
        if 'cfgedit' in case:
            # a HISTORY: inspect, change the packaged configuration in place (drop / add an element), inspect again
            try:
                mciipm.ipm_info(io.BytesIO(data))
            except Exception:  # noqa
                pass
            bc = config.config['bit_config']
            saved = {k: bc.get(k) for k in case['cfgedit'].get('del', []) + case['cfgedit'].get('add', [])}
            for k in case['cfgedit'].get('del', []):
                bc.pop(k, None)
            for k in case['cfgedit'].get('add', []):
                bc[k] = {'field_name': 'added', 'field_type': 'FIXED', 'field_length': 2}
        if 'maxedit' in case:
            # the CONFIGURED maximum record length: another value, or the key absent (the documented default, 6000)
            saved_max = config.config.get('MAX_VBS_RECORD_LENGTH', 'absent')
            if case['maxedit'] == 'absent':
                config.config.pop('MAX_VBS_RECORD_LENGTH', None)
            else:
                config.config['MAX_VBS_RECORD_LENGTH'] = case['maxedit']
        try:
            info = mciipm.ipm_info(io.BytesIO(data))
            # a result is the caller's own: ANOTHER input inspected afterwards (one with the opposite verdict: a 23-byte
            # stub, or a small well-formed file) does not change what was said about this one
            if info.get('isValidIPM'):
                mciipm.ipm_info(io.BytesIO(b'\x00' * 23))
            else:
                ok = b'1240' + (0xC000000000000000 << 64).to_bytes(16, 'big') + b'16' + b'5' * 16
                mciipm.ipm_info(io.BytesIO(struct.pack('>I', len(ok)) + ok + b'\x00' * 4))
        except Exception as ex:  # noqa
            return {'obs': 'escape:' + type(ex).__name__, 'violation': f'ipm_info raised {type(ex).__name__}'}
    finally:
        if 'maxedit' in case:
            if saved_max == 'absent':
                config.config.pop('MAX_VBS_RECORD_LENGTH', None)
            else:
                config.config['MAX_VBS_RECORD_LENGTH'] = saved_max
        if saved is not None:
            bc = config.config['bit_config']
            for k, v in saved.items():
                if v is None:
                    bc.pop(k, None)
                else:
                    bc[k] = v
            # keep the original key order of the packaged configuration
            order = sorted(bc, key=int)
            for k in order:
                bc[k] = bc.pop(k)
    if info.get('isValidIPM'):
        obs = f"valid {int(bool(info.get('isBlocked')))} {info.get('encoding')}"
    else:
        obs = 'invalid ' + reason_class(info.get('reason'))
    why = None
    if 'msgs' in case:
        fam = 'latin1' if case['codec'] in ASCII_FAMILY else 'cp037'
        if not info.get('isValidIPM'):
            why = f"a file written by IpmWriter is reported invalid: {info.get('reason')}"
        elif info.get('encoding') != fam:
            why = f"encoding reported as {info.get('encoding')}, the file is {case['codec']} ({fam} family)"
        elif case['b'] and info.get('isBlocked') is not True:
            why = f'a 1014-blocked file of {len(data) // 1014} blocks is reported as not blocked'
        elif not case['b'] and info.get('isBlocked') and not (data[1012:1014] == b'@@'):
            why = 'an unblocked file is reported blocked although bytes 1012-1013 are not both 0x40'
    elif 'trailers' in case:
        if info.get('isValidIPM') and info.get('isBlocked') and data[1012:1014] != b'@@':
            why = 'reported blocked although bytes 1012-1013 are not both 0x40'
    elif 'expect' in case:
        if case['expect'] == 'invalid' and (info.get('isValidIPM') or not info.get('reason')):
            why = f'input of invalid class {case["cls"]} reported {obs}'
        if case['expect'] == 'valid' and not info.get('isValidIPM'):
            why = f'boundary input {case["cls"]} reported invalid: {info.get("reason")}'
    return {'obs': obs, 'violation': why, 'nontrivial': len(data) >= 2028 or 'expect' in case,
            'tags': [f"blocks:{min(len(data) // 1014, 12)}" if case.get('b') else 'unblocked-or-handmade',
                     obs.split(' ')[0]]}


def model_line(case):
    if 'cfgedit' in case or 'maxedit' in case:
        return None          # the model's configured bits are the packaged ones; these cases are judged by the oracle
    return 'info\thex:' + file_of(case).hex()


def explore(run, tier):
    rng = common.rng_for(run.seed, PROP)
    pkg = iu.pkg_config()
    cases = []
    codecs = ['latin_1', 'cp500', 'cp037', 'cp273', 'cp1140', 'ascii']
    block_counts = list(range(1, 11)) + [12, 20]
    nfirst = 20 if tier == 'quick' else 200
    for j in range(nfirst):
        codec = codecs[j % len(codecs)]
        first, _ = iu.gen_message(rng, pkg, codec)
        while len(iu.ref_encode(first, pkg, codec, False)) > 900:
            first, _ = iu.gen_message(rng, pkg, codec)
        for nb in (block_counts if j < 6 or tier == 'thorough' else rng.sample(block_counts, 3)):
            msgs = [first]
            size = 4 + len(iu.ref_encode(first, pkg, codec, False))
            target = (nb - 1) * 1012 + rng.randrange(1, 1000)
            while size + 4 < target:
                m = {'MTI': '1240', 'DE2': '5' * 16, 'DE72': iu.text(rng, codec, min(900, max(1, target - size - 50)))}
                msgs.append(m)
                size += 4 + len(iu.ref_encode(m, pkg, codec, False))
            for b in (0, 1):
                cases.append({'codec': codec, 'b': b, 'msgs': [iu.dict_wire(m) for m in msgs]})
    # VBS stream lengths (terminator included) exactly on / next to a multiple of 1012: the last block has no fill
    for codec in codecs:
        for k in (1, 2, 3, 4):
            for delta in (-2, -1, 0, 1, 2):
                target = k * 1012 + delta          # = sum(4 + len(rec)) + 4
                base = 4 + len(iu.ref_encode({'MTI': '1240', 'DE2': '5' * 16, 'DE72': 'x'}, pkg, codec, False)) - 1
                body = target - 4
                count = max(1, -(-body // (base + 900)))
                ns = []
                left = body
                for i in range(count):
                    share = left // (count - i)
                    ns.append(share - base)
                    left -= share
                if any(n < 1 or n > 999 for n in ns):
                    continue
                msgs = [{'MTI': '1240', 'DE2': '5' * 16, 'DE72': iu.text(rng, codec, n)} for n in ns]
                if sum(4 + len(iu.ref_encode(m, pkg, codec, False)) for m in msgs) + 4 != target:
                    continue
                for b in (0, 1):
                    cases.append({'codec': codec, 'b': b, 'msgs': [iu.dict_wire(m) for m in msgs], 'aligned': delta})
    run.exhaustive.append('each block count 1..10, 12, 20 for 6 first messages x 6 codecs x 2 formats')
    # invalid classes at their boundaries
    bm = lambda bits: sum(1 << (128 - b) for b in [1] + bits).to_bytes(16, 'big')   # noqa: E731
    base = b'1240' + bm([2]) + b'0212'
    cases.append({'hex': (struct.pack('>I', len(base)) + base)[:23].hex(), 'expect': 'invalid', 'cls': '23 bytes'})
    cases.append({'hex': (struct.pack('>I', len(base)) + base)[:24].hex(), 'expect': 'valid', 'cls': '24 bytes'})
    for n, exp in ((6000, 'valid'), (6001, 'invalid'), (2 ** 32 - 1, 'invalid'), (2 ** 31, 'invalid'), (0, 'valid')):
        cases.append({'hex': (struct.pack('>I', n) + base + b' ' * 40).hex(), 'expect': exp, 'cls': f'first length {n}'})
    configured = {int(k) for k in pkg}
    for bit in range(2, 129):
        rec = b'1240' + bm([bit]) + b' ' * 30
        cases.append({'hex': (struct.pack('>I', len(rec)) + rec).hex(),
                      'expect': 'valid' if bit in configured else 'invalid', 'cls': f'bit {bit}'})
    for bit in range(2, 129):
        if bit not in configured:
            rec = b'1240' + bm([bit]) + b' ' * 30
            cases.append({'hex': (struct.pack('>I', len(rec)) + rec).hex(), 'expect': 'invalid', 'preload': rec.hex(),
                          'cls': f'bit {bit} after a failed decode of a message using it'})
    run.exhaustive.append('every bit 2..128 as the only element of the first bitmap')
    # the same with bit 1 (secondary bitmap indicator) CLEAR: the library always reads 16 bytes, so an unconfigured
    # bit 65..128 is invalid whatever bit 1 says
    bm0 = lambda bits: sum(1 << (128 - b) for b in bits).to_bytes(16, 'big')   # noqa: E731
    for bit in range(2, 129):
        rec = b'1240' + bm0([bit]) + b' ' * 30
        cases.append({'hex': (struct.pack('>I', len(rec)) + rec).hex(),
                      'expect': 'valid' if bit in configured else 'invalid', 'cls': f'bit {bit} without bit 1'})
    # … and whatever the FIRST LENGTH says (0, a few bytes, 19, 20: less than a message type and two bitmaps): the 16 bitmap
    # bytes are there and are inspected, primary and secondary half alike
    for bit in range(2, 129):
        for first in (0, 4, 12, 19, 20):
            rec = b'1240' + bm([bit]) + b' ' * 30
            cases.append({'hex': (struct.pack('>I', first) + rec).hex(),
                          'expect': 'valid' if bit in configured else 'invalid', 'cls': f'bit {bit}, first length {first}'})
    # binary bitmaps whose 16 bytes all happen to be HEXADECIMAL CHARACTERS (x'30'..x'39', x'41'..x'46', x'61'..x'66'),
    # followed by more such characters: they are 16 bitmap bytes, not 32 characters of a hexadecimal bitmap
    def bits_of(raw):
        return [i + 1 for i in range(128) if raw[i // 8] >> (7 - i % 8) & 1]
    for raw16 in (b'0' * 16, b'1' * 16, b'a' * 16, b'F' * 16, b'0123456789abcdef', b'DEADBEEFdeadbeef', b'8000000000000000',
                  b'f' * 8 + b'0' * 8, b'C' + b'0' * 15, b'c2' + b'0' * 14):
        for tail in (b'0' * 16 + b' ' * 30, b'ABCDEF0123456789' * 3, b'f' * 40):
            rec = b'1240' + raw16 + tail
            ok = all(bb in configured for bb in bits_of(raw16) if bb >= 2)
            cases.append({'hex': (struct.pack('>I', len(rec)) + rec).hex(), 'expect': 'valid' if ok else 'invalid',
                          'cls': 'bitmap bytes that are hex characters'})
    # inputs shorter than a length prefix, and up to the 24-byte minimum
    full = struct.pack('>I', len(base)) + base
    for n in range(0, 24):
        cases.append({'hex': full[:n].hex(), 'expect': 'invalid', 'cls': f'{n} bytes'})
    # … whatever the first length says (small lengths, the input's own length, zero): fewer than 24 bytes cannot hold
    # a length prefix, a message type and a bitmap
    for n in range(4, 24):
        for first in (0, 1, 4, n - 4, 19, 20, 23, 24):
            if first >= 0:
                data = (struct.pack('>I', first) + base)[:n]
                cases.append({'hex': data.hex(), 'expect': 'invalid', 'cls': f'{n} bytes, first length {first}'})
    # configuration histories: the verdict must follow the configuration in force at the time of the call
    for bit in (3, 12, 24, 48):
        rec = b'1240' + bm([bit]) + b' ' * 30
        cases.append({'hex': (struct.pack('>I', len(rec)) + rec).hex(), 'cfgedit': {'del': [str(bit)]},
                      'expect': 'invalid', 'cls': f'DE{bit} removed from the configuration after a first inspection'})
    for bit in (7, 8, 128):
        if bit not in configured:
            rec = b'1240' + bm([bit]) + b' ' * 30
            cases.append({'hex': (struct.pack('>I', len(rec)) + rec).hex(), 'cfgedit': {'add': [str(bit)]},
                          'expect': 'valid', 'cls': f'DE{bit} added to the configuration after a first inspection'})
    # MTI bytes that are numeric to str.isnumeric() and no digits to int() (superscripts, fractions), all zeros, and mixtures:
    # inspection answers (valid with some encoding, or invalid with a reason) — it never raises
    for mti in (b'\xb2\xb3\xb9\xbc', b'\xbd\xbe\xb2\xb2', b'\xea\xfa\xda\xb7', b'0000', b'\xf0\xf0\xf0\xf0', b'\xb2000',
                b'\xf0\xf0\xf0\xea', b'12\xb23', b'\xf1\xf2\xf4\xfa'):
        recm = mti + bm([3]) + b' ' * 30
        cases.append({'hex': (struct.pack('>I', len(recm)) + recm).hex()})
    # the configured maximum record length, lowered / raised / absent: the first length is judged against THAT value
    rec = b'1240' + bm([3]) + b' ' * 30
    for mx in (50, 100, 3000, 5999, 6000, 6001, 10000, 70000, 'absent'):
        lim = 6000 if mx == 'absent' else mx
        for first, expect in ((lim, 'valid'), (lim + 1, 'invalid'), (lim - 1, 'valid'), (lim + 1000, 'invalid')):
            cases.append({'hex': (struct.pack('>I', first) + rec).hex(), 'maxedit': mx, 'expect': expect,
                          'cls': f'first length {first} with a configured maximum of {mx}'})
    head = b'\x00\x00\x00\xff' + b'1234' + b'\x70' + b'\x00' * 15
    for body in [b' ' * 989, b' ' * 988 + b'@@', b' ' * 992, b' ' * 988 + b'@@' + b' ' * 1012 + b'@@',
                 b' ' * 990 + b'@@' + b' ' * 1014, b' ' * 988 + b'@@' + b' ' * 1013,
                 b' ' * 988 + b'@@' + b' ' * 1012 + b'@@' + b' ' * 500, b' ' * 988 + b'@@' + b' ' * 1012 + b'@ ' + b' ' * 500,
                 b' ' * 988 + b'@@' + b' ' * 1012 + b'@@' + b' ' * 1012 + b'@@', b' ' * 988 + b'@ ' + b' ' * 3000]:
        cases.append({'hex': (head + body).hex()})
    # every combination of the four trailer bytes (1012, 1013, 2026, 2027) in {0x40, other}, at three sample lengths
    for pat in range(16):
        t = [b'@' if pat >> i & 1 else b'#' for i in range(4)]
        for tail in (0, 1, 600):
            body = b'.' * 988 + t[0] + t[1] + b'.' * 1012 + t[2] + t[3] + b'.' * tail
            cases.append({'hex': (head + body).hex(), 'trailers': pat})
    run.exhaustive.append('all 16 patterns of 0x40 / non-0x40 at bytes 1012, 1013, 2026, 2027 x 3 sample lengths')
    # trailer positions holding byte PAIRS that are not x'40' x'40' but combine to x'40' under a bit operation (AND, OR, XOR,
    # sum / 2): 'AB', 'Qb', x'C0 40', x'00 40', x'20 20', x'80 C0' — two bytes are a trailer only when both are x'40'
    for pair in (b'AB', b'Qb', b'\xc0\x40', b'\x00\x40', b'\x20\x20', b'\x80\xc0', b'\x40\x00', b'\x41\x3f'):
        for second in (b'@@', pair):
            for tail in (0, 600):
                body = b'.' * 988 + pair + b'.' * 1012 + second + b'.' * tail
                cases.append({'hex': (head + body).hex(), 'trailers': 0})
                body = b'.' * 988 + b'@@' + b'.' * 1012 + pair + b'.' * tail
                cases.append({'hex': (head + body).hex(), 'trailers': 0})
        cases.append({'hex': (head + b'.' * 988 + pair).hex(), 'trailers': 0})
    for mti in ['1234'.encode('cp037'), 'XXXX'.encode('cp037'), b'\xb2\xb3\xb9\xbc', b'12\xf14', b'\xf1\xf2\xf3\xb9', b'    ']:
        cases.append({'hex': (b'\x00\x00\x00\xff' + mti + b'\x70' + b'\x00' * 15 + b' ' * 50).hex()})
    run.correspond(__name__, cases, use_model=run.use_model, chunk=40)
