"""C12 — PDS sub-elements are packed into carrier elements and recovered without loss."""
import copy

from harness import common, isoutil as iu
from harness.props import c01

PROP = 'C12'
RULE = ("PDS sets over the packaged carriers (48, 62, 123, 124, 125) and generated carrier sets: every pair of value "
        "lengths that puts the running carrier length at 998..1000 (quick) / 985..1005 (thorough) exhaustively, zero-length "
        "values, digit-only values that look like tag/length headers, sets needing 1..5 carriers and the overflow to a 6th, "
        "keys inserted in unsorted order, 3 codecs. Carrier contents are read from the encoder output with a PDS-less "
        "configuration. Non-trivial = at least two sub-elements; distinct = distinct (codec, set)")
TRUSTED = c01.TRUSTED
ASSUMPTIONS = c01.ASSUMPTIONS + ["distinct 4-digit tags, values of 0..992 characters"]

cfg_of, cfg_id, model_line, model_obs = c01.cfg_of, c01.cfg_id, c01.model_line, c01.model_obs
PKG_CARRIERS = (48, 62, 123, 124, 125)


def nopds(cfg):
    c = copy.deepcopy(cfg)
    for fc in c.values():
        if fc.get('field_processor') == 'PDS':
            del fc['field_processor']
    return c


def impl_eval(case):
    from cardutil import iso8583
    cfg = cfg_of(case)
    msg = iu.dict_unwire(case['msg'])
    codec, hexbm = case['codec'], bool(case['hex'])
    pds = sorted((int(k[3:]), v) for k, v in msg.items() if k.startswith('PDS'))      # 'PDS023' is tag 23 too
    carriers = sorted(int(k) for k, fc in cfg.items() if fc.get('field_processor') == 'PDS')
    if case['cfg'] == 'pkg':
        carriers = list(PKG_CARRIERS)       # the documented carriers of the packaged configuration, written out here
    want = iu.ref_pds_chunks(pds)
    o1, data, _ = iu.obs_dumps(lambda: iso8583.dumps(dict(msg), encoding=codec, iso_config=cfg, hex_bitmap=hexbm))
    if case.get('oddkeys'):
        # outside the property's domain (tags are not spelt with four digits: keys sort as text): only the model tie counts
        o2 = iu.obs_loads(lambda: iso8583.loads(data, encoding=codec, iso_config=cfg, hex_bitmap=hexbm), cfg)[0] if data else 'n/a'
        return {'obs': [o1, o2], 'violation': None, 'nontrivial': False, 'tags': ['oddkeys']}
    if case.get('unencodable'):
        why = None
        if data is not None:
            why = 'a PDS value with a character the encoding does not have was emitted instead of being refused'
        return {'obs': [o1, 'n/a'], 'violation': why, 'tags': ['unencodable']}
    if len(want) > len(carriers):
        # beyond the capacity of the configured carriers: outside the property; only the model tie is checked
        return {'obs': [o1, 'n/a'], 'violation': None, 'nontrivial': False, 'tags': ['overflow']}
    if data is None:
        return {'obs': [o1, 'n/a'], 'violation': f'encoding failed: {o1}', 'tags': ['dumps-failed']}
    why = None
    raw = iso8583.loads(data, encoding=codec, iso_config=nopds(cfg), hex_bitmap=hexbm)
    got = [raw.get(f'DE{c}') for c in carriers]
    used = [g for g in got if g is not None]
    if got[:len(used)] != used:
        why = 'carriers are not filled in ascending element order'
    elif any(len(g) > 999 for g in used):
        why = 'a carrier holds more than 999 characters'
    elif ''.join(used) != ''.join(f'{t:04d}{len(v):03d}{v}' for t, v in pds):
        why = 'carrier contents are not the sub-elements in ascending tag order as tag(4) length(3) value'
    elif used != want:
        why = f'sub-elements are not packed greedily into whole entries: carrier lengths {[len(g) for g in used]} vs {[len(w) for w in want]}'
    o2, back, _ = iu.obs_loads(lambda: iso8583.loads(data, encoding=codec, iso_config=cfg, hex_bitmap=hexbm), cfg)
    if why is None:
        if back is None:
            why = f'decoding failed: {o2}'
        else:
            got_pds = {k: v for k, v in back.items() if k.startswith('PDS')}
            exp_pds = {f'PDS{int(k[3:]):04d}': v for k, v in msg.items() if k.startswith('PDS')}
            if got_pds != exp_pds:
                why = (f'decoded PDS set differs: missing {sorted(set(exp_pds) - set(got_pds))[:4]} extra '
                       f'{sorted(set(got_pds) - set(exp_pds))[:4]} changed '
                       f'{[k for k in exp_pds if k in got_pds and got_pds[k] != exp_pds[k]][:4]}')
    if why is None and len(pds) >= 2:
        # what encoding does to the CALLER's dictionary: it may add the carrier elements it built (it does), but every entry the
        # caller put there is still there, unchanged — so that the dictionary can be changed and encoded again
        same = dict(msg)
        try:
            iso8583.dumps(same, encoding=codec, iso_config=cfg, hex_bitmap=hexbm)
            lost = [k for k, v in msg.items() if same.get(k) != v]
            if lost:
                why = f"encoding removed or changed entries of the caller's dictionary: {sorted(lost)[:4]}"
        except Exception as ex2:  # noqa
            why = f'encoding the same message a second time raised {type(ex2).__name__}'
    return {'obs': [o1, o2], 'violation': why, 'nontrivial': len(pds) >= 2,
            'tags': [f'carriers:{len(want)}', f'codec:{codec}']}


def mk(rng, cfg, codec, entries, extra=None):
    items = [(f'PDS{t:04d}', v) for t, v in entries]
    rng.shuffle(items)                         # unsorted insertion order: a dropped `sorted` must show
    msg = {'MTI': '1240'}
    msg.update(items)
    if extra:
        msg.update(extra)
    return {'cfg': cfg, 'codec': codec, 'hex': 0, 'msg': iu.dict_wire(msg), 'exp': ''}


def explore(run, tier):
    rng = common.rng_for(run.seed, PROP)
    cases = []
    codecs3 = ['latin_1', 'cp500', 'cp037']
    totals = range(985, 1006) if tier == 'thorough' else (998, 999, 1000)
    for T in totals:
        for a in range(0, T - 13):
            b = T - 14 - a
            if b > 992 or a > 992:
                continue
            codec = codecs3[(a + T) % 3]
            kind = 'digits' if a % 2 else 'any'
            ents = [(rng.randrange(0, 5000), iu.text(rng, codec, a, kind)),
                    (rng.randrange(5000, 9000), iu.text(rng, codec, b, kind)), (9999, 'Z')]
            if a % 3 == 0:
                ents[0], ents[1] = (ents[1][0], ents[0][1]), (ents[0][0], ents[1][1])   # long entry second
            cases.append(mk(rng, 'pkg', codec, ents))
    run.exhaustive.append(f'every pair of value lengths with running carrier length in {list(totals)[0]}..{list(totals)[-1]}')
    # zero-length values, header look-alikes, 1..6 chunks
    for n in range(1, 60 if tier == 'quick' else 400):
        tags = rng.sample(range(0, 10000), rng.choice([1, 2, 3, 5, 9, 14]))
        ents = []
        for t in tags:
            r = rng.random()
            if r < 0.2:
                v = ''
            elif r < 0.45:
                v = f'{rng.randrange(10000):04d}{rng.randrange(1000):03d}' * rng.randrange(1, 4)
            elif r < 0.6:
                v = iu.text(rng, 'ascii', rng.choice([985, 990, 991, 992]), 'digits')
            else:
                v = iu.text(rng, 'latin_1', rng.randrange(0, 700))
            ents.append((t, v))
        cases.append(mk(rng, 'pkg', codecs3[n % 3], ents))
    # SELF-SIMILAR content: a value that contains, as text, the packed form (tag, length, value) of the sub-element that
    # follows it and does not fit the carrier any more — a carrier is cut between sub-elements, wherever else that text occurs
    for codec in codecs3:
        for nxt in ('777', '', 'AB', '0003'):
            packed_next = f'0002{len(nxt):03d}{nxt}'
            for at in (0, 5, 400):
                first = ('5' * at + packed_next + '5' * 985)[:985]
                cases.append(mk(rng, 'pkg', codec, [(1, first), (2, nxt), (3, 'tail')]))
                cases.append(mk(rng, 'pkg', codec, [(1, first), (2, nxt)]))
        # ... and a value equal to the whole text of the carrier so far
        cases.append(mk(rng, 'pkg', codec, [(1, 'abc'), (2, '0001003abc'), (3, 'x' * 975), (4, '0001003abc')]))
    # MANY sub-elements with empty (or one-character) values in one carrier: 9 .. 140 of them
    for count in (8, 9, 10, 17, 60, 140):
        for codec in codecs3:
            tags = rng.sample(range(0, 10000), count)
            cases.append(mk(rng, 'pkg', codec, [(t, '') for t in tags]))
            cases.append(mk(rng, 'pkg', codec, [(t, 'x' if i % 5 == 0 else '') for i, t in enumerate(tags)]))
    for codec in codecs3:
        for ch in ('\u20ac', '\u0141', '\u3042'):
            c = mk(rng, 'pkg', codec, [(23, 'ab' + ch + 'cd'), (158, 'plain')])
            c['unencodable'] = True
            cases.append(c)
    # keys spelt with fewer / more than four digits: the tag is int(key[3:]) (they come back as PDSxxxx)
    for codec in codecs3:
        m = {'MTI': '1240', 'PDS023': 'a', 'PDS7': 'bb', 'PDS00158': 'ccc', 'PDS1000': 'd'}
        cases.append({'cfg': 'pkg', 'codec': codec, 'hex': 0, 'msg': iu.dict_wire(m), 'oddkeys': True})
    for k in range(1, 7):
        ents = [(100 + i, 'x' * 992) for i in range(k)]
        cases.append(mk(rng, 'pkg', 'latin_1', ents))
        cases.append(mk(rng, 'pkg', 'cp500', ents + [(9000, '')]))
    # caller configurations with MORE carriers than the packaged five (the packaged one plus elements 112 / 110 and 112 as
    # further carriers): sets needing 1 .. all of them, and one more
    for extra_bits in ((112,), (110, 112), (105, 110, 112)):
        cfgx = copy.deepcopy(iu.pkg_config())
        for xb in extra_bits:
            cfgx[str(xb)] = {'field_name': f'extra carrier {xb}', 'field_type': 'LLLVAR', 'field_length': 0,
                             'field_processor': 'PDS'}
        ncar = 5 + len(extra_bits)
        for k in range(1, ncar + 2):
            ents = [(100 + i, 'x' * 992) for i in range(k)]
            cases.append(mk(rng, cfgx, codecs3[k % 3], ents))
        cases.append(mk(rng, cfgx, 'latin_1', [(7, 'seven'), (23, 'A' * 500), (158, 'B' * 700), (9999, '')]))
    # caller configurations whose carriers declare a NOMINAL length (255, 100, 999, 30): a variable element's
    # `field_length` is descriptive — a carrier is filled up to what its three-digit prefix can count
    for nominal in (255, 100, 999, 30):
        cfgn = copy.deepcopy(iu.pkg_config())
        for kk, fc in cfgn.items():
            if fc.get('field_processor') == 'PDS':
                fc['field_length'] = nominal
        for ents in ([(100 + i, 'v' * 150) for i in range(8)], [(1, 'a' * 500), (2, 'b' * 480)], [(7, 'x' * 992)],
                     [(i, 'y' * 90) for i in range(1, 40)]):
            cases.append(mk(rng, cfgn, codecs3[nominal % 3], ents))
    # PDS together with other elements and with generated carrier sets
    for _ in range(300 if tier == 'quick' else 5000):
        cfg = rng.choice(['pkg', 'gen'])
        if cfg == 'gen':
            cfg = iu.gen_config(rng)
            if not any(fc.get('field_processor') == 'PDS' for fc in cfg.values()):
                continue
        codec = rng.choice(codecs3)
        m, _ = iu.gen_message(rng, iu.pkg_config() if cfg == 'pkg' else cfg, codec, with_pds=True)
        cases.append({'cfg': cfg, 'codec': codec, 'hex': rng.randrange(2), 'msg': iu.dict_wire(m), 'exp': ''})
    run.correspond(__name__, cases, use_model=run.use_model, chunk=100)
