"""C08 — decoding accepts exactly the well-framed messages and never mis-frames one."""
from harness import common, isoutil as iu
from harness.props import c01, c07

PROP = 'C08'
WATCHDOG_S = 2.0
RULE = ("byte strings near the valid language: valid messages (packaged + generated configurations, 4 codecs, both bitmap "
        "forms) and their mutations — each length digit replaced by sign / space / underscore / NBSP / NUL / high byte / "
        "other digits, prefixes rewritten to point before, at and past the end, bitmap bits added and removed (incl. bit "
        "128), truncation and extension, hex bitmaps spelt with signs / blanks / underscores, configuration histories — compared with an independent reference decoder: whatever is accepted must be "
        "the exact tiling reading (numerals read leniently but non-negative); whatever the strict reference accepts must be "
        "accepted with the same dictionary. Non-trivial = mutated; distinct = distinct input bytes")
TRUSTED = c01.TRUSTED + ["harness/isoutil.py ref_decode: independent strict reference decoder"]
ASSUMPTIONS = c01.ASSUMPTIONS

cfg_of, cfg_id = c01.cfg_of, c01.cfg_id


def impl_eval(case):
    from cardutil import iso8583
    codec, hexbm = case['codec'], bool(case['hex'])
    data = bytes.fromhex(case['data'])

    def warm_up(live, pre):
        iso8583.loads(bytes.fromhex(pre['data']), encoding=codec, iso_config=live, hex_bitmap=hexbm)
    cfg = c01.live_config(case, warm_up)
    # every third input is handed over as the caller's own bytearray (a mutable bytes-like object): decoding reads it,
    # and leaves it as it was
    arg = bytearray(data) if len(data) % 3 == 1 else data
    obs, d, ex = iu.obs_loads(lambda: iso8583.loads(arg, encoding=codec, iso_config=cfg, hex_bitmap=hexbm), cfg)
    if bytes(arg) != data:
        return {'obs': obs, 'violation': "decoding changed the caller's buffer", 'tags': ['buffer-changed']}
    cfg = cfg_of(case)      # the references read the configuration the caller asked for
    why = None
    try:
        strict, _ = iu.ref_decode(data, cfg, codec, hexbm, strict_numerals=True)
    except iu.RefError:
        strict = None
    if d is not None:
        core = {k: v for k, v in d.items() if not k.startswith('DE43_')}
        try:
            lenient, _ = iu.ref_decode(data, cfg, codec, hexbm, strict_numerals=False)
        except iu.RefError as e:
            lenient = None
            why = f'accepted a message that is not well-framed ({e}); returned {sorted(core)[:6]}'
        if lenient is not None and core != lenient:
            diff = sorted(k for k in set(core) | set(lenient) if core.get(k) != lenient.get(k))
            why = f'accepted, but values are not the content of their own bytes: keys {diff[:5]}'
    elif strict is not None:
        why = f'rejected ({obs}) a message that is well-framed, decodable and convertible'
    elif not obs == 'err':
        why = f'loads raised {obs}'
    return {'obs': obs, 'violation': why, 'nontrivial': case.get('mut') != 'valid',
            'tags': [f"mut:{case.get('mut')}", 'accepted' if d is not None else 'rejected',
                     'strict-ok' if strict is not None else 'strict-no']}


def model_line(case):
    cid = cfg_id(case)
    lines = []
    if cid != 'pkg':
        lines.append(f'cfg.def\t{cid}\t{iu.cfg_wire(case["cfg"])}')
    lines.append(f"iso.loads\t{cid}\t{case['codec']}\t{case['hex']}\t{case['data']}")
    return lines


def model_obs(case, resp):
    return resp[-1]


def explore(run, tier):
    from cardutil import iso8583
    rng = common.rng_for(run.seed, PROP)
    thorough = tier == 'thorough'
    pkg = iu.pkg_config()
    cases = []
    nseed = 80 if not thorough else 600
    for i in range(nseed):
        cfg = 'pkg' if i % 3 else iu.gen_config(rng, with_decimal=(i % 2 == 0))
        cdict = pkg if cfg == 'pkg' else cfg
        codec = ['latin_1', 'cp500', 'cp037', 'ascii'][i % 4]
        hexbm = i % 2
        m, _ = iu.gen_message(rng, cdict, codec, with_pds=(i % 2 == 0) or None)
        # keep variable fields short so that prefix arithmetic dominates
        for k in list(m):
            if isinstance(m[k], str) and len(m[k]) > 60 and cdict.get(k[2:], {}).get('field_type') in ('LLVAR', 'LLLVAR') \
                    and cdict[k[2:]].get('field_processor') not in ('PDS',):
                m[k] = m[k][:rng.randrange(1, 30)]
        try:
            data = iso8583.dumps(dict(m), encoding=codec, iso_config=cdict, hex_bitmap=bool(hexbm))
        except Exception:  # noqa
            continue
        base = {'cfg': cfg, 'codec': codec, 'hex': hexbm}
        cases.append(dict(base, data=data.hex(), mut='valid'))
        if hexbm and codec in ('cp500', 'cp037'):
            # the 32 bitmap characters in the MESSAGE's own character set (EBCDIC digits and letters): the hexadecimal
            # bitmap is 32 ASCII characters whatever the encoding of the text elements — this is not one
            ebc = data[:4] + data[4:36].decode('ascii').encode(codec) + data[36:]
            cases.append(dict(base, data=ebc.hex(), mut='ebcdic-hexbitmap'))
            cases.append(dict(base, data=(data[:4] + data[4:36].decode('ascii').upper().encode(codec) + data[36:]).hex(),
                              mut='ebcdic-hexbitmap'))
        if hexbm:
            # the hexadecimal bitmap in CAPITALS, and in mixed case: the same bitmap (hexadecimal text has no case)
            up = data[:4] + data[4:36].upper() + data[36:]
            mixed = data[:4] + bytes(b - 32 if (97 <= b <= 102 and i % 2) else b for i, b in enumerate(data[4:36])) + data[36:]
            cases.append(dict(base, data=up.hex(), mut='valid'))
            cases.append(dict(base, data=mixed.hex(), mut='valid'))
        pos = c07.positions(data, cdict, codec, hexbm)
        hdr = 36 if hexbm else 20
        alpha = c07.alphabet_bytes(codec) + ['1'.encode(codec)[0], '9'.encode(codec)[0], '3'.encode(codec)[0]]
        for cls in ('prefix', 'pdslen', 'content'):
            # 'content': first and last byte of every element's value — signs / blanks / high bytes in numeric, date and
            # text elements: accepted exactly when the value is decodable and convertible
            offs = sorted(set(pos[cls]))
            if not thorough and len(offs) > 9:
                offs = sorted(rng.sample(offs, 9))
            for o in offs:
                for v in sorted(set(alpha)):
                    if v != data[o]:
                        cases.append(dict(base, data=(data[:o] + bytes([v]) + data[o + 1:]).hex(), mut=cls))
        # rewrite each whole prefix so that it points before / at / past the end of the message
        try:
            _, framing = iu.ref_decode(data, cdict, codec, hexbm)
        except iu.RefError:
            framing = []
        body_len = len(data) - hdr
        for bit, po, pl, co, cl in framing:
            if not pl:
                continue
            for n in {0, 1, cl - 1, cl + 1, body_len - co, body_len - co + 1, body_len - co - 1, 10 ** pl - 1}:
                if 0 <= n < 10 ** pl and n != cl:
                    newp = f'{n:0{pl}d}'.encode(codec)
                    cases.append(dict(base, data=(data[:hdr + po] + newp + data[hdr + po + pl:]).hex(), mut='relen'))
            # the whole prefix rewritten as a SPELLING int() accepts: blanks, signs and underscores around small numbers —
            # negative ones must never be accepted (the pointer would move backwards), whatever precedes the sign
            spellings = [' -1', '-01', ' -9', '- 1', ' +1', '+01', '1  ', ' 1 ', '  1', '1_0', '-_1', '\t-1', ' -0', '-00'] if pl == 3 \
                else ['-1', '-9', '+1', ' 1', '1 ', '-0', '+0', '\t1']
            for sp in spellings:
                try:
                    newp = sp.encode(codec)
                except UnicodeError:
                    continue
                if len(newp) == pl:
                    cases.append(dict(base, data=(data[:hdr + po] + newp + data[hdr + po + pl:]).hex(), mut='respell'))
            # zero-length variable field in place (completeness: must be accepted)
            z = data[:hdr + po] + ('0' * pl).encode(codec) + data[hdr + co + cl:]
            cases.append(dict(base, data=z.hex(), mut='zerolen'))
        # bitmap bits added / removed
        for bit in sorted(rng.sample(range(2, 129), 10)) + [128, 127, 65, 64, 2, 1]:
            raw = bytearray(bytes.fromhex(data[4:36].decode('ascii')) if hexbm else data[4:20])
            raw[(bit - 1) // 8] ^= 0x80 >> ((bit - 1) % 8)
            bmp = raw.hex().encode('ascii') if hexbm else bytes(raw)
            cases.append(dict(base, data=(data[:4] + bmp + data[hdr:]).hex(), mut='bitflip'))
        for n in (1, 2, 3):
            cases.append(dict(base, data=data[:-n].hex(), mut='truncate'))
            cases.append(dict(base, data=(data + bytes(rng.getrandbits(8) for _ in range(n))).hex(), mut='extend'))
            cases.append(dict(base, data=(data + ' '.encode(codec) * n).hex(), mut='extend'))
            # bytes that a test for "anything left?" could take for nothing: NUL, the 1014 filler, line ends
            for fillb in (b'\x00', b'\x40', b'\x0a', b'\xff'):
                cases.append(dict(base, data=(data + fillb * [1, 3, 40][n - 1]).hex(), mut='extend'))
    # LARGE messages: k of the eleven 3-digit-prefixed elements at (or near) their full 999 bytes — a message is as long as
    # its elements are (the 6000-byte limit belongs to the record layer of IPM files, not to the message format)
    lll = sorted(int(k) for k, fc in pkg.items() if fc['field_type'] == 'LLLVAR')
    for ci, codec in enumerate(['latin_1', 'cp500', 'cp037']):
        for k in (5, 6, 7, len(lll)):
            for full in (999, 990):
                m = {'MTI': '1240', 'DE2': '5' * 16}
                for b in lll[:k]:
                    proc = pkg[str(b)].get('field_processor')
                    if proc == 'PDS':
                        m[f'DE{b}'] = iu.pds_text([(b, iu.text(rng, codec, full - 14 - 500)), (b + 1000, iu.text(rng, codec, 500))])
                    elif proc == 'ICC':
                        v = b''
                        while len(v) + 102 <= full:
                            v += b'\x9f\x10\x63' + bytes(rng.getrandbits(8) for _ in range(99))
                        m[f'DE{b}'] = v
                    else:
                        m[f'DE{b}'] = iu.text(rng, codec, full)
                try:
                    data = iso8583.dumps(dict(m), encoding=codec, iso_config=pkg, hex_bitmap=bool((k + ci) % 2))
                except Exception:  # noqa
                    continue
                cases.append({'cfg': 'pkg', 'codec': codec, 'hex': (k + ci) % 2, 'data': data.hex(), 'mut': 'valid'})
                cases.append({'cfg': 'pkg', 'codec': codec, 'hex': (k + ci) % 2, 'data': data[:-1].hex(), 'mut': 'truncate'})
    # a caller's configuration with LONG fixed-width elements (1003, 1500, 2500 characters — longer than any variable
    # element can be): every element is handed the rest of the message, however long its own part is
    longcfg = {'2': {'field_name': 'a', 'field_type': 'LLVAR', 'field_length': 0},
               '3': {'field_name': 'b', 'field_type': 'FIXED', 'field_length': 1003},
               '4': {'field_name': 'c', 'field_type': 'FIXED', 'field_length': 1500},
               '5': {'field_name': 'd', 'field_type': 'FIXED', 'field_length': 6, 'field_python_type': 'int'},
               '70': {'field_name': 'e', 'field_type': 'FIXED', 'field_length': 2500},
               '71': {'field_name': 'f', 'field_type': 'LLLVAR', 'field_length': 0}}
    for ci, codec in enumerate(['latin_1', 'cp500']):
        for present in ([3], [4], [70], [2, 3, 4, 5, 70, 71], [3, 5], [4, 71]):
            m = {'MTI': '1240'}
            for b in present:
                fc = longcfg[str(b)]
                m[f'DE{b}'] = 123456 if fc.get('field_python_type') else iu.text(rng, codec, fc['field_length'] or 17).rstrip(' ') + 'x'
            for b in present:
                if isinstance(m[f'DE{b}'], str) and longcfg[str(b)]['field_type'] == 'FIXED':
                    m[f'DE{b}'] = m[f'DE{b}'][:longcfg[str(b)]['field_length']].ljust(longcfg[str(b)]['field_length'], 'z')
            try:
                data = iso8583.dumps(dict(m), encoding=codec, iso_config=longcfg, hex_bitmap=bool(ci))
            except Exception:  # noqa
                continue
            cases.append({'cfg': longcfg, 'codec': codec, 'hex': ci, 'data': data.hex(), 'mut': 'valid'})
            cases.append({'cfg': longcfg, 'codec': codec, 'hex': ci, 'data': data[:-1].hex(), 'mut': 'truncate'})
    bm = lambda bits: sum(1 << (128 - b) for b in [1] + bits).to_bytes(16, 'big')   # noqa: E731
    # every variable-length element of the packaged configuration with a declared length of ZERO, alone and followed by
    # another element: well-framed, accepted, the element present with an empty value (and its derived entries)
    for b in sorted(int(k) for k, fc in pkg.items() if fc['field_type'] in ('LLVAR', 'LLLVAR')):
        pl = 2 if pkg[str(b)]['field_type'] == 'LLVAR' else 3
        for ci, codec in enumerate(['latin_1', 'cp500']):
            e = lambda t: t.encode(codec)   # noqa: E731
            cases.append({'cfg': 'pkg', 'codec': codec, 'hex': 0, 'data': (e('1144') + bm([b]) + e('0' * pl)).hex(), 'mut': 'zerolen'})
            if b < 127:
                cases.append({'cfg': 'pkg', 'codec': codec, 'hex': 0,
                              'data': (e('1144') + bm([b, 127]) + e('0' * pl) + e('003abc')).hex(), 'mut': 'zerolen'})
    # BINARY bitmaps whose sixteen bytes all happen to be hexadecimal characters, followed by data that starts with more
    # of them: sixteen bitmap bytes, never the first half of a 32-character hexadecimal bitmap nobody asked for
    def bits_of(raw):
        return [i + 1 for i in range(128) if raw[i // 8] >> (7 - i % 8) & 1]
    for raw16 in (b'0' * 16, b'0123456789abcdef', b'CAFEBABEdeadbeef', b'1' * 16, b'8' + b'0' * 15):
        onecfg = {str(b): {'field_name': f'f{b}', 'field_type': 'FIXED', 'field_length': 1} for b in bits_of(raw16) if b >= 2}
        nbits = len(onecfg)
        for fill in (b'0123456789abcdefABCDEF', b'f', b'09'):
            body = (fill * 64)[:nbits]
            for codec in ('latin_1', 'ascii'):
                cases.append({'cfg': onecfg, 'codec': codec, 'hex': 0, 'data': (b'1240' + raw16 + body).hex(), 'mut': 'hexlike-bitmap'})
                cases.append({'cfg': onecfg, 'codec': codec, 'hex': 0, 'data': (b'1240' + raw16 + body + b'0').hex(), 'mut': 'hexlike-bitmap'})
    for data in [b'1144' + bm([2]) + b'-2' + b'1234', b'1144' + bm([2, 3]) + b'-21234', b'1144' + bm([2, 128]) + b'03123',
                 b'1144' + bm([2, 3]) + b'00123456', b'1144' + bm([2]) + b'00', b'1144' + bm([48]) + b'000',
                 b'1144' + bm([2]) + b' 3123', b'1144' + bm([2]) + b'+3123', b'1144' + bm([48]) + b'0_5' + b'00010' * 1,
                 b'1144' + bm([48]) + b'0100001003abc', b'1144' + bm([48]) + b'0090001003ab',
                 # ICC data that ends in a tag without a length byte (one-byte tag, the first byte of a two-byte tag, a
                 # whole two-byte tag), alone and after a complete data object
                 b'1144' + bm([55]) + b'001\x9a', b'1144' + bm([55]) + b'001\x9f', b'1144' + bm([55]) + b'002\x9f\x36',
                 b'1144' + bm([55]) + b'004\x82\x01\x00\x9a', b'1144' + bm([55]) + b'005\x9a\x02\x12\x34\x5f',
                 b'1144' + bm([55]) + b'006\x9a\x02\x12\x34\x9f\x10', b'1144' + bm([55]) + b'003\x82\x01\x00',
                 # PDS carriers with a sub-element header whose length int() cannot read, at the end / in the middle
                 b'1144' + bm([48]) + b'0140001003abc0002', b'1144' + bm([48]) + b'0180001003abc0002_01Z',
                 b'1144' + bm([48]) + b'0180001003abc0002xx1Z', b'1144' + bm([48]) + b'0080002xx1Z']:
        cases.append({'cfg': 'pkg', 'codec': 'latin_1', 'hex': 0, 'data': data.hex(), 'mut': 'corpus'})
    # hexadecimal bitmap: spellings that int(.., 16) / bytes.fromhex tolerate (sign, blanks, underscores) are NOT hex
    # bitmaps; the element data is laid out for the bitmap such a lenient reading would produce
    for codec, data in c07.hex_spellings(rng, pkg):
        cases.append({'cfg': 'pkg', 'codec': codec, 'hex': 1, 'data': data.hex(), 'mut': 'hexspelling'})
    # configuration histories (see C01): decode under A, edit the same object into B, decode under B
    for cfgA, cfgB, bit in c01.config_edits(rng, pkg, 30 if not thorough else 300):
        codec = rng.choice(['latin_1', 'cp500'])
        hexbm = rng.randrange(2)
        try:
            mA, _ = iu.gen_message(rng, cfgA, codec, bits=[bit])
            dA = iu.ref_encode(mA, cfgA, codec, bool(hexbm))
            mB, _ = iu.gen_message(rng, cfgB, codec, bits=[bit])
            dB = iu.ref_encode(mB, cfgB, codec, bool(hexbm))
        except (iu.RefError, KeyError):
            continue
        for how in ('inplace', 'deepcopy'):
            for data, mut in ((dB, 'hist-valid'), (dA, 'hist-old-layout')):
                cases.append({'cfg': cfgB, 'codec': codec, 'hex': hexbm, 'data': data.hex(), 'mut': mut,
                              'before': {'cfg': cfgA, 'data': dA.hex(), 'how': how}})
    run.correspond(__name__, cases, use_model=run.use_model, chunk=200)
