"""C05 — 1014 unblocking: reads return the exact payload stream for every read sequence."""
import io

from harness import common
from harness.props.vbsutil import P, ref_payload, ref_blockify

PROP = 'C05'
RULE = ("read histories on Unblock1014 over well-blocked, truncated and arbitrary files: every residue of "
        "bytes-already-delivered mod 1012 reached by 3 chunkings x boundary next sizes (quick) / every size 0..2024 "
        "(thorough), read() with no size on non-empty streams, random histories, real files opened 'rb' (fresh / sampled and rewound, several buffer sizes); unblock_1014 on every truncation "
        "length (thorough) / boundary lengths (quick) and single-byte corruptions of every trailer of 1..4-block files. "
        "Non-trivial = the history crosses a block boundary, uses a no-size read, or the input is rejected; distinct = "
        "distinct (file, history)")
TRUSTED = ["Model/Vbs.lean `Unblock.read`/`refill` models Unblock1014.read (hand-written, tied by this correspondence); "
           "read() and read(0) are the code's two spellings of 'no size'; negative sizes are outside the property"]
ASSUMPTIONS = ["the wrapped file object's read(1014) returns 1014 bytes unless at end of file (BytesIO / regular files)"]


def file_bytes(spec):
    kind, *a = spec.split(':')
    if kind == 'hex':
        return bytes.fromhex(a[0])
    if kind == 'pc':
        return common.pc(0, int(a[0]))
    if kind == 'blk':
        return ref_blockify(common.pc(0, int(a[0])))
    if kind == 'blkcut':
        return ref_blockify(common.pc(0, int(a[0])))[:int(a[1])]
    raise ValueError(spec)


def impl_eval(case):
    from cardutil import mciipm
    f = file_bytes(case['file'])
    if case['k'] == 'reads':
        tmp = None
        if case.get('real'):
            # a real file opened 'rb' (io.BufferedReader), optionally sampled and rewound first, as ipm_info-then-read does
            import os
            import tempfile
            fd, tmp = tempfile.mkstemp(prefix='verif_c05_')
            os.write(fd, f)
            os.close(fd)
            fobj = open(tmp, 'rb', buffering=case.get('buffering', -1))
            if case['real'] == 'sampled':
                fobj.read(case.get('sample', 2500))
                fobj.seek(0)
        else:
            fobj = io.BytesIO(f)
        try:
            return reads_eval(case, f, mciipm.Unblock1014(fobj))
        finally:
            fobj.close()
            if tmp:
                os.unlink(tmp)
    return other_eval(case, f)


def reads_eval(case, f, u):
    if True:
        outs = []
        for i, n in enumerate(case['reads']):
            if n is None:
                # the three spellings of "no size": read(), read(0) and read(None)
                outs.append([u.read, lambda: u.read(0), lambda: u.read(None)][(i + len(f)) % 3]())
            else:
                outs.append(u.read(n))
        rem = ref_payload(f)
        why = None
        for i, (n, o) in enumerate(zip(case['reads'], outs)):
            exp = rem if n is None else rem[:n]
            rem = b'' if n is None else rem[n:]
            if o != exp and why is None:
                why = (f'read #{i} ({"no size" if n is None else n}) returned {len(o)} bytes, expected the next '
                       f'{len(exp)} bytes of the payload stream')
        if why is None and case.get('twice') and case['reads'] and case['reads'][-1] is None:
            # a SECOND pass: everything has been read (the unblocker holds nothing back), the file is rewound through the
            # unblocker's attribute proxy, and the same reads are made again — they return the same bytes again
            try:
                u.seek(0)
                again = [u.read() if n is None else u.read(n) for n in case['reads']]
            except Exception as ex:  # noqa
                again = 'escape:' + type(ex).__name__
            if again != outs:
                why = 'after reading to the end and rewinding (seek(0) through the unblocker), the same reads do not return the same bytes'
        total = sum(n or 0 for n in case['reads'])
        return {'obs': 'ok ' + ','.join(common.sig(o) for o in outs), 'violation': why,
                'nontrivial': total >= P or None in case['reads'],
                'tags': ['reads', 'nosize' if None in case['reads'] else 'sized']}


def other_eval(case, f):
    from cardutil import mciipm
    if case['k'] == 'unblock':
        o = io.BytesIO()
        try:
            mciipm.unblock_1014(io.BytesIO(f), o)
            res = ('ok', o.getvalue())
        except mciipm.MciIpmDataError:
            res = ('err', None)
        except Exception as ex:  # noqa
            res = ('escape:' + type(ex).__name__, None)
        good = len(f) % 1014 == 0 and all(f[i + 1012:i + 1014] == b'\x40\x40' for i in range(0, len(f), 1014))
        why = None
        if good and (res[0] != 'ok' or res[1] != ref_payload(f)):
            why = 'well-blocked input not unblocked to its payload stream'
        if not good and res[0] != 'err':
            why = f'input that is not a whole number of blocks with correct trailers was not refused ({res[0]})'
        return {'obs': 'ok ' + common.sig(res[1]) if res[0] == 'ok' else res[0], 'violation': why,
                'nontrivial': True, 'tags': ['unblock:' + res[0].split(':')[0]]}
    if case['k'] == 'vbslist':
        # the convenience reader over a blocked byte string: records out of the payload stream
        recs = common.pc_records(case['lens'])
        try:
            back = mciipm.vbs_bytes_to_list(f, blocked=True)
            end = 'eof'
        except mciipm.MciIpmDataError:
            back, end = None, 'err'
        except Exception as ex:  # noqa
            back, end = None, 'escape:' + type(ex).__name__
        why = None if back == recs else f'vbs_bytes_to_list(blocked=True) returned {len(back or [])} records ({end}), the file holds {len(recs)}'
        return {'obs': 'ok ' + ','.join(common.sig(r) for r in (back or [])) + ' ' + end, 'violation': why,
                'nontrivial': len(f) > 2028, 'tags': ['vbslist']}
    if case['k'] == 'vbsplain':
        # the EQUIVALENT UNBLOCKED stream of the same records, read the way an unblocked stream is read — no `blocked`
        # argument at all (the documented default), or blocked=False — whatever its bytes 1012-1013 hold
        import struct
        recs = [bytes([case['fill']]) * n for n in case['lens']]
        why = None
        obs = []
        for how in ('reader-default', 'reader-false', 'list-default', 'list-false'):
            try:
                if how == 'reader-default':
                    back = list(mciipm.VbsReader(io.BytesIO(f)))
                elif how == 'reader-false':
                    back = list(mciipm.VbsReader(io.BytesIO(f), blocked=False))
                elif how == 'list-default':
                    back = mciipm.vbs_bytes_to_list(f)
                else:
                    back = mciipm.vbs_bytes_to_list(f, blocked=False)
                end = 'eof'
            except mciipm.MciIpmDataError:
                back, end = None, 'err'
            except Exception as ex:  # noqa
                back, end = None, 'escape:' + type(ex).__name__
            if back != recs and why is None:
                why = (f'the unblocked stream of {len(recs)} records read with {how} gave {len(back or [])} records ({end}); '
                       f'its bytes 1012-1013 are {f[1012:1014].hex()}')
            if how == 'reader-default':
                obs = 'ok ' + ','.join(common.sig(r) for r in (back or [])) + ' ' + end
        # and the blocked form of the same stream gives the same records
        try:
            if mciipm.vbs_bytes_to_list(ref_blockify(f), blocked=True) != recs and why is None:
                why = 'the blocked form of the stream does not give the same records as the unblocked stream'
        except Exception as ex:  # noqa
            why = why or f'reading the blocked form failed: {type(ex).__name__}'
        return {'obs': obs, 'violation': why, 'nontrivial': len(f) > 1014, 'tags': ['vbsplain']}
    raise ValueError(case['k'])


def vbs_blocked_hex(lens):
    import struct
    stream = b''.join(struct.pack('>I', len(r)) + r for r in common.pc_records(lens)) + b'\x00' * 4
    return ref_blockify(stream).hex()


def model_line(case):
    if case['k'] == 'vbsplain':
        return f"vbs.read\t0\t6000\t{case['file']}"
    if case['k'] == 'vbslist':
        return f"vbs.read\t1\t6000\t{case['file']}"
    if case['k'] == 'reads':
        return 'u1014.reads\t' + case['file'] + '\t' + ','.join('-' if n is None else str(n) for n in case['reads'])
    return 'unblock\t' + case['file']


def prefixes(d):
    yield [d] if d else []
    yield [d // 2, d - d // 2] if d >= 2 else [4, P - 4 + d]
    yield [P, d] if d else [P - 1, 1]


def boundary_sizes(d):
    left = P - d % P
    s = {1, 2, 3, 4, left - 1, left, left + 1, P - 1, P, P + 1, left + P - 1, left + P, left + P + 1, 2 * P, 2 * P + 1}
    return sorted(x for x in s if x > 0)


def explore(run, tier):
    rng = common.rng_for(run.seed, PROP)
    cases = []
    files = ['blk:4000', 'blkcut:4000:3500', 'pc:3100']
    for d in range(0, P + 1):
        for pi, pre in enumerate(prefixes(d)):
            if tier == 'thorough' and pi == d % 3:
                sizes = range(1, 2 * P + 1)
            else:
                sizes = boundary_sizes(d)
            for n in sizes:
                tail = [None] if (d + n) % 5 == 0 else [n]
                cases.append({'k': 'reads', 'file': files[(d + n) % 3], 'reads': [x for x in pre if x] + [n] + tail})
    run.exhaustive.append('all delivered residues 0..1012 x 3 chunkings x boundary next sizes'
                          + ('; all residues x every next size 1..2024' if tier == 'thorough' else ''))
    for spec in ['hex:', 'blk:1', 'blk:1012', 'blk:1013', 'blk:3036', 'blkcut:3036:3035', 'blkcut:3036:1013',
                 'blkcut:3036:1', 'pc:1014', 'pc:5']:
        for reads in ([None], [None, None], [None, 4], [4, None], [1, None, None], [5000], [0 or None, 1]):
            cases.append({'k': 'reads', 'file': spec, 'reads': reads})
        if spec.startswith(('blk:', 'hex:')):
            # (the second pass only on WHOLE blocked files: what an unblocker does after it has been read to the end of a
            # file cut inside a block and is then rewound is outside what the property speaks of — a rewrite that keeps its
            # position inside the current block across the rewind was reported here, wrongly: see DESIGN §13.4)
            for reads in ([None], [4, None], [1012, 1012, None], [3000, None], [5000, None]):
                cases.append({'k': 'reads', 'file': spec, 'reads': reads, 'twice': True})
    # the list-returning convenience reader over blocked byte strings of one to eight blocks
    for lens in ([5], [1004], [1005], [900, 900], [1000, 1000, 1000], [2500, 17, 3000], [500] * 12, [6000], [1012] * 7,
                 [3, 2020, 3, 1008, 1]):
        cases.append({'k': 'vbslist', 'file': 'hex:' + vbs_blocked_hex(lens), 'lens': lens})
    # the equivalent UNBLOCKED streams, of records of one byte value (blanks in EBCDIC / ASCII, NUL): such a stream has
    # x'40' x'40' where a blocked file has its trailers — it is unblocked all the same
    import struct
    for fill in (0x40, 0x20, 0x00):
        for lens in ([2100], [1008, 1008], [1004, 6], [500, 504, 1020, 3000], [1010], [1009], [6000, 6000], [3] * 300):
            stream = b''.join(struct.pack('>I', n) + bytes([fill]) * n for n in lens) + b'\x00' * 4
            cases.append({'k': 'vbsplain', 'file': 'hex:' + stream.hex(), 'lens': lens, 'fill': fill})
    # payloads made of ONE byte value (line feed, carriage return, the filler, NUL, 0xFF): whatever stands at the first
    # or last position of a block is data
    for fill in (0x0a, 0x0d, 0x40, 0x00, 0xff, 0x1a):
        for n in (1012, 2500, 4000):
            spec = 'hex:' + ref_blockify(bytes([fill]) * n).hex()
            for reads in ([None], [4, 300, None], [1012, 1012, 1012, None], [1011, 2, 1011, 2, None], [n], [5000]):
                cases.append({'k': 'reads', 'file': spec, 'reads': reads})
    for _ in range(3000 if tier == 'quick' else 60000):
        n = rng.choice([1000, 1012, 1013, 2024, 2500, 3036, 5000])
        cut = rng.choice([None, None, rng.randrange(0, ((n + P - 1) // P) * 1014 + 1)])
        spec = f'blk:{n}' if cut is None else f'blkcut:{n}:{cut}'
        reads = [rng.choice([None, 1, 4, rng.randrange(1, 50), rng.randrange(1, 1100), rng.randrange(1000, 1030),
                             rng.randrange(1, 3000)]) for _ in range(rng.randrange(1, 9))]
        cases.append({'k': 'reads', 'file': spec, 'reads': reads})
    # real files ('rb' = BufferedReader), fresh or sampled-and-rewound, larger than the reader's buffer
    for i in range(24 if tier == 'quick' else 300):
        n = rng.choice([3000, 9000, 20000, 40000])
        reads = [rng.choice([4, rng.randrange(1, 1100), rng.randrange(1000, 1030), rng.randrange(1, 3000)])
                 for _ in range(rng.randrange(3, 30))] + [None]
        cases.append({'k': 'reads', 'file': f'blk:{n}', 'reads': reads, 'real': ['fresh', 'sampled'][i % 2],
                      'sample': rng.choice([1, 24, 2500, 5000]), 'buffering': rng.choice([-1, -1, 4096, 1014, 0])})
    for n in (5000, 9000, 20000, 40000):
        for sample in (1, 2500, 4096, 8192):
            for reads in ([4, 300, 2000, None], [1012] * 6 + [None], [None], [5000, 5000, None]):
                cases.append({'k': 'reads', 'file': f'blk:{n}', 'reads': reads, 'real': 'sampled', 'sample': sample})
    # long files and long histories: state that builds up over many blocks (buffer bookkeeping, compaction, ...)
    for i in range(120 if tier == 'quick' else 3000):
        n = rng.choice([9000, 12000, 20000, 33000, 60000])
        style = i % 4
        reads, left = [], n + 2000
        while left > 0 and len(reads) < 4000:
            if style == 0:
                r = rng.choice([4, rng.randrange(1, 6000)])            # record-reader like: prefix, record
            elif style == 1:
                r = rng.randrange(1, 3000)
            elif style == 2:
                r = rng.choice([1, 2, 7, 1011, 1012, 1013, 2024, 2025, 8096, 8097])
            else:
                r = rng.randrange(200, 700)
            reads.append(r)
            left -= r
        if i % 10 == 0:
            reads[len(reads) // 2] = None
        cut = rng.choice([None, None, rng.randrange(0, ((n + P - 1) // P) * 1014)])
        cases.append({'k': 'reads', 'file': f'blk:{n}' if cut is None else f'blkcut:{n}:{cut}', 'reads': reads})
    # blocks whose payload looks like fill (0x40 runs) in the middle of the data
    for pat in ([b'\x01' * 1012, b'\x40' * 1012, b'\x02' * 100], [b'\x40' * 1012, b'\x03' * 1012],
                [b'\x05' * 500 + b'\x40' * 512, b'\x40' * 1012, b'\x40' * 1012, b'\x06' * 7], [b'\x40' * 3036]):
        good = ref_blockify(b''.join(pat))
        cases.append({'k': 'unblock', 'file': 'hex:' + good.hex()})
        cases.append({'k': 'reads', 'file': 'hex:' + good.hex(), 'reads': [1000, 1000, None]})
        cases.append({'k': 'reads', 'file': 'hex:' + good.hex(), 'reads': [4, 1008, 4, 1008, 2000]})
    # the validating one-shot unblocker
    for n in [0, 1, 1011, 1012, 1013, 2024, 2025, 3036]:
        cases.append({'k': 'unblock', 'file': f'blk:{n}'})
    for nblocks in [1, 2, 3, 4]:
        n = nblocks * P - 7
        total = nblocks * 1014
        cuts = range(0, total + 1) if tier == 'thorough' else sorted(
            {0, 1, 2, 1011, 1012, 1013, 1014, 1015, total - 1015, total - 1014, total - 1013, total - 2, total - 1, total}
            | {rng.randrange(0, total + 1) for _ in range(40)})
        for c in cuts:
            if 0 <= c <= total:
                cases.append({'k': 'unblock', 'file': f'blkcut:{n}:{c}'})
        good = ref_blockify(common.pc(0, n))
        for b in range(nblocks):
            for off in (1012, 1013):
                for v in (0x00, 0x41, 0x20, 0xff, 0x04):
                    bad = bytearray(good)
                    bad[b * 1014 + off] = v
                    cases.append({'k': 'unblock', 'file': 'hex:' + bytes(bad).hex()})
    cases.append({'k': 'unblock', 'file': 'hex:' + (b'\x40' * 1014 + b'\x01' * 1012 + b'\x40\x40').hex()})
    # a corrupted trailer byte next to payload that ENDS in x'40' (filled blocks, blank-padded data): the two bytes at
    # 1012-1013 are the trailer, whatever the payload before them looks like; line-end and NUL values among the corruptions
    for payload in (b'\x40' * 1012, b'\x01' * 1010 + b'\x40\x40', b'\x01' * 1011 + b'\x40'):
        for t in (b'\x40\x0a', b'\x0a\x40', b'\x40\x0d', b'\x40\x00', b'\x00\x40', b'\x40\x20', b'\x20\x40', b'\x0d\x0a',
                  b'\x40\x1a', b'\x40\x85'):
            for nb in (1, 2, 3):
                good_blocks = (b'\x02' * 1012 + b'\x40\x40') * (nb - 1)
                cases.append({'k': 'unblock', 'file': 'hex:' + (good_blocks + payload + t).hex()})
                cases.append({'k': 'unblock', 'file': 'hex:' + (payload + t + good_blocks).hex()})
    # whole blocks followed by one or two stray bytes that look like a line end / an end-of-file marker: still not a
    # whole number of blocks
    for fill in (b'\x0a', b'\x1a', b'\x0d\x0a', b'\x00', b'\x40', b'\x20'):
        body = ref_blockify((fill * 4000)[:3000])
        for kblocks in (1, 2, 3):
            for extra in (1, 2):
                cases.append({'k': 'unblock', 'file': 'hex:' + body[:kblocks * 1014 + extra].hex()})
    run.correspond(__name__, cases, use_model=run.use_model)
