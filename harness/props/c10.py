"""C10 — a bad record is reported with its own record number and raw bytes."""
import contextlib
import io
import struct

from harness import common, isoutil as iu
from harness.props import c01, c07
from harness.props.vbsutil import read_all, read_pattern, render_end

PROP = 'C10'
RULE = ("IPM files of n records (quick n <= 6, thorough n <= 40) x every position k in 1..n x fault kind {truncated record, "
        "oversized length, undecodable MTI, unknown bitmap bit, bad field length, bad typed value, bad PDS content, bad ICC "
        "content, record too short for MTI + bitmap, records and numeric elements made of blanks only, a length with the top bit set} x {VBS, 1014} x {latin_1, cp500}, truncation at every byte of record k (n <= 6), records with space-padded elements, faulty records of 4500 / 5990 bytes, elements declaring more than the record holds, readers with a caller-supplied configuration (a bit the packaged configuration knows but the caller's does not), the reader consumed as one loop / next() then a loop / two loops / next() only: records 1..k-1 must be delivered, then MciIpmDataError with "
        "record_number == k and the raw bytes of record k (length prefix included) as context; the operator report must "
        "name record k. Non-trivial = k > 1 or a message-level fault; distinct = distinct (n, k, kind, format, codec)")
TRUSTED = c01.TRUSTED + ["Model/Vbs.lean `ipmReadAll` models IpmReader.__next__ (error wrapping with record number and "
                         "last_record), generic in the message decoder"]
ASSUMPTIONS = c01.ASSUMPTIONS

SHORT = [0]      # how many bitmap bytes the 'shortrec' record keeps (set per case)
KINDS = ['truncated', 'oversized', 'badmti', 'unknownbit', 'badlen', 'badtyped', 'badpds', 'badicc', 'shortrec',
         'shortfixed', 'shortvar2', 'shortvar3', 'surplus', 'unknownbit_end', 'unknownbit_128', 'baddate_hour', 'baddate_month',
         'foreignlen2', 'foreignlen3', 'foreignmti', 'zonedpos', 'zonedneg', 'zonedbrace',
         'blank40', 'blank20', 'blank40short', 'blanktyped', 'blanktyped8', 'nultyped']


def custom_config():
    """a caller-supplied configuration: the packaged one WITHOUT elements 3, 49 and 71 — a record using one of them has
    an unknown bitmap bit for this reader, whatever the packaged configuration says"""
    cfg = {k: v for k, v in iu.pkg_config().items() if k not in ('3', '49', '71')}
    cfg['7'] = {}          # listed but empty (a site file that blanks an element out): as good as not configured
    cfg['8'] = None
    return cfg


def bm(bits):
    return sum(1 << (128 - b) for b in [1] + bits).to_bytes(16, 'big')


def good_record(i, codec):
    e = lambda s: s.encode(codec)   # noqa: E731
    variants = [
        e('1240') + bm([2, 3]) + e('16' + '5' * 16 + '000000'),
        e('1644') + bm([24, 71]) + e('697' + f'{i:08d}'),
        e('1240') + bm([2, 4, 48]) + e('104444333322' + f'{i * 7:012d}' + '0170023003ABC0158000'),
        # space-padded fixed elements and free text with runs of spaces (0x40 in EBCDIC: looks like block trailers)
        e('1240') + bm([2, 41, 42, 72]) + e('16' + '5' * 16 + 'T1      ' + 'MERCHANT       ' + '012' + 'A  B  C     '),
    ]
    return variants[i % len(variants)]


def good_custom(i, codec):
    """records the caller's configuration (custom_config) can read: no element 3, 49 or 71"""
    e = lambda s: s.encode(codec)   # noqa: E731
    variants = [
        e('1240') + bm([2, 4]) + e('16' + '5' * 16 + f'{i * 7:012d}'),
        e('1644') + bm([24]) + e('697'),
        e('1240') + bm([2, 41, 42]) + e('16' + '5' * 16 + 'T1      ' + 'MERCHANT       '),
    ]
    return variants[i % len(variants)]


def bad_record(kind, codec):
    e = lambda s: s.encode(codec)   # noqa: E731
    if kind == 'badmti':
        return e('12x0') + bm([2]) + e('0212')
    if kind == 'unknownbit':
        return e('1240') + bm([2, 7]) + e('0212' + '0000')
    if kind == 'badlen':
        return e('1240') + bm([2]) + e('zz12')
    if kind == 'badtyped':
        return e('1240') + bm([4]) + e('00000000abcd')
    # a number whose LAST character only is no digit (what a zoned-decimal unload would look like: sign over the digit)
    if kind == 'zonedpos':
        return e('1240') + bm([4]) + e('00000000250A')
    if kind == 'zonedneg':
        return e('1240') + bm([4, 71]) + e('000000002500' + '0000012R')
    if kind == 'zonedbrace':
        return e('1240') + bm([4]) + e('00000000250}')
    # records and elements that hold nothing but blanks / filler: x'40' is the EBCDIC blank (and the 1014 pad byte), x'20'
    # the ASCII blank — a record of blanks has no numeric MTI, a numeric element of blanks is no number
    if kind == 'blank40':
        return b'\x40' * 30
    if kind == 'blank20':
        return b'\x20' * 30
    if kind == 'blank40short':
        return b'\x40' * 3
    if kind == 'blanktyped':
        return e('1240') + bm([4]) + e(' ' * 12)
    if kind == 'blanktyped8':
        return e('1644') + bm([24, 71]) + e('697' + ' ' * 8)
    if kind == 'nultyped':
        return e('1240') + bm([4]) + b'\x00' * 12
    if kind == 'badpds':
        return e('1240') + bm([48]) + e('0090023xyz')
    if kind == 'shortrec':       # a record too short to hold MTI + bitmap, with a perfectly numeric MTI
        return (e('1240') + bm([2]))[:4 + SHORT[0]]
    if kind == 'badicc':
        return e('1240') + bm([55]) + e('003') + b'\x82\x00\x9a'
    # elements that declare more than the record holds: a fixed element cut short, a 2-digit and a 3-digit prefix
    # counting more bytes than follow; and a record with bytes left over after its last element
    if kind == 'shortfixed':
        return e('1240') + bm([2, 49]) + e('0212' + '97')
    if kind == 'shortvar2':
        return e('1240') + bm([2]) + e('19' + '5' * 16)
    if kind == 'shortvar3':
        return e('1240') + bm([2, 48]) + e('0212' + '050' + '0023003ABC0158000XXX')
    if kind == 'surplus':
        return e('1240') + bm([2]) + e('0212' + '7')
    if kind == 'baddate_hour':       # DE12 (%y%m%d%H%M%S) with hour 25: no date in the configured format, whatever else it resembles
        return e('1240') + bm([12]) + e('240101250000')
    if kind == 'baddate_month':
        return e('1240') + bm([12]) + e('241301120000')
    if kind == 'emptybit':           # for custom_config(): bits 7 / 8 are LISTED there with an empty entry ({} / None)
        return e('1240') + bm([2, 7]) + e('0212' + '0000')
    if kind == 'unknownbit_end':     # the unknown bit is above every present element; no byte is left for it
        return e('1240') + bm([2, 126]) + e('0212')
    if kind == 'unknownbit_128':     # a configured element flagged after the data has run out
        return e('1240') + bm([2, 94]) + e('0212')
    # a length prefix / MTI spelled in the digits of the OTHER character-set family (ASCII digits in an EBCDIC file, EBCDIC
    # digits in an ASCII-family file) with the value that WOULD fit: in the file's own character set these bytes are no
    # digits, so the record is faulty
    other = (lambda t: t.encode('latin_1')) if codec in ('cp500', 'cp037', 'cp273', 'cp1140') else (lambda t: t.encode('cp500'))
    if kind == 'foreignlen2':
        return e('1240') + bm([2, 3]) + other('16') + e('5' * 16 + '000000')
    if kind == 'foreignlen3':
        return e('1240') + bm([3, 48]) + e('000000') + other('017') + e('0023003ABC0158000')
    if kind == 'foreignmti':
        return other('1240') + bm([2, 3]) + e('16' + '5' * 16 + '000000')
    if kind == 'custombit':      # fine for the packaged configuration, unknown bit 49 for custom_config()
        return e('1240') + bm([2, 49]) + e('0212' + '978')
    return good_record(1, codec)


def build(case):
    codec, n, k, kind = case['codec'], case['n'], case['k'], case['kind']
    SHORT[0] = case.get('keep', 0)
    recs = [good_record(i, codec) for i in range(n)]
    if case.get('custom'):
        recs = [good_custom(i, codec) for i in range(n)]
    if kind not in ('truncated', 'oversized'):
        recs[k - 1] = bad_record(kind, codec)
    if case.get('pad'):
        # a LARGE faulty record (the reader accepts up to the configured maximum): the context is all of it
        recs[k - 1] = recs[k - 1] + common.pc(0, case['pad'] - len(recs[k - 1]))
    stream = b''
    raw_k = None
    for i, r in enumerate(recs, 1):
        item = struct.pack('>I', len(r)) + r
        if i == k and kind == 'oversized':
            item = struct.pack('>I', 6001 + case.get('extra', 0)) + r
            if case.get('rdw') == 'topbit':
                # the record's own length with the top bit set: 2**31 + len — far beyond any maximum, whatever a
                # "spanned record" convention would make of that bit
                item = struct.pack('>I', 0x80000000 | len(r)) + r
            elif case.get('rdw'):
                # an over-long length that another convention would read as fitting: the record's own length (+4, +0)
                # in the HIGH two bytes and zeros in the low two (an IBM record descriptor word), or byte-swapped
                item = {'rdw4': struct.pack('>HH', len(r) + 4, 0), 'rdw0': struct.pack('>HH', len(r), 0),
                        'little': struct.pack('<I', len(r)), 'rdw4le': struct.pack('<HH', len(r) + 4, 0)}[case['rdw']] + r
            raw_k = item[:4]
        elif i == k:
            raw_k = item
        stream += item
        if i == k and kind == 'truncated':
            cut = 4 + (case['cut'] if 'cut' in case else max(1, len(r) // 2))
            stream = stream[:len(stream) - len(item) + cut]
            raw_k = item[:cut]
            break
    if kind != 'truncated':
        stream += b'\x00\x00\x00\x00'
    if case['b']:
        data = b''
        for i in range(0, len(stream), 1012):
            c = stream[i:i + 1012]
            data += c + b'\x40' * (1012 - len(c)) + b'\x40\x40'
        if kind == 'truncated':
            # the blocked file is cut right after the surviving payload bytes (no fill can follow a cut)
            full, rest = divmod(len(stream), 1012)
            data = data[:full * 1014 + rest]
    else:
        data = stream
    return data, recs, raw_k


def impl_eval(case):
    from cardutil import mciipm, iso8583
    from cardutil.cli import print_exception_details
    data, recs, raw_k = build(case)
    codec, k = case['codec'], case['k']
    kw = {'iso_config': custom_config()} if case.get('custom') else {}
    got, exc = read_pattern(mciipm.IpmReader(io.BytesIO(data), encoding=codec, blocked=bool(case['b']), **kw),
                            case.get('pattern', 'for'))
    body = '|'.join(iu.dict_wire({kk: v for kk, v in r.items() if not kk.startswith('DE43_')}, sort=True) for r in got)
    why = None
    # before the error is looked at: ANOTHER reader in the same process reads another (good) file to its end — what an
    # error object says about record k is its own, whatever is read afterwards and by whom
    other_file = b''.join(struct.pack('>I', len(r)) + r for r in (good_record(7, codec), good_record(9, codec))) + b'\x00' * 4
    read_all(mciipm.IpmReader(io.BytesIO(other_file), encoding=codec, blocked=False))
    expected_prefix = [iso8583.loads(r, encoding=codec, **kw) for r in recs[:k - 1]]
    if got != expected_prefix:
        why = f'delivered {len(got)} records before the error; records 1..{k - 1} were expected unchanged'
    elif not isinstance(exc, mciipm.MciIpmDataError):
        why = f'iteration ended with {render_end(exc)}; the library data error was expected at record {k}'
    elif exc.record_number != k:
        why = f'error reports record {exc.record_number}; the record that is actually wrong is {k} ({case["kind"]})'
    elif exc.binary_context_data != raw_k:
        why = (f'context data ({len(exc.binary_context_data or b"")} bytes) are not the raw bytes of record {k} including its '
               f'length prefix ({len(raw_k)} bytes)')
    else:
        out = io.StringIO()
        with contextlib.redirect_stdout(out):
            print_exception_details(exc)
        if f'Error detected in record {k}\n' not in out.getvalue():
            why = f'operator report does not say "Error detected in record {k}"'
        elif case.get('cli') and not case.get('custom') and not case.get('pad'):
            # the same file through the mci_ipm_to_csv command: return code -1 and the same report on the console
            import os
            import shutil
            import tempfile
            from cardutil.cli import mci_ipm_to_csv
            d = tempfile.mkdtemp(prefix='verif_c10_')
            try:
                path = os.path.join(d, 'in.ipm')
                open(path, 'wb').write(data)
                con = io.StringIO()
                with contextlib.redirect_stdout(con):
                    # (every other case with the tool's --debug option: more logging, the same report and return code)
                    dbg = {'debug': True} if (case['n'] + case['k'] + case['b']) % 2 else {}
                    try:
                        rc = mci_ipm_to_csv.cli_run(in_filename=path, out_filename=path + '.csv', in_encoding=codec,
                                                    no1014blocking=not case['b'], **dbg)
                    finally:
                        if dbg:
                            import logging
                            logging.getLogger().setLevel(logging.WARNING)
                if rc != -1:
                    why = f'mci_ipm_to_csv returned {rc!r} for a file whose record {k} is faulty (expected -1)'
                elif f'Error detected in record {k}\n' not in con.getvalue():
                    why = f'mci_ipm_to_csv did not report "Error detected in record {k}"'
            finally:
                shutil.rmtree(d, ignore_errors=True)
    return {'obs': f'ok {body} {render_end(exc)}', 'violation': why,
            'nontrivial': k > 1 or case['kind'] not in ('truncated', 'oversized'),
            'tags': [f"kind:{case['kind']}", f"fmt:{'1014' if case['b'] else 'vbs'}", f'codec:{codec}']}


def model_line(case):
    data, _, _ = build(case)
    if case.get('custom'):
        model_cfg = {k: v for k, v in custom_config().items() if v}      # empty entries: not configured
        cid = c01.cfg_id({'cfg': model_cfg})
        return [f'cfg.def\t{cid}\t{iu.cfg_wire(model_cfg)}',
                f"ipm.read\t{cid}\t{case['codec']}\t{case['b']}\t{c07.c03max()}\thex:{data.hex()}"]
    return f"ipm.read\tpkg\t{case['codec']}\t{case['b']}\t{c07.c03max()}\thex:{data.hex()}"


def model_obs(case, resp):
    return resp[-1] if isinstance(resp, list) else resp


def explore(run, tier):
    cases = []
    ns = [1, 2, 3, 6] if tier == 'quick' else [1, 2, 3, 6, 13, 40]
    for n in ns:
        for k in range(1, n + 1):
            for kind in KINDS:
                for b in (0, 1):
                    for codec in ('latin_1', 'cp500'):
                        c = {'n': n, 'k': k, 'kind': kind, 'b': b, 'codec': codec}
                        if n in (1, 3) and kind != 'shortrec':
                            c['cli'] = True
                        cases.append(c)
                        if kind == 'oversized':
                            cases.append(dict(c, extra=2 ** 31))
                            for rdw in ('rdw4', 'rdw0', 'little', 'rdw4le', 'topbit'):
                                cases.append(dict(c, rdw=rdw))
                            # length values that look like filler / text: 0x40404040, 0x20202020, 0xFFFFFFFF, 0x00004040
                            for val in (0x40404040, 0x20202020, 0xFFFFFFFF, 0x00004040, 0xF0F0F0F0):
                                cases.append(dict(c, extra=val - 6001))
                        if k >= 2 and (n, kind) in ((6, 'badlen'), (3, 'truncated'), (6, 'oversized'), (3, 'badmti')):
                            for pattern in ('next-for', 'two-loops', 'next-only'):
                                cases.append(dict(c, pattern=pattern))
                        if kind in ('unknownbit', 'badmti', 'truncated', 'surplus') and n in (2, 6):
                            big = dict(c, pad=[4500, 5990][k % 2])
                            if kind == 'truncated':
                                big['cut'] = big['pad'] - 7
                            cases.append(big)
                        if kind in ('unknownbit', 'badlen', 'truncated') and n in (1, 3):
                            cases.append(dict(c, custom=1))
                            if kind == 'unknownbit':
                                cases.append(dict(c, custom=1, kind='custombit'))
                                cases.append(dict(c, custom=1, kind='emptybit'))
                        if kind == 'shortrec':
                            for keep in (1, 8, 15):
                                cases.append(dict(c, keep=keep))
                        if kind == 'truncated' and n <= 6:
                            # every cut position inside record k (at least one byte of it survives, never all)
                            # (cut 0: the file ends right after the four length bytes of record k — nothing of the
                            # record itself survives, and that is a record cut short like any other)
                            for cut in range(0, len(good_record(k - 1, codec))):
                                cases.append(dict(c, cut=cut))
    # faulty records far into a file (record numbers of four digits: the report names the number as a plain number)
    for n, k, kind in ((1000, 1000, 'badmti'), (1001, 1001, 'truncated'), (1203, 1001, 'badlen'), (1000, 999, 'oversized')):
        for b in (0, 1):
            cases.append({'n': n, 'k': k, 'kind': kind, 'b': b, 'codec': ['latin_1', 'cp500'][b]})
    run.exhaustive.append(f'n in {ns} x every k x 8 fault kinds x 2 formats x 2 codecs')
    run.correspond(__name__, cases, use_model=run.use_model, chunk=60)
