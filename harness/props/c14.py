"""C14 — PVV, key check value and key-part combination match the published algorithms."""
import binascii

from harness import common, refdes

PROP = 'C14'
RULE = ("(PIN 4..12 digits, PAN of 12..19 digits, key index 0..9, 2-/3-key DES key) with keys SEARCHED so that the second decimalisation "
        "scan contributes 0,1,2,3,4 digits (class counts in the distribution); calculate_pvv and the to_pvv mix-in (also ONE object asked repeatedly with other index / PAN / key first); key "
        "component lists of 1..4 components incl. repeated components and permutations; KCV lengths; encrypted zone key. "
        "PVV/KCV/ZMK compared with a from-scratch DES/3DES reference + independent decimalisation, and with the Lean model "
        "(cipher output supplied by the reference). Non-trivial = every case; distinct = distinct case")
TRUSTED = ["Model/PinBlock.lean `tsp`/`decimalise`/`pvv`/`combine`/`kcv` (hand-written; tied by this correspondence); the "
           "block cipher is a parameter of the model — ciphertexts handed to the model come from harness/refdes.py",
           "harness/refdes.py: from-scratch DES/3DES with FIPS known-answer self-test on every run"]
ASSUMPTIONS = ["PIN, PAN and key index are ASCII digits; key components are 32-hex-digit strings"]


def spec_decimalise(ct_hex):
    digits = [c for c in ct_hex if c in '0123456789']
    if len(digits) < 4:
        digits += [str(int(c, 16) - 10) for c in ct_hex if c in 'abcdef']
    return ''.join(digits[:4])


def spec_pvv(pin, key_hex, idx, pan):
    tsp = pan[-12:-1] + str(idx) + pin[:4]
    ct = refdes.tdes_ecb(binascii.unhexlify(tsp), binascii.unhexlify(key_hex))
    return tsp, ct, spec_decimalise(ct.hex())


def fast_ct(tsp, key_hex):
    """3DES via `cryptography` — used ONLY to search for keys of a wanted class quickly; every selected case is then
    re-computed with the from-scratch reference"""
    from cryptography.hazmat.primitives.ciphers import Cipher, modes
    from cryptography.hazmat.decrepit.ciphers import algorithms as A
    e = Cipher(A.TripleDES(binascii.unhexlify(key_hex)), modes.ECB()).encryptor()
    return e.update(binascii.unhexlify(tsp)) + e.finalize()


class StubCipher:
    """stands in for cryptography's Cipher inside cardutil.pinblock: returns a chosen ciphertext, so that the
    decimalisation classes that no random key reaches (3 or 4 substituted digits) are exercised on the real code"""
    ct = b''

    def __init__(self, *a, **k):
        pass

    def encryptor(self):
        return self

    def update(self, data):
        StubCipher.seen = data
        return StubCipher.ct

    def finalize(self):
        return b''


def guarded(fn):
    try:
        return ('ok', fn())
    except Exception as ex:  # noqa
        return ('escape:' + type(ex).__name__, None)


def impl_eval(case):
    from cardutil import pinblock as pb, key as keymod
    k = case['k']
    why = None
    if k == 'pvvstub':
        from unittest import mock
        pin, pan, idx = case['pin'], case['pan'], case['idx']
        StubCipher.ct = bytes.fromhex(case['ct'])
        with mock.patch('cardutil.pinblock.Cipher', StubCipher):
            st, out = guarded(lambda: pb.calculate_pvv(pin, '00' * 16, idx, pan))
        exp = spec_decimalise(case['ct'])
        tsp = pan[-12:-1] + str(idx) + pin[:4]
        nsub = max(0, 4 - sum(c in '0123456789' for c in case['ct']))
        if st != 'ok':
            why = f'PVV computation raised {st}'
        elif StubCipher.seen != binascii.unhexlify(tsp):
            why = f'cipher input {StubCipher.seen.hex()} is not the TSP {tsp}'
        elif out != exp:
            why = f'decimalisation of {case["ct"]} gave {out!r}, expected {exp!r}'
        return {'obs': f'{st} {common.dotted(out or "")}', 'violation': why,
                'tags': [f'scan2:{nsub}', 'via:stub']}
    if k == 'pvv':
        pin, pan, idx, key = case['pin'], case['pan'], case['idx'], case['key']
        if case.get('via') == 'mixin-reuse':
            # ONE pin block object asked several times: other key indexes / PANs / keys first, then the observed call
            def reuse():
                o = pb.Iso0TDESPinBlockWithVisaPVV(pin, card_number=pan)
                for other in case['before']:
                    o.to_pvv(other.get('key', key), key_index=other.get('idx', idx), card_number=other.get('pan', pan))
                return o.to_pvv(key, key_index=idx, card_number=pan)
            st, out = guarded(reuse)
        elif case.get('via') == 'mixin':
            st, out = guarded(lambda: pb.Iso0TDESPinBlockWithVisaPVV(pin, card_number=pan).to_pvv(key, key_index=idx))
        elif case.get('via') == 'mixin-positional':
            # the documented parameter order (pvv_key, key_index, card_number), given by position
            st, out = guarded(lambda: pb.Iso0TDESPinBlockWithVisaPVV(pin, card_number=pan).to_pvv(key, idx))
        elif case.get('via') == 'mixin4-positional':
            st, out = guarded(lambda: pb.Iso4AESPinBlockWithVisaPVV(pin, random_value=5).to_pvv(key, idx, pan))
        elif case.get('via') == 'rebuilt':
            # the PVV of a pin block object rebuilt from its clear bytes with the card number
            def rebuilt():
                cls = pb.Iso0TDESPinBlockWithVisaPVV
                o = cls.from_bytes(cls(pin, card_number=pan).to_bytes(), card_number=pan)
                return o.to_pvv(key, key_index=idx)
            st, out = guarded(rebuilt)
        elif case.get('via') == 'rebuilt-enc':
            def rebuilt_enc():
                cls = pb.Iso0TDESPinBlockWithVisaPVV
                ppk = key[:32]
                o = cls.from_enc_bytes(cls(pin, card_number=pan).to_enc_bytes(ppk), ppk, card_number=pan)
                return o.to_pvv(key, key_index=idx)
            st, out = guarded(rebuilt_enc)
        elif case.get('via') == 'mixin4-reuse':
            # ONE format-4 block object (it has no card number of its own) asked for the values of OTHER card numbers /
            # indexes first: every call answers for the arguments of that call
            def reuse4():
                o = pb.Iso4AESPinBlockWithVisaPVV(pin, random_value=5)
                for other in case['before']:
                    o.to_pvv(other.get('key', key), other.get('idx', idx), other.get('pan', pan))
                return o.to_pvv(key, key_index=idx, card_number=pan)
            st, out = guarded(reuse4)
        elif case.get('via') == 'mixin4':
            st, out = guarded(lambda: pb.Iso4AESPinBlockWithVisaPVV(pin, random_value=5).to_pvv(
                key, key_index=idx, card_number=pan))
        else:
            st, out = guarded(lambda: pb.calculate_pvv(pin, key, idx, pan))
        tsp, ct, exp = spec_pvv(pin, key, idx, pan)
        nsub = max(0, 4 - sum(c in '0123456789' for c in ct.hex()))
        if st != 'ok':
            why = f'PVV computation raised {st}'
        elif out != exp:
            why = f'PVV {out!r} is not the Visa PVV {exp!r} (TSP {tsp}, ciphertext {ct.hex()})'
        elif len(out) != 4 or not out.isdigit():
            why = f'PVV {out!r} is not four decimal digits'
        return {'obs': f'{st} {common.dotted(out or "")}', 'violation': why,
                'tags': [f'scan2:{nsub}', f'pinlen:{len(pin)}', f"via:{case.get('via', 'func')}"]}
    if k == 'zmk':
        parts = case['parts']
        st, out = guarded(lambda: keymod.get_zone_master_key(*parts))
        x = 0
        for p in parts:
            x ^= int(p, 16)
        clear = f'{x:0{max([32] + [len(p) for p in parts])}x}'
        kcv = refdes.tdes_ecb(b'\x00' * 16, binascii.unhexlify(clear)).hex()[:6]
        if st != 'ok':
            why = f'get_zone_master_key raised {st}'
        elif out != (clear, kcv):
            why = f'combined key / KCV {out} is not (XOR of components, leading 3DES(0) digits) = {(clear, kcv)}'
        return {'obs': f'{st} {common.dotted(out[0]) if out else ""}', 'violation': why,
                'tags': [f'parts:{len(parts)}']}
    if k == 'enczmk':
        parts, mk = case['parts'], case['mk']
        st, out = guarded(lambda: keymod.get_enc_zone_master_key(mk, *parts))
        x = 0
        for p in parts:
            x ^= int(p, 16)
        clear = f'{x:0{max([32] + [len(p) for p in parts])}x}'
        enc = refdes.tdes_ecb(binascii.unhexlify(clear), binascii.unhexlify(mk)).hex()
        kcv = refdes.tdes_ecb(b'\x00' * 16, binascii.unhexlify(clear)).hex()[:6]
        if st != 'ok' or out != (enc, kcv):
            why = f'encrypted zone key {out} ({st}) is not 3DES-ECB(XOR of components) under the master key'
        return {'obs': f'{st} {common.dotted(clear)}', 'violation': why, 'tags': ['enczmk']}
    if k == 'kcv':
        key, n = case['key'], case['n']
        st, out = guarded(lambda: keymod.calculate_kcv(binascii.unhexlify(key), n))
        exp = refdes.tdes_ecb(b'\x00' * 16, binascii.unhexlify(key)).hex()[:n]
        if st != 'ok' or out != exp:
            why = f'KCV {out!r} ({st}) is not the leading {n} hex digits of 3DES(0) = {exp!r}'
        else:
            # the key handed over as a MUTABLE buffer, asked twice: the caller's key is the caller's (the second answer is
            # the first, the buffer still holds the key)
            kb = bytearray(binascii.unhexlify(key))
            st2, two = guarded(lambda: (keymod.calculate_kcv(kb, n), keymod.calculate_kcv(kb, n)))
            if st2 != 'ok' or two != (exp, exp) or bytes(kb) != binascii.unhexlify(key):
                why = f'a key given as a bytearray and used twice gave {two!r} ({st2}); the key check value is {exp!r}'
        return {'obs': f'{st} {common.dotted(out or "")}', 'violation': why, 'tags': ['kcv']}
    raise ValueError(k)


def model_line(case):
    k = case['k']
    if k == 'pvvstub':
        return (f"pvv\t{common.dotted(case['pin'])}\t{common.dotted(str(case['idx']))}\t"
                f"{common.dotted(case['pan'])}\t{case['ct']}")
    if k == 'pvv':
        # the model computes the Triple DES encryption itself (Model/Des.lean)
        return (f"pvv.tdes\t{common.dotted(case['pin'])}\t{common.dotted(str(case['idx']))}\t"
                f"{common.dotted(case['pan'])}\t{case['key']}")
    if k in ('zmk', 'enczmk'):
        return 'key.combine\t' + ','.join(common.dotted(p) for p in case['parts'])
    if k == 'kcv':
        return f"kcv.tdes\t{case['key']}\t{case['n']}"


def model_obs(case, resp):
    if case['k'] == 'pvvstub':
        return ' '.join(resp.split(' ')[2:])
    if case['k'] == 'pvv':
        # "tsp <dotted> ok <dotted pvv>"
        parts = resp.split(' ')
        tsp, _, _ = spec_pvv(case['pin'], case['key'], case['idx'], case['pan'])
        if parts[0] == 'tsp' and common.undotted(parts[1]) != tsp:
            return f'model TSP {common.undotted(parts[1])!r} differs from the reference TSP {tsp!r}'
        return ' '.join(parts[2:])
    return resp


def explore(run, tier):
    assert refdes.selftest()
    rng = common.rng_for(run.seed, PROP)
    cases = []
    def digits(n):
        return ''.join(rng.choice('0123456789') for _ in range(n))
    def rkey(n):
        return bytes(rng.getrandbits(8) for _ in range(n)).hex()
    # keys searched per second-scan class
    want = {0: 40, 1: 40, 2: 30, 3: 12, 4: 3} if tier == 'quick' else {0: 400, 1: 400, 2: 300, 3: 100, 4: 10}
    have = {c: 0 for c in want}
    tries = 0
    limit = 150000 if tier == 'quick' else 2000000
    while any(have[c] < want[c] for c in want) and tries < limit:
        tries += 1
        pin, pan, idx, key = digits(4 + tries % 9), digits(12 + tries % 8), tries % 10, rkey(16 if tries % 2 else 24)
        ct = fast_ct(pan[-12:-1] + str(idx) + pin[:4], key)
        cls = max(0, 4 - sum(c in '0123456789' for c in ct.hex()))
        if have[cls] < want[cls]:
            have[cls] += 1
            cases.append({'k': 'pvv', 'pin': pin, 'pan': pan, 'idx': idx, 'key': key,
                          'via': ['func', 'mixin', 'mixin4'][have[cls] % 3]})
    run.notes.append(f'second-scan classes reached with real keys after {tries} tries: {have}')
    # classes that random keys practically never reach: chosen ciphertexts through a cipher stub
    for i in range(60 if tier == 'quick' else 2000):
        nd = i % 5            # number of decimal digits among the 16 hex digits: 0..4
        pos = rng.sample(range(16), nd)
        ct = ''.join(rng.choice('0123456789') if j in pos else rng.choice('abcdef') for j in range(16))
        cases.append({'k': 'pvvstub', 'pin': digits(rng.randrange(4, 13)), 'pan': digits(rng.randrange(12, 20)),
                      'idx': rng.randrange(10), 'ct': ct})
    for i in range(3000 if tier == 'quick' else 100000):
        c = {'k': 'pvv', 'pin': digits(rng.randrange(4, 13)), 'pan': digits(rng.randrange(12, 20)),
             'idx': rng.randrange(10), 'key': rkey(rng.choice([16, 24]))}
        if i % 10 == 0:
            # other ways to the same value: positional arguments, pin block objects rebuilt from (encrypted) bytes
            c['via'] = ['mixin-positional', 'mixin4-positional', 'rebuilt', 'rebuilt-enc'][(i // 10) % 4]
        cases.append(c)
    # one pin block object asked repeatedly (other key index / PAN / key first)
    for i in range(120 if tier == 'quick' else 3000):
        pin, pan, idx, key = digits(rng.randrange(4, 13)), digits(rng.randrange(12, 20)), rng.randrange(10), rkey(16)
        before = [{'idx': (idx + 1 + j) % 10} if (i + j) % 3 == 0 else {'pan': digits(16)} if (i + j) % 3 == 1 else {'key': rkey(16)}
                  for j in range(rng.randrange(1, 4))]
        cases.append({'k': 'pvv', 'pin': pin, 'pan': pan, 'idx': idx, 'key': key, 'via': 'mixin-reuse', 'before': before})
    for _ in range(500 if tier == 'quick' else 10000):
        n = rng.randrange(1, 5)
        klen = rng.choice([16, 16, 24])          # double- and triple-length key components
        parts = [rkey(klen) for _ in range(n)]
        if rng.random() < 0.3 and n >= 2:
            parts[-1] = parts[0]                  # a component given twice cancels
        if rng.random() < 0.2:
            parts = [p.upper() if rng.random() < 0.7 else p for p in parts]     # key components are usually typed in capitals
        cases.append({'k': 'zmk', 'parts': parts})
        perm = parts[:]
        rng.shuffle(perm)
        cases.append({'k': 'zmk', 'parts': perm})
        cases.append({'k': 'enczmk', 'parts': parts, 'mk': rkey(rng.choice([16, 24]))})
        cases.append({'k': 'kcv', 'key': rkey(rng.choice([16, 24])), 'n': rng.choice([6, 6, 4, 16, 1])})
    # every check-value length 1..32 (the encryption of 16 zero bytes has 32 hex digits) and beyond (all 32 of them)
    for n in list(range(1, 33)) + [33, 40, 64]:
        cases.append({'k': 'kcv', 'key': rkey([16, 24][n % 2]), 'n': n})
    for i in range(12):
        pin, pan, idx, key = digits(4 + i % 9), digits(12 + i % 8), i % 10, rkey(16)
        before = [{'pan': digits(12 + (i + j) % 8)} if j % 2 == 0 else {'idx': (idx + 1) % 10} for j in range(1 + i % 3)]
        cases.append({'k': 'pvv', 'pin': pin, 'pan': pan, 'idx': idx, 'key': key, 'via': 'mixin4-reuse', 'before': before})
    cases.append({'k': 'zmk', 'parts': ['6D6BE51F04F76167491554FE25F7ABEF', '67499B2CF137DFCB9EA28FF757CD10A7']})
    # binary keys that LOOK like text (every byte an ASCII hex digit character, printable text, blanks)
    for kb in (b'0123456789ABCDEF', b'deadbeefcafe0123', b'0123456789abcdef01234567', b'                ', b'AAAAAAAAAAAAAAAA',
               b'1234567812345678'):
        for n in (6, 16):
            cases.append({'k': 'kcv', 'key': kb.hex(), 'n': n})
        cases.append({'k': 'zmk', 'parts': [kb.hex()]})
        cases.append({'k': 'zmk', 'parts': [kb.hex(), '00' * len(kb)]})
    # one component (capitals; a single-length, 16-digit one is widened to 32 digits), and none at all (the zero key)
    for parts in (['6D6BE51F04F76167491554FE25F7ABEF'], ['0123456789ABCDEF'], ['0123456789abcdef'], [], ['00' * 16],
                  ['0123456789ABCDEF', 'FEDCBA9876543210'], ['ab' * 24]):
        cases.append({'k': 'zmk', 'parts': parts})
        cases.append({'k': 'enczmk', 'parts': parts, 'mk': '0123456789abcdeffedcba9876543210'})
    run.correspond(__name__, cases, use_model=run.use_model, chunk=300)
