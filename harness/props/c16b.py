"""C16 part 2 — decoding under configurations that put the PAN / PAN-PREFIX processor on variable-length elements."""
import copy

from harness import common, isoutil as iu
from harness.props import c01

cfg_of, cfg_id = c01.cfg_of, c01.cfg_id


def impl_eval(case):
    from cardutil import iso8583
    cfg = case['cfg']
    plain = copy.deepcopy(cfg)
    for fc in plain.values():
        if fc.get('field_processor') in ('PAN', 'PAN-PREFIX'):
            del fc['field_processor']
    msg = iu.dict_unwire(case['msg'])
    codec = case['codec']
    data = iso8583.dumps(dict(msg), encoding=codec, iso_config=plain, hex_bitmap=bool(case['hex']))
    use = cfg
    if case.get('hist'):
        # a HISTORY: the caller decodes once without masking, switches masking on in the SAME configuration object (or a
        # deep copy of it), and decodes again — the second decode must mask
        use = copy.deepcopy(plain)
        try:
            iso8583.loads(data, encoding=codec, iso_config=use, hex_bitmap=bool(case['hex']))
        except Exception:  # noqa
            pass
        if case['hist'] == 'deepcopy':
            use = copy.deepcopy(use)
        c01.edit_in_place(use, cfg)
    obs, d, _ = iu.obs_loads(lambda: iso8583.loads(data, encoding=codec, iso_config=use, hex_bitmap=bool(case['hex'])), cfg)
    why = None
    if d is None:
        why = f'decoding failed: {obs}'
    else:
        for k, fc in cfg.items():
            proc = fc.get('field_processor')
            key = f'DE{k}'
            if proc not in ('PAN', 'PAN-PREFIX') or key not in msg:
                continue
            pan = msg[key]
            if proc == 'PAN' and len(pan) >= 10:
                want = pan[:6] + '*' * (len(pan) - 10) + pan[-4:]
                if d.get(key) != want:
                    why = f'{key} ({len(pan)} characters) decoded as {d.get(key)!r}, the masked form is {want!r}'
            if proc == 'PAN-PREFIX' and d.get(key) != pan[:9]:
                why = f'{key} decoded as {d.get(key)!r}, the prefix is {pan[:9]!r}'
            hidden = (proc == 'PAN' and len(pan) > 10) or (proc == 'PAN-PREFIX' and len(pan) > 9)
            if why is None and hidden and case.get('unique'):
                for kk, v in d.items():
                    if isinstance(v, str) and pan in v:
                        why = f'the clear PAN of {key} appears in the returned value of {kk}'
    return {'obs': [obs], 'violation': why, 'nontrivial': True, 'tags': ['decode-masking']}


def model_line(case):
    from cardutil import iso8583
    cid = cfg_id(case)
    plain = copy.deepcopy(case['cfg'])
    for fc in plain.values():
        if fc.get('field_processor') in ('PAN', 'PAN-PREFIX'):
            del fc['field_processor']
    data = iso8583.dumps(dict(iu.dict_unwire(case['msg'])), encoding=case['codec'], iso_config=plain,
                         hex_bitmap=bool(case['hex']))
    return [f'cfg.def\t{cid}\t{iu.cfg_wire(case["cfg"])}',
            f"iso.loads\t{cid}\t{case['codec']}\t{case['hex']}\t{data.hex()}"]


def model_obs(case, resp):
    return [resp[-1]]


def explore(run, tier):
    rng = common.rng_for(run.seed, 'C16b')
    pkg = iu.pkg_config()
    cases = []
    var_bits = [k for k, fc in pkg.items() if fc['field_type'] in ('LLVAR', 'LLLVAR') and not fc.get('field_processor')]
    for rep in range(2 if tier == 'quick' else 30):
        for k in var_bits:
            for proc in ('PAN', 'PAN-PREFIX'):
                cfg = copy.deepcopy(pkg)
                cfg[k]['field_processor'] = proc
                mx = 99 if cfg[k]['field_type'] == 'LLVAR' else 40
                for n in range(10, min(41, mx + 1)):
                    codec = ['latin_1', 'cp500', 'cp037'][(n + rep) % 3]
                    kind = 'digits' if (n + rep) % 4 else 'any'
                    pan = iu.text(rng, codec, n, kind)
                    m = {'MTI': '1240', f'DE{k}': pan, 'DE3': '000000', 'DE24': iu.text(rng, codec, 3)}
                    cases.append({'cfg': cfg, 'codec': codec, 'hex': n % 2, 'msg': iu.dict_wire(m),
                                  'unique': kind == 'digits'})
                    if n in (10, 11, 16, 19, 25, 40):
                        cases.append({'cfg': cfg, 'codec': codec, 'hex': n % 2, 'msg': iu.dict_wire(m),
                                      'unique': kind == 'digits', 'hist': ['inplace', 'deepcopy'][(n + rep) % 2]})
    for _ in range(40 if tier == 'quick' else 400):
        cfg = iu.gen_config(rng)
        if not any(fc.get('field_processor') in ('PAN', 'PAN-PREFIX') for fc in cfg.values()):
            continue
        for _ in range(10):
            codec = rng.choice(['latin_1', 'cp500', 'cp037'])
            m, _ = iu.gen_message(rng, cfg, codec, with_pds=False)
            cases.append({'cfg': cfg, 'codec': codec, 'hex': rng.randrange(2), 'msg': iu.dict_wire(m), 'unique': False})
    run.exhaustive.append('PAN and PAN-PREFIX on every unprocessed variable-length element of the packaged configuration x every length 10..40')
    run.correspond(__name__, cases, use_model=run.use_model, chunk=150)
