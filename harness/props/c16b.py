"""C16 part 2 — decoding under configurations that put the PAN / PAN-PREFIX processor on variable-length elements."""
import copy

from harness import common, isoutil as iu
from harness.props import c01

cfg_of, cfg_id = c01.cfg_of, c01.cfg_id


def reader_eval(case):
    """an IPM file read with a masking configuration: every delivered record has its PAN masked; a record the caller's
    configuration cannot describe (an element it lacks) is REFUSED — it is never delivered in another reading"""
    import io
    from cardutil import iso8583, mciipm
    import json
    cfg = json.loads(json.dumps(case['cfg']))
    codec = case['codec']
    plain = copy.deepcopy(cfg)
    for fc in plain.values():
        fc.pop('field_processor', None)
    msgs = [iu.dict_unwire(w) for w in case['msgs']]
    recs = [iso8583.dumps(dict(m), encoding=codec, iso_config=plain) for m in msgs]
    full = copy.deepcopy(plain)
    full[str(case['extra_bit'])] = {'field_name': 'x', 'field_type': 'FIXED', 'field_length': 3}
    odd = dict(msgs[0])
    odd[f"DE{case['extra_bit']}"] = '978'
    recs.insert(case['at'], iso8583.dumps(odd, encoding=codec, iso_config=full))
    data = mciipm.vbs_list_to_bytes(recs, blocked=bool(case['b']))
    got, exc = [], None
    try:
        given = cfg
        if case.get('late_config'):
            # the reader is created with the caller's configuration object BEFORE masking is switched on in it — by putting
            # a new entry in place of the old one (not by editing the entry) — and is read afterwards
            given = copy.deepcopy(plain)
        reader = mciipm.IpmReader(io.BytesIO(data), encoding=codec, iso_config=given, blocked=bool(case['b']))
        if case.get('late_config'):
            for kk, fc in cfg.items():
                if fc.get('field_processor'):
                    given[kk] = dict(given[kk], field_processor=fc['field_processor'])
        for i, r in enumerate(reader):
            got.append(r)
            if i == 0 and case.get('second_reader'):
                # while this reader is half way through its file, ANOTHER reader is created without a configuration (the
                # packaged one: no masking) and read to its end
                other = mciipm.vbs_list_to_bytes([iso8583.dumps({'MTI': '1240', 'DE2': '4' * 16})])
                list(mciipm.IpmReader(io.BytesIO(other)))
    except Exception as ex:  # noqa
        exc = ex
    why = None
    pans = [m['DE2'] for m in msgs]
    if len(got) != case['at'] or not isinstance(exc, mciipm.MciIpmDataError):
        why = (f"{len(got)} records delivered and {type(exc).__name__ if exc else 'no error'}: records 1..{case['at']} and "
               f"then the library error for record {case['at'] + 1} (an element the configuration lacks) were expected")
    for r in got:
        for v in r.values():
            if isinstance(v, str) and any(p in v for p in pans):
                why = 'a delivered record holds a clear PAN although the reader was given a masking configuration'
    obs = '|'.join(iu.dict_wire(r, sort=True) for r in got) + ' ' + ('err' if isinstance(exc, mciipm.MciIpmDataError) else
                                                                  'eof' if exc is None else 'escape:' + type(exc).__name__)
    return {'obs': [obs], 'violation': why, 'nontrivial': True, 'tags': ['reader-masking']}


def impl_eval(case):
    if case.get('k') == 'reader':
        return reader_eval(case)
    from cardutil import iso8583
    import json
    # the configuration as a caller gets it from a JSON file (cardutil.json, --config-file): every string in it is an
    # object of its own, equal to — not the same object as — any literal in the library
    cfg = json.loads(json.dumps(case['cfg']))
    plain = copy.deepcopy(cfg)
    for fc in plain.values():
        if fc.get('field_processor') in ('PAN', 'PAN-PREFIX'):
            del fc['field_processor']
    msg = iu.dict_unwire(case['msg'])
    codec = case['codec']
    data = iso8583.dumps(dict(msg), encoding=codec, iso_config=plain, hex_bitmap=bool(case['hex']))
    use = cfg
    if case.get('hist'):
        # a HISTORY: the caller decodes once without masking, switches masking on in the SAME configuration object (or a
        # deep copy of it), and decodes again — the second decode must mask
        use = copy.deepcopy(plain)
        try:
            iso8583.loads(data, encoding=codec, iso_config=use, hex_bitmap=bool(case['hex']))
        except Exception:  # noqa
            pass
        if case['hist'] == 'deepcopy':
            use = copy.deepcopy(use)
        c01.edit_in_place(use, cfg)
    if case.get('mapping'):
        # the configuration handed over as a read-only MAPPING (types.MappingProxyType of the dict) — a configuration is what
        # it maps, not which class holds it
        import types
        use = types.MappingProxyType(use)
    obs, d, _ = iu.obs_loads(lambda: iso8583.loads(data, encoding=codec, iso_config=use, hex_bitmap=bool(case['hex'])), cfg)
    why = None
    if d is None:
        why = f'decoding failed: {obs}'
    else:
        for k, fc in cfg.items():
            proc = fc.get('field_processor')
            key = f'DE{k}'
            if proc not in ('PAN', 'PAN-PREFIX') or key not in msg:
                continue
            pan = msg[key]
            if proc == 'PAN' and len(pan) >= 10:
                want = pan[:6] + '*' * (len(pan) - 10) + pan[-4:]
                if d.get(key) != want:
                    why = f'{key} ({len(pan)} characters) decoded as {d.get(key)!r}, the masked form is {want!r}'
            if proc == 'PAN-PREFIX' and d.get(key) != pan[:9]:
                why = f'{key} decoded as {d.get(key)!r}, the prefix is {pan[:9]!r}'
            hidden = (proc == 'PAN' and len(pan) > 10) or (proc == 'PAN-PREFIX' and len(pan) > 9)
            if why is None and hidden and case.get('unique'):
                for kk, v in d.items():
                    if isinstance(v, str) and pan in v:
                        why = f'the clear PAN of {key} appears in the returned value of {kk}'
    return {'obs': [obs], 'violation': why, 'nontrivial': True, 'tags': ['decode-masking']}


def model_line(case):
    if case.get('k') == 'reader':
        return None
    from cardutil import iso8583
    cid = cfg_id(case)
    plain = copy.deepcopy(case['cfg'])
    for fc in plain.values():
        if fc.get('field_processor') in ('PAN', 'PAN-PREFIX'):
            del fc['field_processor']
    data = iso8583.dumps(dict(iu.dict_unwire(case['msg'])), encoding=case['codec'], iso_config=plain,
                         hex_bitmap=bool(case['hex']))
    return [f'cfg.def\t{cid}\t{iu.cfg_wire(case["cfg"])}',
            f"iso.loads\t{cid}\t{case['codec']}\t{case['hex']}\t{data.hex()}"]


def model_obs(case, resp):
    return [resp[-1]]


def explore(run, tier):
    rng = common.rng_for(run.seed, 'C16b')
    pkg = iu.pkg_config()
    cases = []
    var_bits = [k for k, fc in pkg.items() if fc['field_type'] in ('LLVAR', 'LLLVAR') and not fc.get('field_processor')]
    for rep in range(2 if tier == 'quick' else 30):
        for k in var_bits:
            for proc in ('PAN', 'PAN-PREFIX'):
                cfg = copy.deepcopy(pkg)
                cfg[k]['field_processor'] = proc
                mx = 99 if cfg[k]['field_type'] == 'LLVAR' else 40
                for n in range(1, min(41, mx + 1)):      # (below 10 characters: for the tie with the model only)
                    codec = ['latin_1', 'cp500', 'cp037'][(n + rep) % 3]
                    kind = 'digits' if (n + rep) % 4 else 'any'
                    pan = iu.text(rng, codec, n, kind)
                    m = {'MTI': '1240', f'DE{k}': pan, 'DE3': '000000', 'DE24': iu.text(rng, codec, 3)}
                    cases.append({'cfg': cfg, 'codec': codec, 'hex': n % 2, 'msg': iu.dict_wire(m),
                                  'unique': kind == 'digits'})
                    if n in (12, 16, 19, 30):
                        cases.append({'cfg': cfg, 'codec': codec, 'hex': n % 2, 'msg': iu.dict_wire(m),
                                      'unique': kind == 'digits', 'mapping': True})
                    if n in (10, 11, 16, 19, 25, 40):
                        cases.append({'cfg': cfg, 'codec': codec, 'hex': n % 2, 'msg': iu.dict_wire(m),
                                      'unique': kind == 'digits', 'hist': ['inplace', 'deepcopy'][(n + rep) % 2]})
    # card numbers of ONE repeated digit (zero-filled, nine-filled placeholders) and of two alternating digits: masked like
    # any other — what the value looks like never decides whether it is masked
    for j, k in enumerate(var_bits):
        for proc in ('PAN', 'PAN-PREFIX'):
            cfg = copy.deepcopy(pkg)
            cfg[k]['field_processor'] = proc
            for n in (10, 11, 13, 16, 19):
                for fillch in ('0', '9', '5', '01', ' '):
                    codec = ['latin_1', 'cp500', 'cp037'][(n + j) % 3]
                    pan = (fillch * n)[:n]
                    m = {'MTI': '1240', f'DE{k}': pan, 'DE3': '123456', 'DE24': '200'}
                    cases.append({'cfg': cfg, 'codec': codec, 'hex': (n + j) % 2, 'msg': iu.dict_wire(m), 'unique': True})
    for _ in range(40 if tier == 'quick' else 400):
        cfg = iu.gen_config(rng)
        if not any(fc.get('field_processor') in ('PAN', 'PAN-PREFIX') for fc in cfg.values()):
            continue
        for _ in range(10):
            codec = rng.choice(['latin_1', 'cp500', 'cp037'])
            m, _ = iu.gen_message(rng, cfg, codec, with_pds=False)
            cases.append({'cfg': cfg, 'codec': codec, 'hex': rng.randrange(2), 'msg': iu.dict_wire(m), 'unique': False})
    # reader level: a masking configuration that lacks an element one record uses
    for i in range(8 if tier == 'quick' else 80):
        codec = ['latin_1', 'cp500'][i % 2]
        cfg = {'2': {'field_name': 'PAN', 'field_type': 'LLVAR', 'field_length': 0, 'field_processor': ['PAN', 'PAN-PREFIX'][i // 2 % 2]},
               '3': {'field_name': 'proc', 'field_type': 'FIXED', 'field_length': 6},
               '4': {'field_name': 'amt', 'field_type': 'FIXED', 'field_length': 12, 'field_python_type': 'int'}}
        msgs = [{'MTI': '1240', 'DE2': iu.text(rng, codec, rng.randrange(13, 20), 'digits'), 'DE3': '000000', 'DE4': rng.randrange(10 ** 6)}
                for _ in range(3)]
        cases.append({'k': 'reader', 'cfg': cfg, 'codec': codec, 'b': i % 2, 'msgs': [iu.dict_wire(m) for m in msgs],
                      'extra_bit': [49, 22, 24][i % 3], 'at': i % 3})
        cases.append({'k': 'reader', 'cfg': cfg, 'codec': codec, 'b': i % 2, 'msgs': [iu.dict_wire(m) for m in msgs],
                      'extra_bit': [49, 22, 24][i % 3], 'at': 3, 'second_reader': True})
        cases.append({'k': 'reader', 'cfg': cfg, 'codec': codec, 'b': i % 2, 'msgs': [iu.dict_wire(m) for m in msgs],
                      'extra_bit': [49, 22, 24][i % 3], 'at': 2 + i % 2, 'late_config': True})
    run.exhaustive.append('PAN and PAN-PREFIX on every unprocessed variable-length element of the packaged configuration x every length 10..40')
    run.correspond(__name__, cases, use_model=run.use_model, chunk=150)
