"""C16 part 2 (decode under PAN / PAN-PREFIX configurations) — filled in with the ISO8583 model."""


def explore(run, tier):
    run.notes.append('decode non-interference under PAN/PAN-PREFIX configurations: see iso8583 part')
