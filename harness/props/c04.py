"""C04 — 1014 blocking: output is well-formed and data-exact for every write sequence."""
import io

from harness import common

PROP = 'C04'
RULE = ("write histories over position-coded content (byte i of the stream is a fixed function of i): every residue "
        "of bytes-already-written mod 1012 reached by 3 chunkings x boundary next-write lengths (quick) or every next "
        "length 0..3036 (thorough), random histories, one-shot blocker on every length around block edges and on inputs past 64 KiB, single writes of up to 1100 blocks; a case is "
        "non-trivial when the history crosses at least one block boundary or ends exactly on one; distinct = distinct "
        "(history, finaliser)")
TRUSTED = ["Model/Block1014.lean models Block1014.write/finalise/seek/close and block_1014 (hand-written; tied by "
           "this correspondence); the wrapped file object is io.BytesIO positioned at its end"]
ASSUMPTIONS = ["the wrapped file object appends what it is given (BytesIO / file opened 'wb', no seeks between writes)"]
P = 1012


class KeepOpen(io.BytesIO):
    def close(self):
        pass


def ref_blockify(d: bytes) -> bytes:
    """independent reading of the documented format: 1012-byte chunks, last filled with 0x40, +2 x 0x40"""
    out = bytearray()
    for i in range(0, len(d), P):
        c = d[i:i + P]
        out += c + b'\x40' * (P - len(c)) + b'\x40\x40'
    return bytes(out)


def drop_trailing_fill(f: bytes) -> bytes:
    if len(f) >= P + 2 and f[-(P + 2):] == b'\x40' * (P + 2):
        return f[:-(P + 2)]
    return f


def oracle_stream(data: bytes, out: bytes):
    if len(out) % 1014:
        return f'output length {len(out)} is not a whole number of 1014-byte blocks'
    blocks = [out[i:i + 1014] for i in range(0, len(out), 1014)]
    for i, b in enumerate(blocks):
        if b[1012:] != b'\x40\x40':
            return f'block {i} does not end in two 0x40 bytes'
    payload = b''.join(b[:1012] for b in blocks)
    if payload[:len(data)] != data:
        k = next(i for i in range(min(len(data), len(payload)) + 1)
                 if i >= len(payload) or i >= len(data) or payload[i] != data[i])
        return f'payload differs from the data written at offset {k}'
    if payload[len(data):].strip(b'\x40'):
        return 'bytes other than 0x40 follow the data'
    ref = ref_blockify(data)
    if out != ref and out != ref + b'\x40' * 1014:
        return 'more than one fill-only block / not the documented blocking of the data'
    return None


def impl_eval(case):
    from cardutil import mciipm
    k = case['k']
    if k == 'stream':
        recs = common.pc_records(case['lens'])
        f = KeepOpen()
        if case.get('header'):
            f.write(b'\xee' * case['header'])
        b = mciipm.Block1014(f)
        if case.get('buf') == 'reused':
            # the zero-copy loop: ONE buffer filled again and again, a memoryview / bytearray slice of it handed to write();
            # what write() has been given must not change when the caller reuses the buffer afterwards
            buf = bytearray(max([1] + case['lens']))
            for i, r in enumerate(recs):
                buf[:len(r)] = r
                b.write(memoryview(buf)[:len(r)] if i % 2 else buf[:len(r)] if i % 4 else memoryview(buf)[:len(r)].toreadonly())
                buf[:len(r)] = b'\xa5' * len(r)
        elif case.get('buf') == 'owned':
            # every record handed over as the caller's OWN bytearray (the whole object, not a slice): write() may read
            # it, not change it — the caller still holds the same bytes afterwards, and writes the same object once more
            keep = None
            for i, r in enumerate(recs):
                ba = bytearray(r)
                b.write(ba)
                if bytes(ba) != r and keep is None:
                    keep = f"write() changed the caller's bytearray (record {i}: {len(ba)} of {len(r)} bytes left)"
            if keep:
                return {'obs': 'caller-buffer-modified', 'violation': keep, 'tags': ['buf:owned']}
        else:
            for i, r in enumerate(recs):
                b.write(r)
                if case.get('flush') and i % case['flush'] == 0:
                    b.flush()            # a caller flushing the file object between writes: no bytes of its own
        fin = case.get('fin', 'f')
        if fin == 'f':
            b.finalise()
        elif fin == 's':
            b.seek(0)
        else:
            b.close()
        out = f.getvalue()[case.get('header', 0):]
        data = b''.join(recs)
        total = sum(case['lens'])
        return {'obs': f'ok {common.sig(drop_trailing_fill(out))}', 'violation': oracle_stream(data, out),
                'nontrivial': total >= P, 'tags': [f'fin:{fin}', f'blocks:{min(len(out) // 1014, 5)}']}
    if k == 'oneshot':
        data = common.pc(0, case['n']) if 'n' in case else bytes.fromhex(case['hex'])
        o = io.BytesIO()
        src = io.BytesIO(b'\xee' * case.get('skip', 0) + data)
        src.read(case.get('skip', 0))       # a caller that has already read a header: the blocker takes what is LEFT to read
        mciipm.block_1014(src, o)
        out = o.getvalue()
        v = None if out == ref_blockify(data) else 'block_1014 output is not the documented blocking of the data'
        return {'obs': f'ok {common.sig(drop_trailing_fill(out))}', 'violation': v,
                'nontrivial': len(data) >= P, 'tags': ['oneshot']}
    raise ValueError(k)


def model_line(case):
    if case['k'] == 'stream':
        return 'b1014.stream\t' + ','.join(map(str, case['lens']))
    if 'n' in case:
        return f"b1014.oneshot\tpc:{case['n']}"
    return f"b1014.oneshot\thex:{case['hex']}"


def model_obs(case, resp):
    parts = resp.split(' ')
    return f'ok {parts[2]}' if parts[0] == 'ok' and len(parts) == 3 else resp


def prefixes(r):
    """three different chunkings that leave r bytes (mod 1012) written"""
    yield [r]
    yield [2 * P + r]          # r = 0: ends in the 'trailer pending' situation
    a = r // 2
    yield [P - 1, 1, a, r - a]  # crosses a boundary with a 1-byte write ('trailer written'), then two pieces


def boundary_lengths(rem):
    s = {0, 1, 2, rem - 1, rem, rem + 1, P - 1, P, P + 1, P + 2, rem + P - 1, rem + P, rem + P + 1,
         2 * P - 1, 2 * P, 2 * P + 1, 2 * P + 2, rem + 2 * P, rem + 2 * P + 1, 3 * P - 1, 3 * P, 3 * P + 1, 3 * P + 2}
    return sorted(x for x in s if x >= 0)


def explore(run, tier):
    rng = common.rng_for(run.seed, PROP)
    cases = []
    fins = 'fsc'
    for r in range(0, P + 1):
        for pi, pre in enumerate(prefixes(r)):
            rem = P - (r % P) if r % P else P
            if tier == 'thorough':
                nexts = range(0, 3 * P + 1)
                if pi != (r % 3):     # the exhaustive cross product uses one chunking per residue (rotating)
                    nexts = boundary_lengths(rem)
            else:
                nexts = boundary_lengths(rem)
            for n in nexts:
                cases.append({'k': 'stream', 'lens': pre + [n], 'fin': fins[(r + n) % 3]})
    run.exhaustive.append('all residues 0..1012 x 3 chunkings x boundary next-write lengths'
                          + ('; all residues x every next-write length 0..3036' if tier == 'thorough' else ''))
    nrand = 20000 if tier == 'quick' else 200000
    for _ in range(nrand):
        n = rng.choice([1, 2, 3, 4, 6, 10])
        lens = [rng.choice([0, 1, 4, rng.randrange(0, 40), rng.randrange(0, 1100), rng.randrange(1000, 1030),
                            rng.randrange(2000, 2040), rng.randrange(0, 6001)]) for _ in range(n)]
        c = {'k': 'stream', 'lens': lens, 'fin': rng.choice(fins)}
        if rng.random() < 0.1:
            c['buf'] = 'reused'        # bytes-like arguments out of one reused buffer
        elif rng.random() < 0.1:
            c['buf'] = 'owned'         # each record as the caller's own bytearray, which must come back unchanged
        elif rng.random() < 0.1:
            c['flush'] = rng.choice([1, 2])       # flush() of the file object after every (second) write
        cases.append(c)
    for n in list(range(0, 40)) + list(range(1000, 1030)) + list(range(2010, 2040)) + list(range(3030, 3040)):
        cases.append({'k': 'oneshot', 'n': n})
    # the one-shot blocker on an input whose first bytes have already been read (a header of 1, 24, 1012, 1014 bytes)
    for skip in (1, 24, 1012, 1014):
        for n in (0, 5, 1011, 1012, 1013, 2500):
            cases.append({'k': 'oneshot', 'n': n, 'skip': skip})
    # large inputs: more than 64 KiB through the one-shot blocker (chunked implementations), single writes of tens of
    # blocks up to a thousand blocks (recursive / per-block implementations), many blocks over several writes
    for n in (65535, 65536, 65537, 65780, 70000, 131072, 131073, 200000):
        cases.append({'k': 'oneshot', 'n': n})
    for lens in ([65536], [70000], [131073], [1012 * 1100 + 7], [500, 1012 * 1050], [30000, 40000, 1], [1012 * 64, 5]):
        cases.append({'k': 'stream', 'lens': lens, 'fin': 'f'})
    # the caller's own bytearrays, at every kind of position (write shorter than / equal to / longer than what is left in the block)
    for lens in ([500, 512, 3], [1012, 5], [100, 912, 1012, 7], [2024, 1], [1500], [1011, 1, 1], [3000, 36, 5], [1, 1011], [4048]):
        cases.append({'k': 'stream', 'lens': lens, 'fin': 'fsc'[len(lens) % 3], 'buf': 'owned'})
    # flush() between writes, at every kind of position (mid-block, on a block edge, with the trailer pending)
    for lens in ([500, 512, 3], [1012, 5], [100, 912, 1012, 7], [2024, 1], [1, 1, 1], [1011, 1, 1], [3000, 36, 5]):
        for fl in (1, 2):
            cases.append({'k': 'stream', 'lens': lens, 'fin': 'fsc'[(len(lens) + fl) % 3], 'flush': fl})
    # single writes that span five to twelve further blocks and end on / next to a block edge, from several residues
    for k in range(5, 13):
        for r in (0, 1, 100, 912, 1011):
            for d in (-1, 0, 1):
                n = (1012 - r) + 1012 * k + d
                cases.append({'k': 'stream', 'lens': ([r] if r else []) + [n, 3], 'fin': 'fsc'[(k + r + d) % 3]})
    # unblocked data that LOOKS blocked (0x40 0x40 where trailers would be): it must be blocked like any other data
    for h in ['40' * 1014, '40' * 2028, '40' * 3000, '11' * 1012 + '4040', ('11' * 1012 + '4040') * 2,
              ('11' * 1012 + '4040') * 2 + '22' * 50, ('11' * 1012 + '4040') * 3, '11' * 1012 + '4040' + '22' * 1012 + '4041']:
        cases.append({'k': 'oneshot', 'hex': h})
    # a blocker created on a file object that already holds a header (not a multiple of 1014): the blocked region that
    # follows the header must be a whole number of blocks
    for header in (1, 128, 1013, 1500):
        for lens in ([5], [1012], [1000, 500], [2024, 1]):
            cases.append({'k': 'stream', 'lens': lens, 'fin': 'f', 'header': header})
    for h in ['', '40', '40' * 1012, '40' * 1013, '00' * 1012 + '40', '40' * 2024]:
        cases.append({'k': 'oneshot', 'hex': h})
        cases.append({'k': 'stream', 'lens': [], 'fin': 'f'})
    run.correspond(__name__, cases, use_model=run.use_model)
