"""C01 — ISO8583 round trip: decoding an encoded message returns every value unchanged."""
import hashlib
import json

from harness import common, isoutil as iu

PROP = 'C01'
RULE = ("well-formed messages (4-digit MTI; fixed text of exactly the width; variable text 1..99 / 1..999; ints 0..10^w-1 "
        "incl. 0 and the maximum; dates across the two-digit-year window and leap days; PDS sets within carrier capacity; "
        "complete TLV data) over the packaged configuration and generated caller configurations (bits 2..128, all field "
        "kinds, PAN / PAN-PREFIX, several date formats) x {latin_1, cp500, cp037, ascii, cp273, cp1140} x {binary, hex} "
        "bitmap: every single configured bit, every pair of bits (quick: packaged config), boundary lengths "
        "{1,2,9,10,99,100,999} of each variable field (thorough: every length), random subsets with shuffled key order. "
        "Non-trivial = at least one data element; distinct = distinct (config, codec, bitmap form, message)")
TRUSTED = ["Model/Iso8583.lean models dumps/loads and helpers (hand-written; tied by this correspondence); Py/Int.lean, "
           "Py/Time.lean, Py/Codec.lean model int(), strptime/strftime (numeric directives) and single-byte codecs, with "
           "character-class / codec tables regenerated from the live interpreter on every run",
           "the DE43 regular expression is applied by Python's `re` in the harness to the value the model decoded; the "
           "model's dictionary excludes DE43_* keys"]
ASSUMPTIONS = ["datetime values carry no microseconds / tzinfo; int() digit limit (4300) is not reached by 999-digit fields"]


def cfg_of(case):
    return iu.pkg_config() if case['cfg'] == 'pkg' else case['cfg']


def cfg_id(case):
    if case['cfg'] == 'pkg':
        return 'pkg'
    return 'c' + hashlib.sha1(json.dumps(case['cfg'], sort_keys=True).encode()).hexdigest()[:10]


def impl_eval(case):
    from cardutil import iso8583
    cfg = cfg_of(case)
    msg = iu.dict_unwire(case['msg'])
    exp = iu.dict_unwire(case['exp'])
    codec, hexbm = case['codec'], bool(case['hex'])
    o1, data, _ = iu.obs_dumps(lambda: iso8583.dumps(dict(msg), encoding=codec, iso_config=cfg, hex_bitmap=hexbm))
    if data is None:
        return {'obs': [o1, 'n/a'], 'violation': f'encoding a well-formed message failed: {o1}',
                'tags': ['dumps-failed']}
    o2, back, _ = iu.obs_loads(lambda: iso8583.loads(data, encoding=codec, iso_config=cfg, hex_bitmap=hexbm), cfg)
    why = None
    if back is None:
        why = f'decoding the encoded message failed: {o2}'
    else:
        for k, v in exp.items():
            if k not in back:
                why = f'key {k} missing after the round trip'
                break
            if back[k] != v or type(back[k]) is not type(v):
                why = f'{k}: wrote {msg.get(k)!r}, read back {back[k]!r}, expected {v!r}'
                break
        if why is None:
            carriers = {f'DE{k}' for k, fc in cfg.items() if fc.get('field_processor') == 'PDS'}
            for k in back:
                if k in exp:
                    continue
                if not (k in carriers or k.startswith('TAG') or k == 'ICC_DATA' or k.startswith('DE43_')
                        or k.startswith('PDS')):
                    why = f'undocumented extra key {k} in the decoded message'
                    break
        if why is None and 'DE43-KEYS-DIFFER' in o2:
            why = 'DE43_* keys are not what the configured pattern yields on the decoded value'
    nde = sum(1 for k in msg if k.startswith('DE'))
    return {'obs': [o1, o2], 'violation': why, 'nontrivial': len(msg) > 1,
            'tags': [f'codec:{codec}', f'hex:{int(hexbm)}', f"cfg:{'pkg' if case['cfg'] == 'pkg' else 'gen'}",
                     f'fields:{min(nde, 9)}', 'pds' if any(k.startswith('PDS') for k in msg) else 'nopds']}


def model_line(case):
    from cardutil import iso8583
    cid = cfg_id(case)
    lines = []
    if cid != 'pkg':
        lines.append(f'cfg.def\t{cid}\t{iu.cfg_wire(case["cfg"])}')
    lines.append(f"iso.dumps\t{cid}\t{case['codec']}\t{case['hex']}\t{case['msg']}")
    # decode what the IMPLEMENTATION produced (a difference in the bytes is already visible on the previous line)
    try:
        data = iso8583.dumps(dict(iu.dict_unwire(case['msg'])), encoding=case['codec'], iso_config=cfg_of(case),
                             hex_bitmap=bool(case['hex']))
        lines.append(f"iso.loads\t{cid}\t{case['codec']}\t{case['hex']}\t{data.hex()}")
    except Exception:  # noqa
        lines.append('ping')
    return lines


def model_obs(case, resp):
    resp = [r for r in resp if r != 'ok' or False]
    if len(resp) == 3:
        resp = resp[1:]
    return [resp[0], resp[1] if resp[1] != 'pong' else 'n/a']


def mk(case_cfg, codec, hexbm, msg, exp):
    return {'cfg': case_cfg, 'codec': codec, 'hex': int(hexbm), 'msg': iu.dict_wire(msg), 'exp': iu.dict_wire(exp)}


def explore(run, tier):
    rng = common.rng_for(run.seed, PROP)
    pkg = iu.pkg_config()
    cases = []
    bits = sorted(int(k) for k in pkg if 2 <= int(k) <= 128)
    codecs3 = ['latin_1', 'cp500', 'cp037']
    # every single bit, both bitmap renderings, three codecs
    for i, b in enumerate(bits):
        for codec in codecs3:
            for hexbm in (0, 1):
                m, e = iu.gen_message(rng, pkg, codec, bits=[b], with_pds=False)
                cases.append(mk('pkg', codec, hexbm, m, e))
    # every pair of bits
    for i, a in enumerate(bits):
        for b in bits[i + 1:]:
            m, e = iu.gen_message(rng, pkg, codecs3[(a + b) % 3], bits=[a, b], with_pds=False)
            cases.append(mk('pkg', codecs3[(a + b) % 3], (a * b) % 2, m, e))
    run.exhaustive.append('every single configured bit x 3 codecs x 2 bitmap forms; every pair of configured bits')
    # boundary lengths of every variable field
    for b in bits:
        fc = pkg[str(b)]
        if fc['field_type'] in ('LLVAR', 'LLLVAR') and fc.get('field_processor') not in ('ICC',):
            mx = 99 if fc['field_type'] == 'LLVAR' else 999
            lens = range(1, mx + 1) if tier == 'thorough' else [1, 2, 9, 10, 11, 98, 99, 100, 101, 998, 999]
            for n in lens:
                if n <= mx:
                    m, e = iu.gen_message(rng, pkg, codecs3[n % 3], bits=[b], with_pds=False, lengths={b: n})
                    cases.append(mk('pkg', codecs3[n % 3], n % 2, m, e))
    # random subsets, PDS + ICC together, shuffled key order, all codecs
    for _ in range(2500 if tier == 'quick' else 40000):
        codec = rng.choice(iu.CODECS)
        m, e = iu.gen_message(rng, pkg, codec)
        cases.append(mk('pkg', codec, rng.randrange(2), m, e))
    # generated configurations
    for _ in range(12 if tier == 'quick' else 60):
        cfg = iu.gen_config(rng)
        for _ in range(60 if tier == 'quick' else 300):
            codec = rng.choice(iu.CODECS)
            m, e = iu.gen_message(rng, cfg, codec)
            cases.append(mk(cfg, codec, rng.randrange(2), m, e))
    run.correspond(__name__, cases, use_model=run.use_model, chunk=150)
