"""C01 — ISO8583 round trip: decoding an encoded message returns every value unchanged."""
import copy
import hashlib
import json

from harness import common, isoutil as iu

PROP = 'C01'
RULE = ("well-formed messages (4-digit MTI; fixed text of exactly the width; variable text 1..99 / 1..999; ints 0..10^w-1 "
        "incl. 0 and the maximum; dates across the two-digit-year window and leap days; PDS sets within carrier capacity; "
        "complete TLV data) over the packaged configuration and generated caller configurations (bits 2..128, all field "
        "kinds, PAN / PAN-PREFIX, several date formats) x {latin_1, cp500, cp037, ascii, cp273, cp1140} x {binary, hex} "
        "bitmap: every single configured bit, every pair of bits (quick: packaged config), boundary lengths "
        "{1,2,9,10,99,100,999} of each variable field (thorough: every length), random subsets with shuffled key order; "
        "configuration HISTORIES (A used, then the same object edited in place / deep-copied into B: PDS processor moved, "
        "LLVAR<->LLLVAR, PAN switched on, int width changed) and int fields up to 24 digits. "
        "Non-trivial = at least one data element; distinct = distinct (config, codec, bitmap form, message)")
TRUSTED = ["Model/Iso8583.lean models dumps/loads and helpers (hand-written; tied by this correspondence); Py/Int.lean, "
           "Py/Time.lean, Py/Codec.lean model int(), strptime/strftime (numeric directives) and single-byte codecs, with "
           "character-class / codec tables regenerated from the live interpreter on every run",
           "the DE43 regular expression is applied by Python's `re` in the harness to the value the model decoded; the "
           "model's dictionary excludes DE43_* keys"]
ASSUMPTIONS = ["datetime values carry no microseconds / tzinfo; int() digit limit (4300) is not reached by 999-digit fields"]


def cfg_of(case):
    return iu.pkg_config() if case['cfg'] == 'pkg' else case['cfg']


def edit_in_place(live, target):
    """turn the caller's config object `live` into `target` the way a caller would: assign the keys that differ, delete the
    keys that went away — the dict objects (outer and per-element) stay the same ones"""
    for k in [k for k in live if k not in target]:
        del live[k]
    for k, fc in target.items():
        if k not in live:
            live[k] = copy.deepcopy(fc)
            continue
        for kk in [kk for kk in live[k] if kk not in fc and not kk.startswith('_')]:
            del live[k][kk]
        for kk, v in fc.items():
            if live[k].get(kk) != v:
                live[k][kk] = v


def live_config(case, warm_up):
    """the configuration object handed to the implementation.  With a 'before' entry the case is a HISTORY: the library is
    first used with another configuration (`warm_up(cfg_object, before)`), then that same object is edited in place (or deep-
    copied and edited) into the case's configuration — what a caller who adjusts a configuration at run time does."""
    if 'before' not in case:
        return cfg_of(case)
    pre = case['before']
    live = copy.deepcopy(pre['cfg'])
    try:
        warm_up(live, pre)
    except Exception:  # noqa
        pass
    if pre.get('how') == 'deepcopy':
        live = copy.deepcopy(live)
    edit_in_place(live, cfg_of(case))
    return live


def cfg_id(case):
    if case['cfg'] == 'pkg':
        return 'pkg'
    return 'c' + hashlib.sha1(json.dumps(case['cfg'], sort_keys=True).encode()).hexdigest()[:10]


def impl_eval(case):
    from cardutil import iso8583
    codec, hexbm = case['codec'], bool(case['hex'])

    def warm_up(live, pre):
        d = iso8583.dumps(dict(iu.dict_unwire(pre['msg'])), encoding=codec, iso_config=live, hex_bitmap=hexbm)
        iso8583.loads(d, encoding=codec, iso_config=live, hex_bitmap=hexbm)
    cfg = live_config(case, warm_up)
    msg = iu.dict_unwire(case['msg'])
    exp = iu.dict_unwire(case['exp'])
    o1, data, _ = iu.obs_dumps(lambda: iso8583.dumps(dict(msg), encoding=codec, iso_config=cfg, hex_bitmap=hexbm))
    if data is None:
        return {'obs': [o1, 'n/a'], 'violation': f'encoding a well-formed message failed: {o1}',
                'tags': ['dumps-failed']}
    o2, back, _ = iu.obs_loads(lambda: iso8583.loads(data, encoding=codec, iso_config=cfg, hex_bitmap=hexbm), cfg)
    why = None
    if back is None:
        why = f'decoding the encoded message failed: {o2}'
    else:
        for k, v in exp.items():
            if k not in back:
                why = f'key {k} missing after the round trip'
                break
            if back[k] != v or type(back[k]) is not type(v):
                why = f'{k}: wrote {msg.get(k)!r}, read back {back[k]!r}, expected {v!r}'
                break
        if why is None:
            carriers = {f'DE{k}' for k, fc in cfg.items() if fc.get('field_processor') == 'PDS'}
            for k in back:
                if k in exp:
                    continue
                if not (k in carriers or k.startswith('TAG') or k == 'ICC_DATA' or k.startswith('DE43_')
                        or k.startswith('PDS')):
                    why = f'undocumented extra key {k} in the decoded message'
                    break
        if why is None and 'DE43-KEYS-DIFFER' in o2:
            why = 'DE43_* keys are not what the configured pattern yields on the decoded value'
    nde = sum(1 for k in msg if k.startswith('DE'))
    return {'obs': [o1, o2], 'violation': why, 'nontrivial': len(msg) > 1,
            'tags': [f'codec:{codec}', f'hex:{int(hexbm)}', f"cfg:{'pkg' if case['cfg'] == 'pkg' else 'gen'}",
                     f'fields:{min(nde, 9)}', 'pds' if any(k.startswith('PDS') for k in msg) else 'nopds']}


def model_line(case):
    from cardutil import iso8583
    cid = cfg_id(case)
    lines = []
    if cid != 'pkg':
        lines.append(f'cfg.def\t{cid}\t{iu.cfg_wire(case["cfg"])}')
    lines.append(f"iso.dumps\t{cid}\t{case['codec']}\t{case['hex']}\t{case.get('msg_model', case['msg'])}")
    # decode what the IMPLEMENTATION produced (a difference in the bytes is already visible on the previous line)
    try:
        data = iso8583.dumps(dict(iu.dict_unwire(case['msg'])), encoding=case['codec'], iso_config=cfg_of(case),
                             hex_bitmap=bool(case['hex']))
        lines.append(f"iso.loads\t{cid}\t{case['codec']}\t{case['hex']}\t{data.hex()}")
    except Exception:  # noqa
        lines.append('ping')
    return lines


def model_obs(case, resp):
    resp = [r for r in resp if r != 'ok' or False]
    if len(resp) == 3:
        resp = resp[1:]
    return [resp[0], resp[1] if resp[1] != 'pong' else 'n/a']


def mk(case_cfg, codec, hexbm, msg, exp):
    return {'cfg': case_cfg, 'codec': codec, 'hex': int(hexbm), 'msg': iu.dict_wire(msg), 'exp': iu.dict_wire(exp)}


def explore(run, tier):
    rng = common.rng_for(run.seed, PROP)
    pkg = iu.pkg_config()
    cases = []
    bits = sorted(int(k) for k in pkg if 2 <= int(k) <= 128)
    codecs3 = ['latin_1', 'cp500', 'cp037']
    # every single bit, both bitmap renderings, three codecs
    for i, b in enumerate(bits):
        for codec in codecs3:
            for hexbm in (0, 1):
                m, e = iu.gen_message(rng, pkg, codec, bits=[b], with_pds=False)
                cases.append(mk('pkg', codec, hexbm, m, e))
    # every pair of bits
    for i, a in enumerate(bits):
        for b in bits[i + 1:]:
            m, e = iu.gen_message(rng, pkg, codecs3[(a + b) % 3], bits=[a, b], with_pds=False)
            cases.append(mk('pkg', codecs3[(a + b) % 3], (a * b) % 2, m, e))
    run.exhaustive.append('every single configured bit x 3 codecs x 2 bitmap forms; every pair of configured bits')
    # boundary lengths of every variable field
    for b in bits:
        fc = pkg[str(b)]
        if fc['field_type'] in ('LLVAR', 'LLLVAR') and fc.get('field_processor') not in ('ICC',):
            mx = 99 if fc['field_type'] == 'LLVAR' else 999
            lens = range(1, mx + 1) if tier == 'thorough' else [1, 2, 9, 10, 11, 98, 99, 100, 101, 998, 999]
            for n in lens:
                if n <= mx:
                    m, e = iu.gen_message(rng, pkg, codecs3[n % 3], bits=[b], with_pds=False, lengths={b: n})
                    cases.append(mk('pkg', codecs3[n % 3], n % 2, m, e))
    # random subsets, PDS + ICC together, shuffled key order, all codecs
    for _ in range(2500 if tier == 'quick' else 40000):
        codec = rng.choice(iu.CODECS)
        m, e = iu.gen_message(rng, pkg, codec)
        cases.append(mk('pkg', codec, rng.randrange(2), m, e))
    # PDSxxxx keys together with a directly supplied LATER carrier element
    for _ in range(60 if tier == 'quick' else 1000):
        codec = rng.choice(codecs3)
        me = iu.gen_mixed_pds(rng, pkg, codec)
        if me:
            cases.append(mk('pkg', codec, rng.randrange(2), me[0], me[1]))
    # generated configurations
    for gi in range(12 if tier == 'quick' else 60):
        # every third generated configuration has `decimal` typed elements, some wider than the 28 significant digits of
        # the default decimal context
        cfg = iu.gen_config(rng, with_decimal=(gi % 3 == 0), decimal_widths=(3, 8, 15, 30, 40))
        for _ in range(60 if tier == 'quick' else 300):
            codec = rng.choice(iu.CODECS)
            m, e = iu.gen_message(rng, cfg, codec)
            cases.append(mk(cfg, codec, rng.randrange(2), m, e))
    # typed values (numbers, decimals, dates) in VARIABLE-length elements, with and without a configured nominal length
    for ft in ('LLVAR', 'LLLVAR'):
        for fl in (0, 12):
            for pyt in ('int', 'long', 'decimal', 'datetime'):
                fc = {'field_name': 'typed', 'field_type': ft, 'field_length': fl, 'field_python_type': pyt}
                fmts = [f for f, _ in iu.DATE_FORMATS] if pyt == 'datetime' else [None]
                for fmt in fmts:
                    if fmt:
                        fc = dict(fc, field_date_format=fmt)
                    cfg = {'3': {'field_name': 'proc', 'field_type': 'FIXED', 'field_length': 6}, '5': fc,
                           '9': {'field_name': 'tail', 'field_type': 'LLVAR', 'field_length': 0}}
                    for _ in range(4 if tier == 'quick' else 40):
                        codec = rng.choice(codecs3)
                        m, e = iu.gen_message(rng, cfg, codec, bits=[3, 5, 9], with_pds=False)
                        cases.append(mk(cfg, codec, rng.randrange(2), m, e))
    # configuration HISTORIES: the library is used with configuration A, then the same object is edited in place (or deep-
    # copied and edited) into B, and used again — nothing of A may survive (caches keyed by object identity, memos
    # stored on the configuration entries)
    for cfgA, cfgB, bit in config_edits(rng, pkg, 40 if tier == 'quick' else 400):
        codec = rng.choice(codecs3)
        mA, _ = iu.gen_message(rng, cfgA, codec)
        for how in ('inplace', 'deepcopy'):
            usable = sorted(int(k) for k in cfgB if 2 <= int(k) <= 128)
            extra = rng.sample(usable, min(3, len(usable)))
            mB, eB = iu.gen_message(rng, cfgB, codec, bits=sorted(set([bit] + extra)),
                                    with_pds=True if cfgB[str(bit)].get('field_processor') == 'PDS' else None)
            c = mk(cfgB, codec, rng.randrange(2), mB, eB)
            c['before'] = {'cfg': cfgA, 'msg': iu.dict_wire(mA), 'how': how}
            cases.append(c)
    # LARGE messages (k of the eleven 3-digit-prefixed elements at 999 / 990 characters: 5 KB to 11 KB) — a message is as
    # long as its elements are; and text / binary values that END in a line feed or carriage return, as the LAST bytes of
    # the message; and fixed-width text elements that hold nothing but blanks
    lll = sorted(int(k) for k, fc in pkg.items() if fc['field_type'] == 'LLLVAR' and not fc.get('field_processor'))
    iccs = [int(k) for k, fc in pkg.items() if fc.get('field_processor') == 'ICC']
    for ci, codec in enumerate(codecs3):
        for k in (3, 4, len(lll)):
            for full in (999, 990):
                m = {'MTI': '1240', 'DE2': '5' * 16}
                for b in lll[:k]:
                    m[f'DE{b}'] = iu.text(rng, codec, full)
                for b in iccs:
                    v = b''
                    while len(v) + 102 <= full:
                        v += b'\x9f\x10\x63' + bytes(rng.getrandbits(8) for _ in range(99))
                    m[f'DE{b}'] = v
                for pi, b in enumerate(int(k2) for k2, fc in pkg.items() if fc.get('field_processor') == 'PDS'):
                    if k > 3:
                        m[f'PDS{1000 + pi:04d}'] = iu.text(rng, codec, 985)
                cases.append(mk('pkg', codec, (k + ci) % 2, m, dict(m)))
        for tail in ('\n', '\r', '\r\n', '\n\n', ' \n'):
            try:
                tail.encode(codec)
            except UnicodeError:
                continue
            for last in (72, 127):
                m = {'MTI': '1240', 'DE2': '5' * 16, f'DE{last}': 'FREE TEXT' + tail}
                cases.append(mk('pkg', codec, ci % 2, m, dict(m)))
            m = {'MTI': '1240', 'DE41': 'TERM 01' + tail[-1]}                  # a fixed element that ends in it
            cases.append(mk('pkg', codec, ci % 2, m, dict(m)))
        for b in iccs:
            for endb in (b'\x0a', b'\x0d', b'\x0d\x0a', b'\x25', b'\x15', b'\x85'):
                m = {'MTI': '1240', 'DE2': '5' * 16, f'DE{b}': b'\x9f\x26\x08' + bytes(range(1, 9 - len(endb))) + endb}
                cases.append(mk('pkg', codec, ci % 2, m, dict(m)))
    for b in bits:
        fc = pkg[str(b)]
        if fc['field_type'] == 'FIXED' and not fc.get('field_python_type') and not fc.get('field_processor'):
            for ci, codec in enumerate(codecs3):
                blank = ' ' * fc['field_length']
                for other in ({}, {'DE2': '5' * 16}, {'DE2': '5' * 16, 'DE127': 'tail'}):
                    m = {'MTI': '1240', **other, f'DE{b}': blank}
                    cases.append(mk('pkg', codec, (b + ci) % 2, m, dict(m)))
    # DENSE bitmaps: a caller's configuration that defines every element 2..128 (two-character fixed text; a date-time
    # element WITHOUT a format of its own every tenth) and messages in which whole bitmap bytes are full — all 127 elements,
    # each single byte of eight, the first byte (bit 1 + elements 2..8)
    dense = {str(b): ({'field_name': f'e{b}', 'field_type': 'FIXED', 'field_length': 6, 'field_python_type': 'datetime'}
                      if b % 10 == 0 else {'field_name': f'e{b}', 'field_type': 'FIXED', 'field_length': 2})
             for b in range(2, 129)}
    import datetime as _dt
    def dense_val(b):
        return _dt.datetime(2012 + b % 50, 1 + b % 12, 1 + b % 28) if b % 10 == 0 else f'{b % 100:02d}'
    groups = [list(range(2, 129)), list(range(2, 9))] + [list(range(8 * k + 1, 8 * k + 9)) for k in range(1, 16)]
    for gi, g in enumerate(groups):
        for ci, codec in enumerate(codecs3):
            m = {'MTI': '1240', **{f'DE{b}': dense_val(b) for b in g}}
            cases.append(mk(dense, codec, (gi + ci) % 2, m, dict(m)))
    # the merchant-name processor on different elements, with the packaged pattern / none / an empty one / a caller's own
    pat = pkg['43']['field_processor_config']
    for bit in (43, 61, 104):
        for pi, pc in enumerate((pat, None, '', r'(?P<DE43_NAME>[A-Z0-9]+)\\(?P<DE43_ADDRESS>[A-Z 0-9]+)',
                                 r'(?P<DE43_NAME>[^\\]+)\\(?P<DE43_ADDRESS>[^\\]*)(?:\\X(?P<DE43_POSTCODE>\d{4}))?')):
            fc = {'field_name': 'merchant', 'field_type': 'LLVAR', 'field_length': 0, 'field_processor': 'DE43'}
            if pc is not None:
                fc['field_processor_config'] = pc
            cfg = {'3': {'field_name': 'proc', 'field_type': 'FIXED', 'field_length': 6}, str(bit): fc}
            for vi, v in enumerate(('BIG BOBS\\80 KERNDALE ST\\DANERLEY\\3103      VICAUS',
                                     'BIG BOBS      \\80 KERNDALE ST   \\DANERLEY \\3103      VICAUS',
                                     '12 AB\\STREET 1', 'NO SEPARATORS HERE', 'A\nB\\C\\D\\2000      NSWAUS')):
                codec = codecs3[(bit + pi + vi) % 3]
                m = {'MTI': '1240', 'DE3': '000000', f'DE{bit}': v}
                cases.append(mk(cfg, codec, (pi + vi) % 2, m, dict(m)))
    run.correspond(__name__, cases, use_model=run.use_model, chunk=150)


def config_edits(rng, pkg, n):
    """(A, B, bit): B is A with one element's definition changed"""
    out = []
    while len(out) < n:
        a = copy.deepcopy(pkg) if rng.random() < 0.4 else iu.gen_config(rng)
        b = copy.deepcopy(a)
        carriers = sorted((int(k) for k, fc in a.items() if fc.get('field_processor') == 'PDS'))
        plainvar = [k for k, fc in a.items() if fc['field_type'] in ('LLVAR', 'LLLVAR') and not fc.get('field_processor')
                    and not fc.get('field_python_type')]
        ints = [k for k, fc in a.items() if fc.get('field_python_type') in ('int', 'long') and fc['field_type'] == 'FIXED']
        kind = rng.choice(['pds-off', 'var-size', 'pan-on', 'int-width', 'pds-on'])
        if kind == 'pds-off' and len(carriers) >= 2:
            k = str(carriers[0])
            del b[k]['field_processor']
            out.append((a, b, carriers[1]))
        elif kind == 'pds-on' and plainvar and carriers:
            k = rng.choice([k for k in plainvar if a[k]['field_type'] == 'LLLVAR'] or [None])
            if k:
                b[k]['field_processor'] = 'PDS'
                out.append((a, b, int(k)))
        elif kind == 'var-size' and plainvar:
            k = rng.choice(plainvar)
            b[k]['field_type'] = 'LLLVAR' if a[k]['field_type'] == 'LLVAR' else 'LLVAR'
            out.append((a, b, int(k)))
        elif kind == 'pan-on' and plainvar:
            k = rng.choice(plainvar)
            b[k]['field_processor'] = rng.choice(['PAN', 'PAN-PREFIX'])
            out.append((a, b, int(k)))
        elif kind == 'int-width' and ints:
            k = rng.choice(ints)
            b[k]['field_length'] = a[k]['field_length'] + rng.choice([1, 2, 4])
            out.append((a, b, int(k)))
    return out
