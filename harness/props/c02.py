"""C02 — ISO8583 wire format conforms to the documented layout, in both directions."""
from harness import common, isoutil as iu
from harness.props import c01

PROP = 'C02'
RULE = ("the C01 message streams (every single bit, every pair, boundary lengths, random subsets, generated configurations; "
        "6 codecs x 2 bitmap forms) compared byte-for-byte with an independent reference encoder and key-for-key with an "
        "independent strict reference decoder, plus over-length variable values (100 / 1000 characters and beyond) on every "
        "variable element, which must be refused; fixed text longer than its field (cut to the width, not refused); hand-built messages with variable elements of declared count zero (decoding direction); numeric elements given as text (padded, signed, underscored spellings int() accepts). Non-trivial = at least one data element; distinct = distinct case")
TRUSTED = c01.TRUSTED + ["harness/isoutil.py ref_encode/ref_decode: reference codec written from the documentation"]
ASSUMPTIONS = c01.ASSUMPTIONS

cfg_of, cfg_id, model_line, model_obs = c01.cfg_of, c01.cfg_id, c01.model_line, c01.model_obs


def impl_eval(case):
    from cardutil import iso8583, CardutilError
    cfg = cfg_of(case)
    msg = iu.dict_unwire(case['msg'])
    codec, hexbm = case['codec'], bool(case['hex'])
    if case.get('tzmin') is not None:
        # date-time values that carry a time zone: the wire format has none — the element is the digits of the value given
        import datetime as _dt
        tz = _dt.timezone(_dt.timedelta(minutes=case['tzmin']))
        msg = {k: (v.replace(tzinfo=tz) if isinstance(v, _dt.datetime) else v) for k, v in msg.items()}
    o1, data, ex = iu.obs_dumps(lambda: iso8583.dumps(dict(msg), encoding=codec, iso_config=cfg, hex_bitmap=hexbm))
    why = None
    if data is not None and len(case['msg']) % 4 == 0:
        # the SAME dictionary object (and the same configuration object) encoded a second time, and the bytes decoded
        # twice: a second use of the same arguments gives the same result as the first
        import copy
        same = dict(msg)
        cfg2 = copy.deepcopy(cfg)
        try:
            a = iso8583.dumps(same, encoding=codec, iso_config=cfg2, hex_bitmap=hexbm)
            b = iso8583.dumps(same, encoding=codec, iso_config=cfg2, hex_bitmap=hexbm)
            l1 = iso8583.loads(a, encoding=codec, iso_config=cfg2, hex_bitmap=hexbm)
            l2 = iso8583.loads(a, encoding=codec, iso_config=cfg2, hex_bitmap=hexbm)
            if a != data or b != data:
                why = 'encoding the same dictionary object twice does not give the same bytes both times'
            elif l1 != l2:
                why = 'decoding the same bytes twice (same configuration object) does not give the same dictionary both times'
        except Exception as ex2:  # noqa
            why = f'a second use of the same arguments raised {type(ex2).__name__}'
    if case.get('pdsoverflow'):
        # more PDS data than the configured carriers can hold: emitting a message that silently lacks some of it is
        # worse than a malformed prefix — whatever is returned must still carry every sub-element
        if data is not None:
            back = iso8583.loads(data, encoding=codec, iso_config=cfg, hex_bitmap=hexbm)
            lost = [k for k in msg if k.startswith('PDS') and back.get(k) != msg[k]]
            if lost:
                why = f'PDS data beyond the carriers\' capacity was emitted with {len(lost)} sub-elements silently dropped'
        return {'obs': [o1, 'n/a'], 'violation': why, 'tags': ['pdsoverflow']}
    if case.get('unencodable'):
        # a character the message encoding does not have: there is no byte for it, so nothing may be emitted
        if data is not None:
            why = f"text with a character missing from {codec} was emitted ({case['unencodable']}) instead of being refused"
        return {'obs': [o1, 'n/a'], 'violation': why, 'tags': ['unencodable']}
    if case.get('unconfigured'):
        # an element the configuration in use does not define cannot be rendered: nothing may be emitted for it
        if data is not None:
            why = (f"a message holding {case['unconfigured']}, which the configuration does not define, was encoded "
                   f"({len(data)} bytes) instead of being refused")
        return {'obs': [o1, 'n/a'], 'violation': why, 'tags': ['unconfigured']}
    if case.get('overlong'):
        if data is not None:
            why = (f"a variable-length value longer than its prefix can count was emitted "
                   f"({case['overlong']}) instead of being refused")
        elif not isinstance(ex, CardutilError):
            why = f'over-long value refused with {type(ex).__name__}, not the library error'
        return {'obs': [o1, 'n/a'], 'violation': why, 'tags': ['overlong']}
    try:
        ref = iu.ref_encode(msg, cfg, codec, hexbm)
    except iu.RefError as e:
        ref = None
    if data is None:
        return {'obs': [o1, 'n/a'], 'violation': f'encoding failed: {o1}', 'tags': ['dumps-failed']}
    if ref is not None and data != ref:
        k = next((i for i in range(min(len(ref), len(data))) if ref[i] != data[i]), min(len(ref), len(data)))
        why = f'encoded bytes differ from the documented layout at offset {k}: {data[k:k+12].hex()} vs {ref[k:k+12].hex()}'
    o2, back, _ = iu.obs_loads(lambda: iso8583.loads(data, encoding=codec, iso_config=cfg, hex_bitmap=hexbm), cfg)
    if why is None:
        try:
            refd, _ = iu.ref_decode(data, cfg, codec, hexbm)
        except iu.RefError as e:
            refd = None
            why = f'reference decoder rejects the encoder output: {e}'
        if refd is not None:
            if back is None:
                why = f'decoding a message of the documented layout failed: {o2}'
            else:
                core = {k: v for k, v in back.items() if not k.startswith('DE43_')}
                if core != refd:
                    diff = [k for k in set(core) | set(refd) if core.get(k) != refd.get(k)]
                    why = f'decoded dictionary differs from the independent reading at keys {sorted(diff)[:5]}'
                elif 'DE43-KEYS-DIFFER' in o2:
                    why = 'DE43_* keys are not what the configured pattern yields'
                elif 'want43' in case and {k: v for k, v in back.items() if k.startswith('DE43_')} != case['want43']:
                    why = (f"the packaged configuration splits the merchant element into "
                           f"{ {k: v for k, v in back.items() if k.startswith('DE43_')} }, documented split {case['want43']}")
    return {'obs': [o1, o2], 'violation': why, 'nontrivial': len(msg) > 1,
            'tags': [f'codec:{codec}', f'hex:{int(hexbm)}', f"cfg:{'pkg' if case['cfg'] == 'pkg' else 'gen'}"]}


def explore(run, tier):
    rng = common.rng_for(run.seed, PROP)
    pkg = iu.pkg_config()
    cases = []
    bits = sorted(int(k) for k in pkg if 2 <= int(k) <= 128)
    codecs3 = ['latin_1', 'cp500', 'cp037']
    for b in bits:
        for codec in codecs3:
            for hexbm in (0, 1):
                m, e = iu.gen_message(rng, pkg, codec, bits=[b], with_pds=False)
                cases.append(c01.mk('pkg', codec, hexbm, m, e))
    for i, a in enumerate(bits):
        for b in bits[i + 1:]:
            m, e = iu.gen_message(rng, pkg, codecs3[(a + b) % 3], bits=[a, b], with_pds=False)
            cases.append(c01.mk('pkg', codecs3[(a + b) % 3], (a + b) % 2, m, e))
    run.exhaustive.append('every single configured bit x 3 codecs x 2 bitmap forms; every pair of configured bits')
    for b in bits:
        fc = pkg[str(b)]
        if fc['field_type'] in ('LLVAR', 'LLLVAR'):
            mx = 99 if fc['field_type'] == 'LLVAR' else 999
            for n in (mx + 1, mx + 2, 10 * (mx + 1), 10 * (mx + 1) + 5):
                for codec in codecs3:
                    v = iu.gen_tlvs(rng, 10) * 2000 if fc.get('field_processor') == 'ICC' else iu.text(rng, codec, n, 'digits')
                    v = v[:n]
                    if fc.get('field_processor') == 'PDS':
                        v = iu.pds_text([(1, 'x' * 900), (2, 'y' * (n - 914))]) if n >= 914 else v
                    c = c01.mk('pkg', codec, n % 2, {'MTI': '1144', f'DE{b}': v}, {})
                    c['overlong'] = f'DE{b} with {n} characters'
                    cases.append(c)
    # fixed-width text SHORTER than its field: must come out left-justified and padded with the encoded space
    for b in bits:
        fc = pkg[str(b)]
        if fc['field_type'] not in ('LLVAR', 'LLLVAR') and not fc.get('field_python_type') and fc['field_length'] > 1:
            for codec in iu.CODECS:
                for n in {1, fc['field_length'] // 2, fc['field_length'] - 1}:
                    m = {'MTI': '1240', f'DE{b}': iu.text(rng, codec, n).rstrip(' ') or 'x'}
                    cases.append(c01.mk('pkg', codec, b % 2, m, {}))
    # fixed-width text LONGER than its field: exactly the field width is emitted (the first `width` characters) — a fixed
    # element never grows, and the message is not refused for it
    for b in bits:
        fc = pkg[str(b)]
        if fc['field_type'] not in ('LLVAR', 'LLLVAR') and not fc.get('field_python_type'):
            w = fc['field_length']
            for ci, codec in enumerate(codecs3):
                for extra in (1, 2, w, 40):
                    v = (iu.text(rng, codec, w + extra).replace(' ', 'x') or 'x') if (b + extra) % 2 else 'A' * w + ' ' * (extra - 1) + 'Z'
                    cases.append(c01.mk('pkg', codec, (b + ci) % 2, {'MTI': '1240', f'DE{b}': v}, {}))
    # date-time elements given as zone-AWARE values (UTC, +10:00, -05:30, +14:00): rendered from the value's own fields
    import datetime as _dt
    for b in bits:
        fc = pkg[str(b)]
        if fc.get('field_python_type') == 'datetime':
            for ci, tzmin in enumerate((0, 600, -330, 840, -720)):
                for dtv in (_dt.datetime(2020, 1, 2, 3, 4, 5), _dt.datetime(2024, 2, 29, 23, 59, 58), _dt.datetime(1999, 12, 31, 0, 0, 0)):
                    c = c01.mk('pkg', codecs3[ci % 3], ci % 2, {'MTI': '1240', f'DE{b}': dtv}, {})
                    c['tzmin'] = tzmin
                    cases.append(c)
    # characters the encoding does not have, in fixed / variable text elements and in PDS values
    for codec in codecs3 + ['ascii']:
        for ch in ('\u20ac', '\u0141', '\u0179', '\u3042'):
            for m in ({'MTI': '1240', 'DE41': 'AB' + ch + 'DEFGH'}, {'MTI': '1240', 'DE2': '55555' + ch + '5555555555'},
                      {'MTI': '1240', 'PDS0023': 'x' + ch + 'y'}, {'MTI': '1240', 'DE48': '0023003a' + ch + 'b'}):
                c = c01.mk('pkg', codec, 0, m, {})
                c['unencodable'] = f'U+{ord(ch):04X}'
                cases.append(c)
    # more PDS data than the carriers hold
    for codec in codecs3:
        for ents in ([(100 + i, 'x' * 992) for i in range(6)], [(i, 'y' * 490) for i in range(11)],
                     [(i, 'z' * 300) for i in range(17)]):
            m = {'MTI': '1240'}
            m.update({f'PDS{t:04d}': v for t, v in ents})
            c = c01.mk('pkg', codec, 0, m, {})
            c['pdsoverflow'] = True
            cases.append(c)
    one = {'2': {'field_name': 'pan', 'field_type': 'LLVAR', 'field_length': 0},
           '48': {'field_name': 'pds', 'field_type': 'LLLVAR', 'field_length': 0, 'field_processor': 'PDS'}}
    for ents in ([(1, 'a' * 600), (2, 'b' * 600)], [(1, 'a' * 992), (2, '')]):
        m = {'MTI': '1240', 'DE2': '5' * 16}
        m.update({f'PDS{t:04d}': v for t, v in ents})
        c = c01.mk(one, 'latin_1', 0, m, {})
        c['pdsoverflow'] = True
        cases.append(c)
    # numeric elements given as TEXT (what the CSV tools hand over): rendered from the value int() reads, zero padded
    for b in bits:
        fc = pkg[str(b)]
        if fc.get('field_python_type') in ('int', 'long') and fc['field_type'] not in ('LLVAR', 'LLLVAR'):
            w = fc['field_length']
            for codec in codecs3:
                for txt in ['0', '7', '1999'[:w], ' 1999'[:w + 1], '+19'[:w + 1], '007'[:w], '1_0'[:w], '9' * w,
                            '0' * (w + 4) + '5', ' 42 ', '\t7\n']:
                    try:
                        if 0 <= int(txt) < 10 ** w:
                            cases.append(c01.mk('pkg', codec, b % 2, {'MTI': '1240', f'DE{b}': txt}, {}))
                    except ValueError:
                        pass
    for _ in range(2000 if tier == 'quick' else 50000):
        codec = rng.choice(iu.CODECS)
        m, e = iu.gen_message(rng, pkg, codec)
        if rng.random() < 0.3:      # some fixed text values shorter than the field
            for k in list(m):
                fc = pkg.get(k[2:]) if k.startswith('DE') else None
                if fc and fc['field_type'] not in ('LLVAR', 'LLLVAR') and isinstance(m[k], str) and len(m[k]) > 1 \
                        and not fc.get('field_python_type') and rng.random() < 0.5:
                    m[k] = m[k][:rng.randrange(1, len(m[k]))]
        cases.append(c01.mk('pkg', codec, rng.randrange(2), m, e))
    # decimal elements given in forms whose str() has an exponent or is not the field's own layout
    import decimal
    dcfg = {'2': {'field_name': 'pan', 'field_type': 'LLVAR', 'field_length': 0},
            '4': {'field_name': 'd12', 'field_type': 'FIXED', 'field_length': 12, 'field_python_type': 'decimal'},
            '5': {'field_name': 'd6', 'field_type': 'FIXED', 'field_length': 6, 'field_python_type': 'decimal'}}
    for codec in codecs3:
        for txt in ['1E+2', '100.00', '0.0000001', '2.5E+3', '-1.5', '0', '0E+3', '12.50', '1E-3', '123456', '-0', '7']:
            v = decimal.Decimal(txt)
            for k in ('DE4', 'DE5'):
                w = dcfg[k[2:]]['field_length']
                if len(format(v, f'0{w}f')) == w:
                    cases.append(c01.mk(dcfg, codec, 0, {'MTI': '1240', k: v}, {}))
                    cases.append(c01.mk(dcfg, codec, 1, {'MTI': '1240', k: v.normalize()}, {}))
    for gi in range(10 if tier == 'quick' else 60):
        cfg = iu.gen_config(rng, with_decimal=(gi % 3 == 0), decimal_widths=(3, 8, 15, 30))
        for _ in range(60 if tier == 'quick' else 300):
            codec = rng.choice(iu.CODECS)
            m, e = iu.gen_message(rng, cfg, codec)
            cases.append(c01.mk(cfg, codec, rng.randrange(2), m, e))
        for k, fc in cfg.items():
            if (fc['field_type'] in ('LLVAR', 'LLLVAR') and fc.get('field_processor') not in ('ICC', 'PDS')
                    and fc.get('field_python_type') != 'datetime'):      # no date is over-long
                mx = 99 if fc['field_type'] == 'LLVAR' else 999
                v = iu.text(rng, 'latin_1', mx + 1, 'digits')
                if fc.get('field_python_type') in ('int', 'long'):
                    v = int('1' + v[1:])
                if fc.get('field_python_type') == 'decimal':
                    import decimal
                    v = decimal.Decimal('1' + v[1:])
                c = c01.mk(cfg, 'latin_1', 0, {'MTI': '1144', f'DE{k}': v}, {})
                c['overlong'] = f'DE{k} with {mx + 1} characters'
                cases.append(c)
    # caller configurations whose entries have NO `field_name` (a description for people), with over-long variable values
    # (refused with the library's error) and ordinary messages; and a FIXED element of width 0 that is present (its bit is
    # set, nothing is emitted for it, and it reads back as the empty text)
    bare = {'2': {'field_type': 'LLVAR', 'field_length': 0}, '3': {'field_type': 'FIXED', 'field_length': 6},
            '48': {'field_type': 'LLLVAR', 'field_length': 0}, '60': {'field_type': 'FIXED', 'field_length': 0},
            '61': {'field_type': 'FIXED', 'field_length': 3}}
    for ci, codec in enumerate(codecs3):
        for hexbm in (0, 1):
            cases.append(c01.mk(bare, codec, hexbm, {'MTI': '1240', 'DE2': '5' * 16, 'DE3': '123456', 'DE48': 'free text'}, {}))
            cases.append(c01.mk(bare, codec, hexbm, {'MTI': '1240', 'DE3': '123456', 'DE60': 'abc', 'DE61': 'xyz'}, {}))
            cases.append(c01.mk(bare, codec, hexbm, {'MTI': '1240', 'DE60': 'q'}, {}))
        for k, n in (('2', 100), ('2', 250), ('48', 1000), ('48', 1234)):
            c = c01.mk(bare, codec, ci % 2, {'MTI': '1144', f'DE{k}': '7' * n}, {})
            c['overlong'] = f'DE{k} with {n} characters'
            cases.append(c)
    # a message dict holding an element the configuration in use does not define (packaged: DE7, 8, 11, 13, ...; a
    # smaller caller configuration: anything it leaves out)
    undefined = [b for b in range(2, 129) if str(b) not in pkg]
    for b in undefined[:: (4 if tier == 'quick' else 1)]:
        for codec in codecs3[: (1 if tier == 'quick' else 3)]:
            m, _ = iu.gen_message(rng, pkg, codec, bits=rng.sample(bits, 2), with_pds=False)
            m[f'DE{b}'] = iu.text(rng, codec, 4, 'digits')
            c = c01.mk('pkg', codec, b % 2, m, {})
            c['unconfigured'] = f'DE{b}'
            cases.append(c)
    for gi in range(6 if tier == 'quick' else 40):
        cfg = iu.gen_config(rng)
        missing = [b for b in range(2, 129) if str(b) not in cfg]
        b = rng.choice(missing)
        m, _ = iu.gen_message(rng, cfg, 'cp500', with_pds=False)
        m[f'DE{b}'] = 'ABC'
        c = c01.mk(cfg, 'cp500', gi % 2, m, {})
        c['unconfigured'] = f'DE{b}'
        cases.append(c)
    # keys that LOOK like data elements but name none of 2..128 (DE1 — the bitmap position, configured in the packaged
    # table —, DE0, DE129, DE999): not elements of the message, nothing is emitted for them and no bit is set
    for stray in ({'DE1': '12345678'}, {'DE0': 'x'}, {'DE129': 'abc'}, {'DE999': 'abc', 'DE1': 'ABCDEFGH'}, {'DE1': 0}):
        for ci, codec in enumerate(codecs3):
            m = {'MTI': '1240', 'DE2': '5' * 16, 'DE3': '123456', **stray}
            cases.append(c01.mk('pkg', codec, ci % 2, m, {}))
            cases.append(c01.mk('pkg', codec, ci % 2, {'MTI': '1240', **stray}, {}))
    # whole numbers given as FLOATS for integer elements (what a spreadsheet or JSON reader hands over): the value counts
    for b in bits:
        fc = pkg[str(b)]
        if fc.get('field_python_type') in ('int', 'long') and fc['field_type'] == 'FIXED':
            for ci, val in enumerate((9999.0, 0.0, 1.0, 120000.0, float(10 ** min(fc['field_length'] - 1, 15)))):
                m = {'MTI': '1240', 'DE2': '5' * 16, f'DE{b}': val}
                c = c01.mk('pkg', codecs3[(b + ci) % 3], ci % 2, m, {})
                c['msg_model'] = iu.dict_wire({**m, f'DE{b}': int(val)})
                cases.append(c)
    # EMPTY values — '' for text elements, b'' for the binary (ICC) element: an empty value is an absent element (its bit
    # stays off and nothing is emitted), alone and next to present elements
    for b in bits:
        fc = pkg[str(b)]
        if fc.get('field_python_type'):
            continue
        empty = b'' if fc.get('field_processor') == 'ICC' else ''
        for other in ({}, {'DE3': '123456'}, {'DE3': '123456', 'DE71': 7, 'DE94': 'ABCDEFGHIJK'}):
            m = {'MTI': '1240', **other, f'DE{b}': empty}
            if b in (3, 71, 94) and other:
                continue
            cases.append(c01.mk('pkg', codecs3[b % 3], (b + len(other)) % 2, m, {}))
    # the packaged merchant-element pattern, with the result written out here (not computed from the live pattern): name,
    # address and suburb end at the back-slash with trailing BLANKS removed (other white space is data), post code
    # ten positions with trailing blanks removed, state three positions, country three non-blank characters
    def d43(name, addr, sub, pc='3103', st='VIC', ctry='AUS'):
        return {'DE43_NAME': name, 'DE43_ADDRESS': addr, 'DE43_SUBURB': sub, 'DE43_POSTCODE': pc, 'DE43_STATE': st,
                'DE43_COUNTRY': ctry}
    tail = '3103      VICAUS'
    for vi, (v, want) in enumerate((
            ('BIG BOBS\\80 KERNDALE ST\\DANERLEY\\' + tail, d43('BIG BOBS', '80 KERNDALE ST', 'DANERLEY')),
            ('BIG BOBS    \\80 KERNDALE ST  \\DANERLEY \\' + tail, d43('BIG BOBS', '80 KERNDALE ST', 'DANERLEY')),
            ('BIG BOBS\t\\80 KERNDALE ST\xa0\\DANERLEY\x0b\\' + tail, d43('BIG BOBS\t', '80 KERNDALE ST\xa0', 'DANERLEY\x0b')),
            ('BIG BOBS \t \\80 KERNDALE ST\x0c\\DANERLEY\r\\' + tail, d43('BIG BOBS \t', '80 KERNDALE ST\x0c', 'DANERLEY\r')),
            ('  BIG  BOBS\\ 80\tKERNDALE\\\xa0D\\' + tail, d43('  BIG  BOBS', ' 80\tKERNDALE', '\xa0D')),
            ('A\\B\\C\\2000      N  NZL', d43('A', 'B', 'C', '2000', 'N  ', 'NZL')),
            ('A\\B\\C\\          NSWAUS', d43('A', 'B', 'C', '', 'NSW', 'AUS')),
            # the post code loses ALL trailing white space (a no-break space, a tab as well as blanks)
            ('A\\B\\C\\3103\xa0     VICAUS', d43('A', 'B', 'C', '3103')),
            ('A\\B\\C\\3103    \t VICAUS', d43('A', 'B', 'C', '3103')),
            ('A\\B\\C\\31 03\t\x0b\x0c\x85\xa0VICAUS', d43('A', 'B', 'C', '31 03')),
            ('A\\B\\C\\2000      NSWAU ', {}),
            ('A\\B\\C\\2000      NSWA\xa0S', {}),          # a no-break space is white space: no country code
            ('A\\B\\C\\2000      NSW\x85US', {}),
            ('A\\B\\C\\2000      NSWA\tS', {}),
            ('A\\B\\C\\2000     NSWAUS', {}),
            ('NO SEPARATORS HERE', {}))):
        for codec in codecs3:
            try:
                v.encode(codec)
            except UnicodeError:
                continue
            m = {'MTI': '1240', 'DE3': '000000', 'DE43': v}
            c = c01.mk('pkg', codec, vi % 2, m, dict(m))
            c['want43'] = want
            cases.append(c)
    # the merchant-name processor on different elements, with the packaged pattern / none / an empty one / a caller's own
    pat = pkg['43']['field_processor_config']
    for bit in (43, 61, 104):
        for pi, pc in enumerate((pat, None, '', r'(?P<DE43_NAME>[A-Z0-9]+)\\(?P<DE43_ADDRESS>[A-Z 0-9]+)',
                                 r'(?P<DE43_NAME>[^\\]+)\\(?P<DE43_ADDRESS>[^\\]*)(?:\\X(?P<DE43_POSTCODE>\d{4}))?')):
            fc = {'field_name': 'merchant', 'field_type': 'LLVAR', 'field_length': 0, 'field_processor': 'DE43'}
            if pc is not None:
                fc['field_processor_config'] = pc
            cfg = {'3': {'field_name': 'proc', 'field_type': 'FIXED', 'field_length': 6}, str(bit): fc}
            for vi, v in enumerate(('BIG BOBS\\80 KERNDALE ST\\DANERLEY\\3103      VICAUS',
                                     'BIG BOBS      \\80 KERNDALE ST   \\DANERLEY \\3103      VICAUS',
                                     '12 AB\\STREET 1', 'NO SEPARATORS HERE', 'A\nB\\C\\D\\2000      NSWAUS')):
                codec = codecs3[(bit + pi + vi) % 3]
                m = {'MTI': '1240', 'DE3': '000000', f'DE{bit}': v}
                cases.append(c01.mk(cfg, codec, (pi + vi) % 2, m, dict(m)))
    run.correspond(__name__, cases, use_model=run.use_model, chunk=150)
    # the DECODING direction on hand-built messages of the documented layout that the encoder itself never emits: every
    # variable-length element with a declared count of ZERO, alone and followed by another element — well-framed, so the
    # element is present with an empty value, identical to the independent reading (evaluated as in C08)
    bm = lambda bs: sum(1 << (128 - b) for b in [1] + bs).to_bytes(16, 'big')   # noqa: E731
    dcases = []
    for b in sorted(int(k) for k, fc in pkg.items() if fc['field_type'] in ('LLVAR', 'LLLVAR')):
        pl = 2 if pkg[str(b)]['field_type'] == 'LLVAR' else 3
        for codec in codecs3:
            e = lambda t: t.encode(codec)   # noqa: E731
            for hexbm in (0, 1):
                bmb = (lambda bs: bm(bs).hex().encode(codec)) if hexbm else bm
                dcases.append({'cfg': 'pkg', 'codec': codec, 'hex': hexbm, 'mut': 'zerolen',
                               'data': (e('1144') + bmb([b]) + e('0' * pl)).hex()})
                dcases.append({'cfg': 'pkg', 'codec': codec, 'hex': hexbm, 'mut': 'zerolen',
                               'data': (e('1144') + bmb([3, b] if b > 3 else [b, 3]) + (e('123456') + e('0' * pl) if b > 3
                                        else e('0' * pl) + e('123456'))).hex()})
    run.correspond('harness.props.c08', dcases, use_model=run.use_model, chunk=200)
