"""C13 — PIN blocks follow ISO 9564 formats 0 and 4 and return the PIN, for 4-12 digits."""
import binascii
from unittest import mock

from harness import common, refdes

PROP = 'C13'
RULE = ("all PIN lengths 4..12 x PAN lengths 13..19 x digit sweeps at every PIN position (format 0), all PIN lengths x "
        "random fills {1, 2^64-1, random, none supplied} (format 4); encrypted forms under 2-/3-key TDES and AES-128/192/256 "
        "keys, also keys with equal parts (K1=K2, K2=K3, K1=K3, K1=K2=K3); clear blocks compared with the Lean model and an independent nibble-level construction, TDES ciphertexts "
        "with a from-scratch DES reference, AES ciphertexts with the Lean model's AES (Model/Aes.lean) and with a direct call of `cryptography`. Non-trivial = every case (each has a "
        "distinct PIN/PAN/fill/key); distinct = distinct case")
TRUSTED = ["Model/PinBlock.lean models Iso0PinBlock/Iso4PinBlock to_bytes/from_bytes (string formatting, int(...,16), XOR, "
           "to_bytes) — hand-written, tied by this correspondence; block ciphers are a parameter of the model",
           "Model/Des.lean: DES / two- and three-key Triple DES (ECB) inside the Lean model (FIPS 46-3 tables, known answers as #guards; Lemmas/Des.lean proves decrypt(encrypt x) = x); every Triple DES ciphertext of the implementation is compared with the model's AND with harness/refdes.py (an independent from-scratch Python DES)",
           "Model/Aes.lean: AES-128/192/256 inside the Lean model (FIPS 197 Appendix C vectors as #guards; Lemmas/Aes.lean proves the inverse cipher undoes the cipher); every AES ciphertext of the implementation is compared with the model's",
           "freshness of the random fill is observed (call count of secrets.randbits, inequality of two blocks), not proved"]
ASSUMPTIONS = ["none about the ciphers: D_k(E_k(x)) = x is proved for the model's Triple DES and AES, and the model's ciphertexts are compared with `cryptography`'s on every run",
               "PIN and PAN are ASCII digit strings"]


def spec_iso0(pin, pan):
    """ISO 9564-1 format 0 from the standard, nibble by nibble"""
    p1 = [0, len(pin)] + [int(c) for c in pin] + [15] * (14 - len(pin))
    p2 = [0, 0, 0, 0] + [int(c) for c in pan[-13:-1]]
    nib = [a ^ b for a, b in zip(p1, p2)]
    return bytes(nib[i] * 16 + nib[i + 1] for i in range(0, 16, 2))


def spec_iso4(pin, rnd):
    nib = [4, len(pin)] + [int(c) for c in pin] + [10] * (14 - len(pin))
    nib += [(rnd >> (4 * (15 - i))) & 15 for i in range(16)]
    return bytes(nib[i] * 16 + nib[i + 1] for i in range(0, 32, 2))


def guarded(fn):
    try:
        return ('ok', fn())
    except Exception as ex:  # noqa
        return ('escape:' + type(ex).__name__, None)


def impl_eval(case):
    from cardutil import pinblock as pb
    pin = case['pin']
    k = case['k']
    why = None
    if k == 'iso0':
        pan = case['pan']
        st, blk = guarded(lambda: pb.Iso0PinBlock(pin, card_number=pan).to_bytes())
        if st != 'ok':
            return {'obs': st, 'violation': f'to_bytes raised {st}', 'tags': ['iso0']}
        st2, back = guarded(lambda: pb.Iso0PinBlock.from_bytes(blk, card_number=pan).pin)
        if blk != spec_iso0(pin, pan):
            why = f'format-0 block {blk.hex()} is not ISO 9564 ({spec_iso0(pin, pan).hex()})'
        elif back != pin:
            why = f'PIN read back from the block is {back!r} ({st2})'
        else:
            # the block handed over as the caller's own bytearray / memoryview, and read TWICE: reading a block does not
            # change it, and the second reading gives the same PIN as the first
            for mk_buf in (bytearray, lambda x: memoryview(bytearray(x))):
                buf = mk_buf(blk)
                r1 = guarded(lambda: pb.Iso0PinBlock.from_bytes(buf, card_number=pan).pin)
                r2 = guarded(lambda: pb.Iso0PinBlock.from_bytes(buf, card_number=pan).pin)
                if bytes(buf) != blk:
                    why = "reading a PIN block changed the caller's buffer"
                elif r1 != ('ok', pin) or r2 != ('ok', pin):
                    why = f'a block given as {type(buf).__name__} reads as {r1} then {r2}'
                if why:
                    break
        return {'obs': f'ok {blk.hex()} {st2} {common.dotted(back or "")}', 'violation': why,
                'tags': ['iso0', f'pinlen:{len(pin)}', f'panlen:{len(pan)}']}
    if k == 'iso4':
        rnd = case['rnd']
        if rnd is None:
            with mock.patch('secrets.randbits', side_effect=[0x1122334455667788, 0x99aabbccddeeff00]) as rb:
                a = pb.Iso4PinBlock(pin).to_bytes()
                b = pb.Iso4PinBlock(pin).to_bytes()
                calls = [c.args for c in rb.call_args_list]
            if calls != [(64,), (64,)] or a[8:] == b[8:]:
                why = f'random fill not drawn fresh per block: randbits calls {calls}'
            rnd_used = 0x1122334455667788
            blk = a
        else:
            rnd_used = rnd
            st, blk = guarded(lambda: pb.Iso4PinBlock(pin, random_value=rnd).to_bytes())
            if st != 'ok':
                return {'obs': st, 'violation': f'to_bytes raised {st}', 'tags': ['iso4']}
        st2, back = guarded(lambda: pb.Iso4PinBlock.from_bytes(blk).pin)
        if why is None and blk != spec_iso4(pin, rnd_used):
            why = f'format-4 block {blk.hex()} is not ISO 9564 ({spec_iso4(pin, rnd_used).hex()})'
        elif why is None and back != pin:
            why = f'PIN read back from the block is {back!r} ({st2})'
        if why is None:
            buf = bytearray(blk)
            r1 = guarded(lambda: pb.Iso4PinBlock.from_bytes(buf).pin)
            r2 = guarded(lambda: pb.Iso4PinBlock.from_bytes(buf).pin)
            if bytes(buf) != blk:
                why = "reading a PIN block changed the caller's buffer"
            elif r1 != ('ok', pin) or r2 != ('ok', pin):
                why = f'a block given as bytearray reads as {r1} then {r2}'
        return {'obs': f'ok {blk.hex()} {st2} {common.dotted(back or "")}', 'violation': why,
                'tags': ['iso4', f'pinlen:{len(pin)}', 'rnd:none' if rnd is None else 'rnd:given']}
    if k == 'enc0':
        pan, key = case['pan'], case['key']
        cls = pb.Iso0TDESPinBlockWithVisaPVV
        st, res = guarded(lambda: (cls(pin, card_number=pan).to_enc_bytes(key),
                                   cls(pin, card_number=pan).to_bytes()))
        if st != 'ok':
            return {'obs': st, 'violation': f'to_enc_bytes raised {st}', 'tags': ['enc0']}
        enc, clear = res
        if case.get('form') == 'pos':
            st2, back = guarded(lambda: cls.from_enc_bytes(enc, key, pan).pin)       # card number by position
        elif case.get('form') == 'allkw':
            st2, back = guarded(lambda: cls.from_enc_bytes(enc_pin_block=enc, key=key, card_number=pan).pin)
        else:
            st2, back = guarded(lambda: cls.from_enc_bytes(enc, key, card_number=pan).pin)
        ref = refdes.tdes_ecb(clear, binascii.unhexlify(key))
        if enc != ref:
            why = 'encrypted block is not the 3DES-ECB encryption of the clear block under the key (DES reference)'
        elif clear != spec_iso0(pin, pan):
            why = 'clear block is not ISO 9564 format 0'
        elif back != pin:
            why = f'decrypting returns PIN {back!r} ({st2})'
        return {'obs': f'ok {clear.hex()} {enc.hex()} {common.dotted(back or "")}' if st2 == 'ok' else st2, 'violation': why,
                'tags': ['enc0', f'keylen:{len(key) // 2}']}
    if k == 'enc4':
        key, rnd = case['key'], case['rnd']
        from cryptography.hazmat.primitives.ciphers import Cipher, algorithms, modes
        cls = pb.Iso4AESPinBlockWithVisaPVV
        st, res = guarded(lambda: (cls(pin, random_value=rnd).to_enc_bytes(key), cls(pin, random_value=rnd).to_bytes()))
        if st != 'ok':
            return {'obs': st, 'violation': f'to_enc_bytes raised {st}', 'tags': ['enc4']}
        enc, clear = res
        st2, back = guarded(lambda: cls.from_enc_bytes(enc, key).pin)
        e = Cipher(algorithms.AES(binascii.unhexlify(key)), modes.ECB()).encryptor()
        ref = e.update(clear) + e.finalize()
        if enc != ref:
            why = 'encrypted block is not the AES-ECB encryption of the clear block under the key'
        elif clear != spec_iso4(pin, rnd):
            why = 'clear block is not ISO 9564 format 4'
        elif back != pin:
            why = f'decrypting returns PIN {back!r} ({st2})'
        return {'obs': f'ok {clear.hex()} {enc.hex()} {common.dotted(back or "")}' if st2 == 'ok' else st2, 'violation': why,
                'tags': ['enc4', f'keylen:{len(key) // 2}']}
    if k == 'enc4tdes':
        # format 4 (a 16-byte block = two DES blocks) under the TDES mix-in: ECB of both blocks
        key, rnd = case['key'], case['rnd']

        class Iso4Tdes(pb.Iso4PinBlock, pb.TdesEncryptedPinBlockMixin):
            pass
        st, res = guarded(lambda: (Iso4Tdes(pin, random_value=rnd).to_enc_bytes(key), Iso4Tdes(pin, random_value=rnd).to_bytes()))
        if st != 'ok':
            return {'obs': st, 'violation': f'to_enc_bytes raised {st}', 'tags': ['enc4tdes']}
        enc, clear = res
        st2, back = guarded(lambda: Iso4Tdes.from_enc_bytes(enc, key).pin)
        if enc != refdes.tdes_ecb(clear, binascii.unhexlify(key)):
            why = 'encrypted block is not the 3DES-ECB encryption of the 16-byte clear block (DES reference)'
        elif clear != spec_iso4(pin, rnd):
            why = 'clear block is not ISO 9564 format 4'
        elif back != pin:
            why = f'decrypting returns PIN {back!r} ({st2})'
        return {'obs': f'ok {clear.hex()} {enc.hex()} {common.dotted(back or "")}' if st2 == 'ok' else st2, 'violation': why,
                'tags': ['enc4tdes', f'keylen:{len(key) // 2}']}
    if k == 'pair':
        # TWO block objects alive at the same time (created one after the other, then serialised in the other order): each
        # holds its own PIN, card number and fill
        pin2, pan, pan2 = case['pin2'], case['pan'], case['pan2']
        a0, b0 = pb.Iso0PinBlock(pin, card_number=pan), pb.Iso0PinBlock(pin2, card_number=pan2)
        a4, b4 = pb.Iso4PinBlock(pin, random_value=case['rnd']), pb.Iso4PinBlock(pin2, random_value=case['rnd'] + 1)
        got = (b0.to_bytes(), a0.to_bytes(), b4.to_bytes(), a4.to_bytes())
        want = (spec_iso0(pin2, pan2), spec_iso0(pin, pan), spec_iso4(pin2, case['rnd'] + 1), spec_iso4(pin, case['rnd']))
        if got != want:
            why = 'two block objects alive at the same time do not each serialise their own PIN / card number / fill'
        return {'obs': 'ok ' + got[1].hex() + ' ' + got[3].hex(), 'violation': why, 'tags': ['pair']}
    if k == 'iso4same':
        # ONE object stands for one block: serialising it twice, or encrypting it, uses the same fill
        key = case['key']
        from cryptography.hazmat.primitives.ciphers import Cipher, algorithms, modes
        o = pb.Iso4AESPinBlockWithVisaPVV(pin)
        a, b = o.to_bytes(), o.to_bytes()
        enc = o.to_enc_bytes(key)
        d = Cipher(algorithms.AES(binascii.unhexlify(key)), modes.ECB()).decryptor()
        clear = d.update(enc) + d.finalize()
        if a != b:
            why = 'two serialisations of one format-4 block object differ (the fill is drawn again)'
        elif clear != a:
            why = 'to_enc_bytes does not encrypt the block that to_bytes returns'
        elif a[:8] != spec_iso4(pin, 1)[:8]:
            why = 'PIN half of the block is not ISO 9564 format 4'
        return {'obs': 'ok ' + a[:8].hex(), 'violation': why, 'tags': ['iso4same']}
    raise ValueError(k)


def model_line(case):
    if case['k'] in ('iso4same', 'pair'):
        return None
    pin = common.dotted(case['pin'])
    if case['k'] == 'enc4tdes':
        # clear block, Triple DES encryption (Model/Des.lean), decryption, PIN read back: all by the model
        return f"pin.enc4tdes\t{pin}\t{case['rnd']}\t{case['key']}"
    if case['k'] == 'enc4':
        # clear block, AES encryption (Model/Aes.lean — the cipher itself, checked against FIPS 197 vectors), the inverse
        # cipher, PIN read back: all by the model
        return f"pin.enc4aes\t{pin}\t{case['rnd']}\t{case['key']}"
    if case['k'] == 'enc0':
        return f"pin.enc0\t{pin}\t{common.dotted(case['pan'])}\t{case['key']}"
    if case['k'] in ('iso0',):
        pan = common.dotted(case['pan'])
        return [f'pin.iso0\t{pin}\t{pan}', f"pin.iso0from\t{spec_iso0(case['pin'], case['pan']).hex()}\t{pan}"]
    rnd = case['rnd'] if case['rnd'] is not None else 0x1122334455667788
    return [f'pin.iso4\t{pin}\t{rnd}', f"pin.iso4from\t{spec_iso4(case['pin'], rnd).hex()}"]


def model_obs(case, resp):
    if case['k'] in ('enc0', 'enc4tdes', 'enc4'):
        return resp
    a, b = resp
    if not a.startswith('ok ') or not b.startswith('ok '):
        return f'{a} / {b}'
    return f'{a} ok {b[3:]}'


def explore(run, tier):
    rng = common.rng_for(run.seed, PROP)
    cases = []
    def digits(n):
        return ''.join(rng.choice('0123456789') for _ in range(n))
    for pl in range(4, 13):
        for pn in range(13, 20):
            pan = digits(pn)
            cases.append({'k': 'iso0', 'pin': digits(pl), 'pan': pan})
            base = digits(pl)
            for pos in range(pl):          # digit sweep at every PIN position
                for d in '0123456789':
                    cases.append({'k': 'iso0', 'pin': base[:pos] + d + base[pos + 1:], 'pan': pan})
        for rnd in (1, 2 ** 64 - 1, rng.getrandbits(64) or 1, rng.getrandbits(20) + 1, None):
            cases.append({'k': 'iso4', 'pin': digits(pl), 'rnd': rnd})
        for d in '09':
            cases.append({'k': 'iso4', 'pin': d * pl, 'rnd': rng.getrandbits(64) or 1})
            cases.append({'k': 'iso0', 'pin': d * pl, 'pan': d * 16})
    run.exhaustive.append('all (PIN length 4..12) x (PAN length 13..19) with a digit sweep at every PIN position')
    nkeys = 200 if tier == 'quick' else 20000
    for i in range(nkeys):
        pl = 4 + i % 9
        klen = [16, 24][i % 2]
        key = bytes(rng.getrandbits(8) for _ in range(klen)).hex()
        if i % 10 in (3, 4, 5):
            # keys with EQUAL parts: K1 = K2 (double length: single-DES equivalent; triple length: K3 still counts),
            # K2 = K3, K1 = K3 (the triple-length spelling of a double-length key), K1 = K2 = K3
            k1, k2, k3 = key[:16], key[16:32], key[32:48] or None
            shape = (i // 10) % 4
            if k3 is None:
                key = k1 + k1
            else:
                key = [k1 + k1 + k3, k1 + k2 + k2, k1 + k2 + k1, k1 + k1 + k1][shape]
        cases.append({'k': 'enc0', 'pin': digits(pl), 'pan': digits(13 + i % 7), 'key': key,
                      'form': ['kw', 'pos', 'allkw'][i % 3]})
        akey = bytes(rng.getrandbits(8) for _ in range([16, 24, 32][i % 3])).hex()
        cases.append({'k': 'enc4', 'pin': digits(pl), 'rnd': rng.getrandbits(64) or 1, 'key': akey})
        if i % 4 == 0:
            cases.append({'k': 'enc4tdes', 'pin': digits(pl), 'rnd': rng.getrandbits(64) or 1, 'key': key})
            cases.append({'k': 'iso4same', 'pin': digits(pl), 'key': akey})
    for i in range(40):
        cases.append({'k': 'pair', 'pin': digits(4 + i % 9), 'pin2': digits(4 + (i + 3) % 9), 'pan': digits(13 + i % 7),
                      'pan2': digits(13 + (i + 2) % 7), 'rnd': rng.getrandbits(63) + 1})
    # key components with a special structure — the DES weak and semi-weak keys, all-zero, all-one, odd-parity-adjusted
    # and not: a key is a key, every one of them encrypts (the reference DES has no notion of an unacceptable key)
    special = ['0101010101010101', 'fefefefefefefefe', 'e0e0e0e0f1f1f1f1', '1f1f1f1f0e0e0e0e', '01fe01fe01fe01fe',
               'fe01fe01fe01fe01', '1fe01fe00ef10ef1', '0000000000000000', 'ffffffffffffffff', '0123456789abcdef',
               'FEDCBA9876543210']
    for i, sp in enumerate(special):
        other = bytes(rng.getrandbits(8) for _ in range(8)).hex()
        other2 = bytes(rng.getrandbits(8) for _ in range(8)).hex()
        for j, key in enumerate((sp + other, other + sp, sp + other + other2, other + sp + other2, other + other2 + sp,
                                 sp + special[(i + 1) % len(special)])):
            cases.append({'k': 'enc0', 'pin': digits(4 + (i + j) % 9), 'pan': digits(13 + (i + j) % 7), 'key': key,
                          'form': ['kw', 'pos'][(i + j) % 2]})
            if j % 2 == 0:
                cases.append({'k': 'enc4tdes', 'pin': digits(4 + (i + j) % 9), 'rnd': rng.getrandbits(64) or 1, 'key': key})
    run.correspond(__name__, cases, use_model=run.use_model, chunk=300)
