"""C03 — VBS framing: any record list survives write then read, with byte-exact layout."""
import io

from harness import common
from harness.props.vbsutil import P, ref_vbs, ref_payload, read_all, render_end, KeepOpen

PROP = 'C03'
RULE = ("record lists written with VbsWriter (class API, write_many, context manager) or vbs_list_to_bytes and read back "
        "with VbsReader / vbs_bytes_to_list, blocked and unblocked: every single-record length 1..6000 in both formats "
        "(exhaustive), multi-record files whose prefixes and record ends fall on payload offsets 1008..1016 mod 1012, "
        "contents with 0x00 / 0x40 runs and embedded zero lengths, the convenience functions with their default arguments on 0x40-filled data, the configured maximum changed at run time, one-shot iterators as input, files past 64 KiB, 499..2500 small records in one call through every API, random lists. Non-trivial = more than one record, or a "
        "record/prefix touching a block boundary, or special content; distinct = distinct (format, api, record list)")
TRUSTED = ["Model/Vbs.lean models VbsWriter.write/close, VbsReader.__next__, Block1014, Unblock1014 and the BytesIO file "
           "position semantics (hand-written; tied by this correspondence)",
           "struct.pack('>I') modelled as 4 base-256 digits (lengths below 2^32)"]
ASSUMPTIONS = ["records shorter than 2^32 bytes; MAX_VBS_RECORD_LENGTH translated from /repo/cardutil/config.py on every run"]


def max_len():
    from cardutil import config
    return config.config.get('MAX_VBS_RECORD_LENGTH', 6000)


def records_of(case):
    if 'lens' in case:
        return common.pc_records(case['lens'])
    return [bytes.fromhex(h) for h in case['hex']]


def write_file(case, recs):
    from cardutil import mciipm
    blocked = bool(case['b'])
    api = case.get('api', 'class')
    if api == 'func':
        return mciipm.vbs_list_to_bytes(recs, blocked=blocked)
    if api == 'funcdef':      # the convenience function with its defaults (no keyword at all): unblocked
        return mciipm.vbs_list_to_bytes(recs)
    if api == 'funcgen':      # the records handed over as a one-shot iterator (the parameter is annotated `iter`)
        return mciipm.vbs_list_to_bytes((r for r in recs), blocked=blocked)
    if api == 'rebind':
        # writer objects created on the same file and dropped without close() (a helper that builds a writer, finds
        # nothing to write, and lets it go); only the last writer writes and finalises
        import gc
        f = KeepOpen()
        for _ in range(2):
            w = mciipm.VbsWriter(f, blocked=blocked)
            w = None
            gc.collect()
        w = mciipm.VbsWriter(f, blocked=blocked)
        for r in recs:
            w.write(r)
        w.close()
        return f.getvalue()
    if api == 'batches':
        # (unblocked) one writer object per batch on the same file object; earlier writers are simply dropped, only the
        # last one is closed
        import gc
        f = KeepOpen()
        half = max(1, len(recs) // 2)
        w = mciipm.VbsWriter(f, blocked=False)
        for r in recs[:half]:
            w.write(r)
        w = None
        gc.collect()
        w = mciipm.VbsWriter(f, blocked=False)
        for r in recs[half:]:
            w.write(r)
        w.close()
        return f.getvalue()
    if api in ('mvrecs', 'mvfunc'):
        # records handed over as bytes-like objects: memoryview slices of one larger buffer, bytearrays
        big = b''.join(recs)
        views, off = [], 0
        for i, r in enumerate(recs):
            views.append(memoryview(big)[off:off + len(r)] if i % 2 == 0 else bytearray(r))
            off += len(r)
        if api == 'mvfunc':
            return mciipm.vbs_list_to_bytes(views, blocked=blocked)
        f = KeepOpen()
        w = mciipm.VbsWriter(f, blocked=blocked)
        for v in views:
            w.write(v)
        w.close()
        return f.getvalue()
    if api == 'wbfile':
        # a real file opened WRITE-ONLY ('wb'), as in the module documentation; the bytes are read back from disk
        import os
        import tempfile
        d = tempfile.mkdtemp(prefix='c03wb')
        path = os.path.join(d, 'out.vbs')
        try:
            with open(path, 'wb') as fh:
                w = mciipm.VbsWriter(fh, blocked=blocked)
                for r in recs:
                    w.write(r)
                w.close()
            with open(path, 'rb') as fh:
                return fh.read()
        finally:
            try:
                os.remove(path)
            finally:
                os.rmdir(d)
    if api in ('many2', 'manywrite'):
        # the records handed over in two steps on ONE writer: write_many twice, or write_many and then write()
        f = KeepOpen()
        w = mciipm.VbsWriter(f, blocked=blocked)
        half = len(recs) // 2
        w.write_many(recs[:half])
        if api == 'many2':
            w.write_many(recs[half:])
        else:
            for r in recs[half:]:
                w.write(r)
        w.close()
        return f.getvalue()
    if api == 'manygen':      # write_many fed from a generator
        f = KeepOpen()
        w = mciipm.VbsWriter(f, blocked=blocked)
        w.write_many(iter(recs))
        w.close()
        return f.getvalue()
    f = KeepOpen()
    if api == 'with':
        with mciipm.VbsWriter(f, blocked=blocked) as w:
            w.write_many(recs)
    else:
        w = mciipm.VbsWriter(f, blocked=blocked)
        for r in recs:
            w.write(r)
        w.close()
    return f.getvalue()


def impl_eval(case):
    if 'maxlen' in case:
        # the application changes the configured maximum at run time (config is a plain module-level dict)
        from cardutil import config
        old = config.config.get('MAX_VBS_RECORD_LENGTH')
        config.config['MAX_VBS_RECORD_LENGTH'] = case['maxlen']
        try:
            return impl_eval_inner(case)
        finally:
            if old is None:
                config.config.pop('MAX_VBS_RECORD_LENGTH', None)
            else:
                config.config['MAX_VBS_RECORD_LENGTH'] = old
    return impl_eval_inner(case)


def impl_eval_inner(case):
    from cardutil import mciipm
    recs = records_of(case)
    blocked = bool(case['b'])
    data = write_file(case, recs)
    if case.get('api') in ('func', 'funcdef', 'funcgen'):
        try:
            back = mciipm.vbs_bytes_to_list(data, blocked=blocked) if case['api'] != 'funcdef' else mciipm.vbs_bytes_to_list(data)
            exc = None
        except Exception as ex:  # noqa
            back, exc = [], ex
    elif case.get('api') == 'offset':
        # the VBS data sits behind an application header: the reader is handed a file object positioned at its start
        head = bytes(range(1, 17)) * (1 + len(recs) % 3)
        fobj = io.BytesIO(head + data)
        fobj.seek(len(head))
        back, exc = read_all(mciipm.VbsReader(fobj, blocked=blocked))
    elif case.get('rbfile'):
        # read back from a REAL file opened 'rb' (a buffered reader: it has peek(), readinto(), a buffer of its own whose
        # edges fall anywhere in the records), default and tiny buffer sizes
        import os
        import tempfile
        fd, path = tempfile.mkstemp(prefix='verif_c03_')
        try:
            os.write(fd, data)
            os.close(fd)
            with open(path, 'rb', buffering=case['rbfile']) as fh:
                back, exc = read_all(mciipm.VbsReader(fh, blocked=blocked))
        finally:
            os.unlink(path)
    else:
        # the file is read while ANOTHER reader over another file (the other format, other records) exists: created
        # before this one at even record counts, after it at odd ones, and read to its end afterwards
        other_recs = [b'a', b'b', b'c']            # (one byte each: within any configured maximum)
        other_data = mciipm.vbs_list_to_bytes(other_recs, blocked=not blocked)
        if len(recs) % 2 == 0:
            other = mciipm.VbsReader(io.BytesIO(other_data), blocked=not blocked)
            mine = mciipm.VbsReader(io.BytesIO(data), blocked=blocked)
        else:
            mine = mciipm.VbsReader(io.BytesIO(data), blocked=blocked)
            other = mciipm.VbsReader(io.BytesIO(other_data), blocked=not blocked)
        back, exc = read_all(mine)
        oback, oexc = read_all(other)
        if exc is None and back == recs and (oback != other_recs or oexc is not None):
            return {'obs': 'other-reader-disturbed', 'violation': 'a second reader over another file, alive at the same time, '
                    f'returned {len(oback)} of its 3 records ({render_end(oexc)})', 'tags': ['two-readers']}
    why = None
    ref = ref_vbs(recs)
    if not blocked and data != ref:
        why = 'unblocked file is not (4-byte big-endian length + record)* + zero length'
    if blocked:
        pay = ref_payload(data)
        if len(data) % 1014 or any(data[i + 1012:i + 1014] != b'@@' for i in range(0, len(data), 1014)):
            why = 'blocked file is not a whole number of 1014-byte blocks with 0x40 0x40 trailers'
        elif pay[:len(ref)] != ref or pay[len(ref):].strip(b'\x40'):
            why = 'payload of the blocked file is not the VBS byte stream followed by 0x40 fill'
    if why is None and (back != recs or exc is not None):
        why = f'read back {len(back)} records ({render_end(exc)}), wrote {len(recs)}'
    canon = data
    if blocked and len(data) >= 1014 and data[-1014:] == b'\x40' * 1014:
        canon = data[:-1014]   # an optional trailing all-fill block is a freedom the property leaves (C04)
    bnd = any((o % P) >= 1008 or (o % P) <= 4 for o in _offsets(recs)) if recs else False
    return {'obs': f'ok {common.sig(canon)} ' + ','.join(common.sig(r) for r in back) + ' ' + render_end(exc),
            'violation': why, 'nontrivial': len(recs) > 1 or bnd or 'hex' in case,
            'tags': [f"fmt:{'1014' if blocked else 'vbs'}", f"api:{case.get('api', 'class')}", f'n:{min(len(recs), 5)}']}


def _offsets(recs):
    o = 0
    for r in recs:
        yield o
        o += 4
        yield o
        o += len(r)
    yield o


def model_line(case):
    b = '1' if case['b'] else '0'
    ml = case.get('maxlen', max_len())
    if 'lens' in case:
        return f"vbs.roundtrip\t{b}\t{ml}\t" + ','.join(map(str, case['lens']))
    return f"vbs.roundtriphex\t{b}\t{ml}\t" + ','.join(case['hex'])


def model_obs(case, resp):
    # "ok <sig file> <recs> <end>": drop an optional trailing fill-only block from the model's file too
    return resp


def explore(run, tier):
    rng = common.rng_for(run.seed, PROP)
    ml = max_len()
    cases = []
    apis = ['class', 'func', 'with']
    for n in range(1, ml + 1):
        for b in (0, 1):
            cases.append({'b': b, 'lens': [n], 'api': apis[(n + b) % 3]})
    run.exhaustive.append(f'all single-record files of length 1..{ml} x {{vbs,1014}}')
    # multi-record files: make prefixes / record ends land on payload offsets 1008..1016 (mod 1012)
    for first in range(1000, 1014):
        for second in (1, 4, 1004, 1008, 1012, 2020):
            for b in (0, 1):
                cases.append({'b': b, 'lens': [first, second, 3], 'api': apis[(first + second) % 3]})
    special = ['00', '40', '00000000', '0000000000000000', '40' * 1012, '00' * 1012, '40' * 1008, '00000001ff',
               '40' * 2030, '00' * 5 + '40' * 1003]
    for i, h in enumerate(special):
        for b in (0, 1):
            cases.append({'b': b, 'hex': [h], 'api': apis[i % 3]})
            cases.append({'b': b, 'hex': [h, '01', h], 'api': apis[(i + 1) % 3]})
            cases.append({'b': b, 'hex': [special[(i + 3) % len(special)], h], 'api': apis[(i + 2) % 3]})
    # the convenience functions called with their defaults (unblocked), on content that looks like block
    # trailers: 0x40 (EBCDIC space) at payload offsets 1012-1013 and 2026-2027
    for h in special:
        cases.append({'b': 0, 'hex': [h], 'api': 'funcdef'})
    for n in (1008, 1009, 1010, 1011, 1012, 2022, 2023, 2024, 2025, 2026, 2100, 3040, 6000):
        cases.append({'b': 0, 'hex': ['40' * n], 'api': 'funcdef'})
        cases.append({'b': 0, 'hex': ['40' * 800, '40' * n, '40' * 800], 'api': 'funcdef'})
        cases.append({'b': 0, 'lens': [n, 800, n], 'api': 'funcdef'})
    # blocked files whose neighbouring blocks are EQUAL (constant or periodic record content over several blocks)
    for n in (2100, 3040, 4052, 6000):
        for h in ('40', '00', 'ff', '41424344', '0a'):
            cases.append({'b': 1, 'hex': [(h * (n // (len(h) // 2)))[:2 * n]], 'api': 'class'})
            cases.append({'b': 1, 'hex': ['01', (h * (n // (len(h) // 2)))[:2 * n], '02'], 'api': 'func'})
    # files read back through a real buffered file object: thousands of tiny records (length prefixes straddle every
    # buffer edge), default buffer and buffers of 16 / 4096 bytes
    for b in (0, 1):
        for lens, buf in (([3] * 4000, -1), ([3] * 4000, 4096), ([1, 2, 3, 5] * 700, -1), ([5] * 50, 16), ([1000, 1012, 7], 16),
                          ([2040] * 9, -1), ([1] * 9000, -1)):
            cases.append({'b': b, 'lens': lens, 'api': 'class', 'rbfile': buf})
    # one-shot iterators as input; files of more than 64 KiB (65+ blocks), blocked and unblocked
    for b in (0, 1):
        for lens in ([5], [1, 2, 3], [1000, 1012, 7], [ml], [], [100], [1004], [1008, 1008, 40], [3, 4, 5, 6, 7, 8]):
            for api in ('wbfile', 'many2', 'manywrite', 'mvrecs', 'mvfunc'):
                cases.append({'b': b, 'lens': lens, 'api': api})
        for lens in ([5], [1, 2, 3], [1000, 1012, 7], [ml]):
            cases.append({'b': b, 'lens': lens, 'api': 'funcgen'})
            cases.append({'b': b, 'lens': lens, 'api': 'manygen'})
            cases.append({'b': b, 'lens': lens, 'api': 'offset'})
            cases.append({'b': b, 'lens': lens, 'api': 'rebind'})
            if b == 0 and len(lens) >= 2:
                cases.append({'b': 0, 'lens': lens, 'api': 'batches'})
        for count, size in ((70, 1000), (66, 1008), (140, 997), (30, ml)):
            cases.append({'b': b, 'lens': [size] * count, 'api': apis[(count + b) % 3]})
    # MANY records in one call (hundreds to thousands of small records: any batching inside the writer or the
    # convenience functions must neither drop nor repeat one)
    for count in ((499, 500, 501, 1203) if tier == 'quick' else (499, 500, 501, 750, 1203, 2500, 5000)):
        for b in (0, 1):
            for api in ('func', 'manygen', 'funcgen') + tuple(apis):
                cases.append({'b': b, 'lens': [1 + (i * 7) % 5 for i in range(count)], 'api': api})
    # the configured maximum changed at run time: records up to the NEW maximum must survive
    for newmax in (ml + 2000, 2 * ml, 100, 1):
        for b in (0, 1):
            for n in sorted({1, newmax - 1, newmax, min(newmax, ml + 1)}):
                if n >= 1:
                    cases.append({'b': b, 'lens': [n], 'api': apis[(n + b) % 3], 'maxlen': newmax})
            cases.append({'b': b, 'lens': [newmax, min(3, newmax), newmax], 'api': 'class', 'maxlen': newmax})
    for b in (0, 1):
        cases.append({'b': b, 'lens': [], 'api': 'class'})
        cases.append({'b': b, 'lens': [ml, ml, ml], 'api': 'func'})
    for _ in range(2000 if tier == 'quick' else 50000):
        k = rng.choice([1, 2, 3, 5, 8, 20])
        lens = [rng.choice([1, 2, 4, rng.randrange(1, 30), rng.randrange(1, 1100), rng.randrange(1000, 1020),
                            rng.randrange(2015, 2030), rng.randrange(1, ml + 1), ml]) for _ in range(k)]
        cases.append({'b': rng.randrange(2), 'lens': lens, 'api': rng.choice(apis)})
    run.correspond(__name__, cases, use_model=run.use_model)
