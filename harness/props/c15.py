"""C15 — Luhn check digits are correct and validation really rejects bad numbers."""
import itertools
import json
import subprocess
import sys

from harness import common

PROP = 'C15'
RULE = ("all digit strings up to length 4 (quick) / 6 (thorough) exhaustively: check digit, validation of the completed "
        "number, of EVERY single-digit substitution and EVERY adjacent transposition; longer strings (to 40 digits, with "
        "separators) sampled; every case run in-process AND in a `python -O` subprocess, both compared with the same model "
        "response. Non-trivial = payload of at least 2 digits; distinct = distinct payload string")
TRUSTED = ["Model/Card.lean models calculate_check_digit / validate_check_digit / add_check_digit on ASCII text "
           "(hand-written; tied by this correspondence); str.isdigit() restricted to ASCII digits (non-ASCII digits are "
           "outside the property's domain)",
           "the interpreter's optimised mode (-O) is exercised by the harness, not modelled: the model has one semantics"]
ASSUMPTIONS = ["card numbers are ASCII text; separators are non-digit ASCII characters"]

SERVER = r'''
import sys, json
sys.path.insert(0, %r)
import logging; logging.disable(logging.CRITICAL)
from cardutil import card
def v(x):
    try:
        card.validate_check_digit(x); return 'A'
    except AssertionError:
        return 'R'
    except Exception as ex:
        return 'X'
def edits(t):
    c = card.calculate_check_digit(t)
    n = t + c
    subs = ''.join(v(n[:i] + d + n[i+1:]) for i in range(len(n)) for d in '0123456789' if d != n[i])
    swaps = ''.join(v(n[:i] + n[i+1] + n[i] + n[i+2:]) for i in range(len(n)-1) if n[i] != n[i+1])
    return '.'.join(str(ord(ch)) for ch in c) + ' ' + v(n) + ' ' + subs + ' ' + swaps
for line in sys.stdin:
    req = json.loads(line)
    try:
        if req['op'] == 'edits':
            out = 'ok ' + edits(req['s'])
        elif req['op'] == 'validate':
            out = {'A': 'accept', 'R': 'reject'}.get(v(req['s']), 'escape')
        else:
            out = 'bad'
    except Exception as ex:
        out = 'escape:' + type(ex).__name__
    sys.stdout.write(out + '\n'); sys.stdout.flush()
''' % common.REPO

_ns = {}
exec(SERVER.split('for line in sys.stdin:')[0], _ns)   # the same functions, in-process (normal mode)

_OPT = None


def opt_server():
    global _OPT
    if _OPT is None or _OPT.poll() is not None:
        _OPT = subprocess.Popen([sys.executable, '-O', '-c', SERVER], stdin=subprocess.PIPE, stdout=subprocess.PIPE,
                                text=True)
    return _OPT


def ask_opt(req):
    p = opt_server()
    p.stdin.write(json.dumps(req) + '\n')
    p.stdin.flush()
    return p.stdout.readline().rstrip('\n')


def luhn_ok(n: str) -> bool:
    """textbook Luhn, independent of the code under test"""
    total = 0
    for i, ch in enumerate(reversed([c for c in n if c in '0123456789'])):
        d = int(ch)
        if i % 2 == 1:
            d *= 2
            if d > 9:
                d -= 9
        total += d
    return total % 10 == 0


def expected_edits(t):
    digits = [c for c in t if c in '0123456789']
    c = next(d for d in '0123456789' if luhn_ok(''.join(digits) + d))
    n = t + c
    def v(x):
        return 'A' if (x and luhn_ok(x) and x[-1] in '0123456789') else 'R'
    subs = ''.join(v(n[:i] + d + n[i + 1:]) for i in range(len(n)) for d in '0123456789' if d != n[i])
    swaps = ''.join(v(n[:i] + n[i + 1] + n[i] + n[i + 2:]) for i in range(len(n) - 1) if n[i] != n[i + 1])
    return c, v(n), subs, swaps


def impl_eval(case):
    s = case['s']
    if case['k'] == 'edits':
        try:
            normal = 'ok ' + _ns['edits'](s)
        except Exception as ex:  # noqa
            normal = 'escape:' + type(ex).__name__
        opt = ask_opt({'op': 'edits', 's': s})
        why = None
        if s.isdigit() or case.get('seps'):
            c, vn, subs, swaps = expected_edits(s)
            exp = f'ok {ord(c)} {vn} {subs} {swaps}'
            if True:
                # property: appended digit validates, every substitution rejected, every transposition other than 0/9
                # rejected — for the digits of the number, however it is written (separators do not count)
                if normal != exp:
                    why = f'normal mode: check digit / validation pattern {normal!r} differs from Luhn {exp!r}'
                elif opt != exp:
                    why = f'python -O: check digit / validation pattern {opt!r} differs from Luhn {exp!r}'
                else:
                    # the library's own "append the check digit": the input followed by that digit, whatever the input
                    # looks like (a body that happens to validate already gets its digit like any other)
                    from cardutil import card
                    try:
                        added = card.add_check_digit(s)
                    except Exception as ex:  # noqa
                        added = 'escape:' + type(ex).__name__
                    if added != s + c:
                        why = f'add_check_digit({s!r}) returned {added!r}, the number with its check digit is {s + c!r}'
        obs = normal if normal == opt else f'MODES-DIFFER normal={normal} opt={opt}'
        if normal != opt and why is None:
            why = 'validation behaves differently under python -O'
        return {'obs': obs, 'violation': why, 'nontrivial': len(s) >= 2, 'tags': [f'len:{min(len(s), 8)}']}
    if case['k'] == 'validate':
        normal = {'A': 'accept', 'R': 'reject'}.get(_ns['v'](s), 'escape')
        opt = ask_opt({'op': 'validate', 's': s})
        why = None
        if s and s.isdigit():
            exp = 'accept' if luhn_ok(s) else 'reject'
            if normal != exp or opt != exp:
                why = f'validate({s!r}): normal={normal} -O={opt}, Luhn says {exp}'
        obs = normal if normal == opt else f'MODES-DIFFER normal={normal} opt={opt}'
        return {'obs': obs, 'violation': why, 'nontrivial': len(s) >= 2, 'tags': ['validate']}
    raise ValueError(case['k'])


def model_line(case):
    if case['k'] == 'edits':
        return 'luhn.edits\t' + common.dotted(case['s'])
    return 'luhn.validate\t' + common.dotted(case['s'])


def model_obs(case, resp):
    if case['k'] == 'validate' and resp.startswith('escape'):
        return 'escape'
    return resp


def explore(run, tier):
    rng = common.rng_for(run.seed, PROP)
    cases = []
    maxlen = 4 if tier == 'quick' else 6
    for n in range(0, maxlen + 1):
        for t in itertools.product('0123456789', repeat=n):
            cases.append({'k': 'edits', 's': ''.join(t)})
    run.exhaustive.append(f'all digit strings of length 0..{maxlen} with all single-digit substitutions and adjacent transpositions')
    for _ in range(2000 if tier == 'quick' else 50000):
        n = rng.randrange(5, 41)
        s = ''.join(rng.choice('0123456789') for _ in range(n))
        cases.append({'k': 'edits', 's': s})
        if rng.random() < 0.3:
            t = list(s)
            for _ in range(rng.randrange(1, 4)):
                # the separators people write card numbers with: blank, hyphen, dot, slash, tab, no-break space, ...
                t.insert(rng.randrange(0, len(t)), rng.choice(' - -./\t\xa0_,:'))
            cases.append({'k': 'edits', 's': ''.join(t), 'seps': True})
        cases.append({'k': 'validate', 's': s})
    for s in ['79927398713', '79927398710', '0', '00', '18', '91', '1', '4444555566667777', '9' * 19, '0' * 16]:
        cases.append({'k': 'validate', 's': s})
    run.correspond(__name__, cases, use_model=run.use_model, chunk=300)
