"""C11 — closing a writer finalises the file exactly once, however close is reached."""
import io
import itertools
import os
import tempfile

from harness import common
from harness.props.vbsutil import read_all, render_end, KeepOpen
from harness.props import c03

PROP = 'C11'
RULE = ("all histories write^{0..3} fin^{1..4} (thorough: fin^{1..6}) with fin in {close(), context-manager exit}, for "
        "VbsWriter and IpmWriter, blocked and unblocked, on io.BytesIO and on real files (thorough: real files for every "
        "history); record lengths include block-boundary sizes; a second writer created on another file between two finalisation events. Non-trivial = at least one record and at least two "
        "finalisations; distinct = distinct (class, format, file kind, record lengths, finalisation string)")
TRUSTED = c03.TRUSTED + ["IpmWriter records: the bytes produced by iso8583.dumps in the implementation are handed to the "
                         "model as the record (the encoder itself is the subject of C01/C02)"]
ASSUMPTIONS = c03.ASSUMPTIONS + ["real files are created under the system temp directory and removed"]

MSGS = [{'MTI': '1144', 'DE2': '4444555566667777'}, {'MTI': '1240', 'DE3': '000000', 'DE48': 'X' * 900},
        {'MTI': '1644', 'DE24': '697', 'DE71': 7}, {'MTI': '1644', 'DE24': '695', 'DE71': 9}]


def impl_eval(case):
    from cardutil import mciipm, iso8583
    blocked = bool(case['b'])
    ipm = case['cls'] == 'ipm'
    if ipm:
        objs = [dict(MSGS[i % len(MSGS)]) for i in case['recs']]
        recs = [iso8583.dumps(dict(o)) for o in objs]
    elif 'hexrecs' in case:
        recs = [bytes.fromhex(h) for h in case['hexrecs']]
        objs = recs
    else:
        recs = common.pc_records(case['recs'])
        objs = recs
    path = None
    if case['file'] == 'real':
        fd, path = tempfile.mkstemp(prefix='verif_c11_')
        os.close(fd)
        f = open(path, 'wb')
    else:
        f = KeepOpen()
    try:
        cls = mciipm.IpmWriter if ipm else mciipm.VbsWriter
        w = cls(f, blocked=blocked)
        for o in objs:
            w.write(o)
        second = {}

        def finalise():
            for i, c in enumerate(case['fins']):
                if case.get('other_at') == i:
                    # ANOTHER writer comes to life on another file between two finalisation events of this one (and is
                    # written and closed at the end): what this writer has finalised stays finalised, and the other
                    # writer's file is its own
                    second['f'] = KeepOpen()
                    second['w'] = cls(second['f'], blocked=blocked)
                    second['recs'] = [objs[0]] if objs else []
                    for o in second['recs']:
                        second['w'].write(o)
                if c == 'c':
                    w.close()
                elif case.get('withstmt'):
                    with w:          # a real `with` statement: __enter__ then __exit__ (also on an already finalised writer)
                        pass
                else:
                    w.__exit__(None, None, None)
        if case.get('inexcept'):
            # the writer finalised from inside an `except` block (a fallback path): an unrelated, already handled
            # exception is "current" while close() runs
            try:
                raise KeyError('unrelated')
            except KeyError:
                finalise()
        else:
            finalise()
        if second:
            second['w'].close()
        if path:
            f.flush()
            f.close()
            data = open(path, 'rb').read()
        else:
            data = f.getvalue()
    finally:
        if path:
            try:
                os.unlink(path)
            except OSError:
                pass
    back, exc = read_all(mciipm.VbsReader(io.BytesIO(data), blocked=blocked))
    why = None
    if back != recs or exc is not None:
        why = (f'after {len(recs)} writes and finalisations {case["fins"]!r} the file reads back as {len(back)} '
               f'records ({render_end(exc)})')
    if why is None and second:
        back2, exc2 = read_all(mciipm.VbsReader(io.BytesIO(second['f'].getvalue()), blocked=blocked))
        if back2 != recs[:len(second['recs'])] or exc2 is not None:
            why = (f"a second writer created while the first was being finalised ({case['fins']!r}, at event "
                   f"{case['other_at']}) left a file that reads back as {len(back2)} records ({render_end(exc2)})")
    if why is None and blocked and (len(data) == 0 or len(data) % 1014
                                    or any(data[i + 1012:i + 1014] != b'@@' for i in range(0, len(data), 1014))):
        why = (f'the finalised blocked file ({len(data)} bytes after {len(recs)} writes) is not a whole number of 1014-byte '
               f'blocks with their trailers')
    canon = data
    if blocked and len(data) >= 1014 and data[-1014:] == b'\x40' * 1014:
        canon = data[:-1014]
    return {'obs': f'ok {common.sig(canon)}', 'violation': why,
            'nontrivial': len(recs) > 0 and len(case['fins']) > 1,
            'tags': [f"cls:{case['cls']}", f"fmt:{'1014' if blocked else 'vbs'}", f"file:{case['file']}",
                     f"fins:{len(case['fins'])}"],
            }


def model_line(case):
    from cardutil import iso8583
    b = '1' if case['b'] else '0'
    if case['cls'] == 'ipm':
        recs = [iso8583.dumps(dict(MSGS[i % len(MSGS)])) for i in case['recs']]
    elif 'hexrecs' in case:
        recs = [bytes.fromhex(h) for h in case['hexrecs']]
    else:
        recs = common.pc_records(case['recs'])
    return f"vbs.writehex\t{b}\t" + ','.join(r.hex() for r in recs) + f"\t{case['fins']}"


def model_obs(case, resp):
    parts = resp.split(' ')
    if parts[0] != 'ok':
        return resp
    data = bytes.fromhex(parts[1])
    if case['b'] and len(data) >= 1014 and data[-1014:] == b'\x40' * 1014:
        data = data[:-1014]
    return f'ok {common.sig(data)}'


def explore(run, tier):
    cases = []
    maxfin = 4 if tier == 'quick' else 6
    rec_sets = [[], [5], [1004], [1008, 3], [20, 20, 20], [2016]]
    ipm_sets = [[], [0], [1, 0], [0, 1, 2], [2, 0, 3, 2, 1, 3]]      # the last: header .. trailer twice (a trailer mid-file)
    for nf in range(1, maxfin + 1):
        for fins in itertools.product('ce', repeat=nf):
            fins = ''.join(fins)
            for b in (0, 1):
                for i, recs in enumerate(rec_sets):
                    kinds = ['mem', 'real'] if (tier == 'thorough' or (i + nf + b) % 4 == 0) else ['mem']
                    for kind in kinds:
                        cases.append({'cls': 'vbs', 'b': b, 'recs': recs, 'fins': fins, 'file': kind})
                        if nf <= 2 and kind == 'mem':
                            cases.append({'cls': 'vbs', 'b': b, 'recs': recs, 'fins': fins, 'file': kind, 'inexcept': True})
                        if 'e' in fins and kind == 'mem':
                            cases.append({'cls': 'vbs', 'b': b, 'recs': recs, 'fins': fins, 'file': kind, 'withstmt': True})
                for i, recs in enumerate(ipm_sets):
                    kinds = ['mem', 'real'] if (tier == 'thorough' or (i + nf + b) % 4 == 1) else ['mem']
                    for kind in kinds:
                        cases.append({'cls': 'ipm', 'b': b, 'recs': recs, 'fins': fins, 'file': kind})
                        if 'e' in fins and kind == 'mem' and i % 2 == 0:
                            cases.append({'cls': 'ipm', 'b': b, 'recs': recs, 'fins': fins, 'file': kind, 'withstmt': True})
    # records whose CONTENT looks like framing: four zero bytes (the terminator's bytes), a length prefix, runs of the filler
    # byte — first, in the middle and last, before every finalisation history of length 1..2
    for hexrecs in (['00000000', 'c1c2c3'], ['c1', '00000000', 'c2c3'], ['c1c2', '00000000'], ['00000000', '00000000', 'f1'],
                    ['0000000000', '00'], ['00000005', 'c1c2c3c4c5'], ['40404040', 'c1'], ['40' * 1012, '00000000', 'c1']):
        for fins in ('c', 'e', 'cc', 'ce', 'ec'):
            for b in (0, 1):
                cases.append({'cls': 'vbs', 'b': b, 'recs': [len(h) // 2 for h in hexrecs], 'hexrecs': hexrecs, 'fins': fins,
                              'file': 'mem'})
    # two writers alive at the same time: a second one is created between two finalisation events of the first
    for fins in ('ce', 'cc', 'ec', 'ee', 'cec', 'ecc'):
        for at in range(1, len(fins)):
            for b in (0, 1):
                for cls_, sets in (('vbs', [[5], [1008, 3]]), ('ipm', [[0], [1, 0]])):
                    for recs in sets:
                        cases.append({'cls': cls_, 'b': b, 'recs': recs, 'fins': fins, 'file': 'mem', 'other_at': at})
    run.exhaustive.append(f'all finalisation strings over {{close, exit}} of length 1..{maxfin} x record sets x classes x formats')
    run.correspond(__name__, cases, use_model=run.use_model, chunk=50)
