"""
./check Cxx --tier quick|thorough [--replay file]

Exit 0: property held on everything explored.  Exit 1: a line
`VIOLATION property=<id> replay=<path>` was printed.  Exit 2: infrastructure trouble.
"""
import argparse
import importlib
import json
import os
import sys
import time
import traceback

sys.path.insert(0, os.path.dirname(os.path.dirname(os.path.abspath(__file__))))
from harness import common  # noqa: E402

BASE_TRUSTED = [
    "Lean 4.33.0 kernel (thorough tier: re-checked with leanchecker)",
    "axioms reported by #print axioms for every property theorem, required to be a subset of {propext, Classical.choice, Quot.sound}; no native_decide / bv_decide / sorry / own axioms (grep on every run)",
    "harness/gen_tables.py (data translator) and the behavioural correspondence harness + canonicaliser",
    "harness/pytrans.py + lean/Cardutil/Py/Rt.lean (source translator and its rendering of Python built-ins), where a source tie exists (the `source_tie` entry of this evidence lists the modules, functions and theorems)",
    "CPython 3.12 as execution platform of the implementation",
]


def main(argv=None):
    ap = argparse.ArgumentParser()
    ap.add_argument('prop')
    ap.add_argument('--tier', default=os.environ.get('VERIF_TIER') or 'quick', choices=['quick', 'thorough'])
    ap.add_argument('--replay')
    ap.add_argument('--no-build', action='store_true', help=argparse.SUPPRESS)
    args = ap.parse_args(argv)
    prop = args.prop.upper()
    seed = int(os.environ.get('VERIF_SEED') or 0)
    try:
        mod = importlib.import_module(f'harness.props.{prop.lower()}')
    except ImportError:
        print(f'no check for {prop}', file=sys.stderr)
        traceback.print_exc()
        return 2
    if args.replay:
        return replay(mod, prop, args.replay)
    # a check never waits for ever: past the hard limit (far above any measured run: quick <= 5 min, thorough <= 10 min,
    # escalated searches are time-boxed) the process reports infrastructure trouble and exits 2
    import threading
    limit = float(os.environ.get('VERIF_HARD_LIMIT_S') or (2400 if args.tier == 'quick' else 10800))

    def _give_up():
        print(f'INFRASTRUCTURE-ERROR property={prop} (no result within {int(limit)} s)', file=sys.stderr, flush=True)
        os._exit(2)
    timer = threading.Timer(limit, _give_up)
    timer.daemon = True
    timer.start()
    try:
        return check(mod, prop, args.tier, seed, args.no_build)
    except Exception:
        traceback.print_exc()
        print(f'INFRASTRUCTURE-ERROR property={prop}', file=sys.stderr)
        return 2


def replay(mod, prop, path):
    doc = json.load(open(path))
    default_mod = mod
    for item in doc.get('cases', []):
        case = item['case']
        # a case evaluated by another property's scenario module (a family shared between checks) names that module
        mod = importlib.import_module(item['module']) if item.get('module') else default_mod
        r = mod.impl_eval(case)
        line = mod.model_line(case)
        m = None
        if line is not None and os.path.exists(common.DRIVER):
            m = common.drive([line] if isinstance(line, str) else line)
        print(json.dumps({'case': case, 'implementation': r.get('obs'), 'oracle': r.get('violation') or 'ok',
                          'model': m}, default=str))
    for t in doc.get('tie_failures', []):
        print(json.dumps({'tie_failure': t}))
    return 0


def check(mod, prop, tier, seed, no_build=False):
    t0 = time.time()
    if no_build:
        tie = common.Tie()
        tie.theorems = common.theorem_names(prop)
        tie.driver_ok = True
    else:
        tie = common.run_tie(prop, thorough=(tier == 'thorough'))
    run = common.Run(prop, tier, seed)
    run.use_model = tie.driver_ok
    mod.explore(run, tier)
    searched = False
    src_broken = sorted(m for m, e in tie.source.items() if e.get('status') != 'proved')
    if src_broken and not (tie.failures or run.mismatches or run.violations) and tier == 'quick':
        # the source changed in a way the translator / the equality proofs do not follow: the source tie is not
        # established, the correspondence still is — look harder (thorough generators) before saying "held"
        searched = True
        run.search_deadline = time.time() + 150
        run.notes.append(f'source tie not established for SrcTie modules {src_broken}: thorough generators were run')
        mod.explore(run, 'thorough')
    if (tie.failures or run.mismatches) and not run.violations:
        # the tie is broken: search model and implementation for a concrete failing input
        searched = True
        budget = 60 if tier == 'quick' else 600
        run.search_deadline = time.time() + budget
        if hasattr(mod, 'search'):
            mod.search(run, tier)
        elif tier == 'quick':
            mod.explore(run, 'thorough')

    known = common.load_known(prop)
    known_ids = {k['id']: k for k in known}
    new_violations = [v for v in run.violations if v.get('finding') not in known_ids]
    seen_known = {}
    for v in run.violations:
        if v.get('finding') in known_ids:
            seen_known.setdefault(v['finding'], v)

    status = 0
    replay_path = None
    if new_violations:
        status = 1
        seen, cases = set(), []
        for v in sorted(new_violations, key=lambda v: len(json.dumps(v['case'], default=str))):
            key = json.dumps(v['case'], sort_keys=True, default=str)
            if key not in seen:                 # the smallest distinct failing inputs
                seen.add(key)
                cases.append(v)
            if len(cases) == 5:
                break
        replay_path = common.write_replay(prop, {
            'property': prop, 'kind': 'failing-input', 'seed': seed, 'tier': tier,
            'cases': cases, 'tie_failures': tie.failures,
            'mismatches': run.mismatches[:3]})
        print(f'VIOLATION property={prop} replay={replay_path}')
    elif tie.failures or run.mismatches:
        status = 1
        replay_path = common.write_replay(prop, {
            'property': prop, 'kind': 'tie-broken', 'seed': seed, 'tier': tier,
            'what_no_longer_checks': ([f"{t['stage']}: {t['what']}" for t in tie.failures] +
                                      ([f'correspondence: {len(run.mismatches)} behavioural differences between '
                                        f'model and implementation'] if run.mismatches else [])),
            'tie_failures': tie.failures,
            'cases': [{'case': m['case'], 'implementation': m['implementation'], 'model': m['model'], 'module': m.get('module')}
                      for m in sorted(run.mismatches, key=lambda m: len(json.dumps(m['case'], default=str)))[:5]],
            'searched': searched})
        print(f'VIOLATION property={prop} replay={replay_path} no-failing-input-found')
    for fid, k in known_ids.items():
        print(f"KNOWN-FINDING: property={prop} {k.get('what', fid)}"
              + ('' if fid in seen_known else ' (witness not reproduced in this run)'))

    obligations = len(tie.theorems) + len(getattr(mod, 'GEN_OBLIGATIONS', []))
    failed_obl = len({t['what'] for t in tie.failures if t['stage'] in ('audit',)})
    discharged = 0 if any(t['stage'] in ('build', 'translate') for t in tie.failures) else max(0, obligations - failed_obl)
    coverage = {
        'obligations': obligations,
        'discharged': discharged,
        'checker_cmd': f'cd lean && lake build Cardutil.Props.{prop} driver && lake env lean .lake/audit/{prop}.lean'
                       + (f' && lake env leanchecker Cardutil.Props.{prop}' if tier == 'thorough' else ''),
        'trusted_base': BASE_TRUSTED + list(getattr(mod, 'TRUSTED', [])),
        'theorems': tie.theorems,
        'axioms': tie.axioms,
        'evaluations': run.evaluations,
        'distinct_nontrivial': run.distinct_nontrivial,
        'rule': getattr(mod, 'RULE', ''),
        'samples': run.samples[:6] or [{'note': 'no cases'}],
        'traces_validated_against_impl': run.evaluations if run.use_model else 0,
        'correspondence_mismatches': len(run.mismatches),
        'oracle_violations': len(run.violations),
        'known_findings_seen': sorted(seen_known),
        'distribution': run.stats,
        'exhaustive_subspaces': run.exhaustive,
        'exhaustive': False,
        'notes': run.notes,
        'tie_failures': tie.failures,
        'source_tie': tie.source or 'none for this property (behavioural correspondence only)',
        'failing_input_search_ran': searched,
        'build_audit_s': round(tie.build_s, 2),
    }
    doc = {
        'property_id': prop, 'tier': tier, 'seed': seed, 'level': 'proof',
        'coverage': coverage,
        'assumptions': list(getattr(mod, 'ASSUMPTIONS', [])),
        'wall_s': round(time.time() - t0, 2),
        'violations': len(new_violations) if new_violations else (1 if status else 0),
    }
    common.write_evidence(prop, doc)
    print(f'{prop} {tier}: theorems={len(tie.theorems)} evaluations={run.evaluations} '
          f'distinct_nontrivial={run.distinct_nontrivial} mismatches={len(run.mismatches)} '
          f'violations={len(run.violations)} wall={doc["wall_s"]}s status={status}')
    return status


if __name__ == '__main__':
    sys.exit(main())
