"""harness/pytrans.py — a small translator from Python source to Lean 4 (the "source tie").

It reads the CURRENT text of selected pure functions of /repo (card.py, and a few helpers of iso8583.py,
pinblock.py, mciipm.py), and writes them as Lean definitions over the run-time library `Cardutil.Py.Rt`
(lean/Cardutil/Py/Rt.lean: Python's slicing, indexing, `str * int`, divmod, zip/cycle, sum, int(), str()).
`lean/Cardutil/SrcTie.lean` then proves, for ALL inputs, that each translated definition equals the hand-written
model the property theorems are about.  The subset is deliberately small: straight-line bodies (assignments,
if / return / raise), expressions over str / bytes / int / bool / list with comprehensions.  Anything else raises
`Untranslatable` for that function: the source tie is then simply not available for it and the behavioural
correspondence alone ties the model to the code (no alarm is raised for that by itself).

What is trusted here: this translator (about 400 lines) and Rt.lean's rendering of the built-ins.
"""
import ast
import os

REPO = os.environ.get('VERIF_REPO', '/repo')


class Untranslatable(Exception):
    pass


# ---------------------------------------------------------------------------------------------
# which functions, and the parameter types the source does not annotate

TARGETS = [
    # (module path, function, {param: type}, return type or None to infer)
    ('cardutil/card.py', 'calculate_check_digit', {'card_number': 'str'}, 'str'),
    ('cardutil/card.py', 'validate_check_digit', {'card_number': 'str'}, 'none'),
    ('cardutil/card.py', 'add_check_digit', {'card_number': 'str'}, 'str'),
    ('cardutil/card.py', 'mask', {'card_number': 'str', 'mask_char': 'str'}, 'str'),
    ('cardutil/iso8583.py', '_pan_prefix', {'field_data': 'str'}, 'str'),
    ('cardutil/pinblock.py', '_get_tsp', {'card_number': 'str', 'key_table_index': 'int', 'pin': 'str'}, 'str'),
    ('cardutil/mciipm.py', 'block_1014_check', {'sample_data': 'bytes'}, 'bool'),
    ('cardutil/mciipm.py', 'encoding_check', {'mti': 'bytes'}, 'str'),
]

EXC = {'AssertionError': 'assertionError', 'ValueError': 'valueError', 'IndexError': 'indexError',
       'TypeError': 'typeError', 'KeyError': 'keyError'}
NUMERIC_TABLES = {'latin1': 'Gen.latin1Numeric', 'latin_1': 'Gen.latin1Numeric', 'cp037': 'Gen.cp037Numeric'}


def lean_type(t):
    if t == 'str':
        return 'Text'
    if t == 'bytes':
        return 'Bytes'
    if t in ('char', 'byte'):
        return 'Nat'
    if t == 'int':
        return 'Int'
    if t == 'bool':
        return 'Bool'
    if t == 'none':
        return 'Unit'
    if isinstance(t, tuple) and t[0] == 'list':
        return f'(List {lean_type(t[1])})'
    if isinstance(t, tuple) and t[0] == 'tuple':
        return '(' + ' × '.join(lean_type(x) for x in t[1:]) + ')'
    raise Untranslatable(f'type {t!r}')


def is_seq(t):
    return t in ('str', 'bytes') or (isinstance(t, tuple) and t[0] == 'list')


def elem_type(t):
    if t == 'str':
        return 'char'
    if t == 'bytes':
        return 'byte'
    if isinstance(t, tuple) and t[0] == 'list':
        return t[1]
    raise Untranslatable(f'not a sequence: {t!r}')


def lean_lit_seq(values):
    return '[' + ', '.join(str(v) for v in values) + ']'


class Fn:
    def __init__(self, name, params, ret, partial, defaults):
        self.name, self.params, self.ret, self.partial, self.defaults = name, params, ret, partial, defaults


class NeedMonad(Exception):
    pass


class Translator:
    def __init__(self, module_ast, known):
        self.mod = module_ast
        self.known = known          # name -> Fn (already translated functions callable from here)
        self.monadic = False
        self.fresh = 0
        self.pending = []           # hoisted partial sub-expressions: (var, code)

    # ---- helpers -------------------------------------------------------------------------
    def tmp(self):
        self.fresh += 1
        return f't{self.fresh}'

    def hoist(self, code, typ):
        """a partial expression: bind it to a fresh variable (monadic mode only)"""
        if not self.monadic:
            raise NeedMonad()
        v = self.tmp()
        self.pending.append((v, code))
        return v, typ

    def class_const(self, cls, attr):
        for node in self.mod.body:
            if isinstance(node, ast.ClassDef) and node.name == cls:
                for st in node.body:
                    if isinstance(st, ast.Assign) and len(st.targets) == 1 and isinstance(st.targets[0], ast.Name) \
                            and st.targets[0].id == attr and isinstance(st.value, ast.Constant):
                        return st.value.value
        raise Untranslatable(f'{cls}.{attr} is not a literal class attribute')

    def coerce(self, code, typ, want):
        if typ == want:
            return code
        if typ == 'char' and want == 'str':
            return f'[{code}]'
        if typ == 'byte' and want == 'bytes':
            return f'[{code}]'
        raise Untranslatable(f'cannot use {typ} as {want}')

    def const_int(self, node):
        if isinstance(node, ast.Constant) and isinstance(node.value, int) and not isinstance(node.value, bool):
            return node.value
        if isinstance(node, ast.UnaryOp) and isinstance(node.op, ast.USub) and isinstance(node.operand, ast.Constant) \
                and isinstance(node.operand.value, int):
            return -node.operand.value
        return None

    def int_lit(self, n):
        return f'({n} : Int)' if n >= 0 else f'(-{-n} : Int)'

    # ---- expressions ---------------------------------------------------------------------
    def expr(self, node, env):
        """returns (lean code, type); partial sub-expressions are hoisted into self.pending"""
        if isinstance(node, ast.Constant):
            v = node.value
            if isinstance(v, bool):
                return ('true' if v else 'false'), 'bool'
            if isinstance(v, int):
                return self.int_lit(v), 'int'
            if isinstance(v, str):
                return lean_lit_seq(ord(c) for c in v), 'str'
            if isinstance(v, bytes):
                return lean_lit_seq(v), 'bytes'
            if v is None:
                return '()', 'none'
            raise Untranslatable(f'constant {v!r}')
        if isinstance(node, ast.Name):
            if node.id in env:
                return env[node.id]
            raise Untranslatable(f'free name {node.id}')
        if isinstance(node, ast.Attribute) and isinstance(node.value, ast.Name):
            v = self.class_const(node.value.id, node.attr)
            return self.expr(ast.Constant(v), env)
        if isinstance(node, ast.BinOp):
            return self.binop(node, env)
        if isinstance(node, ast.UnaryOp) and isinstance(node.op, ast.USub):
            c, t = self.expr(node.operand, env)
            if t != 'int':
                raise Untranslatable('unary minus on non-int')
            return f'(-{c})', 'int'
        if isinstance(node, ast.UnaryOp) and isinstance(node.op, ast.Not):
            return f'(!{self.cond(node.operand, env)})', 'bool'
        if isinstance(node, (ast.Compare, ast.BoolOp)):
            return self.cond(node, env), 'bool'
        if isinstance(node, ast.Subscript):
            return self.subscript(node, env)
        if isinstance(node, ast.Call):
            return self.call(node, env)
        if isinstance(node, ast.ListComp):
            return self.listcomp(node, env)
        if isinstance(node, ast.List):
            items = [self.expr(e, env) for e in node.elts]
            if not items:
                raise Untranslatable('empty list literal')
            t = items[0][1]
            if any(x[1] != t for x in items):
                raise Untranslatable('heterogeneous list literal')
            return '[' + ', '.join(x[0] for x in items) + ']', ('list', t)
        if isinstance(node, ast.JoinedStr):
            parts = []
            for v in node.values:
                if isinstance(v, ast.Constant):
                    parts.append(lean_lit_seq(ord(c) for c in v.value))
                elif isinstance(v, ast.FormattedValue) and v.conversion == -1 and v.format_spec is None:
                    c, t = self.expr(v.value, env)
                    if t == 'int':
                        parts.append(f'(Rt.strOfInt {c})')
                    else:
                        parts.append(self.coerce(c, t, 'str'))
                else:
                    raise Untranslatable('format specification in an f-string')
            return '(' + ' ++ '.join(parts) + ')' if parts else '[]', 'str'
        raise Untranslatable(f'expression {type(node).__name__}')

    def binop(self, node, env):
        lc, lt = self.expr(node.left, env)
        rc, rt = self.expr(node.right, env)
        op = node.op
        if isinstance(op, ast.Add):
            if lt == 'int' and rt == 'int':
                return f'({lc} + {rc})', 'int'
            for want in ('str', 'bytes'):
                if {lt, rt} <= {want, 'char' if want == 'str' else 'byte'} and want in (lt, rt):
                    return f'({self.coerce(lc, lt, want)} ++ {self.coerce(rc, rt, want)})', want
            if is_seq(lt) and lt == rt:
                return f'({lc} ++ {rc})', lt
        if isinstance(op, ast.Sub) and lt == 'int' and rt == 'int':
            return f'({lc} - {rc})', 'int'
        if isinstance(op, ast.Mult):
            if lt == 'int' and rt == 'int':
                return f'({lc} * {rc})', 'int'
            if lt in ('str', 'bytes', 'char', 'byte') and rt == 'int':
                want = 'str' if lt in ('str', 'char') else 'bytes'
                return f'(Rt.mulSeq {self.coerce(lc, lt, want)} {rc})', want
            if rt in ('str', 'bytes', 'char', 'byte') and lt == 'int':
                want = 'str' if rt in ('str', 'char') else 'bytes'
                return f'(Rt.mulSeq {self.coerce(rc, rt, want)} {lc})', want
        if isinstance(op, ast.Mod) and lt == 'int' and rt == 'int':
            n = self.const_int(node.right)
            if n is None or n <= 0:
                raise Untranslatable('% with a divisor that is not a positive literal')
            return f'({lc} % {rc})', 'int'
        raise Untranslatable(f'operator {type(op).__name__} on {lt}, {rt}')

    def cond(self, node, env):
        """a Python condition as a Lean Bool"""
        if isinstance(node, ast.BoolOp):
            parts = [self.cond(v, env) for v in node.values]
            return '(' + (' && ' if isinstance(node.op, ast.And) else ' || ').join(parts) + ')'
        if isinstance(node, ast.UnaryOp) and isinstance(node.op, ast.Not):
            return f'(!{self.cond(node.operand, env)})'
        if isinstance(node, ast.Compare):
            if len(node.ops) != 1:
                raise Untranslatable('chained comparison')
            lc, lt = self.expr(node.left, env)
            rc, rt = self.expr(node.comparators[0], env)
            if lt != rt:
                for want in ('str', 'bytes'):
                    if {lt, rt} == {want, 'char' if want == 'str' else 'byte'}:
                        lc, rc, lt, rt = self.coerce(lc, lt, want), self.coerce(rc, rt, want), want, want
            if lt != rt:
                raise Untranslatable(f'comparison of {lt} with {rt}')
            op = node.ops[0]
            if isinstance(op, ast.Eq):
                return f'({lc} == {rc})'
            if isinstance(op, ast.NotEq):
                return f'({lc} != {rc})'
            if lt == 'int':
                sym = {ast.Lt: '<', ast.LtE: '≤', ast.Gt: '>', ast.GtE: '≥'}.get(type(op))
                if sym:
                    return f'(decide ({lc} {sym} {rc}))'
            raise Untranslatable(f'comparison {type(op).__name__} on {lt}')
        c, t = self.expr(node, env)
        if t == 'bool':
            return c
        if is_seq(t):
            return f'(!({c}).isEmpty)'
        raise Untranslatable(f'truthiness of {t}')

    def subscript(self, node, env):
        vc, vt = self.expr(node.value, env)
        if not is_seq(vt):
            raise Untranslatable(f'subscript of {vt}')
        sl = node.slice
        if isinstance(sl, ast.Slice):
            if sl.step is not None:
                if self.const_int(sl.step) == -1 and sl.lower is None and sl.upper is None:
                    return f'(List.reverse {vc})', vt
                raise Untranslatable('slice step')

            def bound(b):
                if b is None:
                    return 'none'
                c, t = self.expr(b, env)
                if t != 'int':
                    raise Untranslatable('slice bound is not an int')
                return f'(some {c})'
            return f'(Rt.slice {vc} {bound(sl.lower)} {bound(sl.upper)})', vt
        ic, it = self.expr(sl, env)
        if it != 'int':
            raise Untranslatable('index is not an int')
        v, t = self.hoist(f'(Rt.getItem {vc} {ic})', elem_type(vt))
        return v, t

    def call(self, node, env):
        f = node.func
        if node.keywords:
            raise Untranslatable('keyword arguments')
        if isinstance(f, ast.Name):
            name = f.id
            args = node.args
            if name == 'len' and len(args) == 1:
                c, t = self.expr(args[0], env)
                if not is_seq(t):
                    raise Untranslatable('len of a non-sequence')
                return f'(Rt.len {c})', 'int'
            if name == 'str' and len(args) == 1:
                c, t = self.expr(args[0], env)
                if t == 'int':
                    return f'(Rt.strOfInt {c})', 'str'
                if t in ('str', 'char'):
                    return self.coerce(c, t, 'str'), 'str'
                raise Untranslatable(f'str() of {t}')
            if name == 'int' and len(args) == 1:
                c, t = self.expr(args[0], env)
                if t == 'char':
                    return self.hoist(f'(Rt.intOfChar Gen.intClasses {c})', 'int')
                if t == 'str':
                    return self.hoist(f'(Rt.intOfStr Gen.intClasses {c})', 'int')
                if t == 'int':
                    return c, 'int'
                raise Untranslatable(f'int() of {t}')
            if name == 'divmod' and len(args) == 2:
                a, ta = self.expr(args[0], env)
                b, tb = self.expr(args[1], env)
                n = self.const_int(args[1])
                if ta != 'int' or tb != 'int' or n is None or n <= 0:
                    raise Untranslatable('divmod needs ints and a positive literal divisor')
                return f'(Rt.divmod {a} {b})', ('tuple', 'int', 'int')
            if name == 'sum' and len(args) == 1:
                c, t = self.expr(args[0], env)
                if t == ('tuple', 'int', 'int'):
                    return f'(Rt.sum2 {c})', 'int'
                if t == ('list', 'int'):
                    return f'(Rt.sumList {c})', 'int'
                raise Untranslatable(f'sum() of {t}')
            if name == 'zip' and len(args) == 2 and isinstance(args[1], ast.Call) and isinstance(args[1].func, ast.Name) \
                    and args[1].func.id == 'cycle' and len(args[1].args) == 1:
                a, ta = self.expr(args[0], env)
                b, tb = self.expr(args[1].args[0], env)
                if not (isinstance(ta, tuple) and ta[0] == 'list' and isinstance(tb, tuple) and tb[0] == 'list'):
                    raise Untranslatable('zip/cycle of non-lists')
                if not (isinstance(args[1].args[0], ast.List) and args[1].args[0].elts):
                    raise Untranslatable('cycle() of something that is not a non-empty list literal')
                return f'(Rt.zipCycle {a} {b})', ('list', ('tuple', ta[1], tb[1]))
            if name in self.known:
                fn = self.known[name]
                if len(args) > len(fn.params):
                    raise Untranslatable('too many arguments')
                codes = []
                for i, (pn, pt) in enumerate(fn.params):
                    if i < len(args):
                        c, t = self.expr(args[i], env)
                        codes.append(self.coerce(c, t, pt))
                    elif pn in fn.defaults:
                        codes.append(self.expr(ast.Constant(fn.defaults[pn]), env)[0])
                    else:
                        raise Untranslatable('missing argument')
                code = f'({fn.name} ' + ' '.join(codes) + ')'
                if fn.partial:
                    return self.hoist(code, fn.ret)
                return code, fn.ret
            raise Untranslatable(f'call of {name}')
        if isinstance(f, ast.Attribute):
            # the fused pattern  <bytes>.decode('<codec>').isnumeric()
            if f.attr == 'isnumeric' and not node.args and isinstance(f.value, ast.Call) \
                    and isinstance(f.value.func, ast.Attribute) and f.value.func.attr == 'decode' \
                    and len(f.value.args) == 1 and isinstance(f.value.args[0], ast.Constant) \
                    and f.value.args[0].value in NUMERIC_TABLES:
                c, t = self.expr(f.value.func.value, env)
                if t != 'bytes':
                    raise Untranslatable('decode of a non-bytes value')
                return f'(Rt.allIn {NUMERIC_TABLES[f.value.args[0].value]} {c})', 'bool'
            c, t = self.expr(f.value, env)
            if f.attr == 'isdigit' and not node.args and t == 'char':
                return f'(Gen.strDigits.contains {c})', 'bool'
            raise Untranslatable(f'method {f.attr} on {t}')
        raise Untranslatable('call')

    def listcomp(self, node, env):
        if len(node.generators) != 1 or node.generators[0].is_async:
            raise Untranslatable('comprehension with several generators')
        g = node.generators[0]
        sc, st = self.expr(g.iter, env)
        et = elem_type(st)
        inner = dict(env)
        if isinstance(g.target, ast.Name):
            var = g.target.id
            inner[var] = (var, et)
            binder, opener = f'fun ({var} : {lean_type(et)}) => ', ''
        elif isinstance(g.target, ast.Tuple) and all(isinstance(e, ast.Name) for e in g.target.elts) \
                and isinstance(et, tuple) and et[0] == 'tuple' and len(et) - 1 == len(g.target.elts) == 2:
            a, b = g.target.elts[0].id, g.target.elts[1].id
            inner[a], inner[b] = (a, et[1]), (b, et[2])
            binder = f'fun (p : {lean_type(et)}) => '
            opener = f'let {a} := p.1; let {b} := p.2; '
        else:
            raise Untranslatable('comprehension target')
        for cnd in g.ifs:
            saved, self.pending = self.pending, []
            cc = self.cond(cnd, inner)
            if self.pending:
                raise Untranslatable('partial operation in a comprehension condition')
            self.pending = saved
            sc = f'(List.filter ({binder}{opener}{cc}) {sc})'
        saved, self.pending = self.pending, []
        ec, etype = self.expr(node.elt, inner)
        binds, self.pending = self.pending, saved
        if binds:
            if len(binds) == 1 and binds[0][0] == ec:
                body = binds[0][1]
            else:
                body = f'.ok {ec}'
                for v, code in reversed(binds):
                    body = f'Outcome.bind {code} (fun {v} => {body})'
            return self.hoist(f'(Outcome.mapO ({binder}{opener}{body}) {sc})', ('list', etype))
        return f'(List.map ({binder}{opener}{ec}) {sc})', ('list', etype)

    # ---- statements ----------------------------------------------------------------------
    def terminates(self, stmts):
        for s in stmts:
            if isinstance(s, (ast.Return, ast.Raise)):
                return True
            if isinstance(s, ast.If) and s.orelse and self.terminates(s.body) and self.terminates(s.orelse):
                return True
        return False

    def wrap(self, body_fn):
        """run body_fn() collecting hoisted partial expressions, and wrap its result in their binds"""
        saved, self.pending = self.pending, []
        code = body_fn()
        binds, self.pending = self.pending, saved
        for v, c in reversed(binds):
            code = f'Outcome.bind {c} (fun {v} =>\n    {code})'
        return code

    def stmts(self, stmts, env, ret):
        if not stmts:
            if ret != 'none':
                raise Untranslatable('function can end without returning a value')
            return '.ok ()' if self.monadic else '()'
        s, rest = stmts[0], stmts[1:]
        if isinstance(s, ast.Expr) and isinstance(s.value, ast.Constant) and isinstance(s.value.value, str):
            return self.stmts(rest, env, ret)           # docstring
        if isinstance(s, ast.Expr) and isinstance(s.value, ast.Call) and isinstance(s.value.func, ast.Attribute) \
                and isinstance(s.value.func.value, ast.Name) and s.value.func.value.id == 'LOGGER':
            return self.stmts(rest, env, ret)           # logging has no effect on the result
        if isinstance(s, ast.Assign) and len(s.targets) == 1 and isinstance(s.targets[0], ast.Name):
            name = s.targets[0].id

            def go():
                c, t = self.expr(s.value, env)
                env2 = dict(env)
                env2[name] = (name, t)
                return f'let {name} : {lean_type(t)} := {c};\n  ' + self.stmts(rest, env2, ret)
            return self.wrap(go)
        if isinstance(s, ast.Return):
            def go():
                if s.value is None:
                    c, t = '()', 'none'
                else:
                    c, t = self.expr(s.value, env)
                c = self.coerce(c, t, ret)
                return f'.ok {c}' if self.monadic else c
            return self.wrap(go)
        if isinstance(s, ast.Raise):
            if not self.monadic:
                raise NeedMonad()
            exc = s.exc.func.id if isinstance(s.exc, ast.Call) and isinstance(s.exc.func, ast.Name) else \
                s.exc.id if isinstance(s.exc, ast.Name) else None
            if exc not in EXC:
                raise Untranslatable(f'raise of {exc}')
            return f'.escape .{EXC[exc]}'
        if isinstance(s, ast.If):
            def go():
                c = self.cond(s.test, env)
                then = self.stmts(s.body if self.terminates(s.body) else s.body + rest, env, ret)
                other = self.stmts(s.orelse + rest if not self.terminates(s.orelse) else s.orelse, env, ret)
                return f'if {c} then\n    ({then})\n  else\n    ({other})'
            return self.wrap(go)
        raise Untranslatable(f'statement {type(s).__name__}')


def translate_function(mod_ast, fdef, ptypes, ret, known):
    params, defaults = [], {}
    args = fdef.args
    if args.vararg or args.kwarg or args.kwonlyargs or args.posonlyargs:
        raise Untranslatable('argument kinds')
    for a in args.args:
        if a.arg not in ptypes:
            raise Untranslatable(f'no type for parameter {a.arg}')
        params.append((a.arg, ptypes[a.arg]))
    for a, d in zip(args.args[len(args.args) - len(args.defaults):], args.defaults):
        if not isinstance(d, ast.Constant):
            raise Untranslatable('non-literal default')
        defaults[a.arg] = d.value
    env = {n: (n, t) for n, t in params}
    for monadic in (False, True):
        tr = Translator(mod_ast, known)
        tr.monadic = monadic
        try:
            body = tr.stmts(fdef.body, env, ret)
        except NeedMonad:
            continue
        sig = ' '.join(f'({n} : {lean_type(t)})' for n, t in params)
        rt = lean_type(ret)
        rtype = f'Outcome {rt}' if monadic else rt
        text = f'def {fdef.name} {sig} : {rtype} :=\n  {body}\n'
        return text, Fn(fdef.name, params, ret, monadic, defaults)
    raise Untranslatable('could not translate')


def translate_all(repo=REPO):
    """returns (lean text of Gen/Src.lean, {function: 'ok' | reason})"""
    out = ['-- GENERATED by harness/pytrans.py from the Python source of /repo on every run -- do not edit',
           'import Cardutil.Py.Rt', 'import Cardutil.Gen.PyTables', 'namespace Cardutil.Src',
           'open Cardutil Cardutil.Py', '']
    status = {}
    known_by_module = {}
    asts = {}
    for path, name, ptypes, ret in TARGETS:
        try:
            if path not in asts:
                asts[path] = ast.parse(open(os.path.join(repo, path)).read())
            mod = asts[path]
            fdefs = [n for n in mod.body if isinstance(n, ast.FunctionDef) and n.name == name]
            if len(fdefs) != 1:
                raise Untranslatable('function not found (or defined more than once) at module level')
            known = known_by_module.setdefault(path, {})
            text, fn = translate_function(mod, fdefs[0], ptypes, ret, known)
            known[name] = fn
            out.append(f'/-- `{path}: {name}` -/')
            out.append(text)
            status[name] = 'ok'
        except (Untranslatable, SyntaxError, OSError) as ex:
            status[name] = f'untranslatable: {ex}'
    out += ['end Cardutil.Src', '']
    return '\n'.join(out), status


if __name__ == '__main__':
    text, status = translate_all()
    print(text)
    for k, v in status.items():
        print('--', k, v)
