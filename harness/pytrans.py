"""harness/pytrans.py — a small translator from Python source to Lean 4 (the "source tie").

It reads the CURRENT text of selected pure functions of /repo (card.py, and a few helpers of iso8583.py,
pinblock.py, mciipm.py), and writes them as Lean definitions over the run-time library `Cardutil.Py.Rt`
(lean/Cardutil/Py/Rt.lean: Python's slicing, indexing, `str * int`, divmod, zip/cycle, sum, int(), str()).
`lean/Cardutil/SrcTie.lean` then proves, for ALL inputs, that each translated definition equals the hand-written
model the property theorems are about.  The subset is deliberately small: straight-line bodies (assignments,
if / return / raise), expressions over str / bytes / int / bool / list with comprehensions.  Anything else raises
`Untranslatable` for that function: the source tie is then simply not available for it and the behavioural
correspondence alone ties the model to the code (no alarm is raised for that by itself).

What is trusted here: this translator (about 400 lines) and Rt.lean's rendering of the built-ins.
"""
import ast
import re
import os

REPO = os.environ.get('CARDUTIL_REPO') or os.environ.get('VERIF_REPO') or '/repo'


class Untranslatable(Exception):
    pass


# ---------------------------------------------------------------------------------------------
# which functions, and the parameter types the source does not annotate

TARGETS = [
    # (module path, function, {param: type}, return type or None to infer)
    ('cardutil/card.py', 'calculate_check_digit', {'card_number': 'str'}, 'str'),
    ('cardutil/card.py', 'validate_check_digit', {'card_number': 'str'}, 'none'),
    ('cardutil/card.py', 'add_check_digit', {'card_number': 'str'}, 'str'),
    ('cardutil/card.py', 'mask', {'card_number': 'str', 'mask_char': 'str'}, 'str'),
    ('cardutil/iso8583.py', '_pan_prefix', {'field_data': 'str'}, 'str'),
    ('cardutil/pinblock.py', '_get_tsp', {'card_number': 'str', 'key_table_index': 'int', 'pin': 'str'}, 'str'),
    ('cardutil/mciipm.py', 'block_1014_check', {'sample_data': 'bytes'}, 'bool'),
    ('cardutil/mciipm.py', 'encoding_check', {'mti': 'bytes'}, 'str'),
    # loops: a `while` makes the translation take a fuel argument (see Rt.whileO)
    ('cardutil/iso8583.py', '_pds_to_dict', {'field_data': 'str', 'return_values': ('dict', 'str', 'str')},
     ('dict', 'str', 'str')),
    ('cardutil/iso8583.py', '_icc_to_dict', {'field_data': 'bytes', 'return_values': ('dict', 'str', 'str')},
     ('dict', 'str', 'str')),
    ('cardutil/iso8583.py', '_pds_to_de', {'dict_values': ('dict', 'str', 'str'), 'outputs': ('list', 'str')},
     ('list', 'str')),
    # methods: `self` becomes explicit state (the listed fields, then the bytes written to the wrapped file object);
    # the translated method returns the new state
    ('cardutil/mciipm.py', 'Block1014.write', {'bytes_to_write': 'bytes'}, None),
    ('cardutil/mciipm.py', 'Block1014.finalise', {}, None),
    ('cardutil/mciipm.py', 'Unblock1014.read', {'bytes_to_read': 'int'}, 'bytes'),
    # raises that carry information (StopIteration, the library error with record number and context) are results:
    # the translated method returns an Rt.Signal
    ('cardutil/mciipm.py', 'VbsReader.__next__', {}, 'bytes'),
    # a wrapped FILE (data + position): write(e) overwrites / extends at the position, seek(n) sets it
    ('cardutil/mciipm.py', 'VbsWriter.write', {'record': 'bytes'}, None),
    ('cardutil/mciipm.py', 'VbsWriter.close', {}, None),
    ('cardutil/mciipm.py', 'VbsWriter.__exit__', {'exc_type': 'none', 'exc_val': 'none', 'exc_tb': 'none'}, None),
    # the BLOCKED writer: Block1014 over a file (data + position) instead of an append-only sink, and VbsWriter whose
    # `out_file` is such a Block1014 object (`self.out_file.write(e)` / `.seek(0)` are the translated Block1014 methods on the
    # wrapped object's part of the state)
    ('cardutil/mciipm.py', 'Block1014.write', {'bytes_to_write': 'bytes'}, None,
     {'variant': 'F', 'spec': {'fields': [('remaining_chars', 'int')], 'file': 'file_obj'}, 'lean_name': 'Block1014F_write'}),
    ('cardutil/mciipm.py', 'Block1014.finalise', {}, None,
     {'variant': 'F', 'spec': {'fields': [('remaining_chars', 'int')], 'file': 'file_obj'}, 'lean_name': 'Block1014F_finalise'}),
    ('cardutil/mciipm.py', 'Block1014.seek', {'pos': 'int'}, None,
     {'variant': 'F', 'spec': {'fields': [('remaining_chars', 'int')], 'file': 'file_obj'}, 'lean_name': 'Block1014F_seek'}),
    ('cardutil/mciipm.py', 'VbsWriter.write', {'record': 'bytes'}, None,
     {'variant': 'B', 'lean_name': 'VbsWriterB_write',
      'spec': {'fields': [('_finalised', 'bool')],
               'wrapped': ('out_file', 'Block1014', 'F', [('w_remaining_chars', 'int'), ('w_fdata', 'bytes'), ('w_fpos', 'int')])}}),
    ('cardutil/mciipm.py', 'VbsWriter.close', {}, None,
     {'variant': 'B', 'lean_name': 'VbsWriterB_close',
      'spec': {'fields': [('_finalised', 'bool')],
               'wrapped': ('out_file', 'Block1014', 'F', [('w_remaining_chars', 'int'), ('w_fdata', 'bytes'), ('w_fpos', 'int')])}}),
    ('cardutil/mciipm.py', 'VbsWriter.__exit__', {'exc_type': 'none', 'exc_val': 'none', 'exc_tb': 'none'}, None,
     {'variant': 'B', 'lean_name': 'VbsWriterB_exit',
      'spec': {'fields': [('_finalised', 'bool')],
               'wrapped': ('out_file', 'Block1014', 'F', [('w_remaining_chars', 'int'), ('w_fdata', 'bytes'), ('w_fpos', 'int')])}}),
    # the BLOCKED reader: VbsReader whose `vbs_data` is an Unblock1014 object (`self.vbs_data.read(n)` is the translated
    # Unblock1014.read on the wrapped object's part of the state)
    ('cardutil/mciipm.py', 'VbsReader.__next__', {}, 'bytes',
     {'variant': 'B', 'lean_name': 'VbsReaderB_next',
      'spec': {'fields': [('record_number', 'int'), ('last_record', 'bytes')], 'signals': True,
               'wrapped': ('vbs_data', 'Unblock1014', '', [('w_buffer', 'bytes'), ('w_in', 'bytes')])}}),
    # the message writer and reader over the BLOCKED base classes
    ('cardutil/mciipm.py', 'IpmWriter.write', {'obj': ('dict', 'str', 'pyval')}, None,
     {'variant': 'B', 'lean_name': 'IpmWriterB_write', 'dumps_ext': True,
      'extern': {'dumps_ext': ([('d', ('dict', 'str', 'pyval'))], 'bytes', True)},
      'spec': {'fields': [('_finalised', 'bool')],
               'wrapped': ('out_file', 'Block1014', 'F', [('w_remaining_chars', 'int'), ('w_fdata', 'bytes'), ('w_fpos', 'int')])}}),
    ('cardutil/mciipm.py', 'IpmReader.__next__', {}, ('dict', 'str', 'pyval'),
     {'variant': 'B', 'lean_name': 'IpmReaderB_next', 'loads_ext': True,
      'extern': {'loads_ext': ([('b', 'bytes')], ('dict', 'str', 'pyval'), True)},
      'spec': {'fields': [('record_number', 'int'), ('last_record', 'bytes')], 'signals': True,
               'wrapped': ('vbs_data', 'Unblock1014', '', [('w_buffer', 'bytes'), ('w_in', 'bytes')])}}),
    # PIN blocks: read-only methods (the object's pin / card number / random value are parameters), class methods whose
    # `return cls(pin, ...)` is rendered as returning the pin the new object is built from
    ('cardutil/pinblock.py', 'Iso0PinBlock.to_bytes', {}, 'bytes'),
    ('cardutil/pinblock.py', 'Iso0PinBlock.from_bytes', {}, 'str',
     {'classmethod': True, 'params': [('pin_block', 'bytes'), ('card_number', 'str')]}),
    ('cardutil/pinblock.py', 'Iso4PinBlock.to_bytes', {}, 'bytes'),
    ('cardutil/pinblock.py', 'Iso4PinBlock.from_bytes', {}, 'str',
     {'classmethod': True, 'params': [('pin_block', 'bytes')]}),
    # the element layout: `_pytype_to_string` and the text encoding are PARAMETERS of the translated function (any
    # function of that type); the value is a str-or-bytes sum, the configuration entry a record
    ('cardutil/iso8583.py', '_get_field_length', {'bit_config': 'cfg'}, 'int'),
    ('cardutil/iso8583.py', '_field_to_iso8583', {}, 'bytes',
     {'params': [('bit_config', 'cfg'), ('field_value', 'sb'), ('encoding', 'codec')],
      'extern': {'_pytype_to_string': ([('field_data', 'sb'), ('bit_config', 'cfg')], 'sb', True)}}),
    # the typed conversion on decode: text -> int / Decimal / datetime by the configured type (the result is a sum type)
    ('cardutil/iso8583.py', '_string_to_pytype', {'field_data': 'str', 'bit_config': 'cfg'}, 'pyval'),
    # the FRAMING of one element on decode: the statements of _iso8583_to_field up to `field_processor = ...` (declared
    # length, refusals, the slice) returning the element's bytes and the message increment; the codec's decoder is a
    # parameter
    ('cardutil/iso8583.py', '_iso8583_to_field', {}, ('tuple', 'bytes', 'int'),
     {'fragment': ('until', 'field_processor', '(field_data, field_length + length_size)'),
      'params': [('bit_config', 'cfg'), ('message_data', 'bytes'), ('encoding', 'decoder')],
      'lean_name': '_iso8583_to_field_frame'}),
    # BitArray with its default big-endian order (`self.endian` is read from the class attribute; both call sites use it)
    ('cardutil/BitArray.py', 'BitArray.tolist', {}, ('list', 'bool'), {'readonly': True}),
    ('cardutil/BitArray.py', 'BitArray.fromlist', {'bytelist': ('list', 'bool')}, None),
    # file inspection: the bitmap test (a loop with an early return over the bits of a BitArray) and ipm_info itself
    # (the first read of the file object is the first bytes of its content; the result dict holds booleans and texts)
    ('cardutil/mciipm.py', 'bitmap_check', {'bitmap': 'bytes'}, ('tuple', 'bool', 'str')),
    ('cardutil/mciipm.py', 'ipm_info', {'input_data': 'infile', 'output': ('dict', 'str', 'infoval')},
     ('dict', 'str', 'infoval')),
    # the ELEMENT LOOP of _iso8583_to_dict (from `message_pointer = 0` to the end: bitmap walk, running pointer, final length
    # test), with the element decoder `_iso8583_to_field` and `_get_bitmap_list` as parameters (ANY functions of their types)
    ('cardutil/iso8583.py', '_iso8583_to_dict', {}, ('dict', 'str', 'pyval'),
     {'fragment': ('from', 'message_pointer'),
      'params': [('message', 'bytes'), ('message_data', 'bytes'), ('binary_bitmap', 'bytes'),
                 ('bit_config', ('dict', 'str', 'cfg')), ('encoding', 'decoder'),
                 ('return_values', ('dict', 'str', 'pyval'))],
      'extern': {'_iso8583_to_field': ([('bit', 'int'), ('bit_config', 'cfg'), ('message_data', 'bytes'),
                                        ('encoding', 'decoder')], ('tuple', ('dict', 'str', 'pyval'), 'int'), True),
                 '_get_bitmap_list': ([('binary_bitmap', 'bytes')], ('list', 'bool'), False)},
      'lean_name': '_iso8583_to_dict_loop'}),
    # the ELEMENT LOOP and the ASSEMBLY of _dict_to_iso8583 (the function without the PDS packing statements: the message
    # is the one that packing leaves), with `_field_to_iso8583` as a parameter (ANY function of its type); message values
    # are of any type (`Rt.AnyVal`), `message.get(k)` is an Option
    ('cardutil/iso8583.py', '_dict_to_iso8583', {}, 'bytes',
     {'fragment': ('without', 'de_pds_fields', 'bit'),
      'params': [('message', ('dict', 'str', 'anyval')), ('bit_config', ('dict', 'str', 'cfg')), ('encoding', 'codec'),
                 ('hex_bitmap', 'bool')],
      'extern': {'_field_to_iso8583': ([('bit_config', 'cfg'), ('field_value', ('opt', 'anyval')), ('encoding', 'codec')],
                                       'bytes', True)},
      'lean_name': '_dict_to_iso8583_loop'}),
    # the PDS CARRIERS of _dict_to_iso8583: the statements the loop fragment above leaves out — the configured PDS elements
    # sorted in descending order, one popped from the end for every packed string `_pds_to_de` returns — on a message whose
    # values are texts; answers the message with the carriers filled in
    ('cardutil/iso8583.py', '_dict_to_iso8583', {}, ('dict', 'str', 'str'),
     {'fragment': ('between', 'de_pds_fields', 'bit', 'message'),
      'params': [('message', ('dict', 'str', 'str')), ('bit_config', ('dict', 'str', 'cfg'))],
      'lean_name': '_dict_to_iso8583_carriers'}),
    # what the element decoder does with the decoded text of an element: the card-number processors (PAN: the masked form,
    # PAN-PREFIX: the leading digits) and then the typed conversion under its handler — the statements of _iso8583_to_field
    # from `if field_processor == 'PAN':` up to `return_values = dict()`
    ('cardutil/iso8583.py', '_iso8583_to_field', {}, 'pyval',
     {'fragment': ('if_span', "field_processor == 'PAN'", 'return_values', 'field_data'),
      'params': [('field_data', 'str'), ('field_processor', 'str'), ('bit_config', 'cfg'), ('bit', 'int')],
      'lean_name': '_iso8583_to_field_value'}),
    ('cardutil/iso8583.py', '_string_to_pytype', {'field_data': 'bytes', 'bit_config': 'cfg'}, 'pyval',
     {'variant': 'bytes', 'lean_name': '_string_to_pytype_bytes'}),
    # the WHOLE element decoder: framing, text decoding (not for the binary ICC element), the card-number processors, the
    # typed conversion, and the derived entries (PDS sub-elements, DE43 parts through an external function, ICC tags)
    ('cardutil/iso8583.py', '_iso8583_to_field', {'return_values': ('dict', 'str', 'pyval')},
     ('tuple', ('dict', 'str', 'pyval'), 'int'),
     {'params': [('bit', 'int'), ('bit_config', 'cfg'), ('message_data', 'bytes'), ('encoding', 'decoder')],
      'extern': {'_get_de43_fields': ([('de43_field', 'str'), ('processor_config', ('opt', 'str'))],
                                      ('dict', 'str', 'str'), True)},
      'lean_name': '_iso8583_to_field_whole'}),
    # the PUBLIC entry points dumps / loads: the optional arguments (None or empty = the default encoding / the packaged
    # element table, which is a parameter of the translation) and the call of the worker, an external function
    ('cardutil/iso8583.py', 'dumps', {}, 'bytes',
     {'pkg_config': True,
      'params': [('obj', ('dict', 'str', 'anyval')), ('encoding', ('opt', 'str')), ('iso_config', ('opt', ('dict', 'str', 'cfg'))),
                 ('hex_bitmap', 'bool'), ('pkg_bit_config', ('dict', 'str', 'cfg'))],
      'extern': {'_dict_to_iso8583': ([('message', ('dict', 'str', 'anyval')), ('bit_config', ('dict', 'str', 'cfg')),
                                       ('encoding', 'str'), ('hex_bitmap', 'bool')], 'bytes', True)}}),
    ('cardutil/iso8583.py', 'loads', {}, ('dict', 'str', 'pyval'),
     {'pkg_config': True,
      'params': [('b', 'bytes'), ('encoding', ('opt', 'str')), ('iso_config', ('opt', ('dict', 'str', 'cfg'))),
                 ('hex_bitmap', 'bool'), ('pkg_bit_config', ('dict', 'str', 'cfg'))],
      'extern': {'_iso8583_to_dict': ([('message', 'bytes'), ('bit_config', ('dict', 'str', 'cfg')),
                                       ('encoding', 'str'), ('hex_bitmap', 'bool')], ('dict', 'str', 'pyval'), True)}}),
    # the typed conversion on ENCODE: a value of any type in (str, int, Decimal, datetime, bytes), the text (or the value
    # itself) out; `_get_date_from_string` (dateutil or the fallback parser) is a parameter
    ('cardutil/iso8583.py', '_pytype_to_string', {'field_data': 'anyval', 'bit_config': 'cfg'}, 'anyval',
     {'extern': {'_get_date_from_string': ([('field_data', 'anyval')], 'dt', True)}}),
    # the one-shot blocker and unblocker: plain functions over an input and an output file object (the content still to be
    # read, the content written so far); the translation returns what was written
    ('cardutil/mciipm.py', 'block_1014', {}, 'bytes',
     {'files': ('input_data', 'output_data'), 'params': [('self_in', 'bytes'), ('self_out', 'bytes')]}),
    ('cardutil/mciipm.py', 'unblock_1014', {}, 'bytes',
     {'files': ('input_data', 'output_data'), 'params': [('self_in', 'bytes'), ('self_out', 'bytes')]}),
    # the column slicing of the parameter reader (read-only method: expanded flag, decoder, table index, layouts are parameters)
    ('cardutil/mciipm.py', 'IpmParamReader._get_param_field', {'record': 'bytes', 'field': 'str'}, 'str', {'readonly': True}),
    # the body of the `while True:` loop of IpmParamReader.__next__ for one record: a row (a dictionary) or None = go on
    ('cardutil/mciipm.py', 'IpmParamReader.__next__', {}, ('opt', ('dict', 'str', 'str')),
     {'readonly': True, 'fragment': ('while_body', 'record'), 'params': [('record', 'bytes')],
      'lean_name': 'IpmParamReader_next_row'}),
    # one round of the index-loading loop of IpmParamReader.__init__ (after `vbs_record = super().__next__()`):
    # the new table index, whether the trailer was seen, and whether the loop stops
    ('cardutil/mciipm.py', 'IpmParamReader.__init__', {}, ('tuple', ('dict', 'str', 'str'), ('tuple', 'bool', 'bool')),
     {'readonly': True, 'fragment': ('while_step', 'vbs_record', ['self.table_index', 'trailer_record_found']),
      'params': [('vbs_record', 'bytes'), ('trailer_record_found', 'bool')], 'lean_name': 'IpmParamReader_index_step'}),
    # IpmReader.__next__: the base reader's method through super(), the message decoder as an external function of the
    # record, the library error re-raised with the record number remembered BEFORE the read and the raw record as context
    ('cardutil/mciipm.py', 'IpmReader.__next__', {}, ('dict', 'str', 'pyval'),
     {'loads_ext': True, 'extern': {'loads_ext': ([('b', 'bytes')], ('dict', 'str', 'pyval'), True)}}),
    # the convenience loops and the message writer: `self.write(record)` is the translated method on the current state,
    # `super(IpmWriter, self).write(record)` the base class's, the message encoder an external function of the message
    ('cardutil/mciipm.py', 'VbsWriter.write_many', {'iterable': ('list', 'bytes')}, None),
    ('cardutil/mciipm.py', 'IpmWriter.write', {'obj': ('dict', 'str', 'pyval')}, None,
     {'dumps_ext': True, 'extern': {'dumps_ext': ([('d', ('dict', 'str', 'pyval'))], 'bytes', True)}}),
    ('cardutil/mciipm.py', 'IpmWriter.write_many', {'iterable': ('list', ('dict', 'str', 'pyval'))}, None,
     {'extern': {'dumps_ext': ([('d', ('dict', 'str', 'pyval'))], 'bytes', True)}}),
    # the WHOLE of _iso8583_to_dict: header split (struct.unpack with a computed format, inside a try), bitmap, MTI check,
    # then the element loop; the element decoder and the bitmap reader are parameters
    ('cardutil/iso8583.py', '_iso8583_to_dict', {'return_values': ('dict', 'str', 'pyval')}, ('dict', 'str', 'pyval'),
     {'params': [('message', 'bytes'), ('bit_config', ('dict', 'str', 'cfg')), ('encoding', 'decoder'), ('hex_bitmap', 'bool')],
      'extern': {'_iso8583_to_field': ([('bit', 'int'), ('bit_config', 'cfg'), ('message_data', 'bytes'),
                                        ('encoding', 'decoder')], ('tuple', ('dict', 'str', 'pyval'), 'int'), True),
                 '_get_bitmap_list': ([('binary_bitmap', 'bytes')], ('list', 'bool'), False)}}),
    # FRAGMENTS of functions whose other statements call the cipher library: the decimalisation at the end of
    # calculate_pvv (from the first assignment to values_pass1, with the ciphertext `ct` as parameter), and the
    # combination loop at the start of get_zone_master_key (up to the assignment to binary_key, returning p1)
    ('cardutil/pinblock.py', 'calculate_pvv', {}, 'str',
     {'fragment': ('from', 'values_pass1'), 'params': [('ct', 'bytes')], 'lean_name': 'calculate_pvv_decimalise'}),
    ('cardutil/key.py', 'get_zone_master_key', {}, 'str',
     {'fragment': ('until', 'binary_key', 'p1'), 'params': [('key_parts', ('list', 'str'))],
      'lean_name': 'get_zone_master_key_combine'}),
    # WHOLE functions around the cipher library: the three statements of an ECB call (Cipher(...), .encryptor(),
    # update + finalize) are ONE call of an external function — a parameter of the translation, which the theorems
    # instantiate with the Triple DES of Model/Des.lean
    ('cardutil/key.py', 'calculate_kcv', {'binary_key': 'bytes', 'kvc_length': 'int'}, 'str', {'cipher': True}),
    ('cardutil/key.py', 'encrypt_key', {'key_to_encrypt': 'str', 'master_key': 'str'}, 'bytes', {'cipher': True}),
    ('cardutil/key.py', 'get_zone_master_key', {}, ('tuple', 'str', 'str'),
     {'params': [('key_parts', ('list', 'str'))]}),
    ('cardutil/key.py', 'get_enc_zone_master_key', {}, ('tuple', 'str', 'str'),
     {'params': [('master_key', 'str'), ('key_parts', ('list', 'str'))]}),
    ('cardutil/pinblock.py', 'calculate_pvv', {'pin': 'str', 'pvv_key': 'str', 'key_index': 'int', 'card_number': 'str'},
     'str', {'cipher': True, 'lean_name': 'calculate_pvv'}),
    # the static encrypt / decrypt methods of the two encryption mix-ins (hex key text, then the cipher)
    ('cardutil/pinblock.py', 'TdesEncryptedPinBlockMixin.encrypt', {'key': 'str', 'data': 'bytes'}, 'bytes',
     {'static': True, 'cipher': True, 'lean_name': 'Tdes_encrypt'}),
    ('cardutil/pinblock.py', 'TdesEncryptedPinBlockMixin.decrypt', {'key': 'str', 'cipher_data': 'bytes'}, 'bytes',
     {'static': True, 'cipher': True, 'lean_name': 'Tdes_decrypt'}),
    ('cardutil/pinblock.py', 'AESEncryptedPinBlockMixin.encrypt', {'key': 'str', 'data': 'bytes'}, 'bytes',
     {'static': True, 'cipher': True, 'lean_name': 'Aes_encrypt'}),
    ('cardutil/pinblock.py', 'AESEncryptedPinBlockMixin.decrypt', {'key': 'str', 'cipher_data': 'bytes'}, 'bytes',
     {'static': True, 'cipher': True, 'lean_name': 'Aes_decrypt'}),
]

# per class: the fields a method may use, and the wrapped file object as a `sink` (its write(e) appends to self_out) or a
# `source` (its read(n) takes the next n bytes of self_in)
SELF_STATE = {'Block1014': {'fields': [('remaining_chars', 'int')], 'sink': 'file_obj'},
              'Unblock1014': {'fields': [('buffer', 'bytes')], 'source': 'file_obj'},
              'VbsReader': {'fields': [('record_number', 'int'), ('last_record', 'bytes')], 'source': 'vbs_data',
                            'signals': True},
              'IpmReader': {'fields': [('record_number', 'int'), ('last_record', 'bytes')], 'source': 'vbs_data',
                            'signals': True},
              'VbsWriter': {'fields': [('_finalised', 'bool')], 'file': 'out_file'},
              'IpmWriter': {'fields': [('_finalised', 'bool')], 'file': 'out_file'},
              'BitArray': {'fields': [('bytes', 'bytes')]},
              'Iso0PinBlock': {'fields': [('pin', 'str'), ('card_number', 'str')], 'readonly': True},
              'Iso4PinBlock': {'fields': [('pin', 'str'), ('random_value', 'int')], 'readonly': True},
              'IpmParamReader': {'fields': [('expanded', 'bool'), ('encoding', 'decoder'), ('table_index', ('dict', 'str', 'str')),
                                            ('param_config', ('dict', 'str', ('dict', 'str', ('dict', 'str', 'int')))),
                                            ('table_id', 'str')],
                                 'readonly': True}}

EXC = {'AssertionError': 'assertionError', 'ValueError': 'valueError', 'IndexError': 'indexError',
       'TypeError': 'typeError', 'KeyError': 'keyError'}
NUMERIC_TABLES = {'latin1': 'Gen.latin1Numeric', 'latin_1': 'Gen.latin1Numeric', 'cp037': 'Gen.cp037Numeric'}


def lean_type(t):
    if t == 'str':
        return 'Text'
    if t in ('bytes', 'asciibytes'):
        return 'Bytes'
    if t in ('char', 'byte'):
        return 'Nat'
    if t == 'int':
        return 'Int'
    if t == 'bool':
        return 'Bool'
    if t == 'none':
        return 'Unit'
    if t == 'cfg':
        return 'Rt.BitCfg'
    if t == 'sb':
        return 'Rt.SB'
    if t == 'codec':
        return '(Text → Outcome Bytes)'
    if t == 'decoder':
        return '(Bytes → Outcome Text)'
    if t == 'dec':
        return 'Py.Dec'
    if t == 'dt':
        return 'Py.DateTime'
    if t == 'pyval':
        return 'Rt.PyVal'
    if t == 'infoval':
        return 'Rt.InfoVal'
    if t in ('infile', 'bitarray'):
        return 'Bytes'
    if t == 'anyval':
        return 'Rt.AnyVal'
    if isinstance(t, tuple) and t[0] == 'opt':
        return f'(Option {lean_type(t[1])})'
    if isinstance(t, tuple) and t[0] == 'list':
        return f'(List {lean_type(t[1])})'
    if isinstance(t, tuple) and t[0] == 'tuple':
        return '(' + ' × '.join(lean_type(x) for x in t[1:]) + ')'
    if isinstance(t, tuple) and t[0] == 'dict' and t[1] == 'str':
        return f'(Rt.SDict {lean_type(t[2])})'
    raise Untranslatable(f'type {t!r}')


def is_seq(t):
    return t in ('str', 'bytes', 'asciibytes') or (isinstance(t, tuple) and t[0] == 'list')


def is_dict(t):
    return isinstance(t, tuple) and t[0] == 'dict'


def elem_type(t):
    if t == 'str':
        return 'char'
    if t in ('bytes', 'asciibytes'):
        return 'byte'
    if isinstance(t, tuple) and t[0] == 'list':
        return t[1]
    raise Untranslatable(f'not a sequence: {t!r}')


def lean_lit_seq(values):
    return '[' + ', '.join(str(v) for v in values) + ']'


ALL_KNOWN = {}        # every function translated so far in this run, by its TARGETS name (calls across modules)


class Fn:
    def __init__(self, name, params, ret, partial, defaults, externs=None):
        self.name, self.params, self.ret, self.partial, self.defaults = name, params, ret, partial, defaults
        self.externs = externs or []       # (name, spec) of the external functions it takes, in signature order


class NeedMonad(Exception):
    pass


class Translator:
    def __init__(self, module_ast, known, hints=None):
        self.mod = module_ast
        self.hints = hints or {}    # types of locals the source does not let us infer (e.g. `x = {}`)
        self.known = known          # name -> Fn (already translated functions callable from here)
        self.monadic = False
        self.fresh = 0
        self.self_state = None      # for a method: the AST of the state tuple it implicitly returns
        self.pending = []           # hoisted partial sub-expressions: (var, code)

    # ---- helpers -------------------------------------------------------------------------
    def tmp(self):
        self.fresh += 1
        return f't{self.fresh}'

    def hoist(self, code, typ):
        """a partial expression: bind it to a fresh variable (monadic mode only)"""
        if not self.monadic:
            raise NeedMonad()
        v = self.tmp()
        if getattr(self, 'catching', None):
            code = f'(Rt.catchData [{", ".join("." + k for k in self.catching)}] {code})'
        self.pending.append((v, code))
        return v, typ

    def class_const(self, cls, attr):
        for node in self.mod.body:
            if isinstance(node, ast.ClassDef) and node.name == cls:
                for st in node.body:
                    if isinstance(st, ast.Assign) and len(st.targets) == 1 and isinstance(st.targets[0], ast.Name) \
                            and st.targets[0].id == attr and isinstance(st.value, ast.Constant):
                        return st.value.value
        raise Untranslatable(f'{cls}.{attr} is not a literal class attribute')

    def base_of(self, cls):
        for node in self.mod.body:
            if isinstance(node, ast.ClassDef) and node.name == cls and len(node.bases) == 1 \
                    and isinstance(node.bases[0], ast.Name):
                return node.bases[0].id
        raise Untranslatable(f'{cls} has no single named base class')

    def imports_from(self, module, name):
        return any(isinstance(n, ast.ImportFrom) and n.module == module and any(a.name == name and a.asname is None
                                                                                 for a in n.names)
                   for n in self.mod.body)

    def class_slice(self, cls, attr):
        """a class attribute `NAME = slice(a, b)` with literal bounds: (a, b), else None"""
        for node in self.mod.body:
            if isinstance(node, ast.ClassDef) and node.name == cls:
                for st in node.body:
                    if isinstance(st, ast.Assign) and len(st.targets) == 1 and isinstance(st.targets[0], ast.Name) \
                            and st.targets[0].id == attr and isinstance(st.value, ast.Call) \
                            and isinstance(st.value.func, ast.Name) and st.value.func.id == 'slice' \
                            and len(st.value.args) == 2 and not st.value.keywords \
                            and all(isinstance(a, ast.Constant) and isinstance(a.value, int) for a in st.value.args):
                        return st.value.args[0].value, st.value.args[1].value
        return None

    def coerce(self, code, typ, want):
        if typ == want:
            return code
        if typ == 'char' and want == 'str':
            return f'[{code}]'
        if typ == 'byte' and want == 'bytes':
            return f'[{code}]'
        if typ == 'asciibytes' and want == 'bytes':
            return code
        if want == 'pyval' and typ in ('str', 'int', 'dec', 'dt', 'bytes'):
            return f'(Rt.PyVal.{typ} {code})'
        if typ == 'pyval' and want in ('str', 'bytes'):
            # a decoded value used where a text / a bytes object is needed (slicing, len): TypeError for the other kinds
            return self.hoist(f'(Rt.pyval{want.capitalize()} {code})', want)[0]
        if is_dict(typ) and is_dict(want) and typ[1] == want[1] and typ[2] == 'str' and want[2] == 'pyval':
            return f'(List.map (fun kv => (kv.1, Rt.PyVal.str kv.2)) {code})'
        if want == 'anyval' and typ in ('str', 'int', 'dec', 'dt', 'bytes'):
            return f'(Rt.AnyVal.{typ} {code})'
        if want == 'infoval' and typ in ('str', 'bool'):
            return f'(Rt.InfoVal.{typ} {code})'
        if want == 'str' and typ == 'none':
            return '[]'              # None where a text is expected ("no reason"): the empty text
        if isinstance(want, tuple) and want[0] == 'opt' and typ == want[1]:
            return f'(some {code})'
        if isinstance(want, tuple) and want[0] == 'opt' and typ == 'none':
            return 'none'
        if isinstance(want, tuple) and isinstance(typ, tuple) and want[0] == typ[0] == 'tuple' and len(want) == len(typ) == 3 \
                and code.startswith('(') and code.endswith(')') and typ[1] == want[1] and (typ[2], want[2]) == ('none', 'str'):
            return code[:code.rindex(',')] + ', ([] : Text))'
        raise Untranslatable(f'cannot use {typ} as {want}')

    def const_int(self, node):
        if isinstance(node, ast.Constant) and isinstance(node.value, int) and not isinstance(node.value, bool):
            return node.value
        if isinstance(node, ast.UnaryOp) and isinstance(node.op, ast.USub) and isinstance(node.operand, ast.Constant) \
                and isinstance(node.operand.value, int):
            return -node.operand.value
        return None

    def int_lit(self, n):
        return f'({n} : Int)' if n >= 0 else f'(-{-n} : Int)'

    # ---- expressions ---------------------------------------------------------------------
    def expr(self, node, env):
        """returns (lean code, type); partial sub-expressions are hoisted into self.pending"""
        if isinstance(node, ast.Constant):
            v = node.value
            if isinstance(v, bool):
                return ('true' if v else 'false'), 'bool'
            if isinstance(v, int):
                return self.int_lit(v), 'int'
            if isinstance(v, str):
                return lean_lit_seq(ord(c) for c in v), 'str'
            if isinstance(v, bytes):
                return lean_lit_seq(v), 'bytes'
            if v is None:
                return '()', 'none'
            raise Untranslatable(f'constant {v!r}')
        if isinstance(node, ast.Name):
            if node.id in env:
                return env[node.id]
            # a module-level constant NAME = '<literal text>' (assigned exactly once at module level, all capitals)
            if node.id.isupper():
                vals = [st.value for st in self.mod.body if isinstance(st, ast.Assign) and len(st.targets) == 1
                        and isinstance(st.targets[0], ast.Name) and st.targets[0].id == node.id]
                rebinds = [n for n in ast.walk(self.mod) if isinstance(n, ast.Name) and n.id == node.id
                           and isinstance(n.ctx, ast.Store)]
                if len(vals) == 1 and len(rebinds) == 1 and isinstance(vals[0], ast.Constant) and isinstance(vals[0].value, str):
                    return self.expr(vals[0], env)
            raise Untranslatable(f'free name {node.id}')
        if isinstance(node, ast.Attribute) and isinstance(node.value, ast.Name):
            v = self.class_const(node.value.id, node.attr)
            return self.expr(ast.Constant(v), env)
        if isinstance(node, ast.IfExp):
            c = self.cond(node.test, env)

            def branch(n):
                saved, self.pending = self.pending, []
                try:
                    code, t = self.expr(n, env)
                    binds = self.pending
                finally:
                    self.pending = saved
                return code, t, binds
            a, ta, ba = branch(node.body)
            b, tb, bb = branch(node.orelse)
            if {ta, tb} == {'bytes', 'asciibytes'}:
                ta = tb = 'bytes'
            if ta != tb:
                raise Untranslatable('conditional expression with two types')
            if not ba and not bb:
                return f'(if {c} then {a} else {b})', ta

            # a partial operation inside a branch is evaluated only when that branch is taken
            def wrapb(code, binds):
                code = f'(Outcome.ok {code})'
                for v, cc in reversed(binds):
                    code = f'(Outcome.bind {cc} (fun {v} => {code}))'
                return code
            return self.hoist(f'(if {c} then {wrapb(a, ba)} else {wrapb(b, bb)})', ta)
        if isinstance(node, ast.Tuple) and len(node.elts) == 2:
            a, ta = self.expr(node.elts[0], env)
            b, tb = self.expr(node.elts[1], env)
            return f'({a}, {b})', ('tuple', ta, tb)
        if isinstance(node, ast.Dict):
            if not node.keys:
                raise Untranslatable('empty dict literal outside an assignment with a type hint')
            items = []
            vt = None
            for k, v in zip(node.keys, node.values):
                kc, kt = self.expr(k, env)
                vc, t = self.expr(v, env)
                if kt != 'str' or (vt is not None and t != vt):
                    raise Untranslatable('dict literal that is not str -> one type')
                vt = t
                items.append(f'({kc}, {vc})')
            return '[' + ', '.join(items) + ']', ('dict', 'str', vt)
        if isinstance(node, ast.BinOp):
            return self.binop(node, env)
        if isinstance(node, ast.UnaryOp) and isinstance(node.op, ast.USub):
            c, t = self.expr(node.operand, env)
            if t != 'int':
                raise Untranslatable('unary minus on non-int')
            return f'(-{c})', 'int'
        if isinstance(node, ast.UnaryOp) and isinstance(node.op, ast.Not):
            return f'(!{self.cond(node.operand, env)})', 'bool'
        if isinstance(node, (ast.Compare, ast.BoolOp)):
            return self.cond(node, env), 'bool'
        if isinstance(node, ast.Subscript):
            return self.subscript(node, env)
        if isinstance(node, ast.Call):
            return self.call(node, env)
        if isinstance(node, ast.ListComp):
            return self.listcomp(node, env)
        if isinstance(node, ast.List):
            items = [self.expr(e, env) for e in node.elts]
            if not items:
                raise Untranslatable('empty list literal')
            t = items[0][1]
            if any(x[1] != t for x in items):
                raise Untranslatable('heterogeneous list literal')
            return '[' + ', '.join(x[0] for x in items) + ']', ('list', t)
        if isinstance(node, ast.JoinedStr):
            parts = []
            for v in node.values:
                if isinstance(v, ast.Constant):
                    parts.append(lean_lit_seq(ord(c) for c in v.value))
                elif isinstance(v, ast.FormattedValue) and v.conversion == -1 and v.format_spec is None:
                    c, t = self.expr(v.value, env)
                    if t == 'int':
                        parts.append(f'(Rt.strOfInt {c})')
                    else:
                        parts.append(self.coerce(c, t, 'str'))
                elif isinstance(v, ast.FormattedValue) and v.conversion == -1 and isinstance(v.format_spec, ast.JoinedStr) \
                        and len(v.format_spec.values) == 1 and isinstance(v.format_spec.values[0], ast.Constant) \
                        and isinstance(v.format_spec.values[0].value, str) \
                        and v.format_spec.values[0].value[:1] == '0' and v.format_spec.values[0].value.isdigit():
                    c, t = self.expr(v.value, env)
                    if t != 'int':
                        raise Untranslatable('zero-padded width on a non-int')
                    parts.append(f'(Rt.fmtIntW {int(v.format_spec.values[0].value)} {c})')
                elif isinstance(v, ast.FormattedValue) and v.conversion == -1 and isinstance(v.format_spec, ast.JoinedStr):
                    parts.append(self.format_spec(v, env))
                else:
                    raise Untranslatable('format specification in an f-string')
            return '(' + ' ++ '.join(parts) + ')' if parts else '[]', 'str'
        raise Untranslatable(f'expression {type(node).__name__}')

    def format_spec(self, v, env):
        """f'{n:016x}', f'{n:0{w}x}' (an int as zero-padded lowercase hex), f'{s:f<16}' (a str left-justified with a
        fill character)"""
        c, t = self.expr(v.value, env)
        spec = v.format_spec.values
        if t == 'int' and len(spec) == 1 and isinstance(spec[0], ast.Constant) and isinstance(spec[0].value, str) \
                and len(spec[0].value) >= 3 and spec[0].value[0] == '0' and spec[0].value[-1] == 'x' \
                and spec[0].value[1:-1].isdigit():
            return f'(Rt.fmtHexW {self.int_lit(int(spec[0].value[1:-1]))} {c})'
        if t == 'int' and len(spec) == 3 and isinstance(spec[0], ast.Constant) and spec[0].value == '0' \
                and isinstance(spec[2], ast.Constant) and spec[2].value == 'x' \
                and isinstance(spec[1], ast.FormattedValue) and spec[1].conversion == -1 and spec[1].format_spec is None:
            w, wt = self.expr(spec[1].value, env)
            if wt != 'int':
                raise Untranslatable('width of a format specification is not an int')
            return f'(Rt.fmtHexW {w} {c})'
        if t in ('str', 'char') and len(spec) == 1 and isinstance(spec[0], ast.Constant) and isinstance(spec[0].value, str) \
                and len(spec[0].value) >= 3 and spec[0].value[1] == '<' and spec[0].value[2:].isdigit() \
                and spec[0].value[2] != '0':
            return f'(Rt.ljust {self.int_lit(int(spec[0].value[2:]))} {ord(spec[0].value[0])} {self.coerce(c, t, "str")})'
        raise Untranslatable('format specification in an f-string')

    def binop(self, node, env):
        lc, lt = self.expr(node.left, env)
        rc, rt = self.expr(node.right, env)
        op = node.op
        if isinstance(op, ast.Add):
            if lt == 'int' and rt == 'int':
                return f'({lc} + {rc})', 'int'
            for want in ('str', 'bytes'):
                if {lt, rt} <= {want, 'char' if want == 'str' else 'byte'} and want in (lt, rt):
                    return f'({self.coerce(lc, lt, want)} ++ {self.coerce(rc, rt, want)})', want
            if is_seq(lt) and lt == rt:
                return f'({lc} ++ {rc})', lt
            if {lt, rt} == {'bytes', 'asciibytes'}:
                return f'({lc} ++ {rc})', 'bytes'
            if {lt, rt} == {('list', 'char'), ('list', 'str')}:
                # lists of one-character strings and of strings: the same thing in Python
                up = lambda c, t: f'(List.map (fun (ch : Nat) => [ch]) {c})' if t == ('list', 'char') else c  # noqa: E731
                return f'({up(lc, lt)} ++ {up(rc, rt)})', ('list', 'str')
        if isinstance(op, ast.BitXor) and lt == 'int' and rt == 'int':
            return f'(Rt.xor {lc} {rc})', 'int'
        if isinstance(op, ast.Sub) and lt == 'int' and rt == 'int':
            return f'({lc} - {rc})', 'int'
        if isinstance(op, ast.Mult):
            if lt == 'int' and rt == 'int':
                return f'({lc} * {rc})', 'int'
            if lt in ('str', 'bytes', 'char', 'byte') and rt == 'int':
                want = 'str' if lt in ('str', 'char') else 'bytes'
                return f'(Rt.mulSeq {self.coerce(lc, lt, want)} {rc})', want
            if rt in ('str', 'bytes', 'char', 'byte') and lt == 'int':
                want = 'str' if rt in ('str', 'char') else 'bytes'
                return f'(Rt.mulSeq {self.coerce(rc, rt, want)} {lc})', want
            if isinstance(lt, tuple) and lt[0] == 'list' and rt == 'int':
                return f'(Rt.mulSeq {lc} {rc})', lt
        if isinstance(op, ast.Pow) and lt == 'int' and rt == 'int' and (self.const_int(node.left) or 0) > 0:
            # a positive literal raised to a (non-negative) int
            return f'({lc} ^ ({rc}).toNat)', 'int'
        if isinstance(op, ast.FloorDiv) and lt == 'int' and rt == 'int':
            n = self.const_int(node.right)
            if n is None or n <= 0:
                raise Untranslatable('// with a divisor that is not a positive literal')
            return f'({lc} / {rc})', 'int'        # Int division rounds down for a positive divisor, like //
        if isinstance(op, ast.Mod) and lt == 'int' and rt == 'int':
            n = self.const_int(node.right)
            if n is None or n <= 0:
                raise Untranslatable('% with a divisor that is not a positive literal')
            return f'({lc} % {rc})', 'int'
        raise Untranslatable(f'operator {type(op).__name__} on {lt}, {rt}')

    def cond(self, node, env):
        """a Python condition as a Lean Bool"""
        if isinstance(node, ast.Compare) and len(node.ops) == 1 and isinstance(node.ops[0], ast.Eq) \
                and isinstance(node.comparators[0], ast.Constant) and node.comparators[0].value == 0 \
                and not isinstance(node.comparators[0].value, bool):
            lc, lt = self.expr(node.left, env)
            if lt == ('opt', 'anyval'):
                return f'(Rt.eqZeroOpt {lc})'            # x == 0 for a value of any type (None included)
        if isinstance(node, ast.BoolOp):
            parts = [self.cond(node.values[0], env)]
            for v in node.values[1:]:
                # the later operands are evaluated only if the earlier ones do not decide: a partial operation in one of
                # them could not be hoisted in front of the whole test
                n0 = len(self.pending)
                parts.append(self.cond(v, env))
                if len(self.pending) != n0:
                    raise Untranslatable('partial operation in a short-circuited operand')
            return '(' + (' && ' if isinstance(node.op, ast.And) else ' || ').join(parts) + ')'
        if isinstance(node, ast.UnaryOp) and isinstance(node.op, ast.Not):
            return f'(!{self.cond(node.operand, env)})'
        if isinstance(node, ast.Compare):
            if len(node.ops) != 1:
                raise Untranslatable('chained comparison')
            rhs = node.comparators[0]
            if isinstance(node.ops[0], (ast.In, ast.NotIn)) and isinstance(rhs, ast.Subscript) \
                    and isinstance(rhs.slice, ast.Constant) and rhs.slice.value == 'bit_config' \
                    and isinstance(rhs.value, ast.Attribute) and rhs.value.attr == 'config' \
                    and isinstance(node.left, ast.Call) and isinstance(node.left.func, ast.Name) and node.left.func.id == 'str' \
                    and len(node.left.args) == 1:
                # str(n) in config.config['bit_config']: the keys are the decimal spellings of the configured element
                # numbers (the table gen_tables.py read from /repo for this run)
                nc, nt = self.expr(node.left.args[0], env)
                if nt != 'int':
                    raise Untranslatable('str() of a non-int as configuration key')
                inner = f'(Gen.configuredBits.any (fun e => decide (((e : Nat) : Int) = {nc})))'
                return inner if isinstance(node.ops[0], ast.In) else f'(!{inner})'
            lc, lt = self.expr(node.left, env)
            rc, rt = self.expr(node.comparators[0], env)
            if isinstance(node.ops[0], (ast.In, ast.NotIn)) and isinstance(node.comparators[0], (ast.Tuple, ast.List)) \
                    and all(isinstance(e, ast.Constant) and isinstance(e.value, str) for e in node.comparators[0].elts):
                # x in ("int", "long"): membership in a literal tuple of strings
                items = '[' + ', '.join(lean_lit_seq(ord(c) for c in e.value) for e in node.comparators[0].elts) + ']'
                inner = f'(List.contains {items} {self.coerce(lc, lt, "str")})'
                return inner if isinstance(node.ops[0], ast.In) else f'(!{inner})'
            if isinstance(node.ops[0], (ast.In, ast.NotIn)):
                if not (isinstance(rt, tuple) and rt[0] == 'list'):
                    raise Untranslatable('`in` on something that is not a list')
                lc = self.coerce(lc, lt, rt[1])
                inner = f'(List.contains {rc} {lc})'
                return inner if isinstance(node.ops[0], ast.In) else f'(!{inner})'
            if 'asciibytes' in (lt, rt) and {lt, rt} <= {'asciibytes', 'bytes'}:
                lt = rt = 'bytes'
            if lt != rt:
                for want in ('str', 'bytes'):
                    if {lt, rt} == {want, 'char' if want == 'str' else 'byte'}:
                        lc, rc, lt, rt = self.coerce(lc, lt, want), self.coerce(rc, rt, want), want, want
            if lt != rt:
                raise Untranslatable(f'comparison of {lt} with {rt}')
            op = node.ops[0]
            if isinstance(op, ast.Eq):
                return f'({lc} == {rc})'
            if isinstance(op, ast.NotEq):
                return f'({lc} != {rc})'
            if lt == 'int':
                sym = {ast.Lt: '<', ast.LtE: '≤', ast.Gt: '>', ast.GtE: '≥'}.get(type(op))
                if sym:
                    return f'(decide ({lc} {sym} {rc}))'
            raise Untranslatable(f'comparison {type(op).__name__} on {lt}')
        if isinstance(node, ast.Call) and isinstance(node.func, ast.Attribute) and node.func.attr == 'get' \
                and len(node.args) == 1 and not node.keywords:
            dc, dt = self.expr(node.func.value, env)
            if is_dict(dt) and dt[2] == 'anyval':
                c, _ = self.expr(node, env)
                return f'(Rt.truthyOpt {c})'
            if is_dict(dt) and dt[2] == 'cfg':
                # `if config.get(key)`: a configuration entry is a non-empty mapping, so the test is "the key is there"
                kc, kt = self.expr(node.args[0], env)
                return f'(Rt.dictHas {dc} {self.coerce(kc, kt, "str")})'
        c, t = self.expr(node, env)
        if t == 'bool':
            return c
        if is_seq(t):
            return f'(!({c}).isEmpty)'
        if t == 'int':
            return f'({c} != (0 : Int))'
        raise Untranslatable(f'truthiness of {t}')

    def subscript(self, node, env):
        # struct.unpack(">B", raw)[0]
        v = node.value
        if isinstance(v, ast.Call) and isinstance(v.func, ast.Attribute) and isinstance(v.func.value, ast.Name) \
                and v.func.value.id == 'struct' and v.func.attr == 'unpack' and len(v.args) == 2 \
                and isinstance(v.args[0], ast.Constant) and v.args[0].value in ('>B', '>I') \
                and self.const_int(node.slice) == 0:
            rc, rt = self.expr(v.args[1], env)
            if rt not in ('bytes', 'asciibytes'):
                raise Untranslatable('struct.unpack of a non-bytes value')
            return self.hoist(f"(Rt.unpack{v.args[0].value[1]} {rc})", 'int')
        vc, vt = self.expr(node.value, env)
        if vt == 'cfg':
            return self.cfg_field(vc, node.slice)
        if is_dict(vt):
            kc, kt = self.expr(node.slice, env)
            if kt == ('opt', 'str'):
                # d[k] where k came from another dict's .get(): None is a key no string-keyed dict has (KeyError)
                return self.hoist(f'(Rt.dictGetO {vc} {kc})', vt[2])
            return self.hoist(f'(Rt.dictGet {vc} {self.coerce(kc, kt, "str")})', vt[2])
        if not is_seq(vt):
            raise Untranslatable(f'subscript of {vt}')
        sl = node.slice
        if isinstance(sl, ast.Slice):
            if sl.step is not None:
                if self.const_int(sl.step) == -1 and sl.lower is None and sl.upper is None:
                    return f'(List.reverse {vc})', vt
                raise Untranslatable('slice step')

            def bound(b):
                if b is None:
                    return 'none'
                c, t = self.expr(b, env)
                if t != 'int':
                    raise Untranslatable('slice bound is not an int')
                return f'(some {c})'
            return f'(Rt.slice {vc} {bound(sl.lower)} {bound(sl.upper)})', vt
        ic, it = self.expr(sl, env)
        if it != 'int':
            raise Untranslatable('index is not an int')
        v, t = self.hoist(f'(Rt.getItem {vc} {ic})', elem_type(vt))
        return v, t

    CFG_FIELDS = {'field_type': 'str', 'field_length': 'int', 'field_python_type': 'str', 'field_processor': 'str'}
    CFG_OPTIONAL = {'field_date_format': 'str', 'field_processor_config': 'str'}

    def cfg_field(self, code, key, default=None):
        if isinstance(key, ast.Constant) and key.value in self.CFG_FIELDS and default is None:
            return f'({code}).{key.value}', self.CFG_FIELDS[key.value]
        if isinstance(key, ast.Constant) and key.value == 'field_length' and isinstance(default, ast.Constant) \
                and default.value == 0 and not isinstance(default.value, bool):
            return f'({code}).field_length', 'int'     # the key is part of every configuration entry of the rendering
        if isinstance(key, ast.Constant) and key.value in self.CFG_OPTIONAL and isinstance(default, ast.Constant) \
                and isinstance(default.value, str):
            d = lean_lit_seq(ord(c) for c in default.value)
            return f'(Option.getD ({code}).{key.value} {d})', self.CFG_OPTIONAL[key.value]
        if isinstance(key, ast.Constant) and key.value in self.CFG_OPTIONAL and default is None:
            return f'({code}).{key.value}', ('opt', self.CFG_OPTIONAL[key.value])      # .get(k): None when absent
        raise Untranslatable('configuration entry the translator does not know')

    def call(self, node, env):
        f = node.func
        if isinstance(f, ast.Attribute) and f.attr == 'get' and len(node.args) in (1, 2) and not node.keywords \
                and isinstance(f.value, ast.Subscript) and isinstance(f.value.value, ast.Name) \
                and env.get(f.value.value.id, (None, None))[1] == ('dict', 'str', 'cfg'):
            # bit_config[key].get('...'): the entry of the configuration, then its field
            vc, vt = self.expr(f.value, env)
            return self.cfg_field(vc, node.args[0], node.args[1] if len(node.args) == 2 else None)
        if isinstance(f, ast.Attribute) and f.attr == 'get' and len(node.args) == 1 and not node.keywords:
            dc, dt = self.expr(f.value, env)
            if is_dict(dt) and dt[2] == 'str':
                kc, kt = self.expr(node.args[0], env)
                return f'(Rt.dictGetOpt {dc} {self.coerce(kc, kt, "str")})', ('opt', 'str')
            if is_dict(dt) and dt[2] == 'anyval':
                kc, kt = self.expr(node.args[0], env)
                return f'(Rt.dictGetOpt {dc} {self.coerce(kc, kt, "str")})', ('opt', 'anyval')
        if isinstance(f, ast.Attribute) and f.attr == 'encode' and len(node.args) == 1 and not node.keywords \
                and isinstance(node.args[0], ast.Name) and env.get(node.args[0].id, (None, None))[1] == 'codec':
            vc, vt = self.expr(f.value, env)
            if vt == 'anyval':
                # v.encode(encoding) for a value of any type: only str has the method
                return self.hoist(f'(Rt.anyEncode {env[node.args[0].id][0]} {vc})', 'bytes')
        if isinstance(f, ast.Attribute) and f.attr == 'tobytes' and not node.args and not node.keywords \
                and isinstance(f.value, ast.Name) and env.get(f.value.id, (None, None))[1] == 'bitarray':
            return env[f.value.id][0], 'bytes'
        if isinstance(f, ast.Attribute) and f.attr == 'get' and len(node.args) in (1, 2) and not node.keywords \
                and isinstance(f.value, ast.Name) and env.get(f.value.id, (None, None))[1] == 'cfg':
            return self.cfg_field(env[f.value.id][0], node.args[0], node.args[1] if len(node.args) == 2 else None)
        if isinstance(f, ast.Attribute) and f.attr == 'Decimal' and isinstance(f.value, ast.Name) and f.value.id == 'decimal' \
                and len(node.args) == 1 and not node.keywords:
            c, t = self.expr(node.args[0], env)
            if t == 'str':
                return self.hoist(f'(Rt.decimalOfStr Gen.intClasses {c})', 'dec')
            if t == 'int':
                return f'(Py.decOfInt {c})', 'dec'
            if t == 'anyval':
                return self.hoist(f'(Rt.anyDecimal Gen.intClasses {c})', 'dec')
            if t == 'bytes':
                return self.hoist('(Outcome.escape ExcKind.typeError : Outcome Py.Dec)', 'dec')     # Decimal(b'..'): TypeError
            raise Untranslatable(f'Decimal() of {t}')
        if isinstance(f, ast.Attribute) and f.attr == 'strptime' and isinstance(f.value, ast.Attribute) \
                and f.value.attr == 'datetime' and len(node.args) == 2 and not node.keywords:
            c, t = self.expr(node.args[0], env)
            fc, ft = self.expr(node.args[1], env)
            if ft != 'str':
                raise Untranslatable('strptime format that is not text')
            if t != 'str':
                # strptime() argument 1 must be str: a TypeError in Python
                return self.hoist('(Outcome.escape ExcKind.typeError : Outcome Py.DateTime)', 'dt')
            return self.hoist(f'(Rt.strptimeText Gen.intClasses {c} {fc})', 'dt')
        if isinstance(f, ast.Attribute) and f.attr == 'encode' and len(node.args) == 1 and not node.keywords \
                and isinstance(node.args[0], ast.Name) and env.get(node.args[0].id, (None, None))[1] == 'codec':
            c, t = self.expr(f.value, env)
            return self.hoist(f'({env[node.args[0].id][0]} {self.coerce(c, t, "str")})', 'bytes')
        if isinstance(f, ast.Attribute) and f.attr == 'read' and len(node.args) == 1 and not node.keywords \
                and isinstance(f.value, ast.Name) and env.get(f.value.id, (None, None))[1] == 'infile':
            n = self.const_int(node.args[0])
            if n is None or n <= 0:
                raise Untranslatable('read() of the inspected file with a size that is not a positive literal')
            return f'(Rt.slice {env[f.value.id][0]} none (some {self.int_lit(n)}))', 'bytes'
        if isinstance(f, ast.Attribute) and f.attr == 'tolist' and not node.args and not node.keywords \
                and isinstance(f.value, ast.Name) and env.get(f.value.id, (None, None))[1] == 'bitarray':
            fn = ALL_KNOWN.get('BitArray.tolist')
            if fn is None:
                raise Untranslatable('BitArray.tolist is not translated')
            return self.hoist(f'({fn.name} {env[f.value.id][0]})', ('list', 'bool'))
        if isinstance(f, ast.Name) and f.id == 'range' and len(node.args) == 2 and not node.keywords:
            a, at = self.expr(node.args[0], env)
            b, bt = self.expr(node.args[1], env)
            if at != 'int' or bt != 'int':
                raise Untranslatable('range of non-ints')
            return f'(Rt.range {a} {b})', ('list', 'int')
        if isinstance(f, ast.Name) and f.id == 'enumerate' and len(node.args) == 1 and not node.keywords:
            c, t = self.expr(node.args[0], env)
            if not (isinstance(t, tuple) and t[0] == 'list'):
                raise Untranslatable('enumerate of a non-list')
            return f'(Rt.enumerate {c})', ('list', ('tuple', 'int', t[1]))
        if isinstance(f, ast.Attribute) and f.attr == 'decode' and len(node.args) == 1 and not node.keywords \
                and isinstance(node.args[0], ast.Name) and env.get(node.args[0].id, (None, None))[1] == 'decoder':
            c, t = self.expr(f.value, env)
            if t not in ('bytes', 'asciibytes'):
                raise Untranslatable('decode of a non-bytes value')
            return self.hoist(f'({env[node.args[0].id][0]} {c})', 'str')
        if isinstance(f, ast.Name) and f.id in getattr(self, 'extern', {}):
            ptypes, rtype, partial = self.extern[f.id]
            actual = list(node.args)
            for pn, _ in ptypes[len(actual):]:
                kw = [k for k in node.keywords if k.arg == pn]
                if len(kw) != 1:
                    raise Untranslatable(f'call of the external function {f.id} with unexpected arguments')
                actual.append(kw[0].value)
            if len(actual) != len(ptypes) or len(node.keywords) != len(actual) - len(node.args):
                raise Untranslatable(f'call of the external function {f.id} with unexpected arguments')
            codes = [self.coerce(*self.expr(a, env), pt) for a, (_, pt) in zip(actual, ptypes)]
            code = f'(ext{f.id} ' + ' '.join(codes) + ')'
            return self.hoist(code, rtype) if partial else (code, rtype)
        if isinstance(f, ast.Attribute) and len(node.keywords) == 1 and node.keywords[0].arg == 'byteorder' \
                and isinstance(node.keywords[0].value, ast.Constant) and node.keywords[0].value.value == 'big' \
                and len(node.args) == 1:
            if f.attr == 'from_bytes' and isinstance(f.value, ast.Name) and f.value.id == 'int':
                c, t = self.expr(node.args[0], env)
                if t not in ('bytes', 'asciibytes'):
                    raise Untranslatable('int.from_bytes of a non-bytes value')
                return f'(Rt.intFromBytes {c})', 'int'
            if f.attr == 'to_bytes':
                c, t = self.expr(f.value, env)
                n = self.const_int(node.args[0])
                if t != 'int':
                    raise Untranslatable('to_bytes of a non-int')
                if n is not None and n > 0:
                    return self.hoist(f'(Rt.toBytes {n} {c})', 'bytes')
                nc, nt = self.expr(node.args[0], env)
                if nt != 'int':
                    raise Untranslatable('to_bytes with a size that is not an int')
                return self.hoist(f'(Rt.toBytes ({nc}).toNat {c})', 'bytes')
        if isinstance(f, ast.Attribute) and f.attr == 'format' and isinstance(f.value, ast.Constant) \
                and f.value.value == '{bytes:0{width}b}' and not node.args \
                and sorted(k.arg for k in node.keywords) == ['bytes', 'width']:
            kw = {k.arg: k.value for k in node.keywords}
            v, vt = self.expr(kw['bytes'], env)
            w, wt = self.expr(kw['width'], env)
            if vt != 'int' or wt != 'int':
                raise Untranslatable('binary format of non-ints')
            return f'(Rt.fmtBinW {w} {v})', 'str'
        if isinstance(f, ast.Name) and f.id == 'sorted' and len(node.args) == 1 and len(node.keywords) == 1 \
                and node.keywords[0].arg == 'reverse' and isinstance(node.keywords[0].value, ast.Constant) \
                and node.keywords[0].value.value is True:
            c, t = self.expr(node.args[0], env)
            if t != ('list', 'int'):
                raise Untranslatable(f'sorted(reverse=True) of {t}')
            return f'(Rt.sortedIntDesc {c})', t
        if node.keywords:
            raise Untranslatable('keyword arguments')
        if isinstance(f, ast.Name):
            name = f.id
            args = node.args
            if name == 'len' and len(args) == 1:
                c, t = self.expr(args[0], env)
                if t == 'sb':
                    return f'(Rt.sbLen {c})', 'int'
                if not is_seq(t):
                    raise Untranslatable('len of a non-sequence')
                return f'(Rt.len {c})', 'int'
            if name == 'str' and len(args) == 1:
                c, t = self.expr(args[0], env)
                if t == 'int':
                    return f'(Rt.strOfInt {c})', 'str'
                if t in ('str', 'char'):
                    return self.coerce(c, t, 'str'), 'str'
                raise Untranslatable(f'str() of {t}')
            if name == 'int' and len(args) == 1:
                c, t = self.expr(args[0], env)
                if t == 'char':
                    return self.hoist(f'(Rt.intOfChar Gen.intClasses {c})', 'int')
                if t == 'str':
                    return self.hoist(f'(Rt.intOfStr Gen.intClasses {c})', 'int')
                if t == 'int':
                    return c, 'int'
                if t == 'anyval':
                    return self.hoist(f'(Rt.anyInt Gen.intClasses {c})', 'int')
                if t == 'pyval':
                    return self.hoist(f'(Rt.pyvalInt Gen.intClasses {c})', 'int')
                if t == 'bytes':
                    return self.hoist(f'(Rt.pyvalInt Gen.intClasses (Rt.PyVal.bytes {c}))', 'int')
                raise Untranslatable(f'int() of {t}')
            if name == 'int' and len(args) == 2 and self.const_int(args[1]) == 16:
                c, t = self.expr(args[0], env)
                if t in ('str', 'char', 'asciibytes'):
                    return self.hoist(f'(Rt.intHex {self.coerce(c, "str" if t == "asciibytes" else t, "str")})', 'int')
                raise Untranslatable(f'int(_, 16) of {t}')
            if name == 'int' and len(args) == 2 and self.const_int(args[1]) == 2:
                c, t = self.expr(args[0], env)
                if t in ('str', 'char'):
                    return self.hoist(f'(Rt.intBin {self.coerce(c, t, "str")})', 'int')
                raise Untranslatable(f'int(_, 2) of {t}')
            if name == 'array' and len(args) == 2 and isinstance(args[0], ast.Constant) and args[0].value == 'B':
                c, t = self.expr(args[1], env)
                if t not in ('bytes', 'asciibytes'):
                    raise Untranslatable('array("B", x) of a non-bytes value')
                return c, 'bytes'       # an array of unsigned bytes: the same sequence
            if name == 'format' and len(args) == 2 and isinstance(args[1], ast.BinOp) and isinstance(args[1].op, ast.Add) \
                    and isinstance(args[1].right, ast.Constant) and args[1].right.value in ('d', 'f') \
                    and isinstance(args[1].left, ast.BinOp) and isinstance(args[1].left.op, ast.Add) \
                    and isinstance(args[1].left.left, ast.Constant) and args[1].left.left.value == '0' \
                    and isinstance(args[1].left.right, ast.Call) and isinstance(args[1].left.right.func, ast.Name) \
                    and args[1].left.right.func.id == 'str' and len(args[1].left.right.args) == 1:
                # format(n, '0' + str(w) + 'd'): zero-filled integer of width w (sign included);
                # format(d, '0' + str(w or '') + 'f'): zero-filled positional Decimal, no width when w is 0 / None
                c, t = self.expr(args[0], env)
                warg = args[1].left.right.args[0]
                kind = args[1].right.value
                if kind == 'f' and isinstance(warg, ast.BoolOp) and isinstance(warg.op, ast.Or) and len(warg.values) == 2 \
                        and isinstance(warg.values[1], ast.Constant) and warg.values[1].value == '':
                    w, wt = self.expr(warg.values[0], env)
                    if wt != 'int' or t != 'dec':
                        raise Untranslatable('decimal format with unexpected types')
                    return self.hoist(f'(Rt.fmtDecSpec {w} {c})', 'str')
                w, wt = self.expr(warg, env)
                if kind == 'd' and wt == 'int' and t == 'int':
                    return self.hoist(f'(Rt.fmtIntSpec {w} {c})', 'str')
                raise Untranslatable('format with a computed specification')
            if name == 'format' and len(args) == 2:
                c0, t0 = self.expr(args[0], env)
                if t0 == 'dt':
                    fc, ft = self.expr(args[1], env)
                    if ft != 'str':
                        raise Untranslatable('date format that is not a text')
                    return self.hoist(f'(Rt.formatDt {c0} {fc})', 'str')
            if name == 'format' and len(args) == 2 and isinstance(args[1], ast.BinOp) and isinstance(args[1].op, ast.Add) \
                    and isinstance(args[1].left, ast.Constant) and args[1].left.value in ('0', '<') \
                    and isinstance(args[1].right, ast.Call) and isinstance(args[1].right.func, ast.Name) \
                    and args[1].right.func.id == 'str' and len(args[1].right.args) == 1:
                # format(n, '0' + str(w)): zero-padded number; format(s, '<' + str(w)): text left-justified with blanks
                c, t = self.expr(args[0], env)
                w, wt = self.expr(args[1].right.args[0], env)
                if wt != 'int':
                    raise Untranslatable('format width is not an int')
                if args[1].left.value == '0' and t == 'int':
                    return f'(Rt.fmtIntW ({w}).toNat {c})', 'str'
                if args[1].left.value == '<' and t in ('str', 'char'):
                    return f'(Rt.fmtLeft {w} {self.coerce(c, t, "str")})', 'str'
                raise Untranslatable('format with a computed specification')
            if name == 'format' and len(args) == 2 and isinstance(args[1], ast.Constant) and args[1].value == 'x':
                c, t = self.expr(args[0], env)
                if t != 'int':
                    raise Untranslatable('format(_, "x") of a non-int')
                return f'(Rt.fmtHex {c})', 'str'
            if name == 'max' and len(args) == 2:
                a, ta = self.expr(args[0], env)
                b, tb = self.expr(args[1], env)
                if ta != 'int' or tb != 'int':
                    raise Untranslatable('max of non-ints')
                return f'(max {a} {b})', 'int'
            if name == 'divmod' and len(args) == 2:
                a, ta = self.expr(args[0], env)
                b, tb = self.expr(args[1], env)
                n = self.const_int(args[1])
                if ta != 'int' or tb != 'int' or n is None or n <= 0:
                    raise Untranslatable('divmod needs ints and a positive literal divisor')
                return f'(Rt.divmod {a} {b})', ('tuple', 'int', 'int')
            if name == 'sum' and len(args) == 1:
                c, t = self.expr(args[0], env)
                if t == ('tuple', 'int', 'int'):
                    return f'(Rt.sum2 {c})', 'int'
                if t == ('list', 'int'):
                    return f'(Rt.sumList {c})', 'int'
                raise Untranslatable(f'sum() of {t}')
            if name == 'zip' and len(args) == 2 and isinstance(args[1], ast.Call) and isinstance(args[1].func, ast.Name) \
                    and args[1].func.id == 'cycle' and len(args[1].args) == 1:
                a, ta = self.expr(args[0], env)
                b, tb = self.expr(args[1].args[0], env)
                if not (isinstance(ta, tuple) and ta[0] == 'list' and isinstance(tb, tuple) and tb[0] == 'list'):
                    raise Untranslatable('zip/cycle of non-lists')
                if not (isinstance(args[1].args[0], ast.List) and args[1].args[0].elts):
                    raise Untranslatable('cycle() of something that is not a non-empty list literal')
                return f'(Rt.zipCycle {a} {b})', ('list', ('tuple', ta[1], tb[1]))
            if name == 'sorted' and len(args) == 1:
                c, t = self.expr(args[0], env)
                if t != ('list', 'str'):
                    raise Untranslatable(f'sorted() of {t}')
                return f'(Rt.sortedStr {c})', t
            if name in ('hexlify', 'unhexlify') and len(args) == 1 and self.imports_from('binascii', name):
                # `from binascii import hexlify, unhexlify`: the same functions under their bare names
                return self.call(ast.copy_location(ast.Call(
                    func=ast.Attribute(value=ast.Name(id='binascii', ctx=ast.Load()), attr=name, ctx=ast.Load()),
                    args=list(args), keywords=[]), node), env)
            if name not in self.known and name in ALL_KNOWN and any(
                    isinstance(n, ast.ImportFrom) and n.module and n.module.startswith('cardutil')
                    and any(a.name == name and a.asname is None for a in n.names) for n in self.mod.body):
                # `from cardutil.<module> import name`: the function translated from that module
                self.known = dict(self.known, **{name: ALL_KNOWN[name]})
            if name in self.known and args:
                # a variant of the callee translated for a bytes first argument (`Name@bytes`)
                vkey = name + '@bytes'
                vfn = self.known.get(vkey) or ALL_KNOWN.get(vkey)
                if vfn is not None:
                    saved_p = list(self.pending)
                    try:
                        _, t0 = self.expr(args[0], env)
                    finally:
                        self.pending = saved_p
                    if t0 == 'bytes':
                        self.known = dict(self.known, **{vkey: vfn})
                        name = vkey
            if name in self.known:
                fn = self.known[name]
                if len(args) >= 1 and isinstance(args[-1], ast.Starred) and isinstance(fn.params[-1][1], tuple) \
                        and fn.params[-1][1][0] == 'list' and len(args) == len(fn.params):
                    args = list(args[:-1]) + [args[-1].value]         # f(a, *xs) for a callee whose last parameter is *xs
                if len(args) > len(fn.params):
                    raise Untranslatable('too many arguments')
                codes = []
                for i, (pn, pt) in enumerate(fn.params):
                    if i < len(args):
                        c, t = self.expr(args[i], env)
                        codes.append(self.coerce(c, t, pt))
                    elif pn in fn.defaults:
                        codes.append(self.expr(ast.Constant(fn.defaults[pn]), env)[0])
                    else:
                        raise Untranslatable('missing argument')
                # the external functions the callee takes are passed on: they become parameters of the caller as well
                pre = []
                for en, spec in fn.externs:
                    self.extern.setdefault(en, spec)
                    pre.append(f'ext{en}')
                if getattr(fn, 'uses_fuel', False):
                    # a callee with a `while` loop: the caller's fuel is handed on
                    pre = ['fuel'] + pre
                    self.uses_fuel = True
                code = f'({fn.name} ' + ' '.join(pre + codes) + ')'
                if fn.partial:
                    return self.hoist(code, fn.ret)
                return code, fn.ret
            raise Untranslatable(f'call of {name}')
        if isinstance(f, ast.Attribute) and f.attr == 'get' and isinstance(f.value, ast.Attribute) \
                and isinstance(f.value.value, ast.Name) and f.value.value.id == 'config' and f.value.attr == 'config' \
                and len(node.args) == 2 and isinstance(node.args[0], ast.Constant) \
                and node.args[0].value == 'MAX_VBS_RECORD_LENGTH':
            # the configured maximum: the value gen_tables.py read from /repo's configuration for this run
            return '((Gen.maxVbsRecordLength : Nat) : Int)', 'int'
        if isinstance(f, ast.Attribute):
            # the fused pattern  <bytes>.decode('<codec>').isnumeric()
            if f.attr == 'isnumeric' and not node.args and isinstance(f.value, ast.Call) \
                    and isinstance(f.value.func, ast.Attribute) and f.value.func.attr == 'decode' \
                    and len(f.value.args) == 1 and isinstance(f.value.args[0], ast.Constant) \
                    and f.value.args[0].value in NUMERIC_TABLES:
                c, t = self.expr(f.value.func.value, env)
                if t != 'bytes':
                    raise Untranslatable('decode of a non-bytes value')
                return f'(Rt.allIn {NUMERIC_TABLES[f.value.args[0].value]} {c})', 'bool'
            if isinstance(f.value, ast.Name) and f.value.id == 'struct' and f.attr == 'pack' and len(node.args) == 2 \
                    and isinstance(node.args[0], ast.Constant) and node.args[0].value == '>I':
                c, t = self.expr(node.args[1], env)
                if t != 'int':
                    raise Untranslatable('struct.pack of a non-int')
                return self.hoist(f'(Rt.packI {c})', 'bytes')
            if isinstance(f.value, ast.Name) and f.value.id == 'binascii' and f.attr in ('b2a_hex', 'hexlify') \
                    and len(node.args) == 1:
                c, t = self.expr(node.args[0], env)
                if t not in ('bytes', 'asciibytes'):
                    raise Untranslatable('hexlify of a non-bytes value')
                return f'(Rt.hexlify {c})', 'asciibytes'
            if isinstance(f.value, ast.Name) and f.value.id == 'binascii' and f.attr in ('a2b_hex', 'unhexlify') \
                    and len(node.args) == 1:
                c, t = self.expr(node.args[0], env)
                if t not in ('str', 'asciibytes', 'bytes'):      # (bytes: their values are read as character codes)
                    raise Untranslatable('unhexlify of something that is not text')
                return self.hoist(f'(Rt.unhexlify {c})', 'bytes')
            if f.attr == 'join' and isinstance(f.value, ast.Constant) and f.value.value == '' and len(node.args) == 1:
                c, t = self.expr(node.args[0], env)
                if t == ('list', 'char'):
                    return c, 'str'
                if t == ('list', 'str'):
                    return f'(Rt.joinStr {c})', 'str'
                raise Untranslatable(f'join of {t}')
            c, t = self.expr(f.value, env)
            if f.attr == 'tobytes' and not node.args and t == 'bytes':
                return c, 'bytes'
            if f.attr == 'isalpha' and not node.args and t == 'char':
                return f'(Rt.isAlphaAscii {c})', 'bool'
            if f.attr == 'isdigit' and not node.args and t == 'char':
                return f'(Gen.strDigits.contains {c})', 'bool'
            if f.attr == 'decode' and not node.args and t == 'asciibytes':
                return c, 'str'          # ASCII bytes (hex digits) decode to the same code points
            if f.attr == 'upper' and not node.args and t == 'asciibytes':
                return f'(Rt.upperAscii {c})', 'asciibytes'
            if f.attr == 'startswith' and len(node.args) == 1 and t == 'str':
                a, ta = self.expr(node.args[0], env)
                return f'(Rt.startsWith {c} {self.coerce(a, ta, "str")})', 'bool'
            raise Untranslatable(f'method {f.attr} on {t}')
        raise Untranslatable('call')

    def listcomp(self, node, env):
        if len(node.generators) != 1 or node.generators[0].is_async:
            raise Untranslatable('comprehension with several generators')
        g = node.generators[0]
        sc, st = self.expr(g.iter, env)
        if is_dict(st):
            sc, st = f'(Rt.dictKeys {sc})', ('list', 'str')
        et = elem_type(st)
        inner = dict(env)
        if isinstance(g.target, ast.Name):
            var = g.target.id
            inner[var] = (var, et)
            binder, opener = f'fun ({var} : {lean_type(et)}) => ', ''
        elif isinstance(g.target, ast.Tuple) and all(isinstance(e, ast.Name) for e in g.target.elts) \
                and isinstance(et, tuple) and et[0] == 'tuple' and len(et) - 1 == len(g.target.elts) == 2:
            a, b = g.target.elts[0].id, g.target.elts[1].id
            inner[a], inner[b] = (a, et[1]), (b, et[2])
            binder = f'fun (p : {lean_type(et)}) => '
            opener = f'let {a} := p.1; let {b} := p.2; '
        else:
            raise Untranslatable('comprehension target')
        for cnd in g.ifs:
            saved, self.pending = self.pending, []
            cc = self.cond(cnd, inner)
            binds, self.pending = self.pending, saved
            if binds:
                # a condition that may raise (d[k] inside it): the first failure ends the comprehension
                body = f'.ok {cc}'
                for v, code in reversed(binds):
                    body = f'Outcome.bind {code} (fun {v} => {body})'
                sc, _ = self.hoist(f'(Rt.filterO ({binder}{opener}{body}) {sc})', st if not is_dict(st) else ('list', 'str'))
            else:
                sc = f'(List.filter ({binder}{opener}{cc}) {sc})'
        saved, self.pending = self.pending, []
        ec, etype = self.expr(node.elt, inner)
        binds, self.pending = self.pending, saved
        if binds:
            if len(binds) == 1 and binds[0][0] == ec:
                body = binds[0][1]
            else:
                body = f'.ok {ec}'
                for v, code in reversed(binds):
                    body = f'Outcome.bind {code} (fun {v} => {body})'
            return self.hoist(f'(Outcome.mapO ({binder}{opener}{body}) {sc})', ('list', etype))
        return f'(List.map ({binder}{opener}{ec}) {sc})', ('list', etype)

    # ---- statements ----------------------------------------------------------------------
    def terminates(self, stmts):
        for s in stmts:
            if isinstance(s, (ast.Return, ast.Raise, ast.Break, ast.Continue)):
                return True
            if isinstance(s, ast.If) and s.orelse and self.terminates(s.body) and self.terminates(s.orelse):
                return True
        return False

    def wrap(self, body_fn):
        """run body_fn() collecting hoisted partial expressions, and wrap its result in their binds"""
        saved, self.pending = self.pending, []
        code = body_fn()
        binds, self.pending = self.pending, saved
        for v, c in reversed(binds):
            code = f'Outcome.bind {c} (fun {v} =>\n    {code})'
        return code

    @staticmethod
    def assigned(stmts):
        """names (re)bound by these statements, nested ifs included"""
        out = []

        def visit(st):
            if isinstance(st, ast.Assign):
                if isinstance(st.value, ast.Call) and isinstance(st.value.func, ast.Name) \
                        and st.value.func.id == '__source_read__':
                    out.append('self_in')
                if isinstance(st.value, ast.Call) and isinstance(st.value.func, ast.Name) \
                        and st.value.func.id == '__wrapped_value__':
                    out.append('*self*')
                if isinstance(st.value, ast.Call) and isinstance(st.value.func, ast.Attribute) \
                        and st.value.func.attr == 'pop' and isinstance(st.value.func.value, ast.Name):
                    out.append(st.value.func.value.id)
                for t in st.targets:
                    if isinstance(t, ast.Tuple):
                        out.extend(e.id for e in t.elts if isinstance(e, ast.Name))
                    if isinstance(t, ast.Name):
                        out.append(t.id)
                    elif isinstance(t, ast.Subscript) and isinstance(t.value, ast.Name):
                        out.append(t.value.id)
            elif isinstance(st, ast.AugAssign) and isinstance(st.target, ast.Name):
                out.append(st.target.id)
            elif isinstance(st, ast.Expr) and isinstance(st.value, ast.Call) and isinstance(st.value.func, ast.Attribute) \
                    and st.value.func.attr in ('append', 'update') and isinstance(st.value.func.value, ast.Name):
                out.append(st.value.func.value.id)
            elif isinstance(st, ast.Expr) and isinstance(st.value, ast.Call) and isinstance(st.value.func, ast.Name) \
                    and st.value.func.id in ('__self_call__', '__super_call__', '__file_write__', '__wrapped_call__'):
                out.append('*self*')          # the whole self state (expanded by state_of)
            elif isinstance(st, ast.If):
                for x in st.body + st.orelse:
                    visit(x)
            elif isinstance(st, (ast.While, ast.For)):
                for x in st.body:
                    visit(x)
        for st in stmts:
            visit(st)
        return out

    def state_of(self, body, env):
        found = []
        for n in self.assigned(body):
            found.extend(self.state_names if n == '*self*' else [n])
        names = [n for n in dict.fromkeys(found) if n in env]
        if not names:
            raise Untranslatable('loop that changes no variable')
        types = [env[n][1] for n in names]
        if len(names) == 1:
            return names, types, lean_type(types[0]), names[0], [(names[0], 'st')]
        tup = '(' + ' × '.join(lean_type(t) for t in types) + ')'
        value = '(' + ', '.join(names) + ')'
        proj = []
        for i, n in enumerate(names):
            path = 'st' + '.2' * i + ('.1' if i < len(names) - 1 else '')
            proj.append((n, path))
        return names, types, tup, value, proj

    def loop_end(self, loop, keep_going=True):
        kind, value = loop
        if kind == 'while':
            return f'.ok ({"true" if keep_going else "false"}, {value})'
        if kind == 'forret':
            return '.ok none'
        return f'.ok {value}'

    def stmts(self, stmts, env, ret, loop=None):
        if not stmts:
            if loop:
                return self.loop_end(loop)
            if self.self_state is not None:
                return self.stmts([ast.Return(value=self.self_state)], env, ret, None)
            if ret != 'none':
                raise Untranslatable('function can end without returning a value')
            return '.ok ()' if self.monadic else '()'
        s, rest = stmts[0], stmts[1:]
        if isinstance(s, ast.Expr) and isinstance(s.value, ast.Constant) and isinstance(s.value.value, str):
            return self.stmts(rest, env, ret, loop)           # docstring
        if isinstance(s, ast.Expr) and isinstance(s.value, ast.Call) and isinstance(s.value.func, ast.Attribute) \
                and isinstance(s.value.func.value, ast.Name) and s.value.func.value.id == 'LOGGER':
            return self.stmts(rest, env, ret, loop)           # logging has no effect on the result
        if isinstance(s, ast.Expr) and isinstance(s.value, ast.Call) and isinstance(s.value.func, ast.Attribute) \
                and s.value.func.attr == 'append' and isinstance(s.value.func.value, ast.Name) and len(s.value.args) == 1:
            name = s.value.func.value.id
            new = ast.Assign(targets=[ast.Name(name)], value=ast.BinOp(ast.Name(name), ast.Add(), ast.List([s.value.args[0]])))
            return self.stmts([new] + rest, env, ret, loop)
        if isinstance(s, ast.Expr) and isinstance(s.value, ast.Call) and isinstance(s.value.func, ast.Attribute) \
                and s.value.func.attr == 'update' and isinstance(s.value.func.value, ast.Name) and len(s.value.args) == 1 \
                and not s.value.keywords and is_dict(env.get(s.value.func.value.id, (None, None))[1]):
            # d.update(e): every entry of e set in d, in e's order
            name = s.value.func.value.id

            def go_upd():
                ec, et = self.expr(s.value.args[0], env)
                if et != env[name][1]:
                    ec, et = self.coerce(ec, et, env[name][1]), env[name][1]
                return f'let {name} : {lean_type(et)} := (Rt.dictUpdate {env[name][0]} {ec});\n  ' + self.stmts(rest, env, ret, loop)
            return self.wrap(go_upd)
        if isinstance(s, ast.Expr) and isinstance(s.value, ast.Call) and isinstance(s.value.func, ast.Name) \
                and s.value.func.id == '__file_write__':
            def go():
                ec, et = self.expr(s.value.args[0], env)
                ec = self.coerce(ec, et, 'bytes')
                return (f'let fw : (Bytes × Int) := (Rt.fwrite self_fdata self_fpos {ec});\n  '
                        f'let self_fdata : Bytes := fw.1;\n  let self_fpos : Int := fw.2;\n  '
                        + self.stmts(rest, env, ret, loop))
            return self.wrap(go)
        if isinstance(s, ast.Expr) and isinstance(s.value, ast.Call) and isinstance(s.value.func, ast.Name) \
                and s.value.func.id in ('__self_call__', '__super_call__', '__wrapped_call__'):
            # self.m(args) / super(...).m(args): the translated method (of this class / of its base class) on the current
            # state; the state it returns goes on.  self.<wrapped>.m(args): the translated method of the wrapped object's
            # class on the wrapped object's part of the state
            meth = s.value.args[0].value
            names = self.state_names
            if s.value.func.id == '__wrapped_call__':
                owner = self.wrapped[1]
                key = f'{owner}.{meth}' + (f'@{self.wrapped[2]}' if self.wrapped[2] else '')
                names = [wn for wn, _ in self.wrapped[3]]
            else:
                owner = self.cls if s.value.func.id == '__self_call__' else self.base_of(self.cls)
                key = f'{owner}.{meth}' + (f'@{self.variant}' if getattr(self, 'variant', None) else '')
            fn = self.known.get(key) or ALL_KNOWN.get(key)
            mname = fn.name if fn is not None else key
            if fn is None or self.self_state is None:
                raise Untranslatable(f'call of the untranslated method {mname}')
            if [t for _, t in fn.params[:len(names)]] != [env[n][1] for n in names]:
                raise Untranslatable(f'{mname} works on another state')
            for en, espec in fn.externs:
                if self.extern.get(en) != espec:
                    raise Untranslatable(f'{mname} takes the external function {en}, which this function does not have')
            extra = fn.params[len(names):]
            if len(extra) != len(s.value.args) - 1:
                raise Untranslatable(f'{mname}: argument count')

            def go_call():
                argcodes = []
                for (pn, pt), a in zip(extra, s.value.args[1:]):
                    ac, at = self.expr(a, env)
                    argcodes.append(self.coerce(ac, at, pt))
                args = ' '.join((['fuel'] if getattr(fn, 'uses_fuel', False) else []) + [f'ext{en}' for en, _ in fn.externs]
                                + list(names) + [f'({a})' for a in argcodes])
                if getattr(fn, 'uses_fuel', False):
                    self.uses_fuel = True
                opener = ''
                for i, n in enumerate(names):
                    path = 'sc' + '.2' * i + ('.1' if i < len(names) - 1 else '')
                    opener += f'let {n} := {path};\n  '
                if fn.partial:
                    if not self.monadic:
                        raise NeedMonad()
                    return f'Outcome.bind ({mname} {args}) (fun sc =>\n  {opener}' + self.stmts(rest, env, ret, loop) + ')'
                return f'let sc := ({mname} {args});\n  {opener}' + self.stmts(rest, env, ret, loop)
            return self.wrap(go_call)
        if isinstance(s, ast.AugAssign) and isinstance(s.target, ast.Name):
            new = ast.Assign(targets=[ast.Name(s.target.id)], value=ast.BinOp(ast.Name(s.target.id), s.op, s.value))
            return self.stmts([new] + rest, env, ret, loop)
        if isinstance(s, ast.Assign) and len(s.targets) == 1 and isinstance(s.targets[0], ast.Subscript) \
                and isinstance(s.targets[0].value, ast.Name):
            dname = s.targets[0].value.id

            def go():
                dc, dt = self.expr(ast.Name(dname), env)
                if isinstance(dt, tuple) and dt[0] == 'list':
                    # l[i] = v : IndexError outside the list
                    ic, it = self.expr(s.targets[0].slice, env)
                    vc, vt = self.expr(s.value, env)
                    if it != 'int' or vt != dt[1]:
                        raise Untranslatable('list item assignment with unexpected types')
                    if not self.monadic:
                        raise NeedMonad()
                    return (f'Outcome.bind (Rt.setItem {dc} {ic} {vc}) (fun {dname} =>\n  '
                            + self.stmts(rest, env, ret, loop) + ')')
                if not is_dict(dt):
                    raise Untranslatable('item assignment on a non-dict')
                kc, kt = self.expr(s.targets[0].slice, env)
                vc, vt = self.expr(s.value, env)
                code = f'(Rt.dictSet {dc} {self.coerce(kc, kt, "str")} {self.coerce(vc, vt, dt[2])})'
                return f'let {dname} : {lean_type(dt)} := {code};\n  ' + self.stmts(rest, env, ret, loop)
            return self.wrap(go)
        if isinstance(s, ast.Assign) and len(s.targets) == 1 and isinstance(s.targets[0], ast.Tuple) \
                and isinstance(s.value, ast.Tuple) and len(s.targets[0].elts) == len(s.value.elts) \
                and all(isinstance(t, ast.Name) for t in s.targets[0].elts):
            # a, b = x, y : evaluate the right-hand sides first, then bind
            tmps = [f'tup{i}_{self.tmp()}' for i in range(len(s.value.elts))]
            pre = [ast.Assign(targets=[ast.Name(id=t, ctx=ast.Store())], value=v) for t, v in zip(tmps, s.value.elts)]
            post = [ast.Assign(targets=[ast.Name(id=t.id, ctx=ast.Store())], value=ast.Name(id=tm, ctx=ast.Load()))
                    for t, tm in zip(s.targets[0].elts, tmps)]
            return self.stmts(pre + post + rest, env, ret, loop)
        if isinstance(s, ast.Assign) and len(s.targets) == 1 and isinstance(s.targets[0], ast.Name) \
                and isinstance(s.value, ast.Call) and isinstance(s.value.func, ast.Name) \
                and s.value.func.id == '__wrapped_value__':
            # x = self.<wrapped>.m(args): the value and the wrapped object's new state
            name = s.targets[0].id
            meth = s.value.args[0].value
            owner = self.wrapped[1]
            key = f'{owner}.{meth}' + (f'@{self.wrapped[2]}' if self.wrapped[2] else '')
            fn = self.known.get(key) or ALL_KNOWN.get(key)
            wnames = [wn for wn, _ in self.wrapped[3]]
            if fn is None or not (isinstance(fn.ret, tuple) and fn.ret[0] == 'tuple' and len(fn.ret) == 3):
                raise Untranslatable(f'call of the untranslated (or valueless) method {key}')
            if [t for _, t in fn.params[:len(wnames)]] != [env[n][1] for n in wnames] or fn.externs:
                raise Untranslatable(f'{key} works on another state')
            extra = fn.params[len(wnames):]
            if len(extra) != len(s.value.args) - 1:
                raise Untranslatable(f'{key}: argument count')

            def go_wv():
                argcodes = []
                for (pn, pt), a in zip(extra, s.value.args[1:]):
                    ac, at = self.expr(a, env)
                    argcodes.append(self.coerce(ac, at, pt))
                args = ' '.join((['fuel'] if getattr(fn, 'uses_fuel', False) else []) + wnames + [f'({a})' for a in argcodes])
                if getattr(fn, 'uses_fuel', False):
                    self.uses_fuel = True
                opener = f'let {name} : {lean_type(fn.ret[1])} := wv.1;\n  '
                for i, n in enumerate(wnames):
                    path = 'wv.2' + '.2' * i + ('.1' if i < len(wnames) - 1 else '')
                    opener += f'let {n} := {path};\n  '
                env2 = dict(env)
                env2[name] = (name, fn.ret[1])
                if fn.partial:
                    if not self.monadic:
                        raise NeedMonad()
                    return f'Outcome.bind ({fn.name} {args}) (fun wv =>\n  {opener}' + self.stmts(rest, env2, ret, loop) + ')'
                return f'let wv := ({fn.name} {args});\n  {opener}' + self.stmts(rest, env2, ret, loop)
            return self.wrap(go_wv)
        if isinstance(s, ast.Assign) and len(s.targets) == 1 and isinstance(s.targets[0], ast.Name) \
                and isinstance(s.value, ast.Call) and isinstance(s.value.func, ast.Name) \
                and s.value.func.id == '__source_read__':
            name = s.targets[0].id

            def go():
                nc, nt = self.expr(s.value.args[0], env)
                if nt != 'int':
                    raise Untranslatable('read() of the wrapped file with a size that is not an int')
                env2 = dict(env)
                env2[name] = (name, 'bytes')
                env2['self_in'] = ('self_in', 'bytes')
                lit = self.const_int(s.value.args[0])
                if lit is not None and lit > 0:
                    return (f'let {name} : Bytes := (Rt.slice self_in none (some {nc}));\n  '
                            f'let self_in : Bytes := (Rt.slice self_in (some {nc}) none);\n  '
                            + self.stmts(rest, env2, ret, loop))
                return (f'let {name} : Bytes := (Rt.readN self_in {nc}).1;\n  '
                        f'let self_in : Bytes := (Rt.readN self_in {nc}).2;\n  '
                        + self.stmts(rest, env2, ret, loop))
            return self.wrap(go)
        if isinstance(s, ast.Assign) and len(s.targets) == 1 and isinstance(s.targets[0], ast.Name) \
                and isinstance(s.value, ast.Call) and not s.value.args and not s.value.keywords \
                and ((isinstance(s.value.func, ast.Attribute) and s.value.func.attr == 'BitArray')
                     or (isinstance(s.value.func, ast.Name) and s.value.func.id == 'BitArray')):
            # x = BitArray(): an object that holds bytes (big-endian, the class default); empty until frombytes()
            env2 = dict(env)
            env2[s.targets[0].id] = (s.targets[0].id, 'bitarray')
            return f'let {s.targets[0].id} : Bytes := [];\n  ' + self.stmts(rest, env2, ret, loop)
        if isinstance(s, ast.Expr) and isinstance(s.value, ast.Call) and isinstance(s.value.func, ast.Attribute) \
                and s.value.func.attr == 'fromlist' and isinstance(s.value.func.value, ast.Name) \
                and env.get(s.value.func.value.id, (None, None))[1] == 'bitarray' and len(s.value.args) == 1:
            name = s.value.func.value.id

            def go_fl():
                fn = ALL_KNOWN.get('BitArray.fromlist')
                if fn is None:
                    raise Untranslatable('BitArray.fromlist is not translated')
                c, t = self.expr(s.value.args[0], env)
                if t != ('list', 'bool'):
                    raise Untranslatable('fromlist of something that is not a list of flags')
                if not self.monadic:
                    raise NeedMonad()
                return (f'Outcome.bind ({fn.name} {env[name][0]} {c}) (fun {name} =>\n  '
                        + self.stmts(rest, env, ret, loop) + ')')
            return self.wrap(go_fl)
        if isinstance(s, ast.Expr) and isinstance(s.value, ast.Call) and isinstance(s.value.func, ast.Attribute) \
                and s.value.func.attr == 'frombytes' and isinstance(s.value.func.value, ast.Name) \
                and env.get(s.value.func.value.id, (None, None))[1] == 'bitarray' and len(s.value.args) == 1:
            name = s.value.func.value.id

            def go_fb():
                c, t = self.expr(s.value.args[0], env)
                if t not in ('bytes', 'asciibytes'):
                    raise Untranslatable('frombytes of a non-bytes value')
                return f'let {name} : Bytes := {c};\n  ' + self.stmts(rest, env, ret, loop)
            return self.wrap(go_fb)
        if isinstance(s, ast.Assign) and len(s.targets) == 1 and isinstance(s.targets[0], ast.Tuple) \
                and len(s.targets[0].elts) == 3 and all(isinstance(t, ast.Name) for t in s.targets[0].elts) \
                and isinstance(s.value, ast.Call) and isinstance(s.value.func, ast.Attribute) \
                and isinstance(s.value.func.value, ast.Name) and s.value.func.value.id == 'struct' \
                and s.value.func.attr == 'unpack' and len(s.value.args) == 2 \
                and isinstance(s.value.args[0], ast.BinOp) and isinstance(s.value.args[0].right, ast.Constant) \
                and s.value.args[0].right.value == 's' and isinstance(s.value.args[0].left, ast.BinOp) \
                and isinstance(s.value.args[0].left.left, ast.Constant) \
                and re.fullmatch(r'(\d+)s(\d+)s', str(s.value.args[0].left.left.value)) \
                and isinstance(s.value.args[0].left.right, ast.Call) and isinstance(s.value.args[0].left.right.func, ast.Name) \
                and s.value.args[0].left.right.func.id == 'str' and len(s.value.args[0].left.right.args) == 1:
            # a, b, c = struct.unpack("<p>s<q>s" + str(n) + "s", data): three byte strings of p, q and n bytes; struct.error
            # unless n >= 0 and the data is exactly p + q + n bytes long
            m = re.fullmatch(r'(\d+)s(\d+)s', s.value.args[0].left.left.value)
            pw, qw = int(m.group(1)), int(m.group(2))
            names3 = [t.id for t in s.targets[0].elts]

            def go_unpack3():
                nc, nt = self.expr(s.value.args[0].left.right.args[0], env)
                dc, dt = self.expr(s.value.args[1], env)
                if nt != 'int' or dt not in ('bytes', 'asciibytes'):
                    raise Untranslatable('struct.unpack with unexpected argument types')
                v, _ = self.hoist(f'(Rt.unpack3 {pw} {qw} {nc} {dc})', ('tuple', 'bytes', ('tuple', 'bytes', 'bytes')))
                env2 = dict(env)
                for nm in names3:
                    env2[nm] = (nm, 'bytes')
                return (f'let {names3[0]} : Bytes := ({v}).1;\n  let {names3[1]} : Bytes := ({v}).2.1;\n  '
                        f'let {names3[2]} : Bytes := ({v}).2.2;\n  ' + self.stmts(rest, env2, ret, loop))
            return self.wrap(go_unpack3)
        if isinstance(s, ast.Expr) and isinstance(s.value, ast.Call) and isinstance(s.value.func, ast.Name) \
                and s.value.func.id == 'int' and len(s.value.args) == 1 and not s.value.keywords:
            # int(x) for its effect only (the check that x is a number)
            def go_intcheck():
                self.expr(s.value, env)
                return self.stmts(rest, env, ret, loop)
            return self.wrap(go_intcheck)
        if isinstance(s, ast.Assign) and len(s.targets) == 1 and isinstance(s.targets[0], ast.Tuple) \
                and isinstance(s.value, ast.Call) and len(s.targets[0].elts) == 2 \
                and all(isinstance(t, ast.Name) for t in s.targets[0].elts):
            # a, b = f(...): a call that returns a pair
            a, b = (t.id for t in s.targets[0].elts)

            def go_pair():
                c, t = self.expr(s.value, env)
                if not (isinstance(t, tuple) and t[0] == 'tuple' and len(t) == 3):
                    raise Untranslatable('pair assignment from something that is not a pair')
                env2 = dict(env)
                env2[a], env2[b] = (a, t[1]), (b, t[2])
                return (f'let {a} : {lean_type(t[1])} := ({c}).1;\n  let {b} : {lean_type(t[2])} := ({c}).2;\n  '
                        + self.stmts(rest, env2, ret, loop))
            return self.wrap(go_pair)
        if isinstance(s, ast.Assign) and len(s.targets) == 1 and isinstance(s.targets[0], ast.Name) \
                and isinstance(s.value, ast.Call) and isinstance(s.value.func, ast.Attribute) \
                and s.value.func.attr == 'pop' and isinstance(s.value.func.value, ast.Name) \
                and not s.value.args and not s.value.keywords \
                and isinstance(env.get(s.value.func.value.id, (None, None))[1], tuple) \
                and env[s.value.func.value.id][1][0] == 'list':
            # x = l.pop(): the last item, and the list without it; IndexError on an empty list
            if not self.monadic:
                raise NeedMonad()
            lname = s.value.func.value.id
            lt = env[lname][1]
            name = s.targets[0].id
            env2 = dict(env)
            env2[name] = (name, lt[1])
            env2[lname] = (lname, lt)
            body = self.stmts(rest, env2, ret, loop)
            return (f'Outcome.bind (Rt.popLast {env[lname][0]}) (fun pr =>\n  let {name} : {lean_type(lt[1])} := pr.1;\n'
                    f'  let {lname} : {lean_type(lt)} := pr.2;\n  {body})')
        if isinstance(s, ast.Assign) and len(s.targets) == 1 and isinstance(s.targets[0], ast.Name) \
                and isinstance(s.value, ast.Call) and isinstance(s.value.func, ast.Attribute) \
                and s.value.func.attr == '__next__' and isinstance(s.value.func.value, ast.Call) \
                and isinstance(s.value.func.value.func, ast.Name) and s.value.func.value.func.id == 'super' \
                and not s.value.args and getattr(self, 'signals', False):
            # x = super(...).__next__(): the translated base-class method on the current state; its StopIteration and its
            # library error are this method's as well, its return value and new state go on
            vsfx = f'@{self.variant}' if getattr(self, 'variant', None) else ''
            base = ALL_KNOWN.get('VbsReader.__next__' + vsfx)
            names = self.state_names
            if base is None or names[:2] != ['self_record_number', 'self_last_record'] \
                    or [t for _, t in base.params[:len(names)]] != [env[n][1] for n in names] or len(base.params) != len(names):
                raise Untranslatable('super().__next__() without the translated base method')
            if not self.monadic:
                raise NeedMonad()
            name = s.targets[0].id
            env2 = dict(env)
            env2[name] = (name, 'bytes')
            body = self.stmts(rest, env2, ret, loop)
            if getattr(base, 'uses_fuel', False):
                self.uses_fuel = True
            opener = ''
            for i, n in enumerate(names):
                path = 'r.2' + '.2' * i + ('.1' if i < len(names) - 1 else '')
                opener += f'    let {n} : {lean_type(env[n][1])} := {path};\n'
            call = ' '.join((['fuel'] if getattr(base, 'uses_fuel', False) else []) + names)
            return (f'Outcome.bind ({base.name} {call}) (fun sig =>\n'
                    f'  match sig with\n  | Rt.Signal.stop => .ok Rt.Signal.stop\n'
                    f'  | Rt.Signal.libError n c => .ok (Rt.Signal.libError n c)\n'
                    f'  | Rt.Signal.ret r =>\n    let {name} : Bytes := r.1;\n{opener}    {body})')
        if isinstance(s, ast.Try) and getattr(self, 'signals', False) and not s.orelse and not s.finalbody \
                and len(s.handlers) == 1 and len(s.body) == 1 and isinstance(s.body[0], ast.Assign) \
                and len(s.body[0].targets) == 1 and isinstance(s.body[0].targets[0], ast.Name) \
                and isinstance(s.handlers[0].type, ast.Name) and s.handlers[0].type.id == 'CardutilError' \
                and len(s.handlers[0].body) == 1 and isinstance(s.handlers[0].body[0], ast.Raise):
            # try: x = <external call>  except CardutilError as ex: raise MciIpmDataError(..., record_number=, binary_context_data=)
            # the library's own error (and only it) becomes this method's library-error signal; anything else escapes
            if not self.monadic:
                raise NeedMonad()
            name = s.body[0].targets[0].id
            saved, self.pending = self.pending, []
            c, t = self.expr(s.body[0].value, env)
            binds, self.pending = self.pending, saved
            if len(binds) != 1 or binds[0][0] != c:
                raise Untranslatable('guarded statement that is not one external call')
            call_code = binds[0][1]
            handler = self.stmts([s.handlers[0].body[0]], env, ret, loop)
            env2 = dict(env)
            env2[name] = (name, t)
            body = self.stmts(rest, env2, ret, loop)
            return (f'match {call_code} with\n  | Outcome.ok {name} =>\n    ({body})\n  | Outcome.dataError =>\n    ({handler})\n'
                    f'  | Outcome.escape k => .escape k\n  | Outcome.diverge => .diverge')
        if isinstance(s, ast.Assign) and len(s.targets) == 1 and isinstance(s.targets[0], ast.Name):
            if getattr(self, 'facts', None) and s.targets[0].id in self.facts:
                self.facts = {k: v for k, v in self.facts.items() if k != s.targets[0].id}
            name = s.targets[0].id

            def go():
                if (isinstance(s.value, (ast.Dict, ast.List)) and not (s.value.keys if isinstance(s.value, ast.Dict) else s.value.elts)) \
                        or (isinstance(s.value, ast.Call) and isinstance(s.value.func, ast.Name) and s.value.func.id == 'dict'
                            and not s.value.args and not s.value.keywords):
                    if name not in self.hints:
                        raise Untranslatable(f'empty literal assigned to {name} without a type hint')
                    c, t = '[]', self.hints[name]
                elif isinstance(s.value, ast.Dict) and name in self.hints and is_dict(self.hints[name]):
                    # a dict literal for a variable with a declared value type: each value is brought to that type
                    want = self.hints[name]
                    items = []
                    for k, v in zip(s.value.keys, s.value.values):
                        kc, kt = self.expr(k, env)
                        vc, vt = self.expr(v, env)
                        items.append(f'({self.coerce(kc, kt, "str")}, {self.coerce(vc, vt, want[2])})')
                    c, t = '[' + ', '.join(items) + ']', want
                else:
                    c, t = self.expr(s.value, env)
                    if name in self.hints and is_dict(self.hints[name]) and is_dict(t):
                        t = self.hints[name]
                env2 = dict(env)
                env2[name] = (name, t)
                return f'let {name} : {lean_type(t)} := {c};\n  ' + self.stmts(rest, env2, ret, loop)
            return self.wrap(go)
        if isinstance(s, ast.Expr) and isinstance(s.value, ast.Constant) and s.value.value == b'__end_try__':
            self.catching = None
            return self.stmts(rest, env, ret, loop)
        if isinstance(s, ast.Try) and not s.orelse and not s.finalbody and len(s.handlers) == 1 \
                and not (len(s.body) == 1 and isinstance(s.body[0], ast.Assign) and len(s.body[0].targets) == 1
                         and isinstance(s.body[0].targets[0], ast.Name)):
            # try: <several statements>  except (E, ...) as ex: raise <library data error>(...)
            # every partial operation of the guarded statements is wrapped in the catch; the statements after the `try`
            # follow a marker that switches the catch off again (branches of an `if` inside the body each carry it)
            CATCH2 = {'ValueError': 'valueError', 'UnicodeDecodeError': 'unicodeError', 'UnicodeError': 'unicodeError',
                      'error': 'structError', 'InvalidOperation': 'decimalError', 'Error': 'binasciiError'}
            h = s.handlers[0]
            types = h.type.elts if isinstance(h.type, ast.Tuple) else [h.type]
            names = [t.id if isinstance(t, ast.Name) else t.attr if isinstance(t, ast.Attribute) else None for t in types]
            if any(n not in CATCH2 for n in names):
                raise Untranslatable(f'except clause for {names}')
            hb = h.body
            if not (len(hb) == 1 and isinstance(hb[0], ast.Raise) and isinstance(hb[0].exc, ast.Call)
                    and isinstance(hb[0].exc.func, ast.Name)
                    and hb[0].exc.func.id in ('Iso8583DataError', 'MciIpmDataError', 'CardutilError')):
                raise Untranslatable('except body that is not a raise of the library error')
            if getattr(self, 'catching', None):
                raise Untranslatable('nested try')
            self.catching = [CATCH2[n] for n in names]
            try:
                marker = ast.Expr(value=ast.Constant(b'__end_try__'))
                return self.stmts(list(s.body) + [marker] + rest, env, ret, loop)
            except NeedMonad:
                self.catching = None
                raise
        if isinstance(s, ast.Try):
            # try: <name> = <expr>  except (E, ...) as ex: raise <library data error>(...)
            CATCH = {'ValueError': 'valueError', 'UnicodeDecodeError': 'unicodeError', 'UnicodeError': 'unicodeError',
                     'error': 'structError', 'InvalidOperation': 'decimalError'}
            if s.orelse or s.finalbody or len(s.handlers) != 1 or len(s.body) != 1 \
                    or not (isinstance(s.body[0], ast.Assign) and len(s.body[0].targets) == 1
                            and isinstance(s.body[0].targets[0], ast.Name)):
                raise Untranslatable('try statement of an unsupported shape')
            h = s.handlers[0]
            types = h.type.elts if isinstance(h.type, ast.Tuple) else [h.type]
            names = [t.id if isinstance(t, ast.Name) else t.attr if isinstance(t, ast.Attribute) else None for t in types]
            if any(n not in CATCH for n in names):
                raise Untranslatable(f'except clause for {names}')
            hb = h.body
            if not (len(hb) == 1 and isinstance(hb[0], ast.Raise) and isinstance(hb[0].exc, ast.Call)
                    and isinstance(hb[0].exc.func, ast.Name)
                    and hb[0].exc.func.id in ('Iso8583DataError', 'MciIpmDataError', 'CardutilError')):
                raise Untranslatable('except body that is not a raise of the library error')
            name = s.body[0].targets[0].id

            def go():
                self.catching = [CATCH[n] for n in names]
                try:
                    c, t = self.expr(s.body[0].value, env)
                finally:
                    self.catching = None
                env2 = dict(env)
                env2[name] = (name, t)
                return f'let {name} : {lean_type(t)} := {c};\n  ' + self.stmts(rest, env2, ret, loop)
            return self.wrap(go)
        if isinstance(s, ast.Return) and loop and loop[0] == 'forret':
            def go_ret():
                c, t = self.expr(s.value, env) if s.value is not None else ('()', 'none')
                return f'.ok (some {self.coerce(c, t, ret)})'
            return self.wrap(go_ret)
        if isinstance(s, ast.Return):
            if loop:
                raise Untranslatable('return inside a loop')

            def go():
                if s.value is not None and self.self_state is not None and getattr(self, 'self_value', False):
                    c, t = self.expr(ast.Tuple(elts=[s.value, self.self_state], ctx=ast.Load()), env)
                elif s.value is None and self.self_state is not None:
                    c, t = self.expr(self.self_state, env)
                elif s.value is None:
                    c, t = '()', 'none'
                else:
                    c, t = self.expr(s.value, env)
                if getattr(self, 'signals', False):
                    if not self.monadic:
                        raise NeedMonad()
                    return f'.ok (Rt.Signal.ret {c})'
                c = self.coerce(c, t, ret)
                return f'.ok {c}' if self.monadic else c
            return self.wrap(go)
        if isinstance(s, ast.Raise) and getattr(self, 'signals', False) and isinstance(s.exc, ast.Name) \
                and s.exc.id == 'StopIteration':
            if not self.monadic:
                raise NeedMonad()
            return '.ok Rt.Signal.stop'
        if isinstance(s, ast.Raise) and getattr(self, 'signals', False) and isinstance(s.exc, ast.Call) \
                and isinstance(s.exc.func, ast.Name) and s.exc.func.id == 'MciIpmDataError':
            if not self.monadic:
                raise NeedMonad()
            kw = {k.arg: k.value for k in s.exc.keywords if k.arg != 'original_exception'}
            if set(kw) != {'record_number', 'binary_context_data'}:
                raise Untranslatable('library error raised without record_number / binary_context_data')

            def go():
                rn, rt = self.expr(kw['record_number'], env)
                cx, ct = self.expr(kw['binary_context_data'], env)
                if rt != 'int' or ct not in ('bytes', 'asciibytes'):
                    raise Untranslatable('library error attributes of unexpected types')
                return f'.ok (Rt.Signal.libError {rn} {cx})'
            return self.wrap(go)
        if isinstance(s, ast.Raise):
            if not self.monadic:
                raise NeedMonad()
            exc = s.exc.func.id if isinstance(s.exc, ast.Call) and isinstance(s.exc.func, ast.Name) else \
                s.exc.id if isinstance(s.exc, ast.Name) else None
            if exc in ('Iso8583DataError', 'MciIpmDataError', 'CardutilError'):
                return '.dataError'            # the library's own data error (message text not modelled)
            if exc not in EXC:
                raise Untranslatable(f'raise of {exc}')
            return f'.escape .{EXC[exc]}'
        if isinstance(s, ast.Break):
            if not loop or loop[0] != 'while':
                raise Untranslatable('break outside a while loop')
            return self.loop_end(loop, keep_going=False)
        if isinstance(s, ast.Continue):
            if not loop:
                raise Untranslatable('continue outside a loop')
            return self.loop_end(loop)
        if isinstance(s, ast.If) and isinstance(s.test, ast.Call) and isinstance(s.test.func, ast.Name) \
                and s.test.func.id == 'isinstance' and len(s.test.args) == 2 and isinstance(s.test.args[0], ast.Name) \
                and isinstance(s.test.args[1], ast.Name) and s.test.args[1].id == 'bytes' \
                and env.get(s.test.args[0].id, (None, None))[1] == 'sb':
            # isinstance(v, bytes) on a str-or-bytes value: a match that narrows the type in each branch
            x = s.test.args[0].id
            envb, envs = dict(env), dict(env)
            envb[x], envs[x] = (x, 'bytes'), (x, 'str')
            then = self.stmts(s.body if self.terminates(s.body) else s.body + rest, envb, ret, loop)
            other = self.stmts(s.orelse + rest if not self.terminates(s.orelse) else s.orelse, envs, ret, loop)
            return f'match {env[x][0]} with\n  | Rt.SB.bytes {x} =>\n    ({then})\n  | Rt.SB.str {x} =>\n    ({other})'
        if isinstance(s, ast.If) and not s.orelse and isinstance(s.test, ast.UnaryOp) and isinstance(s.test.op, ast.Not) \
                and isinstance(s.test.operand, ast.Call) and isinstance(s.test.operand.func, ast.Name) \
                and s.test.operand.func.id == 'isinstance' and len(s.test.operand.args) == 2 \
                and isinstance(s.test.operand.args[0], ast.Name) \
                and env.get(s.test.operand.args[0].id, (None, None))[1] == 'anyval' \
                and isinstance(s.test.operand.args[1], ast.Attribute) and s.test.operand.args[1].attr == 'datetime' \
                and len(s.body) == 1 and isinstance(s.body[0], ast.Assign) and len(s.body[0].targets) == 1 \
                and isinstance(s.body[0].targets[0], ast.Name) and s.body[0].targets[0].id == s.test.operand.args[0].id:
            # if not isinstance(x, datetime.datetime): x = f(x)   — afterwards x is a datetime on both paths
            x = s.test.operand.args[0].id

            envd = dict(env)
            envd[x] = (x, 'dt')
            saved, self.pending = self.pending, []
            c, t = self.expr(s.body[0].value, env)
            binds, self.pending = self.pending, saved
            if t != 'dt':
                raise Untranslatable('conversion that does not give a datetime')
            after = self.stmts(rest, envd, ret, loop)
            other = f'let {x} : Py.DateTime := {c};\n  {after}'
            for v, cc in reversed(binds):
                other = f'Outcome.bind {cc} (fun {v} =>\n    {other})'
            return f'match {env[x][0]} with\n  | Rt.AnyVal.dt {x} =>\n    ({after})\n  | _ =>\n    ({other})'
        if isinstance(s, ast.If) and isinstance(s.test, ast.Compare) and len(s.test.ops) == 1 \
                and isinstance(s.test.ops[0], (ast.Eq, ast.NotEq)) and isinstance(s.test.left, ast.Constant) \
                and isinstance(s.test.comparators[0], ast.Constant):
            # a test between two literals (a class attribute compared with a literal): only the live branch exists
            same = s.test.left.value == s.test.comparators[0].value
            live = s.body if same == isinstance(s.test.ops[0], ast.Eq) else s.orelse
            return self.stmts(live + rest, env, ret, loop)
        tnode = s.test if isinstance(s, ast.If) else None
        neg = isinstance(tnode, ast.UnaryOp) and isinstance(tnode.op, ast.Not)
        tname = tnode.operand if neg else tnode
        if isinstance(s, ast.If) and isinstance(tname, ast.Name) and isinstance(env.get(tname.id, (None, None))[1], tuple) \
                and env[tname.id][1][0] == 'opt' and (env[tname.id][1][1] == 'str' or is_dict(env[tname.id][1][1])):
            # if not x: / if x: where x is None, or a text / a dictionary (an optional argument): None and the empty value
            # are false; in the branch where x is true it IS a (non-empty) text / dictionary
            def go_truthy():
                x = tname.id
                inner_t = env[x][1][1]
                guard = getattr(self, 'catching', None)
                env2 = dict(env)
                env2[x] = (f'{x}_v', inner_t)
                truthy_body, falsy_body = (s.orelse, s.body) if neg else (s.body, s.orelse)
                t_code = self.stmts(truthy_body if self.terminates(truthy_body) else truthy_body + rest, env2, ret, loop)
                self.catching = guard
                f_code = self.stmts(falsy_body if self.terminates(falsy_body) else falsy_body + rest, env, ret, loop)
                self.catching = guard
                return (f'match {env[x][0]} with\n  | some {x}_v =>\n    if (List.isEmpty {x}_v) then\n    ({f_code})\n  else\n    ({t_code})\n'
                        f'  | none =>\n    ({f_code})')
            return self.wrap(go_truthy)
        if isinstance(s, ast.If) and isinstance(s.test, ast.Compare) and len(s.test.ops) == 1 \
                and isinstance(s.test.ops[0], ast.Eq) and isinstance(s.test.left, ast.Name) \
                and env.get(s.test.left.id, (None, None))[1] == ('opt', 'str'):
            # if x == e: where x came from d.get(k) (a text or None) and e is a text: inside the branch x IS a text
            def go_narrow():
                x = s.test.left.id
                ec, et = self.expr(s.test.comparators[0], env)
                if et != 'str':
                    raise Untranslatable('comparison of an optional text with something that is not a text')
                guard = getattr(self, 'catching', None)
                env2 = dict(env)
                env2[x] = (f'{x}_v', 'str')
                then = self.stmts(s.body if self.terminates(s.body) else s.body + rest, env2, ret, loop)
                self.catching = guard
                other = self.stmts(s.orelse + rest if not self.terminates(s.orelse) else s.orelse, env, ret, loop)
                self.catching = guard
                return (f'match {env[x][0]} with\n  | some {x}_v =>\n    if {x}_v == {ec} then\n    ({then})\n  else\n    ({other})\n'
                        f'  | none =>\n    ({other})')
            return self.wrap(go_narrow)
        if isinstance(s, ast.If):
            # what is KNOWN about a name compared with text literals (`if p == 'ICC':` / `if p != 'ICC':`): inside the
            # branches the outcome of later comparisons of the same name with literals may already be decided — such a
            # test is not translated, only its live branch is (the name must not be assigned in between)
            facts = getattr(self, 'facts', {})
            t = s.test
            lit = isinstance(t, ast.Compare) and len(t.ops) == 1 and isinstance(t.ops[0], (ast.Eq, ast.NotEq)) \
                and isinstance(t.left, ast.Name) and isinstance(t.comparators[0], ast.Constant) \
                and isinstance(t.comparators[0].value, str) and env.get(t.left.id, (None, None))[1] == 'str'
            if lit:
                nm, const, is_eq = t.left.id, t.comparators[0].value, isinstance(t.ops[0], ast.Eq)
                fact = facts.get(nm)
                decided = None
                if fact and fact[0] == 'eq':
                    decided = (fact[1] == const) == is_eq
                elif fact and fact[0] == 'ne' and const in fact[1]:
                    decided = not is_eq
                if decided is not None:
                    live = s.body if decided else s.orelse
                    return self.stmts(live + rest if not self.terminates(live) else live, env, ret, loop)

            def go():
                c = self.cond(s.test, env)
                guard = getattr(self, 'catching', None)       # both branches start under the same `try` (if any)
                saved_facts = dict(facts)
                if lit:
                    ne_set = set(saved_facts.get(nm, ('ne', set()))[1]) if saved_facts.get(nm, ('ne',))[0] == 'ne' else set()
                    eq_fact, ne_fact = ('eq', const), ('ne', ne_set | {const})
                    self.facts = dict(saved_facts, **{nm: eq_fact if is_eq else ne_fact})
                then = self.stmts(s.body if self.terminates(s.body) else s.body + rest, env, ret, loop)
                self.catching = guard
                if lit:
                    self.facts = dict(saved_facts, **{nm: ne_fact if is_eq else eq_fact})
                other = self.stmts(s.orelse + rest if not self.terminates(s.orelse) else s.orelse, env, ret, loop)
                self.catching = guard
                self.facts = saved_facts
                return f'if {c} then\n    ({then})\n  else\n    ({other})'
            return self.wrap(go)
        if isinstance(s, (ast.While, ast.For)) and not s.orelse:
            if not self.monadic:
                raise NeedMonad()
            if loop:
                raise Untranslatable('nested loop')
            if isinstance(s, ast.For) and any(isinstance(n, ast.Return) for st in s.body for n in ast.walk(st)) \
                    and not [n for n in dict.fromkeys(self.assigned(s.body)) if n in env]:
                # a loop that changes nothing outside itself and may RETURN from the function: the state is "has it returned,
                # and what" — later iterations are skipped, and the statements after the loop run only if it did not
                def go_fr():
                    ic, it = self.expr(s.iter, env)
                    et = elem_type(it)
                    env2 = dict(env)
                    if isinstance(s.target, ast.Name):
                        env2[s.target.id] = (s.target.id, et)
                        binder, opener2 = f'({s.target.id} : {lean_type(et)})', ''
                    elif isinstance(s.target, ast.Tuple) and isinstance(et, tuple) and et[0] == 'tuple' and len(et) == 3 \
                            and len(s.target.elts) == 2 and all(isinstance(e, ast.Name) for e in s.target.elts):
                        a, b = s.target.elts[0].id, s.target.elts[1].id
                        env2[a], env2[b] = (a, et[1]), (b, et[2])
                        binder, opener2 = f'(p : {lean_type(et)})', f'let {a} := p.1; let {b} := p.2; '
                    else:
                        raise Untranslatable('loop target')
                    body = self.stmts(s.body, env2, ret, loop=('forret', None))
                    after = self.stmts(rest, env, ret, None)
                    rt = lean_type(ret)
                    return (f'Outcome.bind (Rt.forO (fun (st : Option {rt}) {binder} => {opener2}\n'
                            f'    match st with\n    | some r => .ok (some r)\n    | none =>\n    ({body}))\n'
                            f'    {ic} none) (fun st =>\n  match st with\n  | some r => .ok r\n  | none =>\n  ({after}))')
                return self.wrap(go_fr)
            names, types, tup, value, proj = self.state_of(s.body, env)
            opener = ''.join(f'let {n} := {path}; ' for n, path in proj)
            if isinstance(s, ast.While):
                self.uses_fuel = True
                saved, self.pending = self.pending, []
                test = self.cond(s.test, env)
                if self.pending:
                    raise Untranslatable('partial operation in a loop condition')
                self.pending = saved
                body = self.stmts(s.body, env, ret, loop=('while', value))
                after = self.stmts(rest, env, ret, None)
                return (f'Outcome.bind (Rt.whileO fuel (fun (st : {tup}) => {opener}{test})\n'
                        f'    (fun (st : {tup}) => {opener}\n    {body})\n    {value}) (fun st => {opener}\n  {after})')

            def go():
                ic, it = self.expr(s.iter, env)
                if is_dict(it):
                    ic, it = f'(Rt.dictKeys {ic})', ('list', 'str')
                et = elem_type(it)
                if not isinstance(s.target, ast.Name):
                    raise Untranslatable('loop target')
                env2 = dict(env)
                env2[s.target.id] = (s.target.id, et)
                body = self.stmts(s.body, env2, ret, loop=('for', value))
                after = self.stmts(rest, env, ret, None)
                return (f'Outcome.bind (Rt.forO (fun (st : {tup}) ({s.target.id} : {lean_type(et)}) => {opener}\n    {body})\n'
                        f'    {ic} {value}) (fun st => {opener}\n  {after})')
            return self.wrap(go)
        raise Untranslatable(f'statement {type(s).__name__}')


class SelfRewriter(ast.NodeTransformer):
    """turns a method body into a plain function body: `self.<field>` -> variable `self_<field>`,
    `self.<sink>.write(e)` -> `self_out = self_out + e`, `self.<CONST>` -> its literal"""

    def __init__(self, tr, cls, spec):
        self.tr, self.cls, self.spec = tr, cls, spec
        self.fields = [f for f, _ in spec['fields']]

    def visit_Subscript(self, node):
        sl = node.slice
        if isinstance(sl, ast.Attribute) and isinstance(sl.value, ast.Name) and sl.value.id == 'self' \
                and sl.attr not in self.fields:
            ab = self.tr.class_slice(self.cls, sl.attr)
            if ab is not None:
                # x[self.NAME] where the class says NAME = slice(a, b)
                return ast.copy_location(ast.Subscript(
                    value=self.visit(node.value),
                    slice=ast.Slice(lower=ast.Constant(ab[0]), upper=ast.Constant(ab[1]), step=None), ctx=node.ctx), node)
        return self.generic_visit(node)

    def visit_Attribute(self, node):
        if isinstance(node.value, ast.Name) and node.value.id == 'self':
            if node.attr in self.fields:
                return ast.copy_location(ast.Name(id=f'self_{node.attr}', ctx=node.ctx), node)
            return ast.copy_location(ast.Constant(self.tr.class_const(self.cls, node.attr)), node)
        return self.generic_visit(node)

    def visit_Call(self, node):
        f = node.func
        if isinstance(f, ast.Attribute) and isinstance(f.value, ast.Name) and f.value.id == 'self' \
                and self.spec.get('readonly') and f'{self.cls}.{f.attr}' in self.tr.known and not node.keywords:
            # self.m(args) where m is an already translated read-only method: the translated function on the same fields
            return ast.copy_location(ast.Call(
                func=ast.Name(id=f'{self.cls}.{f.attr}', ctx=ast.Load()),
                args=[ast.Name(id=f'self_{fl}', ctx=ast.Load()) for fl in self.fields] + [self.visit(a) for a in node.args],
                keywords=[]), node)
        if 'wrapped' in self.spec and isinstance(f, ast.Attribute) and isinstance(f.value, ast.Attribute) \
                and isinstance(f.value.value, ast.Name) and f.value.value.id == 'self' \
                and f.value.attr == self.spec['wrapped'][0] and not node.keywords:
            # self.<wrapped>.m(args) used for its value: the translated method of the wrapped object's class
            return ast.copy_location(ast.Call(func=ast.Name(id='__wrapped_value__', ctx=ast.Load()),
                                              args=[ast.Constant(f.attr)] + [self.visit(a) for a in node.args], keywords=[]), node)
        if isinstance(f, ast.Attribute) and f.attr == 'read' and isinstance(f.value, ast.Attribute) \
                and isinstance(f.value.value, ast.Name) and f.value.value.id == 'self' \
                and f.value.attr == self.spec.get('source') and len(node.args) == 1:
            return ast.copy_location(ast.Call(func=ast.Name(id='__source_read__', ctx=ast.Load()),
                                              args=[self.visit(node.args[0])], keywords=[]), node)
        return self.generic_visit(node)

    def visit_Expr(self, node):
        c = node.value
        if 'file' in self.spec and isinstance(c, ast.Call) and isinstance(c.func, ast.Attribute) \
                and isinstance(c.func.value, ast.Attribute) and isinstance(c.func.value.value, ast.Name) \
                and c.func.value.value.id == 'self' and c.func.value.attr == self.spec['file'] and len(c.args) == 1:
            arg = self.visit(c.args[0])
            if c.func.attr == 'write':
                return ast.Expr(value=ast.Call(func=ast.Name(id='__file_write__', ctx=ast.Load()), args=[arg], keywords=[]))
            if c.func.attr == 'seek':
                return ast.Assign(targets=[ast.Name(id='self_fpos', ctx=ast.Store())], value=arg)
        if 'wrapped' in self.spec and isinstance(c, ast.Call) and isinstance(c.func, ast.Attribute) \
                and isinstance(c.func.value, ast.Attribute) and isinstance(c.func.value.value, ast.Name) \
                and c.func.value.value.id == 'self' and c.func.value.attr == self.spec['wrapped'][0] and not c.keywords:
            return ast.Expr(value=ast.Call(func=ast.Name(id='__wrapped_call__', ctx=ast.Load()),
                                           args=[ast.Constant(c.func.attr)] + [self.visit(a) for a in c.args], keywords=[]))
        if isinstance(c, ast.Call) and isinstance(c.func, ast.Attribute) and isinstance(c.func.value, ast.Name) \
                and c.func.value.id == 'self' and not c.keywords:
            return ast.Expr(value=ast.Call(func=ast.Name(id='__self_call__', ctx=ast.Load()),
                                           args=[ast.Constant(c.func.attr)] + [self.visit(a) for a in c.args], keywords=[]))
        if isinstance(c, ast.Call) and isinstance(c.func, ast.Attribute) and isinstance(c.func.value, ast.Call) \
                and isinstance(c.func.value.func, ast.Name) and c.func.value.func.id == 'super' and not c.keywords:
            return ast.Expr(value=ast.Call(func=ast.Name(id='__super_call__', ctx=ast.Load()),
                                           args=[ast.Constant(c.func.attr)] + [self.visit(a) for a in c.args], keywords=[]))
        if 'sink' not in self.spec:
            return self.generic_visit(node)
        if isinstance(c, ast.Call) and isinstance(c.func, ast.Attribute) and c.func.attr == 'write' \
                and isinstance(c.func.value, ast.Attribute) and isinstance(c.func.value.value, ast.Name) \
                and c.func.value.value.id == 'self' and c.func.value.attr == self.spec['sink'] and len(c.args) == 1:
            arg = self.visit(c.args[0])
            return ast.Assign(targets=[ast.Name(id='self_out', ctx=ast.Store())],
                              value=ast.BinOp(ast.Name(id='self_out', ctx=ast.Load()), ast.Add(), arg))
        return self.generic_visit(node)


class FileParams(ast.NodeTransformer):
    """a plain function over an input and an output file object: `src.read(n)` takes the next bytes of `self_in`,
    `dst.write(e)` appends to `self_out`, `seek(0)` on either is dropped (the translation returns the content written)"""

    def __init__(self, src, dst):
        self.src, self.dst = src, dst

    def visit_Call(self, node):
        f = node.func
        if isinstance(f, ast.Attribute) and f.attr == 'read' and isinstance(f.value, ast.Name) and f.value.id == self.src \
                and len(node.args) == 1 and not node.keywords:
            return ast.copy_location(ast.Call(func=ast.Name(id='__source_read__', ctx=ast.Load()),
                                              args=[self.visit(node.args[0])], keywords=[]), node)
        return self.generic_visit(node)

    def visit_Expr(self, node):
        c = node.value
        if isinstance(c, ast.Call) and isinstance(c.func, ast.Attribute) and isinstance(c.func.value, ast.Name) \
                and c.func.value.id in (self.src, self.dst):
            if c.func.attr == 'seek' and len(c.args) == 1 and isinstance(c.args[0], ast.Constant) and c.args[0].value == 0:
                return None
            if c.func.attr == 'write' and c.func.value.id == self.dst and len(c.args) == 1:
                return ast.Assign(targets=[ast.Name(id='self_out', ctx=ast.Store())],
                                  value=ast.BinOp(ast.Name(id='self_out', ctx=ast.Load()), ast.Add(), self.visit(c.args[0])))
        return self.generic_visit(node)


CIPHER_SPEC = ([('key', 'bytes'), ('data', 'bytes')], 'bytes', True)


def cipher_idiom(body):
    """the three statements of an ECB call into the cipher library —
           c = Cipher(<module>.<ALG>(KEY), modes.ECB(), backend=...);  e = c.encryptor() | c.decryptor();
           ... e.update(DATA) + e.finalize() ...
    become one call `__cipher_<ALG>_<enc|dec>(KEY, DATA)` of an EXTERNAL function (a parameter of the translation: any
    function from key and data to bytes-or-exception).  Returns (new body, names of the external functions used)."""
    out, used, i = [], [], 0
    while i < len(body):
        st = body[i]
        ok = (i + 2 < len(body) + 0 and isinstance(st, ast.Assign) and len(st.targets) == 1 and isinstance(st.targets[0], ast.Name)
              and isinstance(st.value, ast.Call) and isinstance(st.value.func, ast.Name) and st.value.func.id == 'Cipher'
              and len(st.value.args) == 2 and isinstance(st.value.args[0], ast.Call)
              and isinstance(st.value.args[0].func, ast.Attribute) and len(st.value.args[0].args) == 1
              and isinstance(st.value.args[1], ast.Call) and isinstance(st.value.args[1].func, ast.Attribute)
              and st.value.args[1].func.attr == 'ECB')
        if ok and i + 2 < len(body):
            cname = st.targets[0].id
            alg = st.value.args[0].func.attr
            key = st.value.args[0].args[0]
            st2 = body[i + 1]
            ok2 = (isinstance(st2, ast.Assign) and len(st2.targets) == 1 and isinstance(st2.targets[0], ast.Name)
                   and isinstance(st2.value, ast.Call) and isinstance(st2.value.func, ast.Attribute)
                   and isinstance(st2.value.func.value, ast.Name) and st2.value.func.value.id == cname
                   and st2.value.func.attr in ('encryptor', 'decryptor') and not st2.value.args)
            if ok2:
                ename = st2.targets[0].id
                fname = f"__cipher_{alg}_{'enc' if st2.value.func.attr == 'encryptor' else 'dec'}"

                class Rw(ast.NodeTransformer):
                    hit = 0

                    def visit_BinOp(self, node):
                        l, r = node.left, node.right
                        if isinstance(node.op, ast.Add) and isinstance(l, ast.Call) and isinstance(l.func, ast.Attribute) \
                                and isinstance(l.func.value, ast.Name) and l.func.value.id == ename and l.func.attr == 'update' \
                                and len(l.args) == 1 and isinstance(r, ast.Call) and isinstance(r.func, ast.Attribute) \
                                and isinstance(r.func.value, ast.Name) and r.func.value.id == ename \
                                and r.func.attr == 'finalize' and not r.args:
                            Rw.hit += 1
                            return ast.copy_location(ast.Call(func=ast.Name(id=fname, ctx=ast.Load()),
                                                              args=[key, l.args[0]], keywords=[]), node)
                        return self.generic_visit(node)
                st3 = Rw().visit(__import__('copy').deepcopy(body[i + 2]))
                if Rw.hit == 1:
                    out.append(ast.fix_missing_locations(st3))
                    used.append(fname)
                    i += 3
                    continue
        out.append(st)
        i += 1
    return out, used


class ClsReturn(ast.NodeTransformer):
    """in a class method, `return cls(x, ...)` builds the new object from x: rendered as `return x`"""

    def visit_Return(self, node):
        v = node.value
        if isinstance(v, ast.Call) and isinstance(v.func, ast.Name) and v.func.id == 'cls' and v.args:
            return ast.copy_location(ast.Return(value=v.args[0]), node)
        return node


def fragment_of(body, spec):
    """('from', name): the statements from the first assignment to `name` on; ('until', name, result): the statements
    before the first assignment to `name`, followed by `return result`"""
    def assigns(st, name):
        return isinstance(st, ast.Assign) and any(isinstance(t, ast.Name) and t.id == name for t in st.targets)
    if spec[0] == 'if_span':
        # ('if_span', test, name, result): the statements from the first `if <test>:` (compared as source text) up to (not
        # including) the first assignment to `name` after it, followed by `return result`
        start = [i for i, st in enumerate(body) if isinstance(st, ast.If) and ast.unparse(st.test) == spec[1]]
        if not start:
            raise Untranslatable(f'no `if {spec[1]}:` to start the fragment at')
        stop = [i for i, st in enumerate(body) if i > start[0] and assigns(st, spec[2])]
        if not stop:
            raise Untranslatable(f'no assignment to {spec[2]} to end the fragment at')
        return body[start[0]:stop[0]] + [ast.Return(value=ast.parse(spec[3], mode='eval').body)]
    if spec[0] == 'between':
        # ('between', name, loopvar, result): the statements from the first assignment to `name` up to (not including) the
        # `for loopvar in ...` statement, followed by `return result`
        idx0 = [i for i, st in enumerate(body) if assigns(st, spec[1])]
        if not idx0:
            raise Untranslatable(f'no assignment to {spec[1]} to cut the fragment at')
        j = [i for i, st in enumerate(body) if isinstance(st, ast.For) and isinstance(st.target, ast.Name)
             and st.target.id == spec[2] and i > idx0[0]]
        if not j:
            raise Untranslatable(f'no loop over {spec[2]} to end the fragment at')
        return body[idx0[0]:j[0]] + [ast.Return(value=ast.parse(spec[3], mode='eval').body)]
    if spec[0] == 'while_step':
        # ('while_step', name, state): the FIRST `while True:` loop of the function, which starts with
        # `try: name = super().__next__()  except StopIteration: break`; the fragment is the statements after that `try`
        # for ONE record, with `name` and the loop's state as parameters, answering (state..., stop?) — `break` is
        # "stop", the end of the body is "go on"
        loops = [st for st in body if isinstance(st, ast.While)]
        if not loops or loops[0].orelse or not (isinstance(loops[0].test, ast.Constant) and loops[0].test.value is True):
            raise Untranslatable('no `while True:` loop')
        inner = loops[0].body
        first = inner[0] if inner else None
        ok = isinstance(first, ast.Try) and len(first.body) == 1 and assigns(first.body[0], spec[1]) \
            and len(first.handlers) == 1 and isinstance(first.handlers[0].type, ast.Name) \
            and first.handlers[0].type.id == 'StopIteration' and len(first.handlers[0].body) == 1 \
            and isinstance(first.handlers[0].body[0], ast.Break) and not first.orelse and not first.finalbody
        if ok:
            call = first.body[0].value
            ok = isinstance(call, ast.Call) and isinstance(call.func, ast.Attribute) and call.func.attr == '__next__' \
                and isinstance(call.func.value, ast.Call) and isinstance(call.func.value.func, ast.Name) \
                and call.func.value.func.id == 'super' and not call.args
        if not ok:
            raise Untranslatable(f'the loop does not start with try: {spec[1]} = super().__next__() except StopIteration: break')

        def result(stop):
            items = [ast.parse(n, mode='eval').body for n in spec[2]] + [ast.Constant(stop)]
            def nest(xs):
                return xs[0] if len(xs) == 1 else ast.Tuple(elts=[xs[0], nest(xs[1:])], ctx=ast.Load())
            return ast.Return(value=nest(items))

        class BreakRw(ast.NodeTransformer):
            def visit_Break(self, node):
                return ast.copy_location(result(True), node)

            def visit_While(self, node):
                raise Untranslatable('nested loop in the loop body')

            def visit_For(self, node):
                raise Untranslatable('nested loop in the loop body')

            def visit_Continue(self, node):
                raise Untranslatable('continue in the loop body')

            def visit_Return(self, node):
                raise Untranslatable('return in the loop body')
        import copy
        out = [BreakRw().visit(copy.deepcopy(st)) for st in inner[1:]] + [result(False)]
        return [ast.fix_missing_locations(st) for st in out]
    if spec[0] == 'while_body':
        # ('while_body', name): the function is `while True:` around `name = super(...).__next__()` and further statements;
        # the fragment is those further statements with `name` as a parameter, answering None when they end without
        # returning (= the loop goes round again)
        stmts = [st for st in body if not (isinstance(st, ast.Expr) and isinstance(st.value, ast.Constant))]
        if len(stmts) != 1 or not isinstance(stmts[0], ast.While) or stmts[0].orelse \
                or not (isinstance(stmts[0].test, ast.Constant) and stmts[0].test.value is True):
            raise Untranslatable('not a single `while True:` loop')
        inner = stmts[0].body
        first = inner[0] if inner else None
        if not (assigns(first, spec[1]) and isinstance(first.value, ast.Call) and isinstance(first.value.func, ast.Attribute)
                and first.value.func.attr == '__next__' and isinstance(first.value.func.value, ast.Call)
                and isinstance(first.value.func.value.func, ast.Name) and first.value.func.value.func.id == 'super'
                and not first.value.args):
            raise Untranslatable(f'the loop does not start with {spec[1]} = super().__next__()')
        for st in inner[1:]:
            for n in ast.walk(st):
                if isinstance(n, (ast.Break, ast.Continue)) or (isinstance(n, ast.Name) and n.id == 'super'):
                    raise Untranslatable('break / continue / super() in the loop body')
        return list(inner[1:]) + [ast.Return(value=ast.Constant(None))]
    idx = [i for i, st in enumerate(body) if assigns(st, spec[1])]
    if not idx:
        raise Untranslatable(f'no assignment to {spec[1]} to cut the fragment at')
    if spec[0] == 'from':
        return body[idx[0]:]
    if spec[0] == 'without':
        # ('without', name, loopvar): the function WITHOUT the statements from the first assignment to `name` up to (not
        # including) the `for loopvar in ...` statement
        j = [i for i, st in enumerate(body) if isinstance(st, ast.For) and isinstance(st.target, ast.Name)
             and st.target.id == spec[2] and i > idx[0]]
        if not j:
            raise Untranslatable(f'no loop over {spec[2]} to resume the fragment at')
        return body[:idx[0]] + body[j[0]:]
    return body[:idx[0]] + [ast.Return(value=ast.parse(spec[2], mode='eval').body)]


def translate_function(mod_ast, fdef, ptypes, ret, known, cls=None, opts=None):
    opts = opts or {}
    params, defaults = [], {}
    args = fdef.args
    if 'params' not in opts and (args.vararg or args.kwarg or args.kwonlyargs or args.posonlyargs):
        raise Untranslatable('argument kinds')
    arglist = list(args.args)
    lean_name = opts.get('lean_name', fdef.name)
    state_ast = None
    value_type = None
    signals = False
    body = fdef.body
    if 'fragment' in opts:
        body = fragment_of([st for st in body], opts['fragment'])
    if opts.get('loads_ext'):
        class LoadsRw(ast.NodeTransformer):
            def visit_Call(self, node):
                f = node.func
                if isinstance(f, ast.Attribute) and f.attr == 'loads' and isinstance(f.value, ast.Name) \
                        and f.value.id == 'iso8583' and len(node.args) == 1:
                    # the message decoder with the reader's own encoding and configuration: ONE external function of the record
                    return ast.copy_location(ast.Call(func=ast.Name(id='loads_ext', ctx=ast.Load()),
                                                      args=[self.visit(node.args[0])], keywords=[]), node)
                return self.generic_visit(node)
        body = [ast.fix_missing_locations(LoadsRw().visit(st)) for st in __import__('copy').deepcopy(list(body))]
    if opts.get('dumps_ext'):
        class DumpsRw(ast.NodeTransformer):
            def visit_Call(self, node):
                f = node.func
                if isinstance(f, ast.Attribute) and f.attr == 'dumps' and isinstance(f.value, ast.Name) \
                        and f.value.id == 'iso8583' and len(node.args) == 1:
                    # the message encoder with the writer's own encoding and configuration: ONE external function of the message
                    return ast.copy_location(ast.Call(func=ast.Name(id='dumps_ext', ctx=ast.Load()),
                                                      args=[self.visit(node.args[0])], keywords=[]), node)
                return self.generic_visit(node)
        body = [ast.fix_missing_locations(DumpsRw().visit(st)) for st in __import__('copy').deepcopy(list(body))]
    if opts.get('pkg_config'):
        class PkgRw(ast.NodeTransformer):
            def visit_Subscript(self, node):
                if isinstance(node.value, ast.Name) and node.value.id == 'config' and isinstance(node.slice, ast.Constant) \
                        and node.slice.value == 'bit_config' and isinstance(node.ctx, ast.Load):
                    # config['bit_config']: the packaged element table, a parameter of the translation
                    return ast.copy_location(ast.Name(id='pkg_bit_config', ctx=ast.Load()), node)
                return self.generic_visit(node)
        body = [ast.fix_missing_locations(PkgRw().visit(st)) for st in __import__('copy').deepcopy(list(body))]
    if opts.get('cipher'):
        body, used = cipher_idiom(list(body))
        if not used:
            raise Untranslatable('no call into the cipher library of the expected shape')
        opts = dict(opts)
        opts['extern'] = dict(opts.get('extern', {}), **{u: CIPHER_SPEC for u in used})
    if 'files' in opts:
        src, dst = opts['files']
        body = [FileParams(src, dst).visit(st) for st in __import__('copy').deepcopy(body)]
        body = [st for st in body if st is not None] + [ast.Return(value=ast.Name(id='self_out', ctx=ast.Load()))]
        ast.fix_missing_locations(ast.Module(body=body, type_ignores=[]))
    cls_spec = opts.get('spec') or SELF_STATE.get(cls, {})
    readonly = cls is not None and (opts.get('classmethod') or opts.get('readonly') or cls_spec.get('readonly'))
    if readonly:
        if opts.get('classmethod'):
            if not arglist or arglist[0].arg != 'cls':
                raise Untranslatable('class method without cls')
            body = [ClsReturn().visit(st) for st in __import__('copy').deepcopy(body)]
        else:
            if not arglist or arglist[0].arg != 'self' or not cls_spec:
                raise Untranslatable('method without a described self state')
            for f, t in cls_spec['fields']:
                params.append((f'self_{f}', t))
        arglist = arglist[1:]
        lean_name = opts.get('lean_name', f'{cls}_{fdef.name}'.replace('__', ''))
    if 'params' in opts:
        ptypes = dict(ptypes, **dict(opts['params']))        # (types given next to 'params' stay as hints for locals)
        arglist = [ast.arg(arg=n) for n, _ in opts['params']]
    if cls is not None and not readonly:
        if not arglist or arglist[0].arg != 'self' or not cls_spec:
            raise Untranslatable('method without a described self state')
        spec = cls_spec
        arglist = arglist[1:]
        for f, t in spec['fields']:
            params.append((f'self_{f}', t))
        names = [f'self_{f}' for f, _ in spec['fields']]
        if 'sink' in spec:
            params.append(('self_out', 'bytes'))
            names.append('self_out')
        if 'source' in spec:
            params.append(('self_in', 'bytes'))
            names.append('self_in')
        if 'file' in spec:
            params.append(('self_fdata', 'bytes'))
            params.append(('self_fpos', 'int'))
            names += ['self_fdata', 'self_fpos']
        if 'wrapped' in spec:
            # the wrapped object is another translated class: its state follows this object's own fields
            for wn, wt in spec['wrapped'][3]:
                params.append((wn, wt))
                names.append(wn)
        lean_name = opts.get('lean_name', f'{cls}_{fdef.name}'.replace('__', ''))

        def nest(items):
            return items[0] if len(items) == 1 else ast.Tuple(elts=[items[0], nest(items[1:])], ctx=ast.Load())

        def nest_t(ts):
            return ts[0] if len(ts) == 1 else ('tuple', ts[0], nest_t(ts[1:]))
        state_ast = nest([ast.Name(id=n, ctx=ast.Load()) for n in names])
        state_type = nest_t([t for _, t in params])
        value_type = ret
        ret = state_type if value_type in (None, 'none') else ('tuple', value_type, state_type)
        signals = bool(spec.get('signals'))
    for a in arglist:
        if a.arg not in ptypes:
            raise Untranslatable(f'no type for parameter {a.arg}')
        params.append((a.arg, ptypes[a.arg]))
    hints = {k: v for k, v in ptypes.items() if k not in [a.arg for a in arglist]}
    for a, d in zip(args.args[len(args.args) - len(args.defaults):], args.defaults):
        if 'params' in opts:
            break
        if not isinstance(d, ast.Constant):
            raise Untranslatable('non-literal default')
        defaults[a.arg] = d.value
    env = {n: (n, t) for n, t in params}
    extern = opts.get('extern', {})
    for monadic in (False, True):
        tr = Translator(mod_ast, known, hints)
        tr.extern = extern
        tr.monadic = monadic
        tr.uses_fuel = False
        tr.facts = {}
        tr.self_state = state_ast
        tr.self_value = cls is not None and value_type not in (None, 'none')
        tr.signals = signals
        tr.cls = cls
        tr.variant = opts.get('variant')
        tr.wrapped = cls_spec.get('wrapped') if cls is not None else None
        tr.state_names = [n for n, _ in params[:len(params) - len(arglist)]] if cls is not None else []
        use = body
        if cls is not None and not opts.get('classmethod'):
            import copy
            rw = SelfRewriter(tr, cls, cls_spec)
            use = [ast.fix_missing_locations(rw.visit(copy.deepcopy(st))) for st in body]
        try:
            code = tr.stmts(use, env, ret)
        except NeedMonad:
            continue
        sig = ' '.join(f'({n} : {lean_type(t)})' for n, t in params)
        for en, (eptypes, ert, epartial) in extern.items():
            et = ' → '.join(lean_type(pt) for _, pt in eptypes) + ' → ' + \
                (f'Outcome {lean_type(ert)}' if epartial else lean_type(ert))
            sig = f'(ext{en} : {et}) ' + sig
        if tr.uses_fuel:
            sig = '(fuel : Nat) ' + sig
        rt = lean_type(ret)
        if signals:
            rt = f'(Rt.Signal {rt})'
        rtype = f'Outcome {rt}' if monadic else rt
        text = f'def {lean_name} {sig} : {rtype} :=\n  {code}\n'
        fn_obj = Fn(lean_name, params, ret, monadic, defaults, list(reversed(list(extern.items()))))
        fn_obj.uses_fuel = tr.uses_fuel
        return text, fn_obj
    raise Untranslatable('could not translate')


def translate_all(repo=REPO):
    """returns (lean text of Gen/Src.lean, {function: 'ok' | reason})"""
    out = ['-- GENERATED by harness/pytrans.py from the Python source of /repo on every run -- do not edit',
           'import Cardutil.Py.Rt', 'import Cardutil.Gen.PyTables', 'import Cardutil.Gen.Limits', 'namespace Cardutil.Src',
           'open Cardutil Cardutil.Py', '']
    status = {}
    known_by_module = {}
    asts = {}
    for target in TARGETS:
        path, name, ptypes, ret = target[:4]
        opts = target[4] if len(target) > 4 else {}
        try:
            if path not in asts:
                asts[path] = ast.parse(open(os.path.join(repo, path)).read())
            mod = asts[path]
            cls = None
            scope = mod.body
            fname = name
            if '.' in name:
                cls, fname = name.split('.')
                cdefs = [n for n in mod.body if isinstance(n, ast.ClassDef) and n.name == cls]
                if len(cdefs) != 1:
                    raise Untranslatable('class not found')
                scope = cdefs[0].body
            fdefs = [n for n in scope if isinstance(n, ast.FunctionDef) and n.name == fname]
            if len(fdefs) != 1:
                raise Untranslatable('function not found (or defined more than once)')
            known = known_by_module.setdefault(path, {})
            if cls is not None and opts.get('static'):
                # a @staticmethod: a plain function that lives in a class body
                if not any(isinstance(d, ast.Name) and d.id == 'staticmethod' for d in fdefs[0].decorator_list):
                    raise Untranslatable('not a static method')
                opts = dict(opts)
                opts.setdefault('lean_name', f'{cls}_{fname}')
                cls = None
            text, fn = translate_function(mod, fdefs[0], ptypes, ret, known, cls, opts)
            key = name + ('@' + opts['variant'] if 'variant' in opts else '')
            known[key] = fn
            ALL_KNOWN[key] = fn
            what = f' (fragment {opts["fragment"]})' if 'fragment' in opts else ''
            out.append(f'/-- `{path}: {name}`{what} -/')
            out.append(text)
            status[opts.get('lean_name', name)] = 'ok'
        except (Untranslatable, SyntaxError, OSError) as ex:
            status[opts.get('lean_name', name)] = f'untranslatable: {ex}'
        except Exception as ex:  # noqa  — source of a shape the translator did not foresee: not translated, never a crash
            status[opts.get('lean_name', name)] = f'untranslatable: (translator: {type(ex).__name__}: {ex})'
    out += ['end Cardutil.Src', '']
    return '\n'.join(out), status


if __name__ == '__main__':
    text, status = translate_all()
    print(text)
    for k, v in status.items():
        print('--', k, v)
