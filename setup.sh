#!/bin/sh
# MANIFEST.setup_cmd: build the Lean library (models, lemmas, property theorems) and the driver.
# Offline; needs only lean/lake on PATH and /venv/bin/python.
set -e
cd "$(dirname "$0")"
export PYTHONDONTWRITEBYTECODE=1
/venv/bin/python -c "import sys; sys.path.insert(0,'.'); from harness import gen_tables; gen_tables.generate()"
cd lean
lake build Cardutil driver 2>&1 | grep -v '^⚠\|^✔\|^ℹ\|^warning\|^Note\|^Hint\|apply\]\|^$' | tail -40
# the source-tie modules (translated Python = model); a failure here is not fatal: the checks report it as
# "source tie not established" and fall back on the behavioural correspondence
lake build Cardutil.SrcTie.Card Cardutil.SrcTie.Misc Cardutil.SrcTie.Info Cardutil.SrcTie.Pds Cardutil.SrcTie.Block \
  Cardutil.SrcTie.Unblock Cardutil.SrcTie.Reader Cardutil.SrcTie.Writer Cardutil.SrcTie.RoundTrip Cardutil.SrcTie.Pin Cardutil.SrcTie.Bits Cardutil.SrcTie.Field Cardutil.SrcTie.Loop Cardutil.SrcTie.EncLoop Cardutil.SrcTie.Param Cardutil.SrcTie.Conv Cardutil.SrcTie.OneShot Cardutil.SrcTie.Keys Cardutil.SrcTie.IpmReader Cardutil.SrcTie.IpmRoundTrip Cardutil.SrcTie.ParamRow Cardutil.SrcTie.ParamIndex Cardutil.SrcTie.Carriers Cardutil.SrcTie.Blocked Cardutil.SrcTie.IpmBlocked Cardutil.SrcTie.Entry Cardutil.SrcTie.Value Cardutil.SrcTie.LoopRoundTrip Cardutil.SrcTie.FieldWhole 2>&1 | grep '^error' | head -10 || true
test -x .lake/build/bin/driver
echo ping | .lake/build/bin/driver | grep -q pong
echo "setup ok"
