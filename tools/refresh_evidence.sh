#!/bin/sh
# tools/refresh_evidence.sh — rewrite evidence/*.json from a quick run of every check on the CLEAN tree of /repo
# (refuses to run when /repo has local changes); run before committing
set -u
cd /verif
if [ -n "$(git -C /repo status --porcelain)" ]; then echo "/repo has local changes"; exit 2; fi
rc=0
for p in C01 C02 C03 C04 C05 C06 C07 C08 C09 C10 C11 C12 C13 C14 C15 C16 C17 C18 C19 C20; do
  ./check $p --tier quick 2>&1 | tail -1
done
python3 - <<'P'
import json, glob, sys
bad = [f for f in sorted(glob.glob('/verif/evidence/C*.json')) if json.load(open(f)).get('violations')]
print('evidence with violations:', bad)
sys.exit(1 if bad else 0)
P
