#!/bin/sh
# tools/battery_par.sh <scratch dir> seeded|harmless [seed] [shards] — tools/battery.sh in N parallel shards, each on its
# own copy of /verif and its own scratch worktree of /repo.  Logs: <scratch dir>/s<i>/<kind>.log (each ends with ALLDONE).
# Afterwards: for every shard `git -C /repo worktree remove --force <scratch dir>/s<i>/repo`, then rm -rf <scratch dir>
set -u
D="$1"; KIND="$2"; SEED="${3:-1}"; N="${4:-4}"
mkdir -p "$D"
i=0
while [ $i -lt $N ]; do
  S="$D/s$i"; mkdir -p "$S"
  rsync -a --exclude .git --exclude replays /verif/ "$S/verif/"
  git -C /repo worktree add --detach "$S/repo" HEAD >/dev/null 2>&1
  (
    export CARDUTIL_REPO="$S/repo" VERIF_SEED="$SEED"
    cd "$S/verif"
    LOG="$S/$KIND.log"; : > "$LOG"
    if [ "$KIND" = seeded ]; then
      k=0
      for d in seeded/C*; do
        k=$((k+1)); [ $((k % N)) -eq $i ] || continue
        n=$(basename $d); p=${n%%-*}
        ( cd "$S/repo" && git apply "$S/verif/$d/patch.diff" ) || { echo "$n patch does not apply" >> "$LOG"; continue; }
        out=$(timeout 1800 ./check $p --tier quick 2>&1); rc=$?
        git -C "$S/repo" checkout -- .
        echo "$n exit=$rc $(echo "$out" | grep -c '^VIOLATION') $(echo "$out" | tail -1)" >> "$LOG"
      done
    else
      k=0
      for d in seeded/harmless/H*; do
        k=$((k+1)); [ $((k % N)) -eq $i ] || continue
        n=$(basename $d)
        ( cd "$S/repo" && git apply "$S/verif/$d/patch.diff" ) || { echo "$n patch does not apply" >> "$LOG"; continue; }
        for p in C01 C02 C03 C04 C05 C06 C07 C08 C09 C10 C11 C12 C13 C14 C15 C16 C17 C18 C19 C20; do
          out=$(timeout 1800 ./check $p --tier quick 2>&1); rc=$?
          echo "$out" | grep -q "^VIOLATION" && echo "ALARM $n $p: $(echo "$out" | grep '^VIOLATION')" >> "$LOG"
          [ $rc -eq 0 ] || echo "  $n $p: exit=$rc $(echo "$out" | tail -1)" >> "$LOG"
        done
        git -C "$S/repo" checkout -- .
        echo "$n finished" >> "$LOG"
      done
    fi
    echo ALLDONE >> "$LOG"
  ) &
  i=$((i+1))
done
wait
