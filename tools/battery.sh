#!/bin/sh
# tools/battery.sh <scratch dir> seeded|harmless [seed] — run every stored seeded change (its property's quick check) or
# every stored harmless rewrite (all twenty quick checks) on a COPY of /verif and a scratch worktree of /repo, so that
# /repo and /verif stay free for other work.  Log: <scratch dir>/<kind>.log, ends with ALLDONE.
# Afterwards: git -C /repo worktree remove --force <scratch dir>/repo; rm -rf <scratch dir>
set -u
D="$1"; KIND="$2"; SEED="${3:-1}"
mkdir -p "$D"
rsync -a --exclude .git --exclude replays /verif/ "$D/verif/"
git -C /repo worktree add --detach "$D/repo" HEAD >/dev/null 2>&1
export CARDUTIL_REPO="$D/repo" VERIF_SEED="$SEED"
cd "$D/verif"
LOG="$D/$KIND.log"; : > "$LOG"
if [ "$KIND" = seeded ]; then
  for d in seeded/C*; do
    n=$(basename $d); p=${n%%-*}
    ( cd "$D/repo" && git apply "$D/verif/$d/patch.diff" ) || { echo "$n patch does not apply" >> "$LOG"; continue; }
    out=$(./check $p --tier quick 2>&1); rc=$?
    git -C "$D/repo" checkout -- .
    echo "$n exit=$rc $(echo "$out" | grep -c '^VIOLATION') $(echo "$out" | tail -1)" >> "$LOG"
  done
else
  for d in seeded/harmless/H*; do
    n=$(basename $d)
    ( cd "$D/repo" && git apply "$D/verif/$d/patch.diff" ) || { echo "$n patch does not apply" >> "$LOG"; continue; }
    for p in C01 C02 C03 C04 C05 C06 C07 C08 C09 C10 C11 C12 C13 C14 C15 C16 C17 C18 C19 C20; do
      out=$(./check $p --tier quick 2>&1); rc=$?
      echo "$out" | grep -q "^VIOLATION" && echo "ALARM $n $p: $(echo "$out" | grep '^VIOLATION')" >> "$LOG"
      [ $rc -eq 0 ] || echo "  $n $p: exit=$rc $(echo "$out" | tail -1)" >> "$LOG"
    done
    git -C "$D/repo" checkout -- .
    echo "$n finished" >> "$LOG"
  done
fi
echo ALLDONE >> "$LOG"
