import sys, importlib; sys.path.insert(0,'/verif')
from harness import common
name=sys.argv[1]
mod=importlib.import_module('harness.props.'+name)
run = common.Run(name.upper(),'quick',int(sys.argv[2]) if len(sys.argv)>2 else 0); run.use_model=True
mod.explore(run,'quick')
print(run.evaluations, 'mismatch', len(run.mismatches), 'viol', len(run.violations))
for m in run.mismatches[:6]:
    c=m['case']
    print('MM', str({k:v for k,v in c.items() if k not in ('cfg',)})[:300], '\n   impl', str(m['implementation'])[:300], '\n   model', str(m['model'])[:300])
seen=set()
for v in run.violations:
    w=v['why'][:60]
    if w in seen: continue
    seen.add(w); print('VV', v['why'][:300], str({k:vv for k,vv in v['case'].items() if k!='cfg'})[:200])
