#!/usr/bin/env python3
"""tools/keep_seed.py <Cxx> <worktree> <mutantdir> <name>

Confirms a seeded change independently (in the scratch worktree: the existing suite passes with it, the
demonstration fails with it and passes without it), runs the registered check against it (applied to /repo and
undone straight afterwards) and stores it under /verif/seeded/<name>/ with meta.json."""
import json
import os
import shutil
import subprocess
import sys

prop, wt, mdir, name = sys.argv[1:5]
env = dict(os.environ, PYTHONPATH=wt, PYTHONDONTWRITEBYTECODE='1')
patch = os.path.join(mdir, 'patch.diff')


def sh(cmd, cwd=None, env=env):
    p = subprocess.run(cmd, shell=True, cwd=cwd, env=env, capture_output=True, text=True)
    return p.returncode, (p.stdout + p.stderr)

ran = []
rc, out = sh('git status --short cardutil', cwd=wt)
assert out.strip() == '', 'worktree not clean: ' + out
rc0, out0 = sh(f'/venv/bin/python {mdir}/demo.py', cwd=wt)
ran.append(f'clean: demo.py -> exit {rc0}')
rc, out = sh(f'git apply {patch}', cwd=wt)
assert rc == 0, out
try:
    rct, outt = sh('/venv/bin/python -m pytest -q -p no:cacheprovider -x', cwd=wt)
    ran.append(f'mutant: pytest -> {outt.strip().splitlines()[-1]}')
    rc1, out1 = sh(f'/venv/bin/python {mdir}/demo.py', cwd=wt)
    ran.append(f'mutant: demo.py -> exit {rc1}')
finally:
    sh('git checkout -- cardutil', cwd=wt)
confirmed = rc0 == 0 and rc1 != 0 and rct == 0
# the registered check against the change
rc, out = sh(f'git apply {patch}', cwd='/repo', env=os.environ)
assert rc == 0, out
try:
    rcq, outq = sh(f'./check {prop} --tier quick', cwd='/verif', env=os.environ)
finally:
    sh('git checkout -- .', cwd='/repo', env=os.environ)
    sh('git checkout -- evidence', cwd='/verif', env=os.environ)     # evidence of a run on a CHANGED tree is not kept
lines = [l for l in outq.splitlines() if l.startswith('VIOLATION') or l.startswith(prop)]
ran.append(f'check: ./check {prop} --tier quick -> exit {rcq}: ' + ' / '.join(lines))
dest = os.path.join('/verif/seeded', name)
if confirmed:
    os.makedirs(dest, exist_ok=True)
    for f in ('patch.diff', 'demo.py', 'notes.md'):
        if os.path.exists(os.path.join(mdir, f)):
            shutil.copy(os.path.join(mdir, f), os.path.join(dest, f))
    notes = open(os.path.join(mdir, 'notes.md')).read() if os.path.exists(os.path.join(mdir, 'notes.md')) else ''
    meta = {'property': prop, 'name': name, 'source': 'independent sub-agent given only the property text and a scratch worktree',
            'needs_to_manifest': notes.strip().splitlines()[:12],
            'confirmed': {'suite_passes_with_change': rct == 0, 'demo_fails_with_change': rc1 != 0,
                          'demo_passes_without_change': rc0 == 0},
            'what_was_run': ran,
            'detected_by_quick_check': rcq == 1,
            'check_output': lines}
    json.dump(meta, open(os.path.join(dest, 'meta.json'), 'w'), indent=1)
print(name, 'confirmed' if confirmed else 'NOT CONFIRMED', '| detected' if rcq == 1 else '| MISSED', '|', '; '.join(ran[-1:]))
