#!/bin/sh
# tools/try_patch.sh <Cxx> <patch.diff> [tier]  — apply a seeded change to /repo, run the check, undo it
set -u
P="$1"; PATCH="$2"; TIER="${3:-quick}"
cd /repo && git apply "$PATCH" || { echo "patch does not apply"; exit 3; }
cd /verif && ./check "$P" --tier "$TIER" 2>&1 | tail -4
git -C /repo checkout -- . 
# the evidence files were rewritten by a run on a CHANGED tree: restore the committed ones
git -C /verif checkout -- evidence 2>/dev/null
