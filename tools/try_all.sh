#!/bin/sh
# tools/try_all.sh <patch.diff> — apply a change to /repo, run ALL quick checks, undo; prints one line per check
PATCH="$1"
cd /repo && git apply "$PATCH" || { echo "patch does not apply: $PATCH"; exit 3; }
cd /verif
for p in C01 C02 C03 C04 C05 C06 C07 C08 C09 C10 C11 C12 C13 C14 C15 C16 C17 C18 C19 C20; do
  out=$(./check $p --tier quick 2>&1)
  echo "$out" | grep -q "^VIOLATION" && echo "ALARM $p: $(echo "$out" | grep '^VIOLATION')" 
  echo "$out" | tail -1 | grep -q "status=0" || echo "  $p: $(echo "$out" | tail -1)"
done
git -C /repo checkout -- .
echo "done $PATCH"
