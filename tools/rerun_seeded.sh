#!/bin/sh
# tools/rerun_seeded.sh — apply every stored seeded change in turn, run its property's quick check, undo; one line each
cd /verif
for d in seeded/C*; do
  n=$(basename $d); p=${n%%-*}
  ( cd /repo && git apply /verif/$d/patch.diff ) || { echo "$n patch does not apply"; continue; }
  out=$(./check $p --tier quick 2>&1); rc=$?
  git -C /repo checkout -- .
  echo "$n exit=$rc $(echo "$out" | grep -c '^VIOLATION') $(echo "$out" | tail -1)"
done
