#!/usr/bin/env python3
"""Regenerates MANIFEST.json from the per-property table below (run from /verif)."""
import json
import os

HERE = os.path.dirname(os.path.dirname(os.path.abspath(__file__)))
ALL = [f'C{i:02d}' for i in range(1, 21)]

# id -> (technique, level text, level note, design ref)
CHECKS = {
    'C04': (
        "Lean 4 theorems (invariant by induction over all write histories) + behavioural correspondence of the model with Block1014/block_1014",
        "Machine-checked proof over an executable model: for every list of writes (any lengths, any count, empty writes) the "
        "finalised stream is a whole number of 1014-byte blocks with correct trailers whose payloads are exactly the data "
        "followed by 0x40 fill, and equals the one-shot blocking of the data up to one optional fill-only block "
        "(Props/C04.lean, 12 theorems, no hypotheses). The model is tied to /repo on every run by differential execution "
        "on every residue x boundary length (quick) / every length 0..3036 (thorough) plus random histories, with an "
        "independent oracle on the implementation's bytes.",
        "Trusted: Lean kernel; axioms propext/Classical.choice/Quot.sound; hand-written model of Block1014 (validated by the "
        "correspondence, sampled outside the enumerated sub-space); underlying file object appends (BytesIO).",
        "DESIGN.md §8 C04"),
    'C05': (
        "Lean 4 theorems (refinement of Unblock1014.read to take/drop on the payload stream, for all read histories; simulation for record reading) + behavioural correspondence",
        "Machine-checked proof over an executable model: for every file content and every history of sized / unsized reads, "
        "the unblocker returns the successive slices of the payload stream (Props/C05.lean C05_reads), record reading "
        "through the unblocker equals record reading of the payload stream (C05_records, by simulation), and the one-shot "
        "unblocker succeeds exactly on well-blocked input, inverting the blocker up to fill (C05_unblock_*). Tied to /repo by "
        "differential execution over every delivered-residue x next-size pair (boundary set quick, all sizes thorough), "
        "no-size reads, truncated files and every trailer corruption, plus an independent oracle.",
        "Trusted: Lean kernel; standard axioms; hand-written model of Unblock1014.read/unblock_1014 validated by the "
        "correspondence; the wrapped file returns full 1014-byte reads until EOF.",
        "DESIGN.md §8 C05"),
    'C03': (
        "Lean 4 theorems (byte-exact layout of writer output; read(write(recs)) = recs by induction over the record list, blocked case through the C04/C05 theorems) + behavioural correspondence",
        "Machine-checked proof over executable models of VbsWriter, VbsReader, Block1014, Unblock1014 and the file object: "
        "for every list of non-empty records up to the maximum length, the unblocked file is exactly (be32 length ++ record)* "
        "++ 00000000, the blocked file is well-blocked with that stream as payload, and reading returns exactly the records "
        "(Props/C03.lean). Tied to /repo by differential execution on all 6000 single-record lengths x both formats, "
        "boundary multi-record files, special contents and random lists through class API, write_many/with, and the "
        "list/bytes convenience functions, with an independent layout oracle.",
        "Trusted: Lean kernel; standard axioms; hand-written models validated by the correspondence; struct.pack('>I') as 4 "
        "base-256 digits (< 2^32); MAX_VBS_RECORD_LENGTH re-translated from /repo each run.",
        "DESIGN.md §8 C03"),
    'C09': (
        "Lean 4 theorems (for every cut offset n, reading file.take n yields recs.take j with j characterised by the surviving payload, ending eof or library error) + behavioural correspondence over every cut of each generated file",
        "Machine-checked proof: for every record list and EVERY truncation offset (unbounded), unblocked and blocked, the "
        "reader yields exactly the records wholly contained in the surviving bytes and then ends or raises the library error "
        "with the number of the incomplete record (Props/C09.lean; blocked case via payloads(take n) = take (surv n) payloads). "
        "Tied to /repo by running VbsReader on every cut offset of each generated file against the model and an "
        "independent count of whole records.",
        "Trusted: as C03.",
        "DESIGN.md §8 C09"),
    'C11': (
        "Lean 4 theorems (any non-empty finalisation history = one close, by induction over the history; read-back via C03) + behavioural correspondence over all histories up to length 4/6 on BytesIO and real files",
        "Machine-checked proof over the writer model with file-position semantics: every non-empty sequence of close()/exit "
        "leaves the writer state of a single close (Props/C11.lean), hence the file reads back as the records written. The "
        "model's finalised flag mirrors the implementation's; the tie is differential execution of every finalisation string "
        "x record sets x {VbsWriter, IpmWriter} x {VBS, 1014} on BytesIO and real files, plus a read-back oracle.",
        "Trusted: as C03; real-file glue (open/flush) is exercised, not modelled.",
        "DESIGN.md §8 C11"),
}


def main():
    path = os.path.join(HERE, 'MANIFEST.json')
    m = json.load(open(path))
    m['checks'] = []
    for pid in ALL:
        if pid not in CHECKS:
            continue
        tech, text, note, ref = CHECKS[pid]
        m['checks'].append({
            'property_id': pid,
            'quick_cmd': f'./check {pid} --tier quick',
            'thorough_cmd': f'./check {pid} --tier thorough',
            'evidence_file': f'evidence/{pid}.json',
            'replay_cmd_template': f'./check {pid} --replay {{path}}',
            'engine': 'lean-model',
            'level_claimed': {'category': 'proof', 'text': text, 'design_ref': ref},
            'level_note': note,
            'technique': tech,
        })
    m['not_applicable'] = [
        {'property_id': pid, 'reason': 'not claimed yet: model/theorems/correspondence for this property are still being '
                                       'built in this session (planned in DESIGN.md §8); the technique applies'}
        for pid in ALL if pid not in CHECKS]
    for e in m.get('engines', []):
        e['serves_properties'] = sorted(CHECKS)
    json.dump(m, open(path, 'w'), indent=1)
    print('checks:', sorted(CHECKS))


if __name__ == '__main__':
    main()
