#!/usr/bin/env python3
"""Regenerates MANIFEST.json from the per-property table below (run from /verif)."""
import json
import os

HERE = os.path.dirname(os.path.dirname(os.path.abspath(__file__)))
ALL = [f'C{i:02d}' for i in range(1, 21)]

# id -> (technique, level text, level note, design ref)
CHECKS = {
    'C04': (
        "Lean 4 theorems (invariant by induction over all write histories) + behavioural correspondence of the model with Block1014/block_1014",
        "Machine-checked proof over an executable model: for every list of writes (any lengths, any count, empty writes) the "
        "finalised stream is a whole number of 1014-byte blocks with correct trailers whose payloads are exactly the data "
        "followed by 0x40 fill, and equals the one-shot blocking of the data up to one optional fill-only block "
        "(Props/C04.lean, 12 theorems, no hypotheses). The model is tied to /repo on every run by differential execution "
        "on every residue x boundary length (quick) / every length 0..3036 (thorough) plus random histories, with an "
        "independent oracle on the implementation's bytes. In addition a SOURCE TIE: harness/pytrans.py translates the current Python text of Block1014.write / finalise (methods, self made explicit) and of the one-shot functions block_1014 / unblock_1014 into Lean (Gen/Src.lean) on every run and lean/Cardutil/SrcTie/Block.lean, OneShot.lean prove, for all inputs, that the translation equals the model (and restate the property for the translated code: C04_source, C04_source_oneshot); when the source changes so that this no longer checks, the check runs its thorough generators before answering (the correspondence remains the deciding tie).",
        "Trusted: Lean kernel; axioms propext/Classical.choice/Quot.sound; hand-written model of Block1014 (validated by the "
        "correspondence, sampled outside the enumerated sub-space); underlying file object appends (BytesIO).",
        "DESIGN.md §8 C04"),
    'C05': (
        "Lean 4 theorems (refinement of Unblock1014.read to take/drop on the payload stream, for all read histories; simulation for record reading) + behavioural correspondence",
        "Machine-checked proof over an executable model: for every file content and every history of sized / unsized reads, "
        "the unblocker returns the successive slices of the payload stream (Props/C05.lean C05_reads), record reading "
        "through the unblocker equals record reading of the payload stream (C05_records, by simulation), and the one-shot "
        "unblocker succeeds exactly on well-blocked input, inverting the blocker up to fill (C05_unblock_*). Tied to /repo by "
        "differential execution over every delivered-residue x next-size pair (boundary set quick, all sizes thorough), "
        "no-size reads, truncated files and every trailer corruption, plus an independent oracle. In addition a SOURCE TIE: harness/pytrans.py translates the current Python text of Unblock1014.read (method, self made explicit) into Lean (Gen/Src.lean) on every run and lean/Cardutil/SrcTie/Unblock.lean proves, for all inputs, that the translation equals the model (and restates the property for the translated code); when the source changes so that this no longer checks, the check runs its thorough generators before answering (the correspondence remains the deciding tie).",
        "Trusted: Lean kernel; standard axioms; hand-written model of Unblock1014.read/unblock_1014 validated by the "
        "correspondence; the wrapped file returns full 1014-byte reads until EOF.",
        "DESIGN.md §8 C05"),
    'C03': (
        "Lean 4 theorems (byte-exact layout of writer output; read(write(recs)) = recs by induction over the record list, blocked case through the C04/C05 theorems) + behavioural correspondence",
        "Machine-checked proof over executable models of VbsWriter, VbsReader, Block1014, Unblock1014 and the file object: "
        "for every list of non-empty records up to the maximum length, the unblocked file is exactly (be32 length ++ record)* "
        "++ 00000000, the blocked file is well-blocked with that stream as payload, and reading returns exactly the records "
        "(Props/C03.lean). Tied to /repo by differential execution on all 6000 single-record lengths x both formats, "
        "boundary multi-record files, special contents and random lists through class API, write_many/with, and the "
        "list/bytes convenience functions, with an independent layout oracle. In addition a SOURCE TIE: harness/pytrans.py translates the current Python text of Block1014.write / finalise, VbsWriter.write / write_many / close / __exit__ and VbsReader.__next__ (methods, self made explicit) into Lean (Gen/Src.lean) on every run and lean/Cardutil/SrcTie/Block.lean, Writer.lean, Reader.lean, RoundTrip.lean prove, for all inputs, that the translation equals the model and restate the property for the translated writer AND reader (C03_source_roundtrip, C03_source_write_many_roundtrip: write the records one by one or through write_many, close, iterate the reader — the records come back, then end of data); the BLOCKED format as well: Block1014.write / finalise / seek translated over a file (data + position), VbsWriter.write / close translated with out_file being such a Block1014 object, VbsReader.__next__ translated with vbs_data being an Unblock1014 object, and lean/Cardutil/SrcTie/Blocked.lean proves them equal to the model's blocked writer and reader and C03_source_roundtrip_blocked for the translated code at both ends; when the source changes so that this no longer checks, the check runs its thorough generators before answering (the correspondence remains the deciding tie).",
        "Trusted: Lean kernel; standard axioms; hand-written models validated by the correspondence; struct.pack('>I') as 4 "
        "base-256 digits (< 2^32); MAX_VBS_RECORD_LENGTH re-translated from /repo each run.",
        "DESIGN.md §8 C03"),
    'C09': (
        "Lean 4 theorems (for every cut offset n, reading file.take n yields recs.take j with j characterised by the surviving payload, ending eof or library error) + behavioural correspondence over every cut of each generated file",
        "Machine-checked proof: for every record list and EVERY truncation offset (unbounded), unblocked and blocked, the "
        "reader yields exactly the records wholly contained in the surviving bytes and then ends or raises the library error "
        "with the number of the incomplete record (Props/C09.lean; blocked case via payloads(take n) = take (surv n) payloads). "
        "Tied to /repo by running VbsReader on every cut offset of each generated file against the model and an "
        "independent count of whole records. In addition a SOURCE TIE: harness/pytrans.py translates the current Python text of VbsReader.__next__ (raises rendered as results) into Lean (Gen/Src.lean) on every run and lean/Cardutil/SrcTie/Reader.lean proves, for all inputs, that the translation equals the model (and restates the property for the translated code); when the source changes so that this no longer checks, the check runs its thorough generators before answering (the correspondence remains the deciding tie).",
        "Trusted: as C03.",
        "DESIGN.md §8 C09"),
    'C11': (
        "Lean 4 theorems (any non-empty finalisation history = one close, by induction over the history; read-back via C03) + behavioural correspondence over all histories up to length 4/6 on BytesIO and real files",
        "Machine-checked proof over the writer model with file-position semantics: every non-empty sequence of close()/exit "
        "leaves the writer state of a single close (Props/C11.lean), hence the file reads back as the records written. The "
        "model's finalised flag mirrors the implementation's; the tie is differential execution of every finalisation string "
        "x record sets x {VbsWriter, IpmWriter} x {VBS, 1014} on BytesIO and real files, plus a read-back oracle. In addition a SOURCE TIE: harness/pytrans.py translates the current Python text of VbsWriter.write / close / __exit__ (methods over a file = data + position) into Lean (Gen/Src.lean) on every run and lean/Cardutil/SrcTie/Writer.lean proves, for all inputs, that the translation equals the model (and restates the property for the translated code: C11_source); the BLOCKED writer is translated as well (VbsWriter.write / close / __exit__ over a translated Block1014 whose wrapped object is a file) and lean/Cardutil/SrcTie/Blocked.lean proves C11_source_blocked — any non-empty history of close() / __exit__ on a blocked writer leaves exactly the model's closed file, a second finalisation writes nothing; when the source changes so that this no longer checks, the check runs its thorough generators (time-boxed) before answering (the correspondence remains the deciding tie).",
        "Trusted: as C03; real-file glue (open/flush) is exercised, not modelled.",
        "DESIGN.md §8 C11"),
    'C13': (
        "Lean 4 theorems (block = ISO 9564 nibble layout XOR PAN field via a proved nibble-wise-XOR = integer-XOR lemma; read-back = PIN; abstract cipher inverse) + behavioural correspondence + from-scratch DES reference",
        "Machine-checked proof over a model that follows the code's string formatting and integer arithmetic: for EVERY PIN of "
        "4..12 digits, PAN of >= 13 digits and 64-bit fill, the format-0 block's nibbles are (0,L,PIN,F..) XOR (0000, 12 PAN "
        "digits) with L one hex digit, the format-4 block is (4,L,PIN,A..,random), rebuilding returns the PIN, and the encrypted forms decrypt to the PIN — for any "
        "cipher with D(E(x))=x (C13_encrypted_roundtrip) and, with nothing assumed, for the Triple DES and the AES of the model (C13_tdes_iso0, C13_tdes_iso4, C13_aes_iso4) (Props/C13.lean). Tied to /repo by differential "
        "execution over all PIN x PAN lengths with digit sweeps, supplied/absent fills and 2-/3-key TDES, AES-128/192/256 "
        "keys; Triple DES ciphertexts checked against the Lean model and a from-scratch DES reference, AES ciphertexts against the Lean model (Model/Aes.lean) and a direct call of `cryptography`. In addition a SOURCE TIE: harness/pytrans.py translates the current Python text of Iso0PinBlock.to_bytes / from_bytes and Iso4PinBlock.to_bytes / from_bytes into Lean (Gen/Src.lean) on every run and lean/Cardutil/SrcTie/Pin.lean proves, for all inputs, that the translation equals the model (and restates the property for the translated code: C13_source_iso0, C13_source_iso4); the static encrypt / decrypt methods of the two encryption mix-ins are translated with the cipher call as an external function and lean/Cardutil/SrcTie/Keys.lean proves C13_source_tdes_roundtrip and C13_source_aes_roundtrip with the model's ciphers behind the calls; when the source changes so that this no longer checks, the check runs its thorough generators (time-boxed) before answering (the correspondence remains the deciding tie).",
        "Trusted: Lean kernel; standard axioms; hand-written model validated by correspondence; refdes.py (FIPS KAT self-test); "
        "AES from `cryptography`; for Triple DES D(E(x))=x is a theorem about Model/Des.lean (Lemmas/Des.lean tdesEcb_dec_enc; C13_tdes_iso0, C13_tdes_iso4) and the model's ciphertexts are compared with the implementation's on every run; for AES likewise: Model/Aes.lean is FIPS 197 (known answers for 128/192/256-bit keys as #guards), Lemmas/Aes.lean proves invCipher_cipher for every state and any round keys (byte-level facts by decide +kernel over all cases), C13_aes_iso4 instantiates the property, and the driver's pin.enc4aes is compared with `cryptography`'s AES on every run; fill freshness observed, not proved.",
        "DESIGN.md §8 C13"),
    'C14': (
        "Lean 4 theorems (TSP shape and definedness for all PIN lengths, decimalisation always four digits = two-scan spec, XOR combination order-independent and self-cancelling, text-level combine) generic in the cipher + behavioural correspondence + from-scratch DES reference",
        "Machine-checked proof, with the block cipher as a parameter: the TSP is 11 PAN digits + index + leftmost 4 PIN digits "
        "and the PVV is defined for every PIN >= 4 digits; decimalisation of any 16 hex digits yields exactly four decimal "
        "digits per the two-scan rule; component combination is XOR (permutation-invariant, duplicates cancel) and renders "
        "as 32 hex digits (Props/C14.lean). Tied to /repo by differential execution with real keys found for second-scan "
        "classes 0..2(3), chosen ciphertexts through a cipher stub for classes 3..4, key-component lists, KCV and encrypted "
        "ZMK, all against a from-scratch DES/3DES reference. In addition a SOURCE TIE: harness/pytrans.py translates the current Python text of pinblock._get_tsp, the decimalisation at the end of calculate_pvv and the combination loop of key.get_zone_master_key (fragments around the cipher calls) into Lean (Gen/Src.lean) on every run and lean/Cardutil/SrcTie/Misc.lean and Pin.lean prove, for all inputs, that the translation equals the model (and restates the property for the translated code); the WHOLE functions calculate_kcv, encrypt_key, get_zone_master_key, get_enc_zone_master_key and calculate_pvv are translated too, their calls into the cipher library as ONE external function, and lean/Cardutil/SrcTie/Keys.lean proves them equal to the model for any cipher function and, instantiated with the Triple DES of Model/Des.lean, restates the property for the functions as written (C14_source_kcv, C14_source_pvv, C14_source_zone_master_key); when the source changes so that this no longer checks, the check runs its thorough generators before answering (the correspondence remains the deciding tie).",
        "Trusted: as C13 (the PVV and KCV values are now computed by the model with its own Triple DES — Model/Des.lean, C14_pvv_tdes — and compared with the implementation's); the cipher stub replaces `Cipher` inside cardutil.pinblock only for the chosen-ciphertext cases.",
        "DESIGN.md §8 C14"),
    'C15': (
        "Lean 4 theorems (check digit = unique Luhn digit; appended digit validates; validation = textbook validity; single-digit and adjacent-transposition detection by decomposition of the weighted sum + decide on digit tables) + behavioural correspondence in normal and -O interpreter modes",
        "Machine-checked proof for digit strings of ANY length: the computed digit is the unique Luhn digit, appending it "
        "validates, the code's validation is exactly Luhn validity, every single-digit change and every adjacent "
        "transposition other than 0/9 of a valid number is rejected (Props/C15.lean). Tied to /repo by exhaustive "
        "enumeration of all digit strings up to length 4 (quick) / 6 (thorough) with all edits, sampled long strings with "
        "separators, each run in-process and in a `python -O` subprocess against the same model answer. In addition a SOURCE TIE: harness/pytrans.py translates the current Python text of card.calculate_check_digit / validate_check_digit / add_check_digit into Lean (Gen/Src.lean) on every run and lean/Cardutil/SrcTie/Card.lean proves, for all inputs, that the translation equals the model (and restates the property for the translated code); when the source changes so that this no longer checks, the check runs its thorough generators before answering (the correspondence remains the deciding tie).",
        "Trusted: Lean kernel; standard axioms; model restricted to ASCII digits; interpreter mode exercised, not modelled.",
        "DESIGN.md §8 C15"),
    'C16': (
        "Lean 4 theorems (shape of mask for every length >= 10: length, first six, last four, every middle position = mask char; non-interference) + behavioural correspondence of mask() and of decoding under PAN / PAN-PREFIX configurations",
        "Machine-checked proof: for every card number of >= 10 arbitrary characters and every mask character the masked value "
        "has the same length, the same first six and last four characters and the mask character everywhere else, and is a "
        "function of those ten characters and the length only (Props/C16.lean). Tied to /repo by differential execution over "
        "every length 0..40 x 20 mask characters plus decodes under masking configurations (oracle: clear PAN absent from "
        "every returned value). In addition a SOURCE TIE: harness/pytrans.py translates the current Python text of card.mask and iso8583._pan_prefix into Lean (Gen/Src.lean) on every run and lean/Cardutil/SrcTie/Card and Misc.lean proves, for all inputs, that the translation equals the model (and restates the property for the translated code); the statements of the element decoder that apply the PAN / PAN-PREFIX processors and then the typed conversion are translated as well, and lean/Cardutil/SrcTie/Value.lean proves value_pan / value_pan_prefix (= the conversion of the masked form / of the prefix) and the non-interference statements C16_source_hidden_digits_do_not_matter (card numbers that differ only in the hidden digits decode to the same value) and C16_source_prefix_only; when the source changes so that this no longer checks, the check runs its thorough generators before answering (the correspondence remains the deciding tie).",
        "Trusted: Lean kernel; standard axioms; hand-written model of mask/_pan_prefix validated by correspondence.",
        "DESIGN.md §8 C16"),
    'C06': (
        "Lean 4 theorem (file round trip for any encoder/decoder pair with a per-message round trip, both formats, by induction over the message list through the C03/C04/C05 theorems) + behavioural correspondence incl. interleaved instances",
        "Machine-checked proof: for EVERY list of messages whose encodings are non-empty and within the maximum record "
        "length, and every encoder/decoder pair satisfying dec(enc m) = ok(expected m) (C01's conclusion), IpmReader over "
        "the IpmWriter output returns exactly the expected messages then end of data, VBS and 1014 (Props/C06.lean). Tied "
        "to /repo by differential execution over 1..60/300 heterogeneous messages x 3 codecs x 2 formats x packaged/"
        "generated configurations, and 2-4 interleaved reader/writer instances against the per-instance model. In addition "
        "a SOURCE TIE: harness/pytrans.py translates the current Python text of IpmWriter.write (the message encoder an "
        "external function, then the base class's write through super()), IpmWriter.write_many, VbsWriter.write / close and "
        "VbsReader.__next__ / IpmReader.__next__ into Lean (Gen/Src.lean) on every run and lean/Cardutil/SrcTie/IpmRoundTrip.lean "
        "proves C06_source_roundtrip for the translated writer AND reader, for any encoder and decoder that are inverse on the "
        "messages written, and lean/Cardutil/SrcTie/IpmBlocked.lean the same over the BLOCKED format (IpmWriter.write and "
        "IpmReader.__next__ translated over the blocked base classes: C06_source_roundtrip_blocked); when the source changes so that this no longer checks, the check runs its thorough generators "
        "(time-boxed) before answering (the correspondence remains the deciding tie).",
        "Trusted: as C01/C03; instance isolation is established by the correspondence (Python object model), not by a theorem.",
        "DESIGN.md §8 C06"),
    'C07': (
        "Lean 4 theorems (every path of the decoder model ends in ok or the library error, by case analysis over the modelled try/except structure; termination of the PDS and TLV walkers within their fuel; readers end in eof or library error) + behavioural correspondence on mutated inputs under a watchdog",
        "Machine-checked proof: for EVERY byte string, codec, character-class table, date/DE43 helper behaviour, bitmap "
        "rendering and every configuration without decimal fields (packaged one checked by decide on the translated "
        "table), loads returns a dictionary or the library error, the PDS/ICC walkers terminate, VBS/IPM readers over any "
        "file end in end-of-data or the library error, and the tool wrapper therefore returns normally or with a "
        "diagnostic (Props/C07.lean). Tied to /repo by ~30k structure-aware mutants, random bytes, mutated files and CLI "
        "runs, each under a 2 s watchdog, compared with the model and an outcome oracle. In addition a SOURCE TIE: harness/pytrans.py translates the current Python text of iso8583._pds_to_dict and _icc_to_dict (while loops, fuel-indexed) into Lean (Gen/Src.lean) on every run and lean/Cardutil/SrcTie/Pds.lean proves, for all inputs, that the translation equals the model (and restates the property for the translated code); when the source changes so that this no longer checks, the check runs its thorough generators before answering (the correspondence remains the deciding tie). Likewise iso8583._string_to_pytype (the typed conversion: int / Decimal / datetime by the configured type) is translated and lean/Cardutil/SrcTie/Field.lean proves string_to_pytype_eq and C07_source_typed_conversion (under the caller's handler it gives a value or the library's data error); for the readers, lean/Cardutil/SrcTie/IpmReader.lean and IpmBlocked.lean prove C07_source_vbs_reader_total, C07_source_ipm_reader_total and C07_source_blocked_readers_total: over ANY bytes the translated VbsReader.__next__ / IpmReader.__next__ (plain and 1014-blocked) return a record, end of data or the library's error — nothing else escapes, nothing diverges (for any message decoder that itself ends in a dictionary or the data error); for the WHOLE element decoder as translated, lean/Cardutil/SrcTie/FieldWhole.lean proves C07_source_text_element_total: on a text element and ANY bytes it returns a value or the library's data error.",
        "Trusted: Lean kernel; standard axioms; hand-written model incl. the modelled exception kinds of int(), decode, "
        "strptime, struct, unhexlify (validated by correspondence); configurations with a decimal field are excluded "
        "(explicit hypothesis ConfigOK).",
        "DESIGN.md §8 C07"),
    'C10': (
        "Lean 4 theorems (reader over good ++ [bad] ++ rest reports |good|+1 and the raw bytes, by induction over the good prefix, for any decoder; framing-level forms; blocked = payload stream) + behavioural correspondence over n x k x fault kinds",
        "Machine-checked proof, generic in the message decoder: records 1..k-1 are delivered, then the library error carries "
        "record number k and the raw bytes of record k including its length prefix (message-level faults), the four "
        "length bytes (oversized length) or the bytes that could be read (truncated record); blocked files behave as "
        "their payload stream (Props/C10.lean). Tied to /repo by every k in files of n records x 8 fault kinds x 2 formats "
        "x 2 codecs, including the operator report text. In addition a SOURCE TIE: harness/pytrans.py translates the current Python text of VbsReader.__next__ (raises rendered as results) into Lean (Gen/Src.lean) on every run and lean/Cardutil/SrcTie/Reader.lean proves, for all inputs, that the translation equals the model (and restates the property for the translated code); IpmReader.__next__ is translated too (the base method through super(), the message decoder as an external function) and lean/Cardutil/SrcTie/IpmReader.lean proves C10_source_message_fault — the error carries the record's own number and the raw record with its length prefix — C10_source_framing_fault and C10_source_delivers; when the source changes so that this no longer checks, the check runs its thorough generators before answering (the correspondence remains the deciding tie).",
        "Trusted: as C03/C07.",
        "DESIGN.md §8 C10"),
    'C18': (
        "Lean 4 theorems (two-phase scan = filter/project specification by induction over the rows; column positions; compressed = expanded by list extensionality; refusal cases) + behavioural correspondence on synthetic extract files",
        "Machine-checked proof: the reader's result is exactly the filterMap of the data records by table id, in file order; "
        "a matching row yields the timestamp, code and every configured column at its configured positions; positions "
        "[start-8,end-8) of a compressed row and [start,end) of an expanded row select the same characters; a missing "
        "trailer or an unconfigured table is the library error (Props/C18.lean). Tied to /repo by synthetic files with "
        "random indexes, interleaved rows, all configured tables and generated layouts, both representations, 2 codecs, 2 "
        "formats, CSV output cell by cell. In addition a SOURCE TIE: harness/pytrans.py translates the current Python text of IpmParamReader._get_param_field (the column slicing, with the class-level slice constants) into Lean on every run and lean/Cardutil/SrcTie/Param.lean proves it equal to the model's decodeSlice for expanded and compressed rows and restates the compressed = expanded clause for the translated method (C18_source_compressed_eq_expanded); the body of the `while True:` loop of IpmParamReader.__next__ (what happens to one record: table test through the index, the three fixed entries, the column loop calling the translated _get_param_field) is translated as a function of the record, and lean/Cardutil/SrcTie/ParamRow.lean proves it equal to the model's rowOf, its iteration over any records equal to the model's rowsOf (C18_source_rows, C18_source_only_requested_table), and that every packaged table layout meets the hypotheses (packaged_layouts_ok, on the configuration re-translated each run); one round of the index-loading loop of IpmParamReader.__init__ is translated as a function of the record and the loop's state, and lean/Cardutil/SrcTie/ParamIndex.lean proves its iteration equal to the model's scanIndex up to lookups (scan_index_eq), the refusal clause (C18_source_missing_trailer: no trailer, the flag the constructor tests stays False) and both phases together against the model's read (C18_source_two_phases); when the source changes so that this no longer checks, the check runs its thorough generators before answering (the correspondence remains the deciding tie).",
        "Trusted: Lean kernel; standard axioms; hand-written model of IpmParamReader validated by correspondence; csv module; for the source tie harness/pytrans.py and Py/Rt.lean.",
        "DESIGN.md §8 C18"),
    'C01': (
        "Lean 4 theorems (field-level round trip for every well-formed value kind; element loop by induction over the bit list; bitmap bits<->bytes<->hex; message level; dictionary lookups) generic in configuration, codec and bitmap rendering + behavioural correspondence",
        "Machine-checked proof, generic in cfg / codec / bitmap form: for every message with a 4-digit MTI whose present "
        "elements are well formed (WFField: exact-width or prefix-countable encodable text, 0 <= n < 10^w numbers, "
        "date-times whose rendering parses back, PDS-structured carriers, complete TLV data), decode(encode m) succeeds and "
        "returns the MTI, every element's value (masked form / prefix where configured) and otherwise only derived entries "
        "(Props/C01.lean C01_roundtrip); the environment hypotheses are discharged for latin_1/cp500/cp037 and the measured "
        "int() classes by decide +kernel on tables regenerated from /repo and the interpreter each run. Messages that "
        "supply PDSxxxx KEYS are covered end to end by C01_roundtrip_pds (every sub-element comes back with its value, "
        "wherever carrier boundaries fall; carrier hypotheses discharged for the packaged configuration by decide). Tied "
        "to /repo by differential execution over every single "
        "bit, every pair, boundary/every length, 6 codecs x 2 bitmap forms, packaged + generated configurations. In addition a SOURCE TIE for the bitmap conversion: harness/pytrans.py translates the current Python text of BitArray.tolist / fromlist (which go through one big integer) into Lean (Gen/Src.lean) on every run and lean/Cardutil/SrcTie/Bits.lean proves, for all inputs, that the translation equals the byte-by-byte model (tolist_eq, fromlist_eq) and restates the bitmap clause for the translated code (C01_source_bits_roundtrip, C02_source_bitmap, C02_source_bitmap_read); the public entry points dumps / loads are translated (optional arguments: None or an empty value is the default encoding / the packaged table; the workers external) and lean/Cardutil/SrcTie/Entry.lean proves dumps_eq / loads_eq, C02_source_defaults, C02_source_empty_config_is_packaged and C01_source_entry_roundtrip (both entry points resolve their arguments alike); the encoding loop / assembly and the whole decoder are translated with the element encoder and decoder as parameters, and lean/Cardutil/SrcTie/LoopRoundTrip.lean proves C01_source_loop_roundtrip, C01_source_whole_roundtrip and C01_source_whole_roundtrip_bits: for ANY element encoder / decoder pair such that every present element's rendering is decoded back whatever follows it, the message the translated encoder assembles (MTI, binary bitmap written by the translated BitArray, element data) is read back by the translated _iso8583_to_dict as the accumulated dictionary of the elements' decodings; the WHOLE element decoder _iso8583_to_field is translated as one function (framing, text decoding, the card-number processors, the typed conversion — with a second translation of _string_to_pytype for the binary ICC element —, PDS / DE43 / ICC derived entries), and lean/Cardutil/SrcTie/FieldWhole.lean proves text_element_recovered (the translated element encoder's rendering of a text value that fits is decoded back by the translated whole element decoder, whatever follows it) and C01_source_text_roundtrip(_production): END TO END, for messages of text elements and the three production codecs, translated encoder then translated decoder return every value under its key — no encoder, decoder or bitmap reader is left as a parameter (two kernel-evaluated examples run the translated code on a concrete message); when the source changes so that this no longer checks, the check runs its thorough generators (time-boxed) before answering (the correspondence remains the deciding tie).",
        "Trusted: Lean kernel; standard axioms; hand-written model; strptime(strftime d)=d, a hypothesis of WFField.date, is PROVED for the "
        "Lean model of strptime (Lemmas/Time.lean strptime_strftime, C01_date_wellformed) for every date-time expressible in the format; the model of strptime itself is validated differentially; DE43 keys applied by Python's re in the harness.",
        "DESIGN.md §8 C01"),
    'C02': (
        "Lean 4 theorems (absolute layout: per-element rendering relation, bitmap flags, element order, refusal of over-long variable values, hex bitmap alphabet; reading direction via C01) + byte-for-byte / key-for-key comparison with an independent reference codec",
        "Machine-checked proof: whenever encodeField returns, the bytes are the documented rendering (left-justified "
        "space-padded exact width; zero-padded numbers; 2-/3-digit count + exactly that many bytes; binary untouched); "
        "encodeBits output is the concatenation of the present elements in ascending order; the message is MTI ++ bitmap "
        "++ elements with bit 1 set and bit n set iff element n is emitted; the hex form is 32 lowercase hex characters; "
        "a variable value with 10^w or more characters is refused with the library error (Props/C02.lean). Tied to /repo by "
        "comparison with an independent reference encoder/decoder on the C01 streams plus short fixed values and over-long "
        "values on every variable element. In addition a SOURCE TIE for the bitmap conversion: harness/pytrans.py translates the current Python text of BitArray.tolist / fromlist (which go through one big integer) into Lean (Gen/Src.lean) on every run and lean/Cardutil/SrcTie/Bits.lean proves, for all inputs, that the translation equals the byte-by-byte model (tolist_eq, fromlist_eq) and restates the bitmap clause for the translated code (C01_source_bits_roundtrip, C02_source_bitmap, C02_source_bitmap_read); the public entry points dumps / loads are translated (optional arguments: None or an empty value is the default encoding / the packaged table; the workers external) and lean/Cardutil/SrcTie/Entry.lean proves dumps_eq / loads_eq, C02_source_defaults, C02_source_empty_config_is_packaged and C01_source_entry_roundtrip (both entry points resolve their arguments alike); likewise iso8583._get_field_length and _field_to_iso8583 (the element layout; `_pytype_to_string` and the text encoder are parameters of the translated function) are translated and lean/Cardutil/SrcTie/Field.lean proves field_to_iso_eq and restates C02(a) and C02(c) for the translated code (C02_source_element_layout, C02_source_refuses_overlong); the element loop and assembly of _dict_to_iso8583 are translated with the element encoder as a parameter and lean/Cardutil/SrcTie/EncLoop.lean proves C02_source_loop_layout (MTI, bitmap with bit 1 and bit n iff element n present, present elements ascending); _pytype_to_string (the typed conversion: int / Decimal / datetime to text) is translated and lean/Cardutil/SrcTie/Conv.lean proves pytype_to_string_eq (= the model's pyTypeToString) and C02_source_int_rendering / C02_source_date_rendering; when the source changes so that this no longer checks, the check runs its thorough generators (time-boxed) before answering (the correspondence remains the deciding tie).",
        "Trusted: as C01; harness/isoutil.py ref_encode/ref_decode written from the documentation.",
        "DESIGN.md §8 C02"),
    'C08': (
        "Lean 4 theorems (soundness: decode ok => the flagged elements tile the data exactly under an independent pointer-free reading, declared lengths non-negative, values decoded from their own bytes; completeness: tiles + decodable contents => accepted) + comparison with an independent strict reference decoder on near-valid inputs",
        "Machine-checked proof for every byte string, codec and configuration: if loads returns, the header is well formed, "
        "`frames` (prefix, declared length from int() and never negative, content) succeeds on the flagged elements, the "
        "data equals the concatenation of the elements' prefix and content bytes with every content of exactly its "
        "declared length, and the dictionary is the element-wise decoding of those contents; conversely any message that "
        "tiles and whose contents decode is accepted with that dictionary (Props/C08.lean). Tied to /repo by ~16k "
        "near-valid mutants (prefix digits, re-pointed lengths, zero lengths, bitmap flips incl. bits 1 and 128, "
        "truncation/extension) against a strict reference decoder. In addition a SOURCE TIE: harness/pytrans.py translates the current Python text of iso8583._pds_to_dict and _icc_to_dict (while loops, fuel-indexed) into Lean (Gen/Src.lean) on every run and lean/Cardutil/SrcTie/Pds.lean proves, for all inputs, that the translation equals the model (and restates the property for the translated code); when the source changes so that this no longer checks, the check runs its thorough generators before answering (the correspondence remains the deciding tie). The framing statements of iso8583._iso8583_to_field (declared length, refusals, slice, message increment; try/except rendered as a catch) are translated as well and lean/Cardutil/SrcTie/Field.lean proves field_frame_eq (= the model's fieldLength and slice) and restates the framing clause for the translated code (C08_source_frame, C08_source_negative_refused). The element loop of iso8583._iso8583_to_dict (bitmap walk, running pointer, final length test) is translated with the element decoder as a parameter, and lean/Cardutil/SrcTie/Loop.lean proves that it returns exactly when the flagged elements, in ascending order, tile the message data from 0 to its length (C08_source_loop_tiles, C08_source_nothing_left_over, C08_source_unconfigured_refused); the WHOLE function (header split with struct.unpack, hexadecimal bitmap, MTI check, loop) is translated as well: C08_source_whole, C08_source_short_refused.",
        "Trusted: as C01; PDS / TLV sub-element values cut short by the end of their carrier are accepted by the code and by the model (recorded, not forbidden by the property).",
        "DESIGN.md §8 C08"),
    'C12': (
        "Lean 4 theorems (greedy packing: flatten = entries, every chunk <= 999, whole-entry groups, greedy chain; carrier assignment in ascending order; recovery of every sub-element by the tag/length/value walk, using int(format(n)) = n) + behavioural correspondence with a boundary sweep",
        "Machine-checked proof for any number of sub-elements: the carrier strings concatenate to the entries in order, hold "
        "at most 999 characters, are concatenations of whole entries, a carrier is closed only when the next entry does not "
        "fit; the i-th string becomes the i-th carrier in ascending element order; walking a carrier of whole entries "
        "returns exactly those entries (zero-length and header-like values included) (Props/C12.lean). Tied to /repo by "
        "every pair of value lengths at the 999 boundary (quick 998..1000, thorough 985..1005), 1..6 chunks, unsorted "
        "insertion order, generated carrier sets; carriers read back with a PDS-less configuration. In addition a SOURCE TIE: harness/pytrans.py translates the current Python text of iso8583._pds_to_de, _pds_to_dict into Lean (Gen/Src.lean) on every run and lean/Cardutil/SrcTie/Pds.lean proves, for all inputs, that the translation equals the model (and restates the property for the translated code); the PDS-carrier statements of _dict_to_iso8583 (the configured PDS elements sorted in descending order, one popped from the end for every packed string) are translated on a text-valued message and lean/Cardutil/SrcTie/Carriers.lean proves C12_source_carriers (string i goes to 'DE' + the i-th smallest configured PDS element, nothing else is touched; one string too many is an IndexError) and C12_source_no_pds_untouched; when the source changes so that this no longer checks, the check runs its thorough generators before answering (the correspondence remains the deciding tie).",
        "Trusted: as C01. The key order is proved too (C12_ascending_order: the packed list is sorted by key text and is a "
        "permutation of the message's PDS entries; for 4-digit tags text order = numeric order).",
        "DESIGN.md §8 C12"),
    'C17': (
        "Lean 4 theorems (blocked writer output of any block count is reported blocked, via the C04 block structure; unblocked rule; three invalid classes; validity; encoding family from generated isnumeric tables) + behavioural correspondence on writer output of every block count",
        "Machine-checked proof: for EVERY record list the 1014-blocked writer output passes the block check on its 2500-byte "
        "sample (generic in payload size P and sample size S >= 2(P+2)); an unblocked file is reported unblocked unless "
        "bytes 1012-1013 are 0x40 0x40; inputs under 24 bytes, with a first length above the maximum, or with an "
        "unconfigured bit are invalid with that reason; ASCII / EBCDIC digit MTIs give latin1 / cp037 by decide on the "
        "isnumeric tables measured each run (Props/C17.lean). Tied to /repo by writer output for block counts 1..10,12,20 x "
        "6 codecs x 2 formats, stream lengths aligned to block boundaries, and the invalid classes at their boundaries. In addition a SOURCE TIE: harness/pytrans.py translates the current Python text of mciipm.ipm_info, bitmap_check, block_1014_check and encoding_check (and BitArray.tolist, which bitmap_check uses) into Lean (Gen/Src.lean) on every run and lean/Cardutil/SrcTie/Info.lean proves, for all inputs, that the translation equals the model — ipm_info_eq: the translated ipm_info returns exactly the dictionary of the model's result for every byte string (and restates the property for the translated code); when the source changes so that this no longer checks, the check runs its thorough generators before answering (the correspondence remains the deciding tie).",
        "Trusted: as C03/C04; the link 'writer output has a valid first length/bitmap/MTI' rests on C02's layout theorem plus correspondence.",
        "DESIGN.md §8 C17"),
    'C19': (
        "Lean 4 theorems (record re-coding reversible for mutually inverse codec tables, checked by decide on the generated tables; tool output = writer file of the re-coded records in order; read-back via C06) + behavioural correspondence through the four tools incl. real files",
        "Machine-checked proof: decode(A).encode(B) followed by decode(B).encode(A) is the identity on records for codecs whose "
        "tables are mutually inverse (latin_1, cp500, cp037: decide +kernel each run); the parameter tool's output on a "
        "writer-produced file is the writer's file of the re-coded records (count and order preserved, any format pair); the "
        "IPM tools' output is the writer's file of the re-encoded messages and reads back as their decodings; and for a "
        "configuration without PAN masking (packaged one: decide) decoding a library-written record and encoding it again "
        "gives the same bytes (C19_reencode_identity) — the step behind byte-for-byte reversibility (Props/C19.lean). Tied to /repo by 50/300 files x ordered codec pairs x format "
        "pairs through mci_ipm_encode, mideu convert (real files), mci_ipm_param_encode, paramconv.",
        "Trusted: as C01/C06; open()/argparse glue exercised, not modelled.",
        "DESIGN.md §8 C19"),
    'C20': (
        "Lean 4 theorems (row journey = drop empty, encode, decode, str(); canonical decimal cells survive int()/str(); text cells identity; rows independent; end-to-end via C01) + behavioural correspondence through the function and command entry points",
        "Machine-checked proof: a row's journey is drop-empty / dumps / loads / str(); str(int(s)) = s for canonical decimals of "
        "any size; text cells are rendered as themselves; the output table is the row-wise image (count and order); with "
        "C01, every supplied well-formed column comes back as the str() of its expected value (Props/C20.lean). Tied to "
        "/repo by 300/3000 tables with CSV metacharacters, boundary lengths, 3 codecs x 2 formats, function entry points "
        "and cli_run on real files.",
        "Trusted: as C01; csv module and dateutil parser are exercised, not modelled (date parser is a parameter).",
        "DESIGN.md §8 C20"),
}


def main():
    path = os.path.join(HERE, 'MANIFEST.json')
    m = json.load(open(path))
    m['checks'] = []
    for pid in ALL:
        if pid not in CHECKS:
            continue
        tech, text, note, ref = CHECKS[pid]
        m['checks'].append({
            'property_id': pid,
            'quick_cmd': f'./check {pid} --tier quick',
            'thorough_cmd': f'./check {pid} --tier thorough',
            'evidence_file': f'evidence/{pid}.json',
            'replay_cmd_template': f'./check {pid} --replay {{path}}',
            'engine': 'lean-model',
            'level_claimed': {'category': 'proof', 'text': text, 'design_ref': ref},
            'level_note': note,
            'technique': tech,
        })
    m['not_applicable'] = [
        {'property_id': pid, 'reason': 'not claimed yet: model/theorems/correspondence for this property are still being '
                                       'built in this session (planned in DESIGN.md §8); the technique applies'}
        for pid in ALL if pid not in CHECKS]
    for e in m.get('engines', []):
        e['serves_properties'] = sorted(CHECKS)
    json.dump(m, open(path, 'w'), indent=1)
    print('checks:', sorted(CHECKS))


if __name__ == '__main__':
    main()
