#!/usr/bin/env python3
"""Regenerates MANIFEST.json from the per-property table below (run from /verif)."""
import json
import os

HERE = os.path.dirname(os.path.dirname(os.path.abspath(__file__)))
ALL = [f'C{i:02d}' for i in range(1, 21)]

# id -> (technique, level text, level note, design ref)
CHECKS = {
    'C04': (
        "Lean 4 theorems (invariant by induction over all write histories) + behavioural correspondence of the model with Block1014/block_1014",
        "Machine-checked proof over an executable model: for every list of writes (any lengths, any count, empty writes) the "
        "finalised stream is a whole number of 1014-byte blocks with correct trailers whose payloads are exactly the data "
        "followed by 0x40 fill, and equals the one-shot blocking of the data up to one optional fill-only block "
        "(Props/C04.lean, 12 theorems, no hypotheses). The model is tied to /repo on every run by differential execution "
        "on every residue x boundary length (quick) / every length 0..3036 (thorough) plus random histories, with an "
        "independent oracle on the implementation's bytes.",
        "Trusted: Lean kernel; axioms propext/Classical.choice/Quot.sound; hand-written model of Block1014 (validated by the "
        "correspondence, sampled outside the enumerated sub-space); underlying file object appends (BytesIO).",
        "DESIGN.md §8 C04"),
}


def main():
    path = os.path.join(HERE, 'MANIFEST.json')
    m = json.load(open(path))
    m['checks'] = []
    for pid in ALL:
        if pid not in CHECKS:
            continue
        tech, text, note, ref = CHECKS[pid]
        m['checks'].append({
            'property_id': pid,
            'quick_cmd': f'./check {pid} --tier quick',
            'thorough_cmd': f'./check {pid} --tier thorough',
            'evidence_file': f'evidence/{pid}.json',
            'replay_cmd_template': f'./check {pid} --replay {{path}}',
            'engine': 'lean-model',
            'level_claimed': {'category': 'proof', 'text': text, 'design_ref': ref},
            'level_note': note,
            'technique': tech,
        })
    m['not_applicable'] = [
        {'property_id': pid, 'reason': 'not claimed yet: model/theorems/correspondence for this property are still being '
                                       'built in this session (planned in DESIGN.md §8); the technique applies'}
        for pid in ALL if pid not in CHECKS]
    for e in m.get('engines', []):
        e['serves_properties'] = sorted(CHECKS)
    json.dump(m, open(path, 'w'), indent=1)
    print('checks:', sorted(CHECKS))


if __name__ == '__main__':
    main()
