#!/usr/bin/env python3
"""tools/keep_round.py <worktree> — run tools/keep_seed.py on every out/change_N of a sub-agent's worktree.
The property id is the first Cxx named in notes.md; names continue the numbering under seeded/."""
import os, re, subprocess, sys, json
wt = sys.argv[1]
out = os.path.join(wt, 'out')
for d in sorted(os.listdir(out)):
    md = os.path.join(out, d)
    if not os.path.exists(os.path.join(md, 'patch.diff')):
        continue
    notes = open(os.path.join(md, 'notes.md')).read() if os.path.exists(os.path.join(md, 'notes.md')) else ''
    m = re.search(r'\bC(\d\d)\b', notes)
    if not m:
        print(d, 'no property id in notes'); continue
    prop = 'C' + m.group(1)
    n = 1
    while os.path.exists(f'/verif/seeded/{prop}-{n}'):
        n += 1
    name = f'{prop}-{n}'
    p = subprocess.run(['python3', '/verif/tools/keep_seed.py', prop, wt, md, name], capture_output=True, text=True)
    mp = f'/verif/seeded/{name}/meta.json'
    if os.path.exists(mp):
        meta = json.load(open(mp))
        print(name, d, 'confirmed', 'DETECTED' if meta['detected_by_quick_check'] else 'MISSED', meta['check_output'][-1:] )
    else:
        print(name, d, 'NOT CONFIRMED', (p.stdout + p.stderr)[-400:])
