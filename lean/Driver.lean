import Cardutil.Wire
import Cardutil.Model.Block1014
import Cardutil.Model.Vbs
/-
  Line-protocol driver: one request per line on stdin (tab separated), one response per line on
  stdout.  Executes the *model* definitions that the theorems in `Cardutil/Props` are about.
-/
open Cardutil Cardutil.Wire

def P1014 : Nat := 1012
def maxLenDefault : Nat := 6000

def renderEnd : Vbs.End → String
  | .eof => "eof"
  | .dataError n ctx => s!"err:{n}:{sig ctx}"
  | .escape k => s!"escape:{k.name}"
  | .diverge => "diverge"
  | .fuel => "fuel"

def pcRecords (lens : List Nat) : List Bytes :=
  (lens.foldl (fun (acc : Nat × List Bytes) n => (acc.1 + n, pc acc.1 n :: acc.2)) (0, [])).2.reverse

def parseFins (s : String) : Option (List Writer.Fin) :=
  s.toList.mapM (fun c => if c = 'c' then some .close else if c = 'e' then some .exit else none)

def parseReads (s : String) : Option (List (Option Nat)) :=
  if s.isEmpty then some []
  else (s.splitOn ",").mapM (fun t => if t = "-" then some none else t.toNat?.map some)

def runReads (P : Nat) : Unblock.St → List (Option Nat) → List Bytes
  | _, [] => []
  | s, n :: ns => let r := Unblock.read P s n; r.1 :: runReads P r.2 ns

def process (line : String) : String :=
  match line.splitOn "\t" with
  | ["ping"] => "pong"
  | ["b1014.stream", lens] =>
    match parseNatList lens with
    | some ls =>
      let out := Block.stream P1014 (pcRecords ls)
      s!"ok {sig out} {sig (Block.dropTrailingFill P1014 out)}"
    | none => "bad-op"
  | ["b1014.oneshot", spec] =>
    match parseBytes spec with
    | some d => let out := Block.blockify P1014 d; s!"ok {sig out} {sig (Block.dropTrailingFill P1014 out)}"
    | none => "bad-op"
  | ["unblock", spec] =>
    match parseBytes spec with
    | some f => match Block.unblock P1014 f with
      | some d => s!"ok {sig d}"
      | none => "err"
    | none => "bad-op"
  | ["u1014.reads", spec, reads] =>
    match parseBytes spec, parseReads reads with
    | some f, some ns => "ok " ++ ",".intercalate ((runReads P1014 ⟨f, []⟩ ns).map sig)
    | _, _ => "bad-op"
  | ["vbs.write", b, lens, fins] =>
    match parseNatList lens, parseFins fins with
    | some ls, some fs =>
      let st := Writer.run P1014 (b == "1") (pcRecords ls) fs
      s!"ok {sig st.file.data} {st.file.pos}"
    | _, _ => "bad-op"
  | ["vbs.writehex", b, recs, fins] =>
    let rs := if recs.isEmpty then some [] else (recs.splitOn ",").mapM parseHex
    match rs, parseFins fins with
    | some rs, some fs =>
      let st := Writer.run P1014 (b == "1") rs fs
      s!"ok {toHex st.file.data} {st.file.pos}"
    | _, _ => "bad-op"
  | ["vbs.read", b, maxLen, spec] =>
    match parseBytes spec, maxLen.toNat? with
    | some f, some ml =>
      let r := vbsBytesToList P1014 ml (b == "1") f
      s!"ok {",".intercalate (r.1.map sig)} {renderEnd r.2}"
    | _, _ => "bad-op"
  | _ => "bad-op"

partial def loop (hin hout : IO.FS.Stream) : IO Unit := do
  let line ← hin.getLine
  if line.isEmpty then return ()
  let l := (line.dropRightWhile (fun c => c = '\n' || c = '\r'))
  hout.putStrLn (process l)
  loop hin hout

def main : IO Unit := do
  let hin ← IO.getStdin
  let hout ← IO.getStdout
  loop hin hout
