import Cardutil.Wire
import Cardutil.Model.Block1014
import Cardutil.Model.Vbs
import Cardutil.Model.Card
import Cardutil.Model.PinBlock
/-
  Line-protocol driver: one request per line on stdin (tab separated), one response per line on
  stdout.  Executes the *model* definitions that the theorems in `Cardutil/Props` are about.
-/
open Cardutil Cardutil.Wire

def P1014 : Nat := 1012
def maxLenDefault : Nat := 6000

def renderEnd : Vbs.End → String
  | .eof => "eof"
  | .dataError n ctx => s!"err:{n}:{sig ctx}"
  | .escape k => s!"escape:{k.name}"
  | .diverge => "diverge"
  | .fuel => "fuel"

def pcRecords (lens : List Nat) : List Bytes :=
  (lens.foldl (fun (acc : Nat × List Bytes) n => (acc.1 + n, pc acc.1 n :: acc.2)) (0, [])).2.reverse

def parseFins (s : String) : Option (List Writer.Fin) :=
  s.toList.mapM (fun c => if c = 'c' then some .close else if c = 'e' then some .exit else none)

def parseReads (s : String) : Option (List (Option Nat)) :=
  if s.isEmpty then some []
  else (s.splitOn ",").mapM (fun t => if t = "-" then some none else t.toNat?.map some)

/-- byte-string specs understood by the driver:
    `hex:<hex>`, `pc:<n>` (position-coded), `blk:<n>` (one-shot blocking of `pc:<n>`),
    `blkcut:<n>:<m>` (first `m` bytes of `blk:<n>`), `pccut`… -/
def parseSpec (s : String) : Option Bytes :=
  match s.splitOn ":" with
  | ["blk", n] => n.toNat?.map (fun n => Block.blockify P1014 (pc 0 n))
  | ["blkcut", n, m] =>
    match n.toNat?, m.toNat? with
    | some n, some m => some ((Block.blockify P1014 (pc 0 n)).take m)
    | _, _ => none
  | _ => parseBytes s

/-- the property leaves one freedom in a blocked file: an optional trailing all-fill block -/
def canonFile (blocked : Bool) (f : Bytes) : Bytes := if blocked then Block.dropTrailingFill P1014 f else f

def renderRead (r : List Bytes × Vbs.End) : String :=
  s!"{",".intercalate (r.1.map sig)} {renderEnd r.2}"

/-- for every cut offset 0..len: number of records delivered and the ending -/
def cutsSummary (blocked : Bool) (ml : Nat) (file : Bytes) (step : Nat) : String :=
  let ns := (List.range (file.length / step + 1)).map (· * step)
  ";".intercalate (ns.map (fun n =>
    let r := vbsBytesToList P1014 ml blocked (file.take n)
    s!"{r.1.length}:{sig (r.1.flatten)}:{renderEnd r.2}"))

def renderValidate : Outcome Unit → String
  | .ok _ => "accept"
  | .escape .assertionError => "reject"
  | .escape k => s!"escape:{k.name}"
  | .dataError => "err"
  | .diverge => "diverge"

/-- check digit, then accept/reject of: the completed number, every single-digit substitution,
    every adjacent transposition of different digits (same enumeration order as the harness) -/
def luhnEdits (t : Text) : String :=
  let c := Card.calcText t
  let n := t ++ c
  let v (x : Text) : Char := match Card.validateText x with
    | .ok _ => 'A' | .escape .assertionError => 'R' | _ => 'X'
  let subs := (List.range n.length).flatMap (fun i =>
    ((List.range 10).filter (fun d => some (48 + d) != n[i]?)).map (fun d => v (n.set i (48 + d))))
  let swaps := ((List.range (n.length - 1)).filter (fun i => n[i]? != n[i+1]?)).map (fun i =>
    v ((n.set i (n[i+1]?.getD 0)).set (i + 1) (n[i]?.getD 0)))
  s!"{toDotted c} {v n} {String.ofList subs} {String.ofList swaps}"

def renderOut {α} (f : α → String) : Outcome α → String
  | .ok a => "ok " ++ f a
  | .dataError => "err"
  | .escape k => s!"escape:{k.name}"
  | .diverge => "diverge"

def process (line : String) : String :=
  match line.splitOn "\t" with
  | ["ping"] => "pong"
  | ["b1014.stream", lens] =>
    match parseNatList lens with
    | some ls =>
      let out := Block.stream P1014 (pcRecords ls)
      s!"ok {sig out} {sig (Block.dropTrailingFill P1014 out)}"
    | none => "bad-op"
  | ["b1014.oneshot", spec] =>
    match parseSpec spec with
    | some d => let out := Block.blockify P1014 d; s!"ok {sig out} {sig (Block.dropTrailingFill P1014 out)}"
    | none => "bad-op"
  | ["unblock", spec] =>
    match parseSpec spec with
    | some f => match Block.unblock P1014 f with
      | some d => s!"ok {sig d}"
      | none => "err"
    | none => "bad-op"
  | ["u1014.reads", spec, reads] =>
    match parseSpec spec, parseReads reads with
    | some f, some ns => "ok " ++ ",".intercalate ((Unblock.runReads P1014 ⟨f, []⟩ ns).map sig)
    | _, _ => "bad-op"
  | ["vbs.write", b, lens, fins] =>
    match parseNatList lens, parseFins fins with
    | some ls, some fs =>
      let st := Writer.run P1014 (b == "1") (pcRecords ls) fs
      s!"ok {sig st.file.data} {st.file.pos}"
    | _, _ => "bad-op"
  | ["vbs.writehex", b, recs, fins] =>
    let rs := if recs.isEmpty then some [] else (recs.splitOn ",").mapM parseHex
    match rs, parseFins fins with
    | some rs, some fs =>
      let st := Writer.run P1014 (b == "1") rs fs
      s!"ok {toHex st.file.data} {st.file.pos}"
    | _, _ => "bad-op"
  | ["vbs.read", b, maxLen, spec] =>
    match parseSpec spec, maxLen.toNat? with
    | some f, some ml =>
      let r := vbsBytesToList P1014 ml (b == "1") f
      s!"ok {",".intercalate (r.1.map sig)} {renderEnd r.2}"
    | _, _ => "bad-op"
  | ["vbs.roundtrip", b, maxLen, lens] =>
    match parseNatList lens, maxLen.toNat? with
    | some ls, some ml =>
      let f := Writer.listToBytes P1014 (b == "1") (pcRecords ls)
      s!"ok {sig (canonFile (b == "1") f)} {renderRead (vbsBytesToList P1014 ml (b == "1") f)}"
    | _, _ => "bad-op"
  | ["vbs.roundtriphex", b, maxLen, recs] =>
    let rs := if recs.isEmpty then some [] else (recs.splitOn ",").mapM parseHex
    match rs, maxLen.toNat? with
    | some rs, some ml =>
      let f := Writer.listToBytes P1014 (b == "1") rs
      s!"ok {sig (canonFile (b == "1") f)} {renderRead (vbsBytesToList P1014 ml (b == "1") f)}"
    | _, _ => "bad-op"
  | ["vbs.cuts", b, maxLen, lens, step] =>
    match parseNatList lens, maxLen.toNat?, step.toNat? with
    | some ls, some ml, some st =>
      let f := Writer.listToBytes P1014 (b == "1") (pcRecords ls)
      s!"ok {cutsSummary (b == "1") ml f (max st 1)}"
    | _, _, _ => "bad-op"
  | ["luhn.calc", t] =>
    match parseDotted t with
    | some t => s!"ok {toDotted (Card.calcText t)}"
    | none => "bad-op"
  | ["luhn.validate", t] =>
    match parseDotted t with
    | some t => renderValidate (Card.validateText t)
    | none => "bad-op"
  | ["luhn.add", t] =>
    match parseDotted t with
    | some t => s!"ok {toDotted (Card.addCheckDigit t)}"
    | none => "bad-op"
  | ["luhn.edits", t] =>
    match parseDotted t with
    | some t => s!"ok {luhnEdits t}"
    | none => "bad-op"
  | ["mask", t, m] =>
    match parseDotted t, m.toNat? with
    | some t, some m => s!"ok {toDotted (Card.mask t m)}"
    | _, _ => "bad-op"
  | ["panprefix", t] =>
    match parseDotted t with
    | some t => s!"ok {toDotted (Card.panPrefix t)}"
    | none => "bad-op"
  | ["pin.iso0", pin, pan] =>
    match parseDotted pin, parseDotted pan with
    | some pin, some pan => renderOut toHex (Pin.iso0ToBytes pin pan)
    | _, _ => "bad-op"
  | ["pin.iso0from", blk, pan] =>
    match parseHex blk, parseDotted pan with
    | some b, some pan => renderOut toDotted (Pin.iso0FromBytes b pan)
    | _, _ => "bad-op"
  | ["pin.iso4", pin, rnd] =>
    match parseDotted pin, rnd.toNat? with
    | some pin, some r => renderOut toHex (Pin.iso4ToBytes pin r)
    | _, _ => "bad-op"
  | ["pin.iso4from", blk] =>
    match parseHex blk with
    | some b => renderOut toDotted (Pin.iso4FromBytes b)
    | none => "bad-op"
  | ["pvv", pin, idx, pan, ct] =>
    match parseDotted pin, parseDotted idx, parseDotted pan, parseHex ct with
    | some pin, some idx, some pan, some ct =>
      s!"tsp {toDotted (Pin.tsp pan idx pin)} " ++ renderOut toDotted (Pin.pvv (fun _ => ct) pin idx pan)
    | _, _, _, _ => "bad-op"
  | ["key.combine", parts] =>
    match (if parts.isEmpty then some [] else (parts.splitOn ",").mapM parseDotted) with
    | some ps => renderOut toDotted (Pin.combine ps)
    | none => "bad-op"
  | ["kcv", ct, n] =>
    match parseHex ct, n.toNat? with
    | some ct, some n => s!"ok {toDotted (Pin.kcv (fun _ => ct) n)}"
    | _, _ => "bad-op"
  | _ => "bad-op"

partial def loop (hin hout : IO.FS.Stream) : IO Unit := do
  let line ← hin.getLine
  if line.isEmpty then return ()
  let l := ((line.dropEndWhile (fun c => c = '\n' || c = '\r')).toString)
  hout.putStrLn (process l)
  loop hin hout

def main : IO Unit := do
  let hin ← IO.getStdin
  let hout ← IO.getStdout
  loop hin hout
