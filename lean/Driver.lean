import Cardutil.Wire
import Cardutil.Model.Block1014
import Cardutil.Model.Vbs
import Cardutil.Model.Card
import Cardutil.Model.PinBlock
import Cardutil.Model.Des
import Cardutil.Model.Aes
import Cardutil.WireIso
import Cardutil.Model.Info
import Cardutil.Model.Param
import Cardutil.Model.Cli
import Cardutil.Gen.Config
import Cardutil.Gen.Codecs
import Cardutil.Gen.PyTables
import Cardutil.Gen.Limits
/-
  Line-protocol driver: one request per line on stdin (tab separated), one response per line on
  stdout.  Executes the *model* definitions that the theorems in `Cardutil/Props` are about.
-/
open Cardutil Cardutil.Wire Cardutil.WireIso

def P1014 : Nat := 1012
def maxLenDefault : Nat := 6000

def renderEnd : Vbs.End → String
  | .eof => "eof"
  | .dataError n ctx => s!"err:{n}:{sig ctx}"
  | .escape k => s!"escape:{k.name}"
  | .diverge => "diverge"
  | .fuel => "fuel"

def pcRecords (lens : List Nat) : List Bytes :=
  (lens.foldl (fun (acc : Nat × List Bytes) n => (acc.1 + n, pc acc.1 n :: acc.2)) (0, [])).2.reverse

def parseFins (s : String) : Option (List Writer.Fin) :=
  s.toList.mapM (fun c => if c = 'c' then some .close else if c = 'e' then some .exit else none)

def parseReads (s : String) : Option (List (Option Nat)) :=
  if s.isEmpty then some []
  else (s.splitOn ",").mapM (fun t => if t = "-" then some none else t.toNat?.map some)

/-- byte-string specs understood by the driver:
    `hex:<hex>`, `pc:<n>` (position-coded), `blk:<n>` (one-shot blocking of `pc:<n>`),
    `blkcut:<n>:<m>` (first `m` bytes of `blk:<n>`), `pccut`… -/
def parseSpec (s : String) : Option Bytes :=
  match s.splitOn ":" with
  | ["blk", n] => n.toNat?.map (fun n => Block.blockify P1014 (pc 0 n))
  | ["blkcut", n, m] =>
    match n.toNat?, m.toNat? with
    | some n, some m => some ((Block.blockify P1014 (pc 0 n)).take m)
    | _, _ => none
  | _ => parseBytes s

/-- the property leaves one freedom in a blocked file: an optional trailing all-fill block -/
def canonFile (blocked : Bool) (f : Bytes) : Bytes := if blocked then Block.dropTrailingFill P1014 f else f

def renderRead (r : List Bytes × Vbs.End) : String :=
  s!"{",".intercalate (r.1.map sig)} {renderEnd r.2}"

/-- for every cut offset 0..len: number of records delivered and the ending -/
def cutsSummary (blocked : Bool) (ml : Nat) (file : Bytes) (step : Nat) : String :=
  let ns := (List.range (file.length / step + 1)).map (· * step)
  ";".intercalate (ns.map (fun n =>
    let r := vbsBytesToList P1014 ml blocked (file.take n)
    s!"{r.1.length}:{sig (r.1.flatten)}:{renderEnd r.2}"))

def renderValidate : Outcome Unit → String
  | .ok _ => "accept"
  | .escape .assertionError => "reject"
  | .escape k => s!"escape:{k.name}"
  | .dataError => "err"
  | .diverge => "diverge"

/-- check digit, then accept/reject of: the completed number, every single-digit substitution,
    every adjacent transposition of different digits (same enumeration order as the harness) -/
def luhnEdits (t : Text) : String :=
  let c := Card.calcText t
  let n := t ++ c
  let v (x : Text) : Char := match Card.validateText x with
    | .ok _ => 'A' | .escape .assertionError => 'R' | _ => 'X'
  let subs := (List.range n.length).flatMap (fun i =>
    ((List.range 10).filter (fun d => some (48 + d) != n[i]?)).map (fun d => v (n.set i (48 + d))))
  let swaps := ((List.range (n.length - 1)).filter (fun i => n[i]? != n[i+1]?)).map (fun i =>
    v ((n.set i (n[i+1]?.getD 0)).set (i + 1) (n[i]?.getD 0)))
  s!"{toDotted c} {v n} {String.ofList subs} {String.ofList swaps}"

def renderOut {α} (f : α → String) : Outcome α → String
  | .ok a => "ok " ++ f a
  | .dataError => "err"
  | .escape k => s!"escape:{k.name}"
  | .diverge => "diverge"

abbrev DState := List (String × Iso.Config)

def lookupCfg (st : DState) (id : String) : Option Iso.Config :=
  if id == "pkg" then some Gen.bitConfig else (st.find? (·.1 == id)).map (·.2)

def mkEnv (codec : String) : Option Iso.Env :=
  (Gen.codecs.find? (·.1 == codec)).map (fun c =>
    { classes := Gen.intClasses, codec := c.2, de43 := fun _ _ => [], parseDate := parseIsoDate })

def isoDecoder (env : Iso.Env) (cfg : Iso.Config) (b : Bytes) : Outcome Iso.Dict := Iso.decode env cfg false b

def parseColRange (x : String) : Option (Nat × Nat) :=
  match x.splitOn ":" with
  | [a, b] => do let a ← a.toNat?; let b ← b.toNat?; some (a, b)
  | _ => none

def processIso (st : DState) (parts : List String) : Option String :=
  match parts with
  | ["iso.dumps", cid, codec, hx, dict] =>
    match lookupCfg st cid, mkEnv codec, parseDict dict with
    | some cfg, some env, some m => some (renderOut toHex (Iso.encode env cfg (hx == "1") m))
    | _, _, _ => some "bad-op"
  | ["iso.loads", cid, codec, hx, bytes] =>
    match lookupCfg st cid, mkEnv codec, parseHex bytes with
    | some cfg, some env, some b => some (renderOut renderDict (Iso.decode env cfg (hx == "1") b))
    | _, _, _ => some "bad-op"
  | ["ipm.read", cid, codec, blocked, maxLen, spec] =>
    match lookupCfg st cid, mkEnv codec, maxLen.toNat?, parseSpec spec with
    | some cfg, some env, some ml, some f =>
      let r := if blocked == "1"
        then Vbs.ipmReadAll (unblockSrc P1014) ml (isoDecoder env cfg) (f.length + 1) (Vbs.init ⟨f, []⟩)
        else Vbs.ipmReadAll plainSrc ml (isoDecoder env cfg) (f.length + 1) (Vbs.init f)
      some s!"ok {"|".intercalate (r.1.map renderDict)} {renderEnd r.2}"
    | _, _, _, _ => some "bad-op"
  | ["ipm.cuts", cid, codec, blocked, maxLen, spec, step] =>
    match lookupCfg st cid, mkEnv codec, maxLen.toNat?, parseSpec spec, step.toNat? with
    | some cfg, some env, some ml, some f, some stp =>
      let ns := (List.range (f.length / (max stp 1) + 1)).map (· * (max stp 1))
      some ("ok " ++ ";".intercalate (ns.map (fun n =>
        let g := f.take n
        let r := if blocked == "1"
          then Vbs.ipmReadAll (unblockSrc P1014) ml (isoDecoder env cfg) (g.length + 1) (Vbs.init ⟨g, []⟩)
          else Vbs.ipmReadAll plainSrc ml (isoDecoder env cfg) (g.length + 1) (Vbs.init g)
        s!"{r.1.length}:{renderEnd r.2}")))
    | _, _, _, _, _ => some "bad-op"
  | ["ipm.write", cid, codec, blocked, dicts] =>
    match lookupCfg st cid, mkEnv codec,
        (if dicts.isEmpty then some [] else (dicts.splitOn "|").mapM parseDict) with
    | some cfg, some env, some ms =>
      some (renderOut (fun (recs : List Bytes) => toHex (Writer.listToBytes P1014 (blocked == "1") recs))
        (Outcome.mapO (Iso.encode env cfg false) ms))
    | _, _, _ => some "bad-op"
  | ["param", codec, expanded, table, colspec, blocked, spec] =>
    -- colspec: "pkg" (layout of `table` from the translated configuration), "none", or start:end,start:end,…
    let tableStr := (parseDotted table).map (fun t => String.ofList (t.map Char.ofNat))
    let cols : Option (Option (List (Nat × Nat))) :=
      if colspec == "none" then some none
      else if colspec == "pkg" then
        tableStr.map (fun ts => (Gen.paramTables.find? (·.1 == ts)).map (fun e => e.2.map (fun c => (c.2.1, c.2.2))))
      else ((colspec.splitOn ",").mapM parseColRange).map some
    match mkEnv codec, parseDotted table, cols, parseSpec spec with
    | some env, some tbl, some cols, some f =>
      let r := vbsBytesToList P1014 Gen.maxVbsRecordLength (blocked == "1") f
      let last : Param.PEnd := match r.2 with
        | .eof => .eof | .dataError _ _ => .dataError | .escape k => .escape k | _ => .escape .other
      let out := Param.read env.codec cols tbl (expanded == "1") r.1 last
      let row (x : Param.Row) : String := ",".intercalate ((x.tableId :: x.effTs :: x.code :: x.cols).map toDotted)
      let e := match out.2 with | .eof => "eof" | .dataError => "err" | .escape k => s!"escape:{k.name}"
      some s!"ok {"|".intercalate (out.1.map row)} {e}"
    | _, _, _, _ => some "bad-op"
  | ["cli.encode", tool, ca, cb, inB, outB, spec] =>
    match mkEnv ca, mkEnv cb, parseSpec spec with
    | some ea, some eb, some f =>
      let cfgRead := if tool == "mideu-expanding" then Gen.bitConfig else Cli.noPds Gen.bitConfig
      let r := Cli.convertIpm P1014 Gen.maxVbsRecordLength ea eb cfgRead Gen.bitConfig (inB == "1") (outB == "1") f
      some (match r.2 with
        | .eof => renderOut toHex r.1
        | e => s!"abort {renderEnd e}")
    | _, _, _ => some "bad-op"
  | ["cli.param", ca, cb, inB, outB, spec] =>
    match mkEnv ca, mkEnv cb, parseSpec spec with
    | some ea, some eb, some f =>
      let r := Cli.convertParam P1014 Gen.maxVbsRecordLength ea.codec eb.codec (inB == "1") (outB == "1") f
      some (match r.2 with
        | .eof => renderOut toHex r.1
        | e => s!"abort {renderEnd e}")
    | _, _, _ => some "bad-op"
  | ["cli.csvrows", cw, cr, rows] =>
    match mkEnv cw, mkEnv cr, (if rows.isEmpty then some [] else (rows.splitOn "|").mapM parseDict) with
    | some ew, some er, some rs =>
      some (renderOut (fun (out : List (List (Iso.Key × Text))) =>
          "|".intercalate (out.map (fun r => renderDict (r.map (fun kv => (kv.1, Iso.Val.str kv.2))))))
        (Outcome.mapO (Cli.csvRow ew er Gen.bitConfig) rs))
    | _, _, _ => some "bad-op"
  | ["info", spec] =>
    match parseSpec spec with
    | some f =>
      match Info.ipmInfo (Gen.bitConfig.map (·.1)) Gen.maxVbsRecordLength Gen.latin1Numeric Gen.cp037Numeric f with
      | .invalid .tooShort => some "invalid short"
      | .invalid .firstLengthTooLong => some "invalid length"
      | .invalid (.bitmapUsesUnconfigured b) => some s!"invalid bitmap:{b}"
      | .valid blk enc =>
        some s!"valid {if blk then 1 else 0} {match enc with | .latin1 => "latin1" | .cp037 => "cp037" | .unknown => "unknown"}"
    | none => some "bad-op"
  | _ => none

def process (line : String) : String :=
  match line.splitOn "\t" with
  | ["ping"] => "pong"
  | ["b1014.stream", lens] =>
    match parseNatList lens with
    | some ls =>
      let out := Block.stream P1014 (pcRecords ls)
      s!"ok {sig out} {sig (Block.dropTrailingFill P1014 out)}"
    | none => "bad-op"
  | ["b1014.oneshot", spec] =>
    match parseSpec spec with
    | some d => let out := Block.blockify P1014 d; s!"ok {sig out} {sig (Block.dropTrailingFill P1014 out)}"
    | none => "bad-op"
  | ["unblock", spec] =>
    match parseSpec spec with
    | some f => match Block.unblock P1014 f with
      | some d => s!"ok {sig d}"
      | none => "err"
    | none => "bad-op"
  | ["u1014.reads", spec, reads] =>
    match parseSpec spec, parseReads reads with
    | some f, some ns => "ok " ++ ",".intercalate ((Unblock.runReads P1014 ⟨f, []⟩ ns).map sig)
    | _, _ => "bad-op"
  | ["vbs.write", b, lens, fins] =>
    match parseNatList lens, parseFins fins with
    | some ls, some fs =>
      let st := Writer.run P1014 (b == "1") (pcRecords ls) fs
      s!"ok {sig st.file.data} {st.file.pos}"
    | _, _ => "bad-op"
  | ["vbs.writehex", b, recs, fins] =>
    let rs := if recs.isEmpty then some [] else (recs.splitOn ",").mapM parseHex
    match rs, parseFins fins with
    | some rs, some fs =>
      let st := Writer.run P1014 (b == "1") rs fs
      s!"ok {toHex st.file.data} {st.file.pos}"
    | _, _ => "bad-op"
  | ["vbs.read", b, maxLen, spec] =>
    match parseSpec spec, maxLen.toNat? with
    | some f, some ml =>
      let r := vbsBytesToList P1014 ml (b == "1") f
      s!"ok {",".intercalate (r.1.map sig)} {renderEnd r.2}"
    | _, _ => "bad-op"
  | ["vbs.roundtrip", b, maxLen, lens] =>
    match parseNatList lens, maxLen.toNat? with
    | some ls, some ml =>
      let f := Writer.listToBytes P1014 (b == "1") (pcRecords ls)
      s!"ok {sig (canonFile (b == "1") f)} {renderRead (vbsBytesToList P1014 ml (b == "1") f)}"
    | _, _ => "bad-op"
  | ["vbs.roundtriphex", b, maxLen, recs] =>
    let rs := if recs.isEmpty then some [] else (recs.splitOn ",").mapM parseHex
    match rs, maxLen.toNat? with
    | some rs, some ml =>
      let f := Writer.listToBytes P1014 (b == "1") rs
      s!"ok {sig (canonFile (b == "1") f)} {renderRead (vbsBytesToList P1014 ml (b == "1") f)}"
    | _, _ => "bad-op"
  | ["vbs.cuts", b, maxLen, lens, step] =>
    match parseNatList lens, maxLen.toNat?, step.toNat? with
    | some ls, some ml, some st =>
      let f := Writer.listToBytes P1014 (b == "1") (pcRecords ls)
      s!"ok {cutsSummary (b == "1") ml f (max st 1)}"
    | _, _, _ => "bad-op"
  | ["vbs.cutshex", b, maxLen, recs, step] =>
    let rs := if recs.isEmpty then some [] else (recs.splitOn ",").mapM parseHex
    match rs, maxLen.toNat?, step.toNat? with
    | some rs, some ml, some st =>
      let f := Writer.listToBytes P1014 (b == "1") rs
      s!"ok {cutsSummary (b == "1") ml f (max st 1)}"
    | _, _, _ => "bad-op"
  | ["luhn.calc", t] =>
    match parseDotted t with
    | some t => s!"ok {toDotted (Card.calcText t)}"
    | none => "bad-op"
  | ["luhn.validate", t] =>
    match parseDotted t with
    | some t => renderValidate (Card.validateText t)
    | none => "bad-op"
  | ["luhn.add", t] =>
    match parseDotted t with
    | some t => s!"ok {toDotted (Card.addCheckDigit t)}"
    | none => "bad-op"
  | ["luhn.edits", t] =>
    match parseDotted t with
    | some t => s!"ok {luhnEdits t}"
    | none => "bad-op"
  | ["mask", t, m] =>
    match parseDotted t, m.toNat? with
    | some t, some m => s!"ok {toDotted (Card.mask t m)}"
    | _, _ => "bad-op"
  | ["panprefix", t] =>
    match parseDotted t with
    | some t => s!"ok {toDotted (Card.panPrefix t)}"
    | none => "bad-op"
  | ["pin.iso0", pin, pan] =>
    match parseDotted pin, parseDotted pan with
    | some pin, some pan => renderOut toHex (Pin.iso0ToBytes pin pan)
    | _, _ => "bad-op"
  | ["pin.iso0from", blk, pan] =>
    match parseHex blk, parseDotted pan with
    | some b, some pan => renderOut toDotted (Pin.iso0FromBytes b pan)
    | _, _ => "bad-op"
  | ["pin.iso4", pin, rnd] =>
    match parseDotted pin, rnd.toNat? with
    | some pin, some r => renderOut toHex (Pin.iso4ToBytes pin r)
    | _, _ => "bad-op"
  | ["pin.iso4from", blk] =>
    match parseHex blk with
    | some b => renderOut toDotted (Pin.iso4FromBytes b)
    | none => "bad-op"
  | ["tdes.ecb", dir, key, data] =>
    match parseHex key, parseHex data with
    | some key, some data => renderOut toHex (Des.tdesEcb (dir == "dec") key data)
    | _, _ => "bad-op"
  | ["pin.enc0", pin, pan, key] =>
    -- format 0 under the Triple DES mix-in: clear block, encrypted block, decrypted block read back
    match parseDotted pin, parseDotted pan, parseHex key with
    | some pin, some pan, some key =>
      renderOut id ((Pin.iso0ToBytes pin pan).bind (fun clear =>
        (Des.tdesEcb false key clear).bind (fun enc =>
          (Des.tdesEcb true key enc).bind (fun back =>
            (Pin.iso0FromBytes back pan).bind (fun p => .ok s!"{toHex clear} {toHex enc} {toDotted p}")))))
    | _, _, _ => "bad-op"
  | ["pin.enc4tdes", pin, rnd, key] =>
    match parseDotted pin, rnd.toNat?, parseHex key with
    | some pin, some r, some key =>
      renderOut id ((Pin.iso4ToBytes pin r).bind (fun clear =>
        (Des.tdesEcb false key clear).bind (fun enc =>
          (Des.tdesEcb true key enc).bind (fun back =>
            (Pin.iso4FromBytes back).bind (fun p => .ok s!"{toHex clear} {toHex enc} {toDotted p}")))))
    | _, _, _ => "bad-op"
  | ["pin.enc4aes", pin, rnd, key] =>
    -- format 4 under the AES mix-in: clear block, AES encryption (Model/Aes.lean), inverse cipher, PIN read back
    match parseDotted pin, rnd.toNat?, parseHex key with
    | some pin, some r, some key =>
      renderOut id ((Pin.iso4ToBytes pin r).bind (fun clear =>
        match Aes.encryptBlock key clear with
        | none => .escape .valueError
        | some enc =>
          match Aes.decryptBlock key enc with
          | none => .escape .valueError
          | some back => (Pin.iso4FromBytes back).bind (fun p => .ok s!"{toHex clear} {toHex enc} {toDotted p}")))
    | _, _, _ => "bad-op"
  | ["aes.ecb", dir, key, data] =>
    match parseHex key, parseHex data with
    | some key, some data =>
      (match (if dir == "dec" then Aes.ecbDecrypt key data else Aes.ecbEncrypt key data) with
       | some out => s!"ok {toHex out}"
       | none => "escape:valueError")
    | _, _ => "bad-op"
  | ["pvv.tdes", pin, idx, pan, key] =>
    match parseDotted pin, parseDotted idx, parseDotted pan, parseHex key with
    | some pin, some idx, some pan, some key =>
      s!"tsp {toDotted (Pin.tsp pan idx pin)} " ++ renderOut toDotted (Pin.pvv (Des.tdesFn key) pin idx pan)
    | _, _, _, _ => "bad-op"
  | ["kcv.tdes", key, n] =>
    match parseHex key, n.toNat? with
    | some key, some n => s!"ok {toDotted (Pin.kcv (Des.tdesFn key) n)}"
    | _, _ => "bad-op"
  | ["pvv", pin, idx, pan, ct] =>
    match parseDotted pin, parseDotted idx, parseDotted pan, parseHex ct with
    | some pin, some idx, some pan, some ct =>
      s!"tsp {toDotted (Pin.tsp pan idx pin)} " ++ renderOut toDotted (Pin.pvv (fun _ => ct) pin idx pan)
    | _, _, _, _ => "bad-op"
  | ["key.combine", parts] =>
    match (if parts.isEmpty then some [] else (parts.splitOn ",").mapM parseDotted) with
    | some ps => renderOut toDotted (Pin.combine ps)
    | none => "bad-op"
  | ["kcv", ct, n] =>
    match parseHex ct, n.toNat? with
    | some ct, some n => s!"ok {toDotted (Pin.kcv (fun _ => ct) n)}"
    | _, _ => "bad-op"
  | _ => "bad-op"

partial def loop (hin hout : IO.FS.Stream) (st : DState) : IO Unit := do
  let line ← hin.getLine
  if line.isEmpty then return ()
  let l := ((line.dropEndWhile (fun c => c = '\n' || c = '\r')).toString)
  let parts := l.splitOn "\t"
  match parts with
  | ["cfg.def", id, cfg] =>
    match parseConfig cfg with
    | some c => hout.putStrLn "ok"; loop hin hout ((id, c) :: st.filter (·.1 != id))
    | none => hout.putStrLn "bad-op"; loop hin hout st
  | _ =>
    match processIso st parts with
    | some r => hout.putStrLn r
    | none => hout.putStrLn (process l)
    loop hin hout st

def main : IO Unit := do
  let hin ← IO.getStdin
  let hout ← IO.getStdout
  loop hin hout []
