import Cardutil.Basic
import Cardutil.Wire
import Cardutil.Model.Block1014
import Cardutil.Model.Vbs
import Cardutil.Lemmas.Block
import Cardutil.Props.C04
