import Cardutil.Model.Vbs
import Cardutil.Model.Iso8583
import Cardutil.Model.PinBlock
import Cardutil.Model.Card
import Cardutil.Lemmas.Pin
/-
  Pre-fix definitions (the code as it was at the pinned commit) with kernel-checked
  counter-witnesses: documentation of the defects that the checks found and that the `fix:` commits
  in /repo repaired (DESIGN.md §13.3).  Nothing in `Props/` depends on this file.
-/
namespace Cardutil.Legacy

open Cardutil Cardutil.Py

/-! ### C11: `VbsWriter.close` without the finalised flag -/

def close (s : Writer.St) : Writer.St :=
  let s1 := Writer.rawWrite 1012 s (be32 0)
  { s1 with file := s1.file.seek0 }

/-- close twice on an unblocked writer: the second terminator overwrites the first length prefix -/
theorem close_twice_overwrites :
    (close (close (Writer.write 1012 (Writer.init 1012 false) [7, 7]))).file.data = [0, 0, 0, 0, 7, 7, 0, 0, 0, 0] := by
  decide

/-- … and the file then reads back as no records at all -/
theorem close_twice_reads_empty :
    Vbs.readAll plainSrc 6000 11 (Vbs.init [0, 0, 0, 0, 7, 7, 0, 0, 0, 0]) = ([], .eof) := by decide

/-! ### C05: `Unblock1014.read()` with no size -/

/-- the pre-fix read: `output = buffer[:0]; buffer = buffer[0:]` when no size is given -/
def readNoSize (buf : Bytes) : Bytes × Bytes := (buf.take 0, buf.drop 0)

theorem read_no_size_returns_nothing (buf : Bytes) : (readNoSize buf).1 = [] ∧ (readNoSize buf).2 = buf := by
  simp [readNoSize]

/-! ### C07: the PDS walker without the negative-length test -/

def pdsWalk (k : IntClasses) : Nat → Text → Iso.Dict → Outcome Iso.Dict
  | 0, _, _ => .diverge
  | fuel + 1, t, acc =>
    if t.isEmpty then .ok acc
    else
      match pyInt k ((t.drop 4).take 3) with
      | none => .escape .valueError
      | some (.ofNat n) => pdsWalk k fuel (t.drop (7 + n)) (Iso.Dict.set acc (.pds (t.take 4)) (.str ((t.drop 7).take n)))
      | some (.negSucc n) =>
        -- `field_pointer += 7 + length` with length = -(n+1): for -7 the pointer does not move
        if n + 1 = 7 then pdsWalk k fuel t acc else pdsWalk k fuel (t.drop (7 - (n + 1))) acc

/-- "0001-07": the pointer stands still; every amount of fuel is exhausted (the Python loop hangs) -/
theorem pds_negative_length_diverges (fuel : Nat) :
    pdsWalk asciiClasses fuel [48, 48, 48, 49, 45, 48, 55] [] = .diverge := by
  induction fuel with
  | zero => rfl
  | succ f ih =>
    have hint : pyInt asciiClasses [45, 48, 55] = some (Int.negSucc 6) := by decide
    rw [pdsWalk]
    simp only [List.isEmpty_cons, Bool.false_eq_true, if_false]
    have : (([48, 48, 48, 49, 45, 48, 55] : Text).drop 4).take 3 = [45, 48, 55] := rfl
    rw [this, hint]
    simp only [if_true]
    exact ih

/-! ### C13: PIN length written in decimal -/

/-- the pre-fix length field: `str(len(pin))` -/
def lenFieldDecimal (pin : Text) : Text := natDigits pin.length

/-- a 10-digit PIN: two characters "10" where the single hex digit "a" belongs -/
theorem pin_length_decimal_is_wrong :
    lenFieldDecimal [49, 50, 51, 52, 53, 54, 55, 56, 57, 48] = [49, 48] ∧
    Pin.lenField [49, 50, 51, 52, 53, 54, 55, 56, 57, 48] = [97] := by
  constructor
  · show natDigits 10 = [49, 48]
    rw [natDigits]
    simp only [Nat.lt_irrefl, if_false]
    rw [natDigits]
    simp
  · show (Pin.hexMin 10).map Pin.hexChar = [97]
    rw [Pin.hexMin_small (by decide)]
    rfl

/-! ### C15: validation as an `assert` under `python -O` -/

/-- with assert statements removed the function body is empty: everything validates -/
def validateOptimised (_ : Text) : Outcome Unit := .ok ()

theorem optimised_mode_accepts_invalid :
    validateOptimised [49, 49, 49] = .ok () ∧ Card.validateText [49, 49, 49] = .escape .assertionError := by
  constructor
  · rfl
  · decide

/-! ### C10: record number taken after the read -/

/-- the pre-fix wrapper reported `record_number` after `VbsReader.__next__` had advanced it -/
def reportedBefore (recnoBeforeRead : Nat) : Nat := recnoBeforeRead + 1

theorem bad_second_record_reported_as_third : reportedBefore 2 = 3 := rfl

/-! ### C07: a `decimal` typed element under `except ValueError` only -/

/-- the pre-fix handler of the typed conversion caught ValueError only -/
def convertBefore (env : Iso.Env) (f : Iso.FieldCfg) (t : Text) : Outcome Iso.Val :=
  (Iso.stringToPyType env f t).catchAs Iso.isValueError

/-- "12ab.5" in a decimal field: `decimal.InvalidOperation` (an ArithmeticError) escaped `loads` -/
theorem decimal_field_escaped (env : Iso.Env) (f : Iso.FieldCfg) (h : f.pytype = .decimal)
    (hk : env.classes = asciiClasses) :
    convertBefore env f [49, 50, 97, 98, 46, 53] = .escape .decimalError ∧
    (Iso.stringToPyType env f [49, 50, 97, 98, 46, 53]).catchAs Iso.isConvError = .dataError := by
  have hd : pyDecimal asciiClasses [49, 50, 97, 98, 46, 53] = none := by decide
  simp [convertBefore, Iso.stringToPyType, h, hk, hd, Outcome.catchAs, Iso.isValueError, Iso.isConvError]

/-! ### C14: key components combined with a fixed width of 32 hex digits -/

/-- a 24-byte component starting with a zero nibble: the pre-fix `:032x` rendering has 47 hex
    digits (odd: `unhexlify` raised), the fixed rendering keeps the component's 48 -/
theorem triple_length_component_lost_a_digit :
    (Pin.fmtHexW 32 (16 ^ 46)).length = 47 ∧ (Pin.fmtHexW 48 (16 ^ 46)).length = 48 := by
  decide +kernel

/-! ### C01/C02: a `decimal` typed variable-length element (configured length 0) could not be encoded -/

/-- the pre-fix format specification `'0' + str(field_length) + 'f'` is '00f' for a configured length of 0, which
    `format` refuses with ValueError -/
def fmtDecFBefore (w : Nat) (d : Dec) : Option Text := if w = 0 then none else fmtDecF w d

/-- Decimal('12.5') in an LLVAR element with field_length 0: ValueError before, "12.5" after fix 43f0702 -/
theorem decimal_in_variable_element_refused :
    fmtDecFBefore 0 ⟨false, [1, 2, 5], .fin (-1)⟩ = none ∧
    fmtDecF 0 ⟨false, [1, 2, 5], .fin (-1)⟩ = some [49, 50, 46, 53] := by
  decide

end Cardutil.Legacy
