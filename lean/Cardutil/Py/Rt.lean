import Cardutil.Basic
import Cardutil.Py.Int
import Cardutil.Py.Hex
import Cardutil.Py.Time
import Cardutil.Py.Decimal
/-
  Run-time library for the TRANSLATED source (`Gen/Src.lean`, written by harness/pytrans.py from
  /repo's Python on every run): the Python built-ins and operators the translator maps to, with
  Python's semantics (negative slice bounds, clamping, `str * int`, `divmod`, `zip` with `cycle`,
  `sum`, indexing that raises IndexError, …).  Text and bytes are lists of naturals; `int` is `Int`.
-/
namespace Cardutil.Py.Rt

open Cardutil Cardutil.Py

/-- normalise a slice bound: negative counts from the end, then clamp to `0..len` -/
def bound (len : Nat) (i : Int) : Nat :=
  if i < 0 then ((len : Int) + i).toNat else min i.toNat len

/-- `l[lo:hi]` (step 1); `none` = omitted bound -/
def slice {α} (l : List α) (lo hi : Option Int) : List α :=
  let a := match lo with | some i => bound l.length i | none => 0
  let b := match hi with | some i => bound l.length i | none => l.length
  (l.take b).drop a

/-- `l[i]`: IndexError outside `-len..len-1` -/
def getItem {α} (l : List α) (i : Int) : Outcome α :=
  let j : Int := if i < 0 then (l.length : Int) + i else i
  if j < 0 then .escape .indexError
  else match l[j.toNat]? with
    | some x => .ok x
    | none => .escape .indexError

/-- `s * n` for a sequence: empty when `n ≤ 0` -/
def mulSeq {α} (l : List α) (n : Int) : List α := (List.replicate n.toNat l).flatten

/-- `len(x)` -/
def len {α} (l : List α) : Int := (l.length : Int)

/-- `divmod(a, b)` for `b > 0`: floor division, which for a positive divisor is Lean's `/` and `%` on `Int`
    (the translator only emits it for a positive literal divisor) -/
def divmod (a b : Int) : Int × Int := (a / b, a % b)

/-- `sum(t)` for a pair -/
def sum2 (p : Int × Int) : Int := p.1 + p.2

/-- `sum(list)` -/
def sumList (l : List Int) : Int := l.foldl (· + ·) 0

/-- `zip(xs, cycle(ys))`: `ys` repeated as long as `xs` lasts (`ys` not empty) -/
def zipCycleGo {α β} (ys : List β) : List α → List β → List (α × β)
  | [], _ => []
  | x :: xs, [] =>
    match ys with
    | [] => []
    | y :: ys' => (x, y) :: zipCycleGo ys xs ys'
  | x :: xs, y :: cur => (x, y) :: zipCycleGo ys xs cur

def zipCycle {α β} (xs : List α) (ys : List β) : List (α × β) := zipCycleGo ys xs ys

/-- `int(c)` for a one-character string -/
def intOfChar (k : IntClasses) (c : Nat) : Outcome Int :=
  match pyInt k [c] with
  | some i => .ok i
  | none => .escape .valueError

/-- `int(s)` -/
def intOfStr (k : IntClasses) (s : Text) : Outcome Int :=
  match pyInt k s with
  | some i => .ok i
  | none => .escape .valueError

/-- `str(i)` -/
def strOfInt (i : Int) : Text := strInt i

/-- `s.isnumeric()` / `s.isdigit()` for a whole string, given the per-character class:
    non-empty and every character in the class -/
def allIn (cls : List Nat) (s : Text) : Bool := !s.isEmpty && s.all cls.contains

/-- a bytes / str literal -/
def lit (s : String) : Text := s.toList.map Char.toNat

/-! ### loops

A Python `while` has no bound; its translation takes a fuel argument and is `diverge` when the fuel
runs out.  The loop terminates in Python exactly when some amount of fuel suffices, and then every
larger amount gives the same result (the source-tie theorems are stated for all sufficient fuel). -/

/-- `while c: body` — the body returns (keep looping?, new state); `false` is a `break` -/
def whileO {σ} : Nat → (σ → Bool) → (σ → Outcome (Bool × σ)) → σ → Outcome σ
  | 0, _, _, _ => .diverge
  | fuel + 1, c, b, s =>
    if c s then (b s).bind (fun r => if r.1 then whileO fuel c b r.2 else .ok r.2) else .ok s

/-- `for x in xs: body` (no break) -/
def forO {α σ} (f : σ → α → Outcome σ) : List α → σ → Outcome σ
  | [], s => .ok s
  | x :: xs, s => (f s x).bind (forO f xs)

/-! ### dictionaries with string keys, in insertion order -/

abbrev SDict (β : Type) := List (Text × β)

/-- `d[k] = v`: replace in place, else append -/
def dictSet {β} : SDict β → Text → β → SDict β
  | [], k, v => [(k, v)]
  | (k', v') :: rest, k, v => if k' == k then (k, v) :: rest else (k', v') :: dictSet rest k v

/-- `d.update(e)` -/
def dictUpdate {β} (d e : SDict β) : SDict β := e.foldl (fun acc kv => dictSet acc kv.1 kv.2) d

/-- `k in d` -/
def dictHas {β} (d : SDict β) (k : Text) : Bool := d.any (·.1 == k)

/-- `d[k]`: KeyError when absent -/
def dictGet {β} (d : SDict β) (k : Text) : Outcome β :=
  match d.find? (·.1 == k) with
  | some kv => .ok kv.2
  | none => .escape .keyError

/-- iterating a dict yields its keys -/
def dictKeys {β} (d : SDict β) : List Text := d.map (·.1)

/-! ### strings and bytes -/

def startsWith (s p : Text) : Bool := s.take p.length == p

/-- lexicographic order on code points (what `sorted()` uses for str) -/
def strLt : Text → Text → Bool
  | [], [] => false
  | [], _ :: _ => true
  | _ :: _, [] => false
  | a :: as, b :: bs => a < b || (a == b && strLt as bs)

def insertStr (x : Text) : List Text → List Text
  | [] => [x]
  | y :: ys => if strLt x y then x :: y :: ys else y :: insertStr x ys

/-- `sorted(list_of_str)` (stable insertion sort; equal strings are indistinguishable) -/
def sortedStr (l : List Text) : List Text := l.foldr insertStr []

def insertIntDesc (x : Int) : List Int → List Int
  | [] => [x]
  | y :: ys => if x ≤ y then y :: insertIntDesc x ys else x :: y :: ys

/-- `sorted(list_of_int, reverse=True)` (insertion sort; equal ints are indistinguishable) -/
def sortedIntDesc (l : List Int) : List Int := l.foldr insertIntDesc []

/-- `x = l.pop()`: the last item and the list without it; IndexError when the list is empty -/
def popLast {α} (l : List α) : Outcome (α × List α) :=
  match l.getLast? with
  | some x => .ok (x, l.dropLast)
  | none => .escape .indexError

/-- `[x for x in xs if c(x)]` where the condition may raise: the first failure wins -/
def filterO {α} (p : α → Outcome Bool) : List α → Outcome (List α)
  | [] => .ok []
  | x :: xs => (p x).bind (fun b => (filterO p xs).bind (fun r => .ok (if b then x :: r else r)))

def hexDigitLower (n : Nat) : Nat := if n < 10 then 48 + n else 87 + n

/-- `binascii.b2a_hex` / `hexlify` -/
def hexlify (b : Bytes) : Bytes := b.flatMap (fun x => [hexDigitLower (x / 16 % 16), hexDigitLower (x % 16)])

/-- `bytes.upper()` -/
def upperAscii (b : Bytes) : Bytes := b.map (fun c => if 97 ≤ c ∧ c ≤ 122 then c - 32 else c)

/-- `struct.unpack(">B", raw)[0]`: exactly one byte, else struct.error -/
def unpackB (raw : Bytes) : Outcome Int :=
  match raw with
  | [x] => .ok (x : Int)
  | _ => .escape .structError

/-- big-endian value of four bytes -/
def be32 : Bytes → Nat
  | [a, b, c, d] => a * 16777216 + b * 65536 + c * 256 + d
  | _ => 0

/-- `struct.unpack(">I", raw)[0]`: exactly four bytes, big-endian -/
def unpackI (raw : Bytes) : Outcome Int :=
  if raw.length = 4 then .ok ((be32 raw : Nat) : Int) else .escape .structError

/-- `struct.pack(">I", n)`: struct.error outside 0 .. 2^32-1 -/
def packI (n : Int) : Outcome Bytes :=
  if 0 ≤ n ∧ n < 4294967296 then
    .ok [n.toNat / 16777216 % 256, n.toNat / 65536 % 256, n.toNat / 256 % 256, n.toNat % 256]
  else .escape .structError

/-- `f.write(b)` on an in-memory binary file (`io.BytesIO`, or a file opened 'wb') at position `pos ≤ len`:
    overwrite, extend, advance -/
def fwrite (data : Bytes) (pos : Int) (b : Bytes) : Bytes × Int :=
  (data.take pos.toNat ++ b ++ data.drop (pos.toNat + b.length), pos + (b.length : Int))

/-- `f.read(n)` on a byte source: the next `n` bytes and the rest (`n < 0`: everything) -/
def readN (src : Bytes) (n : Int) : Bytes × Bytes :=
  if n < 0 then (src, []) else (src.take n.toNat, src.drop n.toNat)

/-- results of a method whose `raise` statements carry information: a normal return, `StopIteration`,
    or the library's data error with its record number and context bytes -/
inductive Signal (α : Type)
  | ret (a : α)
  | stop
  | libError (recno : Int) (ctx : Bytes)
  deriving Repr

/-- `f'{i:0w}'` -/
def fmtIntW (w : Nat) (i : Int) : Text := fmtInt w i

/-! ### hexadecimal text and integers as bit patterns (definitions of Py/Hex.lean, on `Int`)

`int(s, 16)` is rendered for text made of hex digits only — Python also accepts a sign, surrounding blanks,
underscores and a `0x` prefix, which the callers translated here never pass (PINs, PANs and key components are
outside the properties' domains when they are not digit / hex strings); `^` and the formatting functions are
rendered for non-negative values, which is all `intHex` and `int.from_bytes` produce. -/

/-- `int(s, 16)`: ValueError unless `s` is a non-empty string of hex digits -/
def intHex (s : Text) : Outcome Int :=
  match Pin.intHex s with
  | .ok n => .ok (n : Int)
  | .dataError => .dataError
  | .escape k => .escape k
  | .diverge => .diverge

/-- `a ^ b` for non-negative ints -/
def xor (a b : Int) : Int := ((a.toNat ^^^ b.toNat : Nat) : Int)

/-- `format(v, 'x')` -/
def fmtHex (v : Int) : Text := (Pin.hexMin v.toNat).map Pin.hexChar

/-- `f'{v:0{w}x}'` -/
def fmtHexW (w v : Int) : Text := (Pin.fmtHexW w.toNat v.toNat).map Pin.hexChar

/-- `f'{s:{fill}<{w}}'` -/
def ljust (w : Int) (fill : Nat) (s : Text) : Text := Pin.ljust w.toNat fill s

/-- `int.from_bytes(b, byteorder='big')` -/
def intFromBytes (b : Bytes) : Int := ((Digits.fromDigits 256 b : Nat) : Int)

/-- `v.to_bytes(n, byteorder='big')`: OverflowError for a negative value or one that needs more than `n` bytes -/
def toBytes (n : Nat) (v : Int) : Outcome Bytes :=
  if 0 ≤ v ∧ v.toNat < 256 ^ n then .ok (Digits.toDigits 256 n v.toNat) else .escape .overflowError

/-- `binascii.unhexlify(s)` -/
def unhexlify (s : Text) : Outcome Bytes := Pin.unhexlify s

/-- `c.isalpha()` for an ASCII character (the translated callers apply it to hex digits) -/
def isAlphaAscii (c : Nat) : Bool := decide ((65 ≤ c ∧ c ≤ 90) ∨ (97 ≤ c ∧ c ≤ 122))

/-- `'{v:0{w}b}'.format(...)` -/
def fmtBinW (w v : Int) : Text := (Pin.fmtBinW w.toNat v.toNat).map (48 + ·)

/-- `int(s, 2)`: ValueError unless `s` is a non-empty string of 0s and 1s -/
def intBin (s : Text) : Outcome Int :=
  match Pin.intBin s with
  | .ok n => .ok (n : Int)
  | .dataError => .dataError
  | .escape k => .escape k
  | .diverge => .diverge

/-- `''.join(list_of_str)` -/
def joinStr (l : List Text) : Text := l.flatten

/-- `try: … except (E1, E2) as ex: raise <the library's data error>(…)`: the listed exception kinds become the
    library error, everything else passes -/
def catchData {α} (kinds : List ExcKind) : Outcome α → Outcome α
  | .escape k => if kinds.contains k then .dataError else .escape k
  | o => o

/-! ### configuration entries and values that are text OR bytes (`iso8583._field_to_iso8583`) -/

/-- the entries of a `bit_config` element the translated functions read -/
structure BitCfg where
  field_type : Text
  field_length : Int
  /-- `bit_config.get('field_python_type')`; an absent key (None) is the empty text: it equals no type name -/
  field_python_type : Text := []
  /-- `bit_config.get('field_processor')`; an absent key (None) is the empty text: it equals no processor name -/
  field_processor : Text := []
  /-- `bit_config.get('field_processor_config')` (the DE43 pattern); `none` = absent -/
  field_processor_config : Option Text := none
  /-- `bit_config.get('field_date_format')`; `none` = absent -/
  field_date_format : Option Text := none
  deriving Repr

/-- a value that is a `str` or a `bytes` object (`isinstance(v, bytes)` tells which) -/
inductive SB
  | str (t : Text)
  | bytes (b : Bytes)
  deriving Repr

/-- what `_string_to_pytype` can return: the text itself, an int, a Decimal, a datetime -/
inductive PyVal
  | str (t : Text)
  | int (i : Int)
  | dec (d : Dec)
  | dt (d : DateTime)
  | bytes (b : Bytes)
  deriving Repr

/-- a `strptime` format made of the numeric directives %y %Y %m %d %H %M %S and literal characters; `none` for any other
    directive (outside what Py/Time.lean models) -/
def parseFormat : Text → Option (List Directive)
  | [] => some []
  | 37 :: c :: rest =>
    (match c with
      | 121 => some Directive.y | 89 => some Directive.Y | 109 => some Directive.m | 100 => some Directive.d
      | 72 => some Directive.H | 77 => some Directive.M | 83 => some Directive.S | _ => none).bind (fun d =>
        (parseFormat rest).map (d :: ·))
  | c :: rest => (parseFormat rest).map (Directive.lit c :: ·)

/-- `datetime.datetime.strptime(s, fmt)`: ValueError when the text does not match (a format with directives outside
    the modelled ones is rendered as ValueError too: such formats are outside the properties' domains) -/
def strptimeText (k : IntClasses) (s fmt : Text) : Outcome DateTime :=
  match parseFormat fmt with
  | none => .escape .valueError
  | some ds =>
    match Py.strptime k ds s with
    | some d => .ok d
    | none => .escape .valueError

/-- `decimal.Decimal(s)`: `decimal.InvalidOperation` when the text is no number -/
def decimalOfStr (k : IntClasses) (s : Text) : Outcome Dec :=
  match pyDecimal k s with
  | some d => .ok d
  | none => .escape .decimalError

/-- the values of `ipm_info`'s result dictionary: booleans and texts -/
inductive InfoVal
  | bool (b : Bool)
  | str (t : Text)
  deriving Repr, DecidableEq

def enumerateGo {α} : Int → List α → List (Int × α)
  | _, [] => []
  | i, x :: xs => (i, x) :: enumerateGo (i + 1) xs

/-- a message value of any of the types the library accepts -/
inductive AnyVal
  | str (t : Text)
  | int (i : Int)
  | dec (d : Dec)
  | dt (d : DateTime)
  | bytes (b : Bytes)
  deriving Repr

/-- a finite Decimal whose coefficient is zero (`Decimal('0')`, `Decimal('-0.00')`, `Decimal('0E+5')`): the only
    Decimals that are false, and the only ones equal to 0 -/
def decIsZero (d : Dec) : Bool :=
  match d.exp with
  | .fin _ => d.digits.all (· == 0)
  | _ => false

/-- `d.get(k)`: None when absent -/
def dictGetOpt {β} (d : SDict β) (k : Text) : Option β := (d.find? (·.1 == k)).map (·.2)

/-- `d[k]` where `k` is the result of another dictionary's `.get()`: None is no key of a string-keyed dict -/
def dictGetO {β} (d : SDict β) : Option Text → Outcome β
  | none => .escape .keyError
  | some k => dictGet d k

/-- truthiness of `d.get(k)`: None, '', b'', 0 and Decimal zero are false -/
def truthyOpt : Option AnyVal → Bool
  | none => false
  | some (.str t) => !t.isEmpty
  | some (.bytes b) => !b.isEmpty
  | some (.int i) => i != 0
  | some (.dec d) => !decIsZero d
  | some (.dt _) => true

/-- `d.get(k) == 0` -/
def eqZeroOpt : Option AnyVal → Bool
  | some (.int i) => i == 0
  | some (.dec d) => decIsZero d
  | _ => false

/-- `v.encode(encoding)` for a value of any type: only `str` has the method -/
def anyEncode (enc : Text → Outcome Bytes) : AnyVal → Outcome Bytes
  | .str t => enc t
  | _ => .escape .other      -- AttributeError

/-- `l[i] = v`: IndexError outside `-len..len-1` -/
def setItem {α} (l : List α) (i : Int) (v : α) : Outcome (List α) :=
  let j : Int := if i < 0 then (l.length : Int) + i else i
  if j < 0 then .escape .indexError
  else if j.toNat < l.length then .ok (l.set j.toNat v) else .escape .indexError

/-- `int(d)` for a Decimal: truncation toward zero; NaN is ValueError, Infinity OverflowError -/
def decToInt (d : Dec) : Outcome Int :=
  match d.exp with
  | .fin e =>
    let n := Cardutil.Digits.fromDigits 10 d.digits
    let v : Nat := if 0 ≤ e then n * 10 ^ e.toNat else n / 10 ^ (-e).toNat
    .ok (if d.neg then -(v : Int) else (v : Int))
  | .inf => .escape .overflowError
  | _ => .escape .valueError

/-- `int(v)` for a value of any type: text and ints as usual, a Decimal truncated, bytes read as ASCII text, a datetime
    is a TypeError -/
def anyInt (k : IntClasses) : AnyVal → Outcome Int
  | .str t => intOfStr k t
  | .int i => .ok i
  | .dec d => decToInt d
  | .bytes b => if b.all (· < 128) then intOfStr k b else .escape .valueError
  | .dt _ => .escape .typeError

/-- `decimal.Decimal(v)` for a value of any type: text, int, Decimal; bytes and datetime are a TypeError -/
def anyDecimal (k : IntClasses) : AnyVal → Outcome Dec
  | .str t => decimalOfStr k t
  | .int i => .ok (decOfInt i)
  | .dec d => .ok d
  | _ => .escape .typeError

/-- `format(i, '0' + str(w) + 'd')`: a negative width gives no valid specification (ValueError) -/
def fmtIntSpec (w : Int) (i : Int) : Outcome Text :=
  if w < 0 then .escape .valueError else .ok (fmtInt w.toNat i)

/-- `format(d, '0' + str(w or '') + 'f')`: the width is left out when `w` is 0 -/
def fmtDecSpec (w : Int) (d : Dec) : Outcome Text :=
  if w < 0 then .escape .valueError
  else match fmtDecF w.toNat d with
    | some t => .ok t
    | none => .escape .valueError

/-- `format(dt, fmt)` = `dt.strftime(fmt)` for a format made of the modelled numeric directives and literal characters.
    NOT rendered (reported as an exception of kind `other`, which no caller expects): an empty format (Python then gives
    `str(dt)`) and directives outside the modelled ones — both outside the properties' domains. -/
def formatDt (d : DateTime) (fmt : Text) : Outcome Text :=
  if fmt.isEmpty then .escape .other
  else match parseFormat fmt with
    | some ds => .ok (strftime ds d)
    | none => .escape .other

/-- `struct.unpack("<p>s<q>s" + str(n) + "s", data)`: three byte strings; struct.error unless `n ≥ 0` and the data is
    exactly `p + q + n` bytes long -/
def unpack3 (p q : Nat) (n : Int) (data : Bytes) : Outcome (Bytes × Bytes × Bytes) :=
  if n < 0 ∨ (data.length : Int) ≠ (p : Int) + (q : Int) + n then .escape .structError
  else .ok (data.take p, (data.drop p).take q, data.drop (p + q))

/-- `int(v)` for a decoded value (`int(b'12')` reads ASCII text; a byte above x'7F' is no part of a number) -/
def pyvalInt (k : IntClasses) : PyVal → Outcome Int
  | .str t => intOfStr k t
  | .int i => .ok i
  | .dec d => decToInt d
  | .dt _ => .escape .typeError
  | .bytes b => if b.all (· < 128) then intOfStr k b else .escape .valueError

/-- a decoded value used as a text (slicing, `len`, a regular expression): TypeError for the other kinds -/
def pyvalStr : PyVal → Outcome Text
  | .str t => .ok t
  | _ => .escape .typeError

/-- a decoded value used as a bytes object -/
def pyvalBytes : PyVal → Outcome Bytes
  | .bytes b => .ok b
  | _ => .escape .typeError

/-- `range(a, b)` -/
def range (a b : Int) : List Int := (List.range (b - a).toNat).map (fun (i : Nat) => a + (i : Int))

/-- `enumerate(xs)` -/
def enumerate {α} (xs : List α) : List (Int × α) := enumerateGo 0 xs

/-- `len(v)` -/
def sbLen : SB → Int
  | .str t => (t.length : Int)
  | .bytes b => (b.length : Int)

/-- `format(s, '<' + str(n))`: left-justified in `n` columns with blanks (never truncated) -/
def fmtLeft (n : Int) (s : Text) : Text := s ++ List.replicate (n.toNat - s.length) 32

end Cardutil.Py.Rt
