import Cardutil.Py.Int
/-
  Python semantics layer: `datetime.strptime` / `strftime` for formats made of the numeric
  directives %y %Y %m %d %H %M %S (the only ones the packaged configuration and the generated
  configurations use).  `strptime` is modelled with CPython's leniency: each directive is an
  ordered alternation of character-class sequences, matched with backtracking exactly like the
  regular expression `_strptime` builds; the whole input must be consumed by the FIRST successful
  match.  Validated differentially against the live interpreter (thorough tier: exhaustive over
  short strings).
-/
namespace Cardutil.Py

structure DateTime where
  year : Nat
  month : Nat
  day : Nat
  hour : Nat
  minute : Nat
  second : Nat
  deriving Repr, DecidableEq

inductive Directive
  | y | Y | m | d | H | M | S
  | lit (c : Nat)
  deriving Repr, DecidableEq

/-- character classes of the generated regex -/
inductive CC
  | digit            -- \d
  | range (lo hi : Nat)
  | ch (c : Nat)
  deriving Repr, DecidableEq

def CC.ok (k : IntClasses) : CC → Nat → Bool
  | .digit, c => (k.digit c).isSome
  | .range lo hi, c => decide (lo ≤ c ∧ c ≤ hi)
  | .ch x, c => x == c

/-- alternatives, in the order of CPython's `_strptime.TimeRE` -/
def Directive.alts : Directive → List (List CC)
  | .y => [[.digit, .digit]]
  | .Y => [[.digit, .digit, .digit, .digit]]
  | .m => [[.ch 49, .range 48 50], [.ch 48, .range 49 57], [.range 49 57]]
  | .d => [[.ch 51, .range 48 49], [.range 49 50, .digit], [.ch 48, .range 49 57], [.range 49 57],
           [.ch 32, .range 49 57]]
  | .H => [[.ch 50, .range 48 51], [.range 48 49, .digit], [.digit]]
  | .M => [[.range 48 53, .digit], [.digit]]
  | .S => [[.ch 54, .range 48 49], [.range 48 53, .digit], [.digit]]
  | .lit c => [[.ch c]]

/-- match one alternative at the head of the text: (matched, rest) -/
def matchAlt (k : IntClasses) : List CC → Text → Option (Text × Text)
  | [], t => some ([], t)
  | _ :: _, [] => none
  | cc :: ccs, c :: t =>
    if cc.ok k c then (matchAlt k ccs t).map (fun r => (c :: r.1, r.2)) else none

mutual
/-- all directives in sequence with backtracking over the alternatives; the first complete match
    wins (it need not reach the end of the text) -/
def matchSeq (k : IntClasses) : List Directive → Text → Option (List Text × Text)
  | [], t => some ([], t)
  | d :: ds, t => matchAlts k d.alts ds t
def matchAlts (k : IntClasses) : List (List CC) → List Directive → Text → Option (List Text × Text)
  | [], _, _ => none
  | a :: as, ds, t =>
    match matchAlt k a t with
    | some (m, rest) =>
      match matchSeq k ds rest with
      | some (ms, r) => some (m :: ms, r)
      | none => matchAlts k as ds t
    | none => matchAlts k as ds t
end

def isLeap (y : Nat) : Bool := (y % 4 == 0 && y % 100 != 0) || y % 400 == 0

def daysInMonth (y m : Nat) : Nat :=
  if m == 2 then (if isLeap y then 29 else 28)
  else if m == 4 || m == 6 || m == 9 || m == 11 then 30 else 31

/-- numeric value of a matched group (`int(found_dict['d'])`; a leading space is accepted by int) -/
def groupVal (k : IntClasses) (t : Text) : Nat :=
  match pyInt k t with
  | some (.ofNat n) => n
  | _ => 0

def applyGroup (k : IntClasses) (dt : DateTime) : Directive × Text → DateTime
  | (.y, t) => let v := groupVal k t; { dt with year := if v ≤ 68 then 2000 + v else 1900 + v }
  | (.Y, t) => { dt with year := groupVal k t }
  | (.m, t) => { dt with month := groupVal k t }
  | (.d, t) => { dt with day := groupVal k t }
  | (.H, t) => { dt with hour := groupVal k t }
  | (.M, t) => { dt with minute := groupVal k t }
  | (.S, t) => { dt with second := groupVal k t }
  | (.lit _, _) => dt

/-- `datetime.strptime(t, fmt)`; `none` is ValueError -/
def strptime (k : IntClasses) (fmt : List Directive) (t : Text) : Option DateTime :=
  match matchSeq k fmt t with
  | some (groups, []) =>
    let dt := (fmt.zip groups).foldl (applyGroup k) ⟨1900, 1, 1, 0, 0, 0⟩
    if 1 ≤ dt.year ∧ dt.year ≤ 9999 ∧ 1 ≤ dt.month ∧ dt.month ≤ 12 ∧ 1 ≤ dt.day ∧
        dt.day ≤ daysInMonth dt.year dt.month ∧ dt.hour ≤ 23 ∧ dt.minute ≤ 59 ∧ dt.second ≤ 59
    then some dt else none
  | _ => none

def pad2 (n : Nat) : Text := [48 + n / 10 % 10, 48 + n % 10]

/-- `format(dt, fmt)` (= strftime) for the numeric directives -/
def strftimeDir (dt : DateTime) : Directive → Text
  | .y => pad2 (dt.year % 100)
  | .Y => Cardutil.Digits.toDigits 10 4 dt.year |>.map (48 + ·)
  | .m => pad2 dt.month
  | .d => pad2 dt.day
  | .H => pad2 dt.hour
  | .M => pad2 dt.minute
  | .S => pad2 dt.second
  | .lit c => [c]

def strftime (fmt : List Directive) (dt : DateTime) : Text := fmt.flatMap (strftimeDir dt)

end Cardutil.Py
