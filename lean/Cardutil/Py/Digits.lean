import Cardutil.Basic
/-
  Python semantics layer: fixed-width positional digits in a base `b`.
  Models `format(n, '0{w}d')` / `f'{n:0{w}x}'` (for `n < b^w`), `int(s)` / `int(s, 16)` on plain digit
  strings, `int.to_bytes(w, 'big')` / `int.from_bytes(.., 'big')` (base 256).
-/
namespace Cardutil.Digits

/-- the `w` least significant base-`b` digits of `n`, most significant first -/
def toDigits (b : Nat) : Nat → Nat → List Nat
  | 0, _ => []
  | w + 1, n => toDigits b w (n / b) ++ [n % b]

/-- value of a digit list, most significant first -/
def fromDigits (b : Nat) (ds : List Nat) : Nat := ds.foldl (fun a d => b * a + d) 0

@[simp] theorem length_toDigits (b w n : Nat) : (toDigits b w n).length = w := by
  induction w generalizing n with
  | zero => rfl
  | succ w ih => simp [toDigits, ih]

theorem toDigits_lt {b : Nat} (hb : 0 < b) (w n : Nat) : ∀ d ∈ toDigits b w n, d < b := by
  induction w generalizing n with
  | zero => simp [toDigits]
  | succ w ih =>
    intro d hd
    simp only [toDigits, List.mem_append, List.mem_singleton] at hd
    rcases hd with h | h
    · exact ih _ d h
    · subst h; exact Nat.mod_lt _ hb

/-- induction from the right (core Lean has no `reverseRecOn`) -/
theorem rev_induction {α : Type} {P : List α → Prop} (nil : P [])
    (append_singleton : ∀ l x, P l → P (l ++ [x])) : ∀ l, P l := by
  intro l
  have : ∀ r : List α, P r.reverse := by
    intro r
    induction r with
    | nil => exact nil
    | cons x xs ih => rw [List.reverse_cons]; exact append_singleton _ _ ih
  have h := this l.reverse
  rwa [List.reverse_reverse] at h

theorem fromDigits_append (b : Nat) (ds : List Nat) (x : Nat) :
    fromDigits b (ds ++ [x]) = b * fromDigits b ds + x := by
  simp [fromDigits, List.foldl_append]

theorem fromDigits_nil (b : Nat) : fromDigits b [] = 0 := rfl

/-- encode then decode: `int(format(n, '0{w}d')) = n` for `n < b^w` -/
theorem fromDigits_toDigits {b : Nat} (w n : Nat) (h : n < b ^ w) :
    fromDigits b (toDigits b w n) = n := by
  induction w generalizing n with
  | zero => simp [toDigits, fromDigits] at *; omega
  | succ w ih =>
    have hb : 0 < b := by
      rcases Nat.eq_zero_or_pos b with h0 | h0
      · subst h0; simp [Nat.pow_succ] at h
      · exact h0
    rw [toDigits, fromDigits_append, ih]
    · exact Nat.div_add_mod n b
    · rw [Nat.pow_succ] at h
      exact Nat.div_lt_of_lt_mul (by rw [Nat.mul_comm]; exact h)

theorem fromDigits_lt {b : Nat} (ds : List Nat) (h : ∀ d ∈ ds, d < b) :
    fromDigits b ds < b ^ ds.length := by
  induction ds using rev_induction with
  | nil => simp [fromDigits]
  | append_singleton ds x ih =>
    have hx : x < b := h x (by simp)
    have := ih (fun d hd => h d (by simp [hd]))
    rw [fromDigits_append, List.length_append, List.length_singleton, Nat.pow_succ]
    have h1 : b * fromDigits b ds + x < b * (fromDigits b ds + 1) := by
      rw [Nat.mul_add]; omega
    have h2 : b * (fromDigits b ds + 1) ≤ b * b ^ ds.length := Nat.mul_le_mul_left b this
    rw [Nat.mul_comm (b ^ ds.length)]
    omega

/-- decode then encode: a `w`-digit string is reproduced exactly (leading zeros included) -/
theorem toDigits_fromDigits {b : Nat} (ds : List Nat) (h : ∀ d ∈ ds, d < b) :
    toDigits b ds.length (fromDigits b ds) = ds := by
  induction ds using rev_induction with
  | nil => rfl
  | append_singleton ds x ih =>
    have hx : x < b := h x (by simp)
    have hb : 0 < b := by omega
    have := ih (fun d hd => h d (by simp [hd]))
    rw [List.length_append, List.length_singleton, toDigits, fromDigits_append]
    have h1 : (b * fromDigits b ds + x) / b = fromDigits b ds := by
      rw [Nat.mul_add_div hb, Nat.div_eq_of_lt hx]; simp
    have h2 : (b * fromDigits b ds + x) % b = x := by
      rw [Nat.mul_add_mod]; exact Nat.mod_eq_of_lt hx
    rw [h1, h2, this]

end Cardutil.Digits
