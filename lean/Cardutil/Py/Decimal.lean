import Cardutil.Py.Int
/-
  Python semantics layer: `decimal.Decimal(str)` as CPython's C implementation does it
  (`_decimal.c: numeric_as_ascii` then libmpdec's `mpd_qset_string`): which texts are accepted, and
  the value as `Decimal.as_tuple()` shows it (sign, coefficient digits, exponent).  Rejection is
  `decimal.InvalidOperation` (ConversionSyntax under the default context).  Exponents are unbounded
  here; CPython refuses |exponent| beyond about 10^18, which no field of the sizes the
  correspondence uses (≤ 15 characters) can express.
-/
namespace Cardutil.Py

open Cardutil.Digits

/-- the exponent field of `as_tuple()`: an integer, or 'F' / 'n' / 'N' -/
inductive DecExp
  | fin (e : Int) | inf | nan | snan
  deriving Repr, DecidableEq

/-- `Decimal.as_tuple()` -/
structure Dec where
  neg : Bool
  digits : List Nat
  exp : DecExp
  deriving Repr, DecidableEq

/-- `numeric_as_ascii` after the whitespace strip: underscores dropped, ASCII (1..127) kept,
    other whitespace → ' ', other decimal digits → '0'+d, anything else (NUL included) fails -/
def decAsciiGo (k : IntClasses) : Text → Option Text
  | [] => some []
  | c :: cs =>
    if c = 95 then decAsciiGo k cs
    else if 0 < c ∧ c ≤ 127 then (decAsciiGo k cs).map (c :: ·)
    else if k.isSpace c then (decAsciiGo k cs).map (32 :: ·)
    else match k.digit c with
      | some d => (decAsciiGo k cs).map ((48 + d) :: ·)
      | none => none

def decAscii (k : IntClasses) (t : Text) : Option Text :=
  decAsciiGo k (dropWhileEnd k.isSpace (t.dropWhile k.isSpace))

def isDig (c : Nat) : Bool := decide (48 ≤ c ∧ c ≤ 57)

def lowerAscii (c : Nat) : Nat := if 65 ≤ c ∧ c ≤ 90 then c + 32 else c

/-- case-insensitive prefix test against a lowercase word -/
def startsCI (s w : Text) : Bool := (s.take w.length).map lowerAscii == w

/-- `scan_payload`: leading zeros skipped, then digits to the end -/
def decPayload (s : Text) : Option (List Nat) :=
  let p := s.dropWhile (· == 48)
  if p.all isDig then some (p.map (· - 48)) else none

/-- `[+-]? digit+` read as an integer (`strtoexp`) -/
def decExpOf (e : Text) : Option Int :=
  let body (r : Text) : Option Nat :=
    if !r.isEmpty && r.all isDig then some (fromDigits 10 (r.map (· - 48))) else none
  match e with
  | 43 :: r => (body r).map Int.ofNat
  | 45 :: r => (body r).map (fun n => - Int.ofNat n)
  | r => (body r).map Int.ofNat

/-- leading zeros dropped, but never the last digit -/
def stripZeros : List Nat → List Nat
  | [] => []
  | [d] => [d]
  | 0 :: ds => stripZeros ds
  | d :: ds => d :: ds

/-- the finite case (`scan_dpoint_exp` and the arithmetic after it): digits with at most one
    '.', at least one digit, then optionally e/E, an optional sign and digits -/
def decFinite (neg : Bool) (s : Text) : Option Dec :=
  let (coef, rest) := s.span (fun c => c != 101 && c != 69)
  let (ip, fr) := coef.span (· != 46)
  let frac := fr.drop 1
  let e? : Option Int :=
    match rest with
    | [] => some 0
    | _ :: e => decExpOf e
  if ip.all isDig && frac.all isDig && !(ip ++ frac).isEmpty then
    e?.map (fun e => ⟨neg, stripZeros ((ip ++ frac).map (· - 48)), .fin (e - Int.ofNat frac.length)⟩)
  else none

/-- `mpd_qset_string` on the ASCII form -/
def decOfAscii (s : Text) : Option Dec :=
  let (neg, r) : Bool × Text :=
    match s with
    | 43 :: r => (false, r)
    | 45 :: r => (true, r)
    | r => (false, r)
  if startsCI r [110, 97, 110] then (decPayload (r.drop 3)).map (fun p => ⟨neg, p, .nan⟩)
  else if startsCI r [115, 110, 97, 110] then (decPayload (r.drop 4)).map (fun p => ⟨neg, p, .snan⟩)
  else if startsCI r [105, 110, 102] then
    if r.length = 3 || (r.drop 3).map lowerAscii == [105, 110, 105, 116, 121] then some ⟨neg, [0], .inf⟩ else none
  else decFinite neg r

/-- `decimal.Decimal(t)`; `none` is `decimal.InvalidOperation` -/
def pyDecimal (k : IntClasses) (t : Text) : Option Dec :=
  (decAscii k t).bind decOfAscii

/-- `Decimal(int)` -/
def decOfInt (i : Int) : Dec :=
  match i with
  | .ofNat n => ⟨false, (natDigits n).map (· - 48), .fin 0⟩
  | .negSucc n => ⟨true, (natDigits (n + 1)).map (· - 48), .fin 0⟩

/-- `format(d, '0{w}f')` (the encoder's rendering of a decimal element): fixed-point notation of the exact
    value, the sign first, then zero padding to width `w`; specials (NaN, Infinity) are padded with
    blanks on the left instead.  For `w = 0` the encoder leaves the width out ('0f': no padding) — before
    repo fix 43f0702 it built '00f', which Python refuses with ValueError (see `Legacy.fmtDecFBefore`).
    `none` (= ValueError) is kept in the type for that legacy reading; it no longer occurs. -/
def fmtDecF (w : Nat) (d : Dec) : Option Text :=
    let sign : Text := if d.neg then [45] else []
    let chars (ds : List Nat) : Text := ds.map (48 + ·)
    match d.exp with
    | .fin e =>
      let ds := d.digits
      let body : Text :=
        if 0 ≤ e then
          (if ds.all (· == 0) then [48] else chars ds ++ List.replicate e.toNat 48)
        else
          let k := (-e).toNat
          if k < ds.length then chars (ds.take (ds.length - k)) ++ [46] ++ chars (ds.drop (ds.length - k))
          else [48, 46] ++ List.replicate (k - ds.length) 48 ++ chars ds
      some (sign ++ List.replicate (w - sign.length - body.length) 48 ++ body)
    | .inf =>
      let body := sign ++ [73, 110, 102, 105, 110, 105, 116, 121]
      some (List.replicate (w - body.length) 32 ++ body)
    | .nan =>
      let body := sign ++ [78, 97, 78] ++ chars d.digits
      some (List.replicate (w - body.length) 32 ++ body)
    | .snan =>
      let body := sign ++ [115, 78, 97, 78] ++ chars d.digits
      some (List.replicate (w - body.length) 32 ++ body)

def strOf (s : String) : Text := s.toList.map Char.toNat

#guard (pyDecimal asciiClasses (strOf "12.5")).bind (fmtDecF 8) == some (strOf "000012.5")
#guard (pyDecimal asciiClasses (strOf "1E+2")).bind (fmtDecF 8) == some (strOf "00000100")
#guard (pyDecimal asciiClasses (strOf "-1.5")).bind (fmtDecF 8) == some (strOf "-00001.5")
#guard (pyDecimal asciiClasses (strOf "0.0000001")).bind (fmtDecF 8) == some (strOf "0.0000001")
#guard (pyDecimal asciiClasses (strOf "1E-3")).bind (fmtDecF 8) == some (strOf "0000.001")
#guard (pyDecimal asciiClasses (strOf "0E+3")).bind (fmtDecF 3) == some (strOf "000")
#guard (pyDecimal asciiClasses (strOf "0.00")).bind (fmtDecF 8) == some (strOf "00000.00")
#guard (pyDecimal asciiClasses (strOf "-0")).bind (fmtDecF 8) == some (strOf "-0000000")
#guard (pyDecimal asciiClasses (strOf "NaN")).bind (fmtDecF 8) == some (strOf "     NaN")
#guard (pyDecimal asciiClasses (strOf "sNaN12")).bind (fmtDecF 8) == some (strOf "  sNaN12")
#guard (pyDecimal asciiClasses (strOf "-Infinity")).bind (fmtDecF 8) == some (strOf "-Infinity")
#guard (pyDecimal asciiClasses (strOf "123456789012")).bind (fmtDecF 8) == some (strOf "123456789012")
#guard (pyDecimal asciiClasses (strOf "12.5")).bind (fmtDecF 0) == some (strOf "12.5")

#guard pyDecimal asciiClasses (strOf "0012.50") == some ⟨false, [1, 2, 5, 0], .fin (-2)⟩
#guard pyDecimal asciiClasses (strOf " -00.00 ") == some ⟨true, [0], .fin (-2)⟩
#guard pyDecimal asciiClasses (strOf "1_0.e+5") == some ⟨false, [1, 0], .fin 5⟩
#guard pyDecimal asciiClasses (strOf ".5E-3") == some ⟨false, [5], .fin (-4)⟩
#guard pyDecimal asciiClasses (strOf "nAn0012") == some ⟨false, [1, 2], .nan⟩
#guard pyDecimal asciiClasses (strOf "-sNaN") == some ⟨true, [], .snan⟩
#guard pyDecimal asciiClasses (strOf "+InFiNiTy") == some ⟨false, [0], .inf⟩
#guard pyDecimal asciiClasses (strOf "inf") == some ⟨false, [0], .inf⟩
#guard pyDecimal asciiClasses (strOf "infin") == none
#guard pyDecimal asciiClasses (strOf ".") == none
#guard pyDecimal asciiClasses (strOf "1e") == none
#guard pyDecimal asciiClasses (strOf "1e+") == none
#guard pyDecimal asciiClasses (strOf "1 2") == none
#guard pyDecimal asciiClasses (strOf "1.2.3") == none
#guard pyDecimal asciiClasses (strOf "1e5e5") == none
#guard pyDecimal asciiClasses (strOf "1e5.0") == none
#guard pyDecimal asciiClasses (strOf "") == none
#guard pyDecimal asciiClasses (strOf "_") == none
#guard pyDecimal asciiClasses [49, 0] == none

end Cardutil.Py
