import Cardutil.Basic
import Cardutil.Py.Digits
/-
  Python semantics layer: hexadecimal text — `int(t, 16)`, `format(n, 'x')`, `f'{n:0{w}x}'`, `f'{t:{c}<{w}}'`,
  `binascii.hexlify` / `unhexlify` — as used by `cardutil.pinblock` and `cardutil.key`.  Shared by the hand-written
  models (Model/PinBlock.lean) and by the run-time library of the translated source (Py/Rt.lean).
  The definitions keep the namespace `Cardutil.Pin` they were first written in.
-/
namespace Cardutil.Pin

open Cardutil Cardutil.Digits

def hexChar (n : Nat) : Nat := if n < 10 then 48 + n else 87 + n

def hexNibble? (c : Nat) : Option Nat :=
  if 48 ≤ c ∧ c ≤ 57 then some (c - 48)
  else if 97 ≤ c ∧ c ≤ 102 then some (c - 87)
  else if 65 ≤ c ∧ c ≤ 70 then some (c - 55)
  else none

def parseHexText (t : Text) : Option (List Nat) := t.mapM hexNibble?

/-- `int(t, 16)` on plain hex text (no sign / underscore / prefix / whitespace: outside the domain) -/
def intHex (t : Text) : Outcome Nat :=
  match parseHexText t with
  | some (n :: ns) => .ok (fromDigits 16 (n :: ns))
  | _ => .escape .valueError

/-- minimal base-16 digits of `n` (`format(n, 'x')`), most significant first -/
def hexMin (n : Nat) : List Nat :=
  if n < 16 then [n] else hexMin (n / 16) ++ [n % 16]
termination_by n
decreasing_by omega

/-- `f'{v:0{w}x}'` as nibbles -/
def fmtHexW (w v : Nat) : List Nat := if v < 16 ^ w then toDigits 16 w v else hexMin v

/-- `f'{t:{fill}<{w}}'` -/
def ljust (w fill : Nat) (t : Text) : Text := t ++ List.replicate (w - t.length) fill

/-- `binascii.hexlify` as nibbles -/
def bytesToNibbles (bs : Bytes) : List Nat := bs.flatMap (fun b => [b / 16, b % 16])

def nibblesToBytes : List Nat → Bytes
  | a :: b :: rest => (16 * a + b) :: nibblesToBytes rest
  | _ => []

/-- `binascii.unhexlify(text)` -/
def unhexlify (t : Text) : Outcome Bytes :=
  match parseHexText t with
  | some ns => if ns.length % 2 = 0 then .ok (nibblesToBytes ns) else .escape .binasciiError
  | none => .escape .binasciiError

/-! ### binary text (`BitArray`) -/

/-- minimal base-2 digits of `n` (`format(n, 'b')`), most significant first -/
def binMin (n : Nat) : List Nat :=
  if n < 2 then [n] else binMin (n / 2) ++ [n % 2]
termination_by n
decreasing_by omega

/-- `'{v:0{w}b}'` as bits -/
def fmtBinW (w v : Nat) : List Nat := if v < 2 ^ w then toDigits 2 w v else binMin v

def binDigit? (c : Nat) : Option Nat := if c = 48 then some 0 else if c = 49 then some 1 else none

/-- `int(t, 2)` on plain binary text (no sign / underscore / prefix / whitespace) -/
def intBin (t : Text) : Outcome Nat :=
  match t.mapM binDigit? with
  | some (n :: ns) => .ok (fromDigits 2 (n :: ns))
  | _ => .escape .valueError

end Cardutil.Pin
