import Cardutil.Basic
/-
  Python semantics layer: single-byte text codecs as two tables (generated in Gen/Codecs.lean from
  the live interpreter: `bytes([b]).decode(name)` and `chr(cp).encode(name)`).
-/
namespace Cardutil.Py

structure Codec where
  dec : Nat → Option Nat     -- byte → code point; `none`: UnicodeDecodeError
  enc : Nat → Option Nat     -- code point → byte; `none`: UnicodeEncodeError

namespace Codec

def decode (c : Codec) (b : Bytes) : Option Text := b.mapM c.dec
def encode (c : Codec) (t : Text) : Option Bytes := t.mapM c.enc

/-- what a round trip needs: a character that encodes decodes back to itself -/
def Lawful (c : Codec) : Prop := ∀ ch b, c.enc ch = some b → c.dec b = some ch

theorem decode_encode {c : Codec} (h : c.Lawful) {t : Text} {b : Bytes} (he : c.encode t = some b) :
    c.decode b = some t := by
  unfold encode at he; unfold decode
  induction t generalizing b with
  | nil => simp at he; subst he; rfl
  | cons ch t ih =>
    rw [List.mapM_cons] at he
    cases hc : c.enc ch with
    | none => simp [hc] at he
    | some x =>
      cases ht : List.mapM c.enc t with
      | none => simp [hc, ht] at he
      | some bs =>
        simp [hc, ht] at he
        subst he
        rw [List.mapM_cons, h ch x hc, ih ht]
        rfl

theorem encode_length {c : Codec} {t : Text} {b : Bytes} (he : c.encode t = some b) : b.length = t.length := by
  unfold encode at he
  induction t generalizing b with
  | nil => simp at he; subst he; rfl
  | cons ch t ih =>
    rw [List.mapM_cons] at he
    cases hc : c.enc ch with
    | none => simp [hc] at he
    | some x =>
      cases ht : List.mapM c.enc t with
      | none => simp [hc, ht] at he
      | some bs =>
        simp [hc, ht] at he
        subst he
        simp [ih ht]

/-- table-driven codec: 256-entry decode table; encode table for code points below 256 plus an
    association list for the (few) higher code points -/
def ofTables (decTbl : Array (Option Nat)) (encLow : Array (Option Nat)) (encHigh : List (Nat × Nat)) : Codec where
  dec := fun b => (decTbl[b]?).join
  enc := fun ch => if ch < 256 then (encLow[ch]?).join else (encHigh.find? (·.1 == ch)).map (·.2)

end Codec
end Cardutil.Py
