import Cardutil.Py.Digits
/-
  Python semantics layer: `int(str)` (base 10), `str(int)`, `format(n, '0{w}d')`, `format(s, '<{w}')`,
  slices.  The character classes of `int()` (whitespace that is stripped, decimal digits) are DATA
  measured from the live interpreter on every run (Gen/PyTables.lean) and passed in as `IntClasses`.
-/
namespace Cardutil.Py

open Cardutil.Digits

/-- the character classes `int()` uses -/
structure IntClasses where
  isSpace : Nat → Bool
  digit : Nat → Option Nat      -- decimal digit value of a code point

/-- plain ASCII classes (what Gen/PyTables.lean contains for the Latin-1 range:
    whitespace {09..0D, 20, 85, A0}, digits '0'..'9') -/
def asciiClasses : IntClasses where
  isSpace := fun c => c == 9 || c == 10 || c == 11 || c == 12 || c == 13 || c == 32 || c == 0x85 || c == 0xA0
  digit := fun c => if 48 ≤ c ∧ c ≤ 57 then some (c - 48) else none

def dropWhileEnd {α} (p : α → Bool) (l : List α) : List α := (l.reverse.dropWhile p).reverse

/-- digits with single interior underscores: state = (accumulated value, previous char was a digit) -/
def intBody (k : IntClasses) : List Nat → Nat → Bool → Option Nat
  | [], acc, prevDigit => if prevDigit then some acc else none
  | c :: cs, acc, prevDigit =>
    match k.digit c with
    | some d => intBody k cs (10 * acc + d) true
    | none => if c = 95 ∧ prevDigit then intBody k cs acc false else none

/-- `int(t)`; `none` is ValueError -/
def pyInt (k : IntClasses) (t : Text) : Option Int :=
  let s := dropWhileEnd k.isSpace (t.dropWhile k.isSpace)
  match s with
  | [] => none
  | 43 :: rest => (intBody k rest 0 false).map Int.ofNat
  | 45 :: rest => (intBody k rest 0 false).map (fun n => - Int.ofNat n)
  | _ => (intBody k s 0 false).map Int.ofNat

/-- minimal decimal digits of a natural number, as characters -/
def natDigits (n : Nat) : List Nat :=
  if n < 10 then [48 + n] else natDigits (n / 10) ++ [48 + n % 10]
termination_by n
decreasing_by omega

/-- `format(n, '0{w}d')` for a natural number: exactly `w` digits when the number fits (zero
    padded), otherwise its minimal digits -/
def fmtNat (w n : Nat) : Text :=
  if 0 < w ∧ n < 10 ^ w then (toDigits 10 w n).map (48 + ·) else natDigits n

/-- `format(n, '0{w}d')` / `f'{n:0{w}}'` for an integer: sign, then zero padding to width `w` -/
def fmtInt (w : Nat) (i : Int) : Text :=
  match i with
  | .ofNat n => fmtNat w n
  | .negSucc n => 45 :: fmtNat (w - 1) (n + 1)

/-- `str(i)` -/
def strInt (i : Int) : Text := fmtInt 0 i

/-- `format(t[:w], '<w')`: truncate to `w`, left-justify with spaces -/
def fitLeft (w : Nat) (t : Text) : Text := t.take w ++ List.replicate (w - (t.take w).length) 32

/-- `s[a:b]` for non-negative `a ≤ b` -/
def slice {α} (l : List α) (a b : Nat) : List α := (l.take b).drop a

end Cardutil.Py
