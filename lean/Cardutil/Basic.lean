/-
  Basic vocabulary of the cardutil models.

  Bytes and text are lists of naturals (a byte is a value 0..255, a character is a code point).
  The harness only ever sends values below 256 / valid code points; theorems are proved for all
  lists of naturals, which includes them.  No Mathlib below this line: everything under
  `Cardutil/Model` and `Cardutil/Py` is core Lean so that the driver links as a `lean_exe`.
-/

abbrev Bytes := List Nat
abbrev Text := List Nat

namespace Cardutil

/-- Python exception kinds that are *not* the library's own error. -/
inductive ExcKind
  | valueError | structError | binasciiError | indexError | unicodeError | typeError
  | keyError | overflowError | assertionError | decimalError | other
  deriving Repr, DecidableEq, Inhabited

def ExcKind.name : ExcKind → String
  | .valueError => "ValueError"
  | .structError => "struct.error"
  | .binasciiError => "binascii.Error"
  | .indexError => "IndexError"
  | .unicodeError => "UnicodeError"
  | .typeError => "TypeError"
  | .keyError => "KeyError"
  | .overflowError => "OverflowError"
  | .assertionError => "AssertionError"
  | .decimalError => "InvalidOperation"
  | .other => "Exception"

/-- The result of running a modelled Python function.
    `dataError` is the library's own error family (`CardutilError` subclasses);
    `escape` is any other exception; `diverge` means the modelled loop ran out of fuel,
    i.e. the Python loop would not terminate. -/
inductive Outcome (α : Type)
  | ok (a : α)
  | dataError
  | escape (k : ExcKind)
  | diverge
  deriving Repr, DecidableEq

namespace Outcome

@[inline] def bind {α β} (x : Outcome α) (f : α → Outcome β) : Outcome β :=
  match x with
  | ok a => f a
  | dataError => dataError
  | escape k => escape k
  | diverge => diverge

instance : Monad Outcome where
  pure := ok
  bind := bind

/-- The property C07 speaks of: a value or the library's own error. -/
def isOkOrDataError {α} : Outcome α → Bool
  | ok _ => true
  | dataError => true
  | _ => false

def isOk {α} : Outcome α → Bool
  | ok _ => true
  | _ => false

@[simp] theorem bind_ok {α β} (a : α) (f : α → Outcome β) : (ok a >>= f) = f a := rfl
@[simp] theorem bind_dataError {α β} (f : α → Outcome β) : ((dataError : Outcome α) >>= f) = dataError := rfl
@[simp] theorem bind_escape {α β} (k) (f : α → Outcome β) : ((escape k : Outcome α) >>= f) = escape k := rfl
@[simp] theorem bind_diverge {α β} (f : α → Outcome β) : ((diverge : Outcome α) >>= f) = diverge := rfl
@[simp] theorem pure_eq {α} (a : α) : (pure a : Outcome α) = ok a := rfl

/-- `try: x except <kinds>: raise library error` -/
def catchAs {α} (x : Outcome α) (p : ExcKind → Bool) : Outcome α :=
  match x with
  | escape k => if p k then dataError else escape k
  | o => o

/-- `[f x for x in xs]` where `f` may raise: the first failure wins -/
def mapO {α β} (f : α → Outcome β) : List α → Outcome (List β)
  | [] => ok []
  | x :: xs => bind (f x) (fun y => bind (mapO f xs) (fun ys => ok (y :: ys)))

end Outcome

/-- The EBCDIC space / 1014 pad byte. -/
def padByte : Nat := 0x40

end Cardutil
