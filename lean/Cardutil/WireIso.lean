import Cardutil.Wire
import Cardutil.Model.Iso8583
/-
  Wire encodings of configurations, message dictionaries and outcomes for the iso.* driver ops.

  config:  <bit>:<F|LL|LLL>:<len>:<N|PDS|ICC|DE43|PAN|PANP>:<s|i|d|t>:<directive letters or ->  joined by ','
  dict:    <key>=<val> joined by ';'
     key:  M | D<n> | P<dotted> | T<dotted> | I | X<dotted> | R<dotted>
     val:  s<dotted> | i<int> | b<hex> | t<y>-<m>-<d>-<H>-<M>-<S>
-/
namespace Cardutil.WireIso

open Cardutil Cardutil.Wire Cardutil.Iso Cardutil.Py

def parseDirectives (s : String) : Option (List Directive) :=
  if s == "-" then some []
  else s.toList.mapM (fun c =>
    match c with
    | 'y' => some .y | 'Y' => some .Y | 'm' => some .m | 'd' => some .d
    | 'H' => some .H | 'M' => some .M | 'S' => some .S
    | _ => none)

def parseField (s : String) : Option (Nat × FieldCfg) :=
  match s.splitOn ":" with
  | [bit, ft, len, proc, pt, fmt] => do
    let bit ← bit.toNat?
    let len ← len.toNat?
    let ft ← (match ft with | "F" => some FType.fixed | "LL" => some .llvar | "LLL" => some .lllvar | _ => none)
    let proc ← (match proc with
      | "N" => some Proc.none | "PDS" => some .pds | "ICC" => some .icc | "DE43" => some .de43
      | "PAN" => some .pan | "PANP" => some .panPrefix | _ => none)
    let pt ← (match pt with | "s" => some PyType.str | "i" => some .int | "d" => some .decimal | "t" => some .datetime | _ => none)
    let fmt ← parseDirectives fmt
    some (bit, { ftype := ft, length := len, proc := proc, pytype := pt, dateFmt := fmt })
  | _ => none

def parseConfig (s : String) : Option Config :=
  if s.isEmpty then some [] else (s.splitOn ",").mapM parseField

def parseInt (s : String) : Option Int :=
  if s.startsWith "-" then (s.drop 1).toNat?.map (fun n => - Int.ofNat n) else s.toNat?.map Int.ofNat

def parseKey (s : String) : Option Key :=
  match s.toList with
  | ['M'] => some .mti
  | ['I'] => some .iccData
  | 'D' :: r => (String.ofList r).toNat?.map .de
  | 'P' :: r => (parseDotted (String.ofList r)).map .pds
  | 'T' :: r => (parseDotted (String.ofList r)).map .tag
  | 'X' :: r => (parseDotted (String.ofList r)).map .de43
  | 'R' :: r => (parseDotted (String.ofList r)).map .raw
  | _ => none

def parseVal (s : String) : Option Val :=
  match s.toList with
  | 's' :: r => (parseDotted (String.ofList r)).map .str
  | 'i' :: r => (parseInt (String.ofList r)).map .int
  | 'b' :: r => (parseHex (String.ofList r)).map .bytes
  | 't' :: r =>
    match ((String.ofList r).splitOn "-").mapM (·.toNat?) with
    | some [y, m, d, H, M, S] => some (.dt ⟨y, m, d, H, M, S⟩)
    | _ => none
  | 'd' :: r =>
    -- d<sign>:<digits>:<exponent | F | n | N>
    match (String.ofList r).splitOn ":" with
    | [sg, ds, ex] =>
      let digits := ds.toList.map (fun c => c.toNat - 48)
      let neg := sg == "1"
      let e? : Option Py.DecExp :=
        if ex == "F" then some .inf else if ex == "n" then some .nan else if ex == "N" then some .snan
        else (parseInt ex).map .fin
      e?.map (fun e => .dec ⟨neg, digits, e⟩)
    | _ => none
  | _ => none

def parseDict (s : String) : Option Dict :=
  if s.isEmpty then some []
  else (s.splitOn ";").mapM (fun kv =>
    match kv.splitOn "=" with
    | [k, v] => do let k ← parseKey k; let v ← parseVal v; some (k, v)
    | _ => none)

def renderKey : Key → String
  | .mti => "M"
  | .iccData => "I"
  | .de n => s!"D{n}"
  | .pds t => "P" ++ toDotted t
  | .tag t => "T" ++ toDotted t
  | .de43 t => "X" ++ toDotted t
  | .raw t => "R" ++ toDotted t

def renderInt (i : Int) : String :=
  match i with
  | .ofNat n => toString n
  | .negSucc n => "-" ++ toString (n + 1)

def renderVal : Val → String
  | .str t => "s" ++ toDotted t
  | .int i => "i" ++ renderInt i
  | .bytes b => "b" ++ toHex b
  | .dt d => s!"t{d.year}-{d.month}-{d.day}-{d.hour}-{d.minute}-{d.second}"
  | .dec d =>
    let e := match d.exp with | .fin e => renderInt e | .inf => "F" | .nan => "n" | .snan => "N"
    "d" ++ (if d.neg then "1" else "0") ++ ":" ++ String.join (d.digits.map toString) ++ ":" ++ e

/-- entries sorted by rendered key (the harness sorts the implementation's dict the same way) -/
def renderDict (d : Dict) : String :=
  let items := d.map (fun kv => renderKey kv.1 ++ "=" ++ renderVal kv.2)
  ";".intercalate (items.toArray.qsort (· < ·)).toList

/-- `YYYY-MM-DD HH:MM:SS`, `YYYY-MM-DD HH:MM`, `YYYY-MM-DD` (the ISO forms the CSV tools use) -/
def parseIsoDate (t : Text) : Option DateTime :=
  let s := String.ofList (t.map Char.ofNat)
  let num (x : String) : Option Nat := if x.length == 0 || !x.all Char.isDigit then none else x.toNat?
  match s.splitOn " " with
  | [date] =>
    match (date.splitOn "-").mapM num with
    | some [y, m, d] => some ⟨y, m, d, 0, 0, 0⟩
    | _ => none
  | [date, time] =>
    match (date.splitOn "-").mapM num, (time.splitOn ":").mapM num with
    | some [y, m, d], some [H, M, S] => some ⟨y, m, d, H, M, S⟩
    | some [y, m, d], some [H, M] => some ⟨y, m, d, H, M, 0⟩
    | _, _ => none
  | _ => none

end Cardutil.WireIso
