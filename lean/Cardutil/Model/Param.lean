import Cardutil.Model.Vbs
import Cardutil.Py.Codec
import Cardutil.Py.Int
/-
  Model of `cardutil.mciipm.IpmParamReader`: the two-phase scan of a parameter extract file
  (table index until the IP0000T1 trailer, then the rows of the requested table), over the record
  list delivered by the VBS layer (Model/Vbs.lean).
-/
namespace Cardutil.Param

open Cardutil Cardutil.Py

/-- a returned row: table id, effective timestamp, active/inactive code, configured columns in
    configuration order -/
structure Row where
  tableId : Text
  effTs : Text
  code : Text
  cols : List Text
  deriving Repr, DecidableEq

def ip0000t1 : Text := [73, 80, 48, 48, 48, 48, 84, 49]                     -- "IP0000T1"
def trailerPrefix : Text :=                                                 -- "TRAILER RECORD IP0000T1"
  [84, 82, 65, 73, 76, 69, 82, 32, 82, 69, 67, 79, 82, 68, 32, 73, 80, 48, 48, 48, 48, 84, 49]

/-- table index: sub-id → table id, later entries override earlier ones (dict semantics) -/
abbrev Index := List (Text × Text)

def Index.lookup (ix : Index) (sub : Text) : Option Text := (ix.find? (·.1 == sub)).map (·.2)
def Index.set (ix : Index) (sub id : Text) : Index := (sub, id) :: ix.filter (·.1 != sub)

/-- phase 1: load the index until the trailer; returns the index and the records after the
    trailer, `none` when the trailer is missing; an undecodable record is a UnicodeDecodeError -/
def scanIndex (c : Codec) : List Bytes → Index → Outcome (Option (Index × List Bytes))
  | [], _ => .ok none
  | r :: rs, ix =>
    match c.decode r with
    | none => .escape .unicodeError
    | some t =>
      let ix' := if slice t 11 19 == ip0000t1 then ix.set (slice t 243 246) (slice t 19 27) else ix
      if t.take trailerPrefix.length == trailerPrefix then .ok (some (ix', rs))
      else scanIndex c rs ix'

def decodeSlice (c : Codec) (r : Bytes) (a b : Nat) : Outcome Text :=
  match c.decode (slice r a b) with
  | some t => .ok t
  | none => .escape .unicodeError

/-- phase 2, one record: `some row` when it belongs to the requested table.  Every failure
    here is a UnicodeDecodeError of some slice, so the order of evaluation does not matter. -/
def rowOf (c : Codec) (cols : List (Nat × Nat)) (table : Text) (expanded : Bool) (ix : Index) (r : Bytes) :
    Outcome (Option Row) :=
  let off := if expanded then 0 else 8
  match (if expanded then decodeSlice c r 11 19 else decodeSlice c r 8 11),
        decodeSlice c r 0 (if expanded then 10 else 7),
        decodeSlice c r (if expanded then 10 else 7) (if expanded then 11 else 8) with
  | .ok key, .ok eff, .ok code =>
    let tid := if expanded then some key else ix.lookup key
    if tid == some table then
      match Outcome.mapO (fun (se : Nat × Nat) => decodeSlice c r (se.1 - off) (se.2 - off)) cols with
      | .ok vals => .ok (some ⟨table, eff, code, vals⟩)
      | _ => .escape .unicodeError
    else .ok none
  | _, _, _ => .escape .unicodeError

/-- how iterating the reader ended -/
inductive PEnd
  | eof
  | dataError
  | escape (k : ExcKind)
  deriving Repr, DecidableEq

/-- phase 2 over the remaining records: rows yielded so far, and how iteration ended
    (`last` = what the VBS layer reported after the last complete record) -/
def rowsOf (c : Codec) (cols : List (Nat × Nat)) (table : Text) (expanded : Bool) (ix : Index) (last : PEnd) :
    List Bytes → List Row × PEnd
  | [] => ([], last)
  | r :: rs =>
    match rowOf c cols table expanded ix r with
    | .ok x =>
      let rest := rowsOf c cols table expanded ix last rs
      (match x with | some row => row :: rest.1 | none => rest.1, rest.2)
    | .dataError => ([], .dataError)
    | .escape k => ([], .escape k)
    | .diverge => ([], .escape .other)

/-- `list(IpmParamReader(...))` over the records the VBS layer delivers (`recs`, then `last`).
    `cols = none` or an empty layout is "no configuration for the table"; a missing trailer is the
    library error (raised by the constructor, before any row). -/
def read (c : Codec) (cols : Option (List (Nat × Nat))) (table : Text) (expanded : Bool) (recs : List Bytes)
    (last : PEnd) : List Row × PEnd :=
  match cols with
  | none => ([], .dataError)
  | some cs =>
    if cs.isEmpty then ([], .dataError)
    else
      match scanIndex c recs [] with
      | .ok none => ([], match last with | .escape k => .escape k | _ => .dataError)
      | .ok (some (ix, rest)) => rowsOf c cs table expanded ix last rest
      | .dataError => ([], .dataError)
      | .escape k => ([], .escape k)
      | .diverge => ([], .escape .other)

end Cardutil.Param
