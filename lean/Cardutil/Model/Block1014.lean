import Cardutil.Basic
/-
  Model of `cardutil.mciipm.Block1014` (streaming blocker), `block_1014` (one-shot blocker) and
  `unblock_1014` (validating one-shot unblocker).

  The payload size `P` (1012 in the code) is a parameter of every definition so that lemmas never
  see the literal; `Props/C04.lean` instantiates `P := 1012`.

  Block1014 keeps one piece of state, `remaining_chars`; every method appends bytes to the wrapped
  file object.  The model returns the bytes emitted together with the new state; the `File`
  model (Model/File.lean) decides where they land.
-/
namespace Cardutil.Block

open Cardutil

/-- the two-byte block trailer -/
def PP : Bytes := [padByte, padByte]

/-- `while len(b) > P: write(b[:P]); write(PAD*2); b = b[P:]` — returns (written, leftover). -/
def wloop (P : Nat) (b : Bytes) : Bytes × Bytes :=
  if P < b.length ∧ 0 < P then
    let r := wloop P (b.drop P)
    (b.take P ++ PP ++ r.1, r.2)
  else ([], b)
termination_by b.length
decreasing_by simp [List.length_drop]; omega

/-- `Block1014.write`: `(emitted bytes, new remaining_chars)`. -/
def write (P : Nat) (rem : Nat) (w : Bytes) : Bytes × Nat :=
  if w.length < rem then (w, rem - w.length)
  else
    let r := wloop P (w.drop rem)
    (w.take rem ++ PP ++ r.1 ++ r.2, P - r.2.length)

/-- `Block1014.finalise`. -/
def finalise (P : Nat) (rem : Nat) : Bytes × Nat :=
  (List.replicate (rem + 2) padByte, P)

/-- all bytes emitted by a history of writes starting from `rem` -/
def writes (P : Nat) : Nat → List Bytes → Bytes × Nat
  | rem, [] => ([], rem)
  | rem, w :: ws =>
    let a := write P rem w
    let b := writes P a.2 ws
    (a.1 ++ b.1, b.2)

/-- writes then finalise, from the initial state `remaining_chars = P` on an empty file -/
def stream (P : Nat) (ws : List Bytes) : Bytes :=
  let a := writes P P ws
  a.1 ++ (finalise P a.2).1

/-- `block_1014`: read `P` bytes at a time, fill the last, append the trailer. -/
def blockify (P : Nat) (d : Bytes) : Bytes :=
  if d.length = 0 then []
  else if P < d.length ∧ 0 < P then d.take P ++ PP ++ blockify P (d.drop P)
  else d ++ List.replicate (P - d.length) padByte ++ PP
termination_by d.length
decreasing_by simp [List.length_drop]; omega

/-- a block that holds fill only -/
def fillBlock (P : Nat) : Bytes := List.replicate (P + 2) padByte

/-- payloads of a blocked file: `P` bytes kept, 2 dropped, per block
    (a short last block contributes what it has of its payload — this is what `Unblock1014`
    does with `block[:1012]`). -/
def payloads (P : Nat) (f : Bytes) : Bytes :=
  if f.length = 0 then []
  else f.take P ++ payloads P (f.drop (P + 2))
termination_by f.length
decreasing_by simp [List.length_drop]; omega

/-- every complete `P+2` block ends in the trailer and the length is a whole number of blocks -/
def wellBlocked (P : Nat) (f : Bytes) : Bool :=
  if f.length = 0 then true
  else if f.length < P + 2 then false
  else (f.drop P).take 2 == PP && wellBlocked P (f.drop (P + 2))
termination_by f.length
decreasing_by simp [List.length_drop]; omega

/-- `unblock_1014`: `none` is the library error. -/
def unblock (P : Nat) (f : Bytes) : Option Bytes :=
  if f.length = 0 then some []
  else if f.length < P + 2 then none
  else if (f.drop P).take 2 != PP then none
  else (unblock P (f.drop (P + 2))).map (f.take P ++ ·)
termination_by f.length
decreasing_by simp [List.length_drop]; omega

/-- remove one trailing fill-only block, if the file ends in one and is longer than it -/
def dropTrailingFill (P : Nat) (f : Bytes) : Bytes :=
  if P + 2 ≤ f.length ∧ f.drop (f.length - (P + 2)) = fillBlock P then f.take (f.length - (P + 2)) else f

end Cardutil.Block
