import Cardutil.Model.Block1014
/-
  Models of `Unblock1014`, `VbsReader`, `IpmReader` (generic in the message decoder), `VbsWriter`
  and the in-memory file they act on.
-/
namespace Cardutil

/-! ## struct.pack / unpack (">I") -/

def be32 (n : Nat) : Bytes := [n / 16777216 % 256, n / 65536 % 256, n / 256 % 256, n % 256]

/-- big-endian value of the first four bytes (callers check the length) -/
def be32dec : Bytes → Nat
  | [a, b, c, d] => a * 16777216 + b * 65536 + c * 256 + d
  | _ => 0

/-! ## Unblock1014 -/
namespace Unblock

/-- state: bytes of the wrapped file not yet read, and the internal buffer -/
structure St where
  rest : Bytes
  buf : Bytes
  deriving Repr, DecidableEq

/-- the refill loop `while read_all or len(buffer) <= n:` — one `file.read(P+2)` per iteration -/
def wants (need : Option Nat) (buf : Bytes) : Bool :=
  match need with
  | none => true
  | some n => decide (buf.length ≤ n)

def refill (P : Nat) (need : Option Nat) (rest buf : Bytes) : Bytes × Bytes :=
  if wants need buf = true ∧ rest.length ≠ 0 then
    refill P need (rest.drop (P + 2)) (buf ++ (rest.take (P + 2)).take P)
  else (rest, buf)
termination_by rest.length
decreasing_by simp [List.length_drop]; omega

/-- `Unblock1014.read(n)`; `none` is "no size" (`read()` / `read(0)`): everything that remains. -/
def read (P : Nat) (s : St) (need : Option Nat) : Bytes × St :=
  let r := refill P need s.rest s.buf
  match need with
  | none => (r.2, { rest := r.1, buf := [] })
  | some n => (r.2.take n, { rest := r.1, buf := r.2.drop n })

/-- a whole history of reads from one unblocker: the outputs in order -/
def runReads (P : Nat) : St → List (Option Nat) → List Bytes
  | _, [] => []
  | s, n :: ns => let r := read P s n; r.1 :: runReads P r.2 ns

end Unblock

/-! ## VbsReader over an abstract byte source -/

/-- a byte source: `read s n` returns at most `n` bytes and the next state -/
structure Src (σ : Type) where
  read : σ → Nat → Bytes × σ

/-- plain file object positioned at the start: `read n = take n`, state = unread bytes -/
def plainSrc : Src Bytes := ⟨fun s n => (s.take n, s.drop n)⟩

/-- file object wrapped in `Unblock1014` (`blocked=True`); the record reader never asks for 0 bytes -/
def unblockSrc (P : Nat) : Src Unblock.St := ⟨fun s n => Unblock.read P s (some n)⟩

namespace Vbs

structure RState (σ : Type) where
  src : σ
  recno : Nat            -- `record_number`: 1-based number of the record about to be read
  last : Option Bytes    -- `last_record`

/-- how an iteration ended -/
inductive End
  | eof                                  -- StopIteration
  | dataError (recno : Nat) (ctx : Bytes) -- the library's MciIpmDataError
  | escape (k : ExcKind)                 -- any other exception (from a message decoder)
  | diverge
  | fuel                                 -- model fuel exhausted (never for fuel > input length)
  deriving Repr, DecidableEq

inductive Step (σ : Type)
  | record (r : Bytes) (st : RState σ)
  | done (e : End)

/-- `VbsReader.__next__` -/
def next {σ} (S : Src σ) (maxLen : Nat) (st : RState σ) : Step σ :=
  let h := S.read st.src 4
  if h.1.length ≠ 4 then .done .eof
  else
    let n := be32dec h.1
    if maxLen < n then .done (.dataError st.recno h.1)
    else if n = 0 then .done .eof
    else
      let r := S.read h.2 n
      if r.1.length ≠ n then .done (.dataError st.recno (h.1 ++ r.1))
      else .record r.1 { src := r.2, recno := st.recno + 1, last := some (h.1 ++ r.1) }

/-- `list(VbsReader(...))`: records yielded and how iteration ended -/
def readAll {σ} (S : Src σ) (maxLen : Nat) : Nat → RState σ → List Bytes × End
  | 0, _ => ([], .fuel)
  | fuel + 1, st =>
    match next S maxLen st with
    | .done e => ([], e)
    | .record r st' =>
      let x := readAll S maxLen fuel st'
      (r :: x.1, x.2)

def init {σ} (s : σ) : RState σ := { src := s, recno := 1, last := none }

/-- `IpmReader.__next__` list form, generic in the message decoder.
    A decoder `dataError` is re-raised as the library error carrying the number of the record
    just read and its raw bytes (`last_record`). -/
def ipmReadAll {σ α} (S : Src σ) (maxLen : Nat) (decode : Bytes → Outcome α) :
    Nat → RState σ → List α × End
  | 0, _ => ([], .fuel)
  | fuel + 1, st =>
    match next S maxLen st with
    | .done e => ([], e)
    | .record r st' =>
      match decode r with
      | .ok d =>
        let x := ipmReadAll S maxLen decode fuel st'
        (d :: x.1, x.2)
      | .dataError => ([], .dataError st.recno ((st'.last).getD []))
      | .escape k => ([], .escape k)
      | .diverge => ([], .diverge)

end Vbs

/-! ## in-memory binary file (`io.BytesIO`, or a file opened 'wb') -/

structure File where
  data : Bytes
  pos : Nat
  deriving Repr, DecidableEq

namespace File
def empty : File := ⟨[], 0⟩
/-- `write` at the current position: overwrite, extend, advance (`pos ≤ len` always holds here) -/
def write (f : File) (b : Bytes) : File :=
  { data := f.data.take f.pos ++ b ++ f.data.drop (f.pos + b.length), pos := f.pos + b.length }
def seek0 (f : File) : File := { f with pos := 0 }
end File

/-! ## VbsWriter (optionally through Block1014) -/
namespace Writer

structure St where
  file : File
  blocked : Bool
  rem : Nat          -- Block1014.remaining_chars (unused when not blocked)
  closed : Bool      -- finalised flag
  deriving Repr, DecidableEq

def init (P : Nat) (blocked : Bool) : St := { file := File.empty, blocked := blocked, rem := P, closed := false }

/-- `self.out_file.write(b)` -/
def rawWrite (P : Nat) (s : St) (b : Bytes) : St :=
  if s.blocked then
    let w := Block.write P s.rem b
    { s with file := s.file.write w.1, rem := w.2 }
  else { s with file := s.file.write b }

/-- `VbsWriter.write(record)`: two writes — length, then data -/
def write (P : Nat) (s : St) (r : Bytes) : St :=
  rawWrite P (rawWrite P s (be32 r.length)) r

/-- `VbsWriter.close()`: zero length, then `seek(0)` (which finalises the blocker); a second
    finalisation does nothing. -/
def close (P : Nat) (s : St) : St :=
  if s.closed then s
  else
    let s1 := rawWrite P s (be32 0)
    let s2 : St :=
      if s1.blocked then
        let f := Block.finalise P s1.rem
        { s1 with file := s1.file.write f.1, rem := f.2 }
      else s1
    { s2 with file := s2.file.seek0, closed := true }

/-- finalisation events: explicit `close()` or leaving the `with` block (which calls `close`) -/
inductive Fin | close | exit
  deriving Repr, DecidableEq

def fin (P : Nat) (s : St) (_ : Fin) : St := close P s

/-- records then finalisations -/
def run (P : Nat) (blocked : Bool) (recs : List Bytes) (fins : List Fin) : St :=
  fins.foldl (fin P) (recs.foldl (write P) (init P blocked))

/-- `vbs_list_to_bytes`: write all, close once, read the file from the start -/
def listToBytes (P : Nat) (blocked : Bool) (recs : List Bytes) : Bytes :=
  (run P blocked recs [.close]).file.data

end Writer

/-- `vbs_bytes_to_list` / iterating a reader over whole-file bytes -/
def vbsBytesToList (P maxLen : Nat) (blocked : Bool) (f : Bytes) : List Bytes × Vbs.End :=
  if blocked then Vbs.readAll (unblockSrc P) maxLen (f.length + 1) (Vbs.init ⟨f, []⟩)
  else Vbs.readAll plainSrc maxLen (f.length + 1) (Vbs.init f)

end Cardutil
