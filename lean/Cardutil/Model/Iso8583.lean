import Cardutil.Py.Int
import Cardutil.Py.Decimal
import Cardutil.Py.Codec
import Cardutil.Py.Time
import Cardutil.Model.Card
/-
  Model of `cardutil.iso8583` (dumps / loads and their helpers) and `cardutil.BitArray`.

  Exceptions are values (`Outcome`): `dataError` = Iso8583DataError, `escape k` = any other Python
  exception.  Loops whose progress depends on parsed data (PDS walk, ICC walk) take explicit fuel;
  running out of fuel is `diverge`.
-/
namespace Cardutil.Iso

open Cardutil Cardutil.Py

/-! ## configuration -/

inductive FType | fixed | llvar | lllvar
  deriving Repr, DecidableEq, Inhabited

inductive Proc | none | pds | icc | de43 | pan | panPrefix
  deriving Repr, DecidableEq, Inhabited

inductive PyType | str | int | decimal | datetime
  deriving Repr, DecidableEq, Inhabited

structure FieldCfg where
  ftype : FType
  length : Nat
  proc : Proc
  pytype : PyType
  dateFmt : List Directive
  deriving Repr, DecidableEq, Inhabited

/-- bit number → field configuration (`bit_config`; keys are the decimal strings of the bits) -/
abbrev Config := List (Nat × FieldCfg)

def Config.get (cfg : Config) (bit : Nat) : Option FieldCfg := (cfg.find? (·.1 == bit)).map (·.2)

/-- `_get_field_length`: size of the length prefix -/
def FieldCfg.prefixLen (f : FieldCfg) : Nat :=
  match f.ftype with
  | .llvar => 2
  | .lllvar => 3
  | .fixed => 0

/-! ## values and dictionaries -/

inductive Val
  | str (t : Text)
  | int (i : Int)
  | bytes (b : Bytes)
  | dt (d : DateTime)
  | dec (d : Py.Dec)
  deriving Repr, DecidableEq

inductive Key
  | mti
  | de (n : Nat)
  | pds (tag : Text)       -- "PDS" ++ tag
  | tag (t : Text)         -- "TAG" ++ t
  | iccData
  | de43 (name : Text)     -- a named group of the DE43 pattern
  | raw (t : Text)         -- any other key (ignored by the encoder)
  deriving Repr, DecidableEq

/-- Python dict: insertion-ordered association list, `d[k] = v` replaces in place or appends -/
abbrev Dict := List (Key × Val)

def Dict.get (d : Dict) (k : Key) : Option Val := (d.find? (·.1 == k)).map (·.2)

def Dict.set : Dict → Key → Val → Dict
  | [], k, v => [(k, v)]
  | (k', v') :: rest, k, v => if k' == k then (k, v) :: rest else (k', v') :: Dict.set rest k v

def Dict.update (d : Dict) (e : Dict) : Dict := e.foldl (fun acc kv => Dict.set acc kv.1 kv.2) d

/-- everything outside cardutil that the codec calls, passed as parameters -/
structure Env where
  classes : IntClasses
  codec : Codec
  /-- `re.match(pattern, text).groupdict()` with the POSTCODE rstrip, for the element's pattern -/
  de43 : Nat → Text → Dict
  /-- `_get_date_from_string` (dateutil / fromisoformat); `none` = ValueError -/
  parseDate : Text → Option DateTime

/-! ## BitArray -/

/-- `BitArray.tolist()` of 16 bytes: 128 booleans, bit 1 = most significant bit of byte 0 -/
def bitsOfBytes (b : Bytes) : List Bool :=
  b.flatMap (fun x => (List.range 8).map (fun i => (x / 2 ^ (7 - i)) % 2 == 1))

/-- `BitArray.fromlist(...).tobytes()` -/
def bytesOfBits : List Bool → Bytes
  | b0 :: b1 :: b2 :: b3 :: b4 :: b5 :: b6 :: b7 :: rest =>
    ((((((((if b0 then 1 else 0) * 2 + (if b1 then 1 else 0)) * 2 + (if b2 then 1 else 0)) * 2 +
      (if b3 then 1 else 0)) * 2 + (if b4 then 1 else 0)) * 2 + (if b5 then 1 else 0)) * 2 +
      (if b6 then 1 else 0)) * 2 + (if b7 then 1 else 0)) :: bytesOfBits rest
  | _ => []

def hexDigitLower (n : Nat) : Nat := if n < 10 then 48 + n else 87 + n

/-- `binascii.hexlify` -/
def hexlify (b : Bytes) : Bytes := b.flatMap (fun x => [hexDigitLower (x / 16 % 16), hexDigitLower (x % 16)])

def hexVal? (c : Nat) : Option Nat :=
  if 48 ≤ c ∧ c ≤ 57 then some (c - 48)
  else if 97 ≤ c ∧ c ≤ 102 then some (c - 87)
  else if 65 ≤ c ∧ c ≤ 70 then some (c - 55)
  else none

/-- `binascii.unhexlify`; `none` = binascii.Error -/
def unhexlify? : Bytes → Option Bytes
  | [] => some []
  | [_] => none
  | a :: b :: rest =>
    match hexVal? a, hexVal? b, unhexlify? rest with
    | some x, some y, some r => some ((16 * x + y) :: r)
    | _, _, _ => none

/-! ## PDS (private data sub-elements) -/

/-- `f'{tag:04}{length:03}{value}'` -/
def pdsEntry (tag : Int) (v : Text) : Text := fmtInt 4 tag ++ fmtInt 3 (Int.ofNat v.length) ++ v

/-- the greedy packing loop of `_pds_to_de` over the (already sorted) entries -/
def pdsPack : List Text → Text → List Text
  | [], cur => if cur.isEmpty then [] else [cur]
  | e :: es, cur =>
    if 999 < (cur ++ e).length then cur :: pdsPack es e
    else pdsPack es (cur ++ e)

/-- insertion sort of PDS keys by their rendered text (Python `sorted` on 'PDSxxxx' strings) -/
def textLt : Text → Text → Bool
  | [], [] => false
  | [], _ :: _ => true
  | _ :: _, [] => false
  | a :: as, b :: bs => if a < b then true else if b < a then false else textLt as bs

def insertSorted (x : Text × Val) : List (Text × Val) → List (Text × Val)
  | [] => [x]
  | y :: ys => if textLt y.1 x.1 then y :: insertSorted x ys else x :: y :: ys

def sortPds (l : List (Text × Val)) : List (Text × Val) := l.foldr insertSorted []

/-- the `PDSxxxx` entries of a message in dict order -/
def pdsEntriesOf (m : Dict) : List (Text × Val) :=
  m.filterMap (fun kv => match kv.1 with | .pds t => some (t, kv.2) | _ => none)

/-- `_pds_to_de`: sorted keys, `int(key[3:])`, `len(value)`, greedy packing -/
def pdsEntryFor (k : IntClasses) (kv : Text × Val) : Outcome Text :=
  match pyInt k kv.1, kv.2 with
  | some tag, .str v => .ok (pdsEntry tag v)
  | none, _ => .escape .valueError          -- int(key[3:])
  | some _, _ => .escape .typeError         -- len() of a non-string value

def pdsToDe (k : IntClasses) (m : Dict) : Outcome (List Text) :=
  (Outcome.mapO (pdsEntryFor k) (sortPds (pdsEntriesOf m))).bind (fun es => .ok (pdsPack es []))

/-- `_pds_to_dict`: tag(4) length(3) value walk.  A malformed length is a ValueError, which the
    caller turns into the library error; a negative length is rejected the same way. -/
def pdsWalk (k : IntClasses) : Nat → Text → Dict → Outcome Dict
  | 0, _, _ => .diverge
  | fuel + 1, t, acc =>
    if t.isEmpty then .ok acc
    else
      match pyInt k ((t.drop 4).take 3) with
      | none => .escape .valueError
      | some (.negSucc _) => .escape .valueError
      | some (.ofNat n) =>
        pdsWalk k fuel (t.drop (7 + n)) (Dict.set acc (.pds (t.take 4)) (.str ((t.drop 7).take n)))

def pdsToDict (k : IntClasses) (t : Text) : Outcome Dict := pdsWalk k (t.length + 1) t []

/-! ## ICC (DE55 TLV data) -/

def hexUpperDigit (n : Nat) : Nat := if n < 10 then 48 + n else 55 + n

def hexTextLower (b : Bytes) : Text := hexlify b
def hexTextUpper (b : Bytes) : Text := b.flatMap (fun x => [hexUpperDigit (x / 16 % 16), hexUpperDigit (x % 16)])

def isTwoByteTag (t : Nat) : Bool := t == 0x9f || t == 0x5f

/-- the tag at the head of the remaining ICC data: one byte, or two when it starts with 9f / 5f -/
def iccTag : Bytes → Bytes
  | [] => []
  | t0 :: rest => if isTwoByteTag t0 then (t0 :: rest).take 2 else [t0]

/-- what follows the tag -/
def iccAfter : Bytes → Bytes
  | [] => []
  | t0 :: rest => if isTwoByteTag t0 then (t0 :: rest).drop 2 else rest

/-- `_icc_to_dict` tag walk.  `struct.unpack(">B", b'')` at the end of the field is a struct.error,
    which the caller turns into the library error. -/
def iccWalk : Nat → Bytes → Dict → Outcome Dict
  | 0, _, _ => .diverge
  | fuel + 1, b, acc =>
    if b.isEmpty then .ok acc
    else if iccTag b == [0] then .ok acc
    else
      match iccAfter b with
      | [] => .escape .structError
      | len :: body =>
        iccWalk fuel (body.drop len)
          (Dict.set acc (.tag (hexTextUpper (iccTag b))) (.str (hexTextLower (body.take len))))

def iccToDict (b : Bytes) : Outcome Dict :=
  iccWalk (b.length + 1) b [(.iccData, .str (hexTextLower b))]

/-! ## decode -/

/-- `_string_to_pytype`; a ValueError is turned into the library error by the caller -/
def stringToPyType (env : Env) (f : FieldCfg) (t : Text) : Outcome Val :=
  match f.pytype with
  | .str => .ok (.str t)
  | .int => match pyInt env.classes t with
    | some i => .ok (.int i)
    | none => .escape .valueError
  | .decimal => match pyDecimal env.classes t with
    | some d => .ok (.dec d)
    | none => .escape .decimalError      -- decimal.InvalidOperation (an ArithmeticError, not a ValueError)
  | .datetime => match strptime env.classes f.dateFmt t with
    | some d => .ok (.dt d)
    | none => .escape .valueError

def isValueError : ExcKind → Bool
  | .valueError => true
  | _ => false

/-- what the typed conversion's handler catches: `except (ValueError, decimal.InvalidOperation)` -/
def isConvError : ExcKind → Bool
  | .valueError => true
  | .decimalError => true
  | _ => false

def isValueOrStructError : ExcKind → Bool
  | .valueError => true
  | .structError => true
  | _ => false

/-- the declared length of an element: the configured width, or the parsed length prefix
    (undecodable / non-numeric / negative prefix → library error) -/
def fieldLength (env : Env) (f : FieldCfg) (data : Bytes) : Outcome Nat :=
  if f.prefixLen = 0 then .ok f.length
  else
    match env.codec.decode (data.take f.prefixLen) with
    | none => .dataError
    | some s =>
      match pyInt env.classes s with
      | none => .dataError
      | some (.negSucc _) => .dataError
      | some (.ofNat n) => .ok n

/-- ICC element: bytes kept as they are, TLV walk for the derived entries -/
def decodeIcc (bit : Nat) (f : FieldCfg) (raw : Bytes) : Outcome Dict :=
  match f.pytype with
  | .str =>
    ((iccToDict raw).catchAs isValueOrStructError).bind (fun sub =>
      .ok (Dict.update [(Key.de bit, Val.bytes raw)] sub))
  | _ => .escape .typeError

/-- the processor-specific derived entries for a decoded (typed) value -/
def derived (env : Env) (bit : Nat) (f : FieldCfg) (v : Val) : Outcome Dict :=
  match f.proc with
  | .pds =>
    match v with
    | .str t => (pdsToDict env.classes t).catchAs isValueOrStructError
    | _ => .escape .typeError
  | .de43 =>
    match v with
    | .str t => .ok (env.de43 bit t)
    | _ => .escape .typeError
  | _ => .ok []

/-- the processor-specific transformation of a decoded text: PAN masking (first six, last four),
    PAN prefix (first nine), otherwise unchanged -/
def transform (f : FieldCfg) (t : Text) : Text :=
  match f.proc with
  | .pan => Card.mask t 42
  | .panPrefix => Card.panPrefix t
  | _ => t

/-- text element: decode, mask / prefix, typed conversion, derived entries -/
def decodeTextField (env : Env) (bit : Nat) (f : FieldCfg) (raw : Bytes) : Outcome Dict :=
  match env.codec.decode raw with
  | none => .dataError
  | some text =>
    ((stringToPyType env f (transform f text)).catchAs isConvError).bind (fun v =>
      (derived env bit f v).bind (fun sub => .ok (Dict.update [(Key.de bit, v)] sub)))

/-- `_iso8583_to_field`: returns the entries for this element and the message increment -/
def decodeField (env : Env) (bit : Nat) (f : FieldCfg) (data : Bytes) : Outcome (Dict × Nat) :=
  (fieldLength env f data).bind (fun flen =>
    let raw := (data.drop f.prefixLen).take flen
    (if f.proc == .icc then decodeIcc bit f raw else decodeTextField env bit f raw).bind (fun d =>
      .ok (d, flen + f.prefixLen)))

/-- the bit loop of `_iso8583_to_dict` over the present bits in ascending order -/
def decodeBits (env : Env) (cfg : Config) : List Nat → Bytes → Dict → Nat → Outcome (Dict × Nat)
  | [], _, acc, ptr => .ok (acc, ptr)
  | bit :: bits, data, acc, ptr =>
    match cfg.get bit with
    | none => .dataError
    | some f =>
      (decodeField env bit f (data.drop ptr)).bind (fun r =>
        decodeBits env cfg bits data (Dict.update acc r.1) (ptr + r.2))

/-- bits 2..128 flagged in a 16-byte bitmap -/
def presentBits (bitmap : Bytes) : List Nat :=
  let bits := bitsOfBytes bitmap
  (List.range 127).filterMap (fun i => if bits.getD (i + 1) false then some (i + 2) else none)

/-- header of a message: MTI text, 16-byte binary bitmap, message data.
    Short input (struct.error), non-hex hex-bitmap (binascii.Error), undecodable or non-numeric MTI
    are all the library error. -/
def decodeHeader (env : Env) (hexBitmap : Bool) (msg : Bytes) : Outcome (Text × Bytes × Bytes) :=
  let hdr := if hexBitmap then 36 else 20
  if msg.length < hdr then .dataError
  else
    match (if hexBitmap then unhexlify? ((msg.drop 4).take 32) else some ((msg.drop 4).take 16)) with
    | none => .dataError
    | some bitmap =>
      match env.codec.decode (msg.take 4) with
      | none => .dataError
      | some mti =>
        match pyInt env.classes mti with
        | none => .dataError
        | some _ => .ok (mti, bitmap, msg.drop hdr)

/-- the element loop and the final "whole message consumed" check -/
def decodeBody (env : Env) (cfg : Config) (mti : Text) (bitmap data : Bytes) : Outcome Dict :=
  (decodeBits env cfg (presentBits bitmap) data [(.mti, .str mti)] 0).bind (fun r =>
    if r.2 = data.length then .ok r.1 else .dataError)

/-- `loads` / `_iso8583_to_dict` -/
def decode (env : Env) (cfg : Config) (hexBitmap : Bool) (msg : Bytes) : Outcome Dict :=
  (decodeHeader env hexBitmap msg).bind (fun h => decodeBody env cfg h.1 h.2.1 h.2.2)

/-! ## encode -/

/-- truthiness test `v or v == 0` of `_dict_to_iso8583` -/
def present : Val → Bool
  | .str t => !t.isEmpty
  | .int _ => true
  | .bytes b => !b.isEmpty
  | .dt _ => true
  | .dec _ => true

/-- `_pytype_to_string`: the value as text (or bytes, passed through) -/
def pyTypeToString (env : Env) (f : FieldCfg) (v : Val) : Outcome Val :=
  match f.pytype with
  | .str => .ok v
  | .int =>
    match v with
    | .int i => .ok (.str (fmtInt f.length i))
    | .str t => match pyInt env.classes t with
      | some i => .ok (.str (fmtInt f.length i))
      | none => .escape .valueError
    | _ => .escape .typeError
  | .decimal =>
    -- `format(decimal.Decimal(field_data), '0' + str(field_length or '') + 'f')` (a width of 0 is left out)
    let d? : Outcome Py.Dec :=
      match v with
      | .dec d => .ok d
      | .int i => .ok (decOfInt i)
      | .str t => match pyDecimal env.classes t with
        | some d => .ok d
        | none => .escape .decimalError
      | _ => .escape .typeError
    d?.bind (fun d => match fmtDecF f.length d with
      | some t => .ok (.str t)
      | none => .escape .valueError)
  | .datetime =>
    match v with
    | .dt d => .ok (.str (strftime f.dateFmt d))
    | .str t => match env.parseDate t with
      | some d => .ok (.str (strftime f.dateFmt d))
      | none => .escape .valueError
    | _ => .escape .typeError

def encodeText (env : Env) (t : Text) : Outcome Bytes :=
  match env.codec.encode t with
  | some b => .ok b
  | none => .escape .unicodeError

/-- `_field_to_iso8583` -/
def encodeField (env : Env) (f : FieldCfg) (v : Val) : Outcome Bytes :=
  (pyTypeToString env f v).bind (fun s =>
    match s with
    | .str t =>
      if f.prefixLen = 0 then encodeText env (fitLeft f.length t)
      else if 10 ^ f.prefixLen ≤ t.length then .dataError     -- longer than the prefix can count: refused
      else
        (encodeText env (fmtInt f.prefixLen (Int.ofNat t.length))).bind (fun p =>
          (encodeText env t).bind (fun body => .ok (p ++ body)))
    | .bytes b =>
      if f.prefixLen = 0 then .ok (b.take f.length)
      else if 10 ^ f.prefixLen ≤ b.length then .dataError
      else (encodeText env (fmtInt f.prefixLen (Int.ofNat b.length))).bind (fun p => .ok (p ++ b))
    | _ => .escape .typeError)

def insertNat (x : Nat) : List Nat → List Nat
  | [] => [x]
  | y :: ys => if y ≤ x then y :: insertNat x ys else x :: y :: ys

/-- `sorted(...)` of a list of numbers (insertion sort: structural, so the kernel can evaluate it) -/
def sortNat (l : List Nat) : List Nat := l.foldr insertNat []

/-- PDS carrier elements in ascending order -/
def pdsCarriers (cfg : Config) : List Nat :=
  sortNat ((cfg.filter (fun e => e.2.proc == .pds)).map (·.1))

/-- assign the packed PDS strings to the carriers in ascending order (`pop()` from the reversed
    list); more strings than carriers is an IndexError -/
def assignCarriers : List Nat → List Text → Dict → Outcome Dict
  | _, [], m => .ok m
  | [], _ :: _, _ => .escape .indexError
  | c :: cs, t :: ts, m => assignCarriers cs ts (Dict.set m (.de c) (.str t))

/-- the field loop of `_dict_to_iso8583` over the given bits (2..128): the bits actually emitted
    and the concatenated element data -/
def encodeBits (env : Env) (cfg : Config) (m : Dict) : List Nat → Outcome (List Nat × Bytes)
  | [] => .ok ([], [])
  | bit :: bits =>
    match Dict.get m (.de bit) with
    | some v =>
      if present v then
        match cfg.get bit with
        | none => .escape .keyError
        | some f =>
          (encodeField env f v).bind (fun b =>
            (encodeBits env cfg m bits).bind (fun r => .ok (bit :: r.1, b ++ r.2)))
      else encodeBits env cfg m bits
    | none => encodeBits env cfg m bits

/-- bitmap of the present bits: bit 1 always on -/
def bitmapOf (presentBits : List Nat) : Bytes :=
  bytesOfBits ((List.range 128).map (fun i => i == 0 || presentBits.contains (i + 1)))

/-- the MTI bytes: `message['MTI'].encode(encoding) if message.get('MTI') else b''` -/
def encodeMti (env : Env) (m : Dict) : Outcome Bytes :=
  match Dict.get m .mti with
  | some (.str t) => if t.isEmpty then .ok [] else encodeText env t
  | some _ => .escape .typeError        -- `.encode` on a non-string MTI
  | none => .ok []

/-- everything after the PDS carriers have been assigned: element loop, bitmap, MTI -/
def encodeCore (env : Env) (cfg : Config) (hexBitmap : Bool) (m : Dict) : Outcome Bytes :=
  (encodeBits env cfg m ((List.range 127).map (· + 2))).bind (fun r =>
    (encodeMti env m).bind (fun mti =>
      .ok (mti ++ (if hexBitmap then hexlify (bitmapOf r.1) else bitmapOf r.1) ++ r.2)))

/-- `dumps` / `_dict_to_iso8583` -/
def encode (env : Env) (cfg : Config) (hexBitmap : Bool) (m : Dict) : Outcome Bytes :=
  (pdsToDe env.classes m).bind (fun chunks =>
    (assignCarriers (pdsCarriers cfg) chunks m).bind (fun m' =>
      encodeCore env cfg hexBitmap m'))

end Cardutil.Iso
