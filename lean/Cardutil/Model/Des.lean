import Cardutil.Basic
/-
  DES and two- and three-key Triple DES (EDE, ECB) as functions on bit lists — the cipher behind
  `TdesEncryptedPinBlockMixin` (C13) and `calculate_pvv` / `calculate_kcv` / `encrypt_key` (C14), which cardutil takes
  from the `cryptography` package.  The tables are those of FIPS 46-3 (generated from harness/refdes.py, whose
  known-answer self-test runs in every check; the `#guard`s below repeat the known answers for this model).
  Lemmas/Des.lean proves decrypt (encrypt x) = x from the Feistel structure alone.
-/
namespace Cardutil.Des

abbrev Bits := List Bool

def IP : List Nat := [58, 50, 42, 34, 26, 18, 10, 2, 60, 52, 44, 36, 28, 20, 12, 4, 62, 54, 46, 38, 30, 22, 14, 6, 64, 56, 48, 40, 32, 24, 16, 8, 57, 49, 41, 33, 25, 17, 9, 1, 59, 51, 43, 35, 27, 19, 11, 3, 61, 53, 45, 37, 29, 21, 13, 5, 63, 55, 47, 39, 31, 23, 15, 7]
def FP : List Nat := [40, 8, 48, 16, 56, 24, 64, 32, 39, 7, 47, 15, 55, 23, 63, 31, 38, 6, 46, 14, 54, 22, 62, 30, 37, 5, 45, 13, 53, 21, 61, 29, 36, 4, 44, 12, 52, 20, 60, 28, 35, 3, 43, 11, 51, 19, 59, 27, 34, 2, 42, 10, 50, 18, 58, 26, 33, 1, 41, 9, 49, 17, 57, 25]
def E : List Nat := [32, 1, 2, 3, 4, 5, 4, 5, 6, 7, 8, 9, 8, 9, 10, 11, 12, 13, 12, 13, 14, 15, 16, 17, 16, 17, 18, 19, 20, 21, 20, 21, 22, 23, 24, 25, 24, 25, 26, 27, 28, 29, 28, 29, 30, 31, 32, 1]
def P : List Nat := [16, 7, 20, 21, 29, 12, 28, 17, 1, 15, 23, 26, 5, 18, 31, 10, 2, 8, 24, 14, 32, 27, 3, 9, 19, 13, 30, 6, 22, 11, 4, 25]
def PC1 : List Nat := [57, 49, 41, 33, 25, 17, 9, 1, 58, 50, 42, 34, 26, 18, 10, 2, 59, 51, 43, 35, 27, 19, 11, 3, 60, 52, 44, 36, 63, 55, 47, 39, 31, 23, 15, 7, 62, 54, 46, 38, 30, 22, 14, 6, 61, 53, 45, 37, 29, 21, 13, 5, 28, 20, 12, 4]
def PC2 : List Nat := [14, 17, 11, 24, 1, 5, 3, 28, 15, 6, 21, 10, 23, 19, 12, 4, 26, 8, 16, 7, 27, 20, 13, 2, 41, 52, 31, 37, 47, 55, 30, 40, 51, 45, 33, 48, 44, 49, 39, 56, 34, 53, 46, 42, 50, 36, 29, 32]
def SH : List Nat := [1, 1, 2, 2, 2, 2, 2, 2, 1, 2, 2, 2, 2, 2, 2, 1]
def S : List (List Nat) := [
  [14, 4, 13, 1, 2, 15, 11, 8, 3, 10, 6, 12, 5, 9, 0, 7, 0, 15, 7, 4, 14, 2, 13, 1, 10, 6, 12, 11, 9, 5, 3, 8, 4, 1, 14, 8, 13, 6, 2, 11, 15, 12, 9, 7, 3, 10, 5, 0, 15, 12, 8, 2, 4, 9, 1, 7, 5, 11, 3, 14, 10, 0, 6, 13],
  [15, 1, 8, 14, 6, 11, 3, 4, 9, 7, 2, 13, 12, 0, 5, 10, 3, 13, 4, 7, 15, 2, 8, 14, 12, 0, 1, 10, 6, 9, 11, 5, 0, 14, 7, 11, 10, 4, 13, 1, 5, 8, 12, 6, 9, 3, 2, 15, 13, 8, 10, 1, 3, 15, 4, 2, 11, 6, 7, 12, 0, 5, 14, 9],
  [10, 0, 9, 14, 6, 3, 15, 5, 1, 13, 12, 7, 11, 4, 2, 8, 13, 7, 0, 9, 3, 4, 6, 10, 2, 8, 5, 14, 12, 11, 15, 1, 13, 6, 4, 9, 8, 15, 3, 0, 11, 1, 2, 12, 5, 10, 14, 7, 1, 10, 13, 0, 6, 9, 8, 7, 4, 15, 14, 3, 11, 5, 2, 12],
  [7, 13, 14, 3, 0, 6, 9, 10, 1, 2, 8, 5, 11, 12, 4, 15, 13, 8, 11, 5, 6, 15, 0, 3, 4, 7, 2, 12, 1, 10, 14, 9, 10, 6, 9, 0, 12, 11, 7, 13, 15, 1, 3, 14, 5, 2, 8, 4, 3, 15, 0, 6, 10, 1, 13, 8, 9, 4, 5, 11, 12, 7, 2, 14],
  [2, 12, 4, 1, 7, 10, 11, 6, 8, 5, 3, 15, 13, 0, 14, 9, 14, 11, 2, 12, 4, 7, 13, 1, 5, 0, 15, 10, 3, 9, 8, 6, 4, 2, 1, 11, 10, 13, 7, 8, 15, 9, 12, 5, 6, 3, 0, 14, 11, 8, 12, 7, 1, 14, 2, 13, 6, 15, 0, 9, 10, 4, 5, 3],
  [12, 1, 10, 15, 9, 2, 6, 8, 0, 13, 3, 4, 14, 7, 5, 11, 10, 15, 4, 2, 7, 12, 9, 5, 6, 1, 13, 14, 0, 11, 3, 8, 9, 14, 15, 5, 2, 8, 12, 3, 7, 0, 4, 10, 1, 13, 11, 6, 4, 3, 2, 12, 9, 5, 15, 10, 11, 14, 1, 7, 6, 0, 8, 13],
  [4, 11, 2, 14, 15, 0, 8, 13, 3, 12, 9, 7, 5, 10, 6, 1, 13, 0, 11, 7, 4, 9, 1, 10, 14, 3, 5, 12, 2, 15, 8, 6, 1, 4, 11, 13, 12, 3, 7, 14, 10, 15, 6, 8, 0, 5, 9, 2, 6, 11, 13, 8, 1, 4, 10, 7, 9, 5, 0, 15, 14, 2, 3, 12],
  [13, 2, 8, 4, 6, 15, 11, 1, 10, 9, 3, 14, 5, 0, 12, 7, 1, 15, 13, 8, 10, 3, 7, 4, 12, 5, 6, 11, 0, 14, 9, 2, 7, 11, 4, 1, 9, 12, 14, 2, 0, 6, 10, 13, 15, 3, 5, 8, 2, 1, 14, 7, 4, 10, 8, 13, 15, 12, 9, 0, 3, 5, 6, 11]]

/-- select bits by a table of 1-based positions -/
def perm (tbl : List Nat) (x : Bits) : Bits := tbl.map (fun p => x.getD (p - 1) false)

def xorB (a b : Bits) : Bits := List.zipWith (fun x y => x != y) a b

def rotl (n : Nat) (x : Bits) : Bits := x.drop n ++ x.take n

def b2n (b : Bool) : Nat := if b then 1 else 0

def toNat (b : Bits) : Nat := b.foldl (fun a x => 2 * a + b2n x) 0

/-- the four bits of a value below 16, most significant first -/
def nibble (n : Nat) : Bits := [n / 8 % 2 == 1, n / 4 % 2 == 1, n / 2 % 2 == 1, n % 2 == 1]

/-- S-box `i` on six bits: row = outer bits, column = inner four -/
def sbox (i : Nat) (six : Bits) : Bits :=
  match six with
  | [b0, b1, b2, b3, b4, b5] =>
    nibble (((S.getD i []).getD ((2 * b2n b0 + b2n b5) * 16 + (8 * b2n b1 + 4 * b2n b2 + 2 * b2n b3 + b2n b4)) 0))
  | _ => [false, false, false, false]

def chunks6 : Bits → List Bits
  | b0 :: b1 :: b2 :: b3 :: b4 :: b5 :: rest => [b0, b1, b2, b3, b4, b5] :: chunks6 rest
  | _ => []

def sboxes (x : Bits) : Bits := ((chunks6 x).zipIdx.map (fun c => sbox c.2 c.1)).flatten

/-- the round function -/
def f (r k : Bits) : Bits := perm P (sboxes (xorB (perm E r) k))

def subkeysGo : List Nat → Bits → Bits → List Bits
  | [], _, _ => []
  | s :: ss, c, d => perm PC2 (rotl s c ++ rotl s d) :: subkeysGo ss (rotl s c) (rotl s d)

/-- the sixteen 48-bit round keys of a 64-bit key -/
def subkeys (key : Bits) : List Bits :=
  let k := perm PC1 key
  subkeysGo SH (k.take 28) (k.drop 28)

def round (lr : Bits × Bits) (k : Bits) : Bits × Bits := (lr.2, xorB lr.1 (f lr.2 k))

/-- initial permutation, the rounds, swap, final permutation -/
def core (ks : List Bits) (block : Bits) : Bits :=
  let x := perm IP block
  let lr := ks.foldl round (x.take 32, x.drop 32)
  perm FP (lr.2 ++ lr.1)

def encBlock (key block : Bits) : Bits := core (subkeys key) block
def decBlock (key block : Bits) : Bits := core (subkeys key).reverse block

/-- EDE with keys k1, k2, k3 -/
def tdesEncBlock (k1 k2 k3 block : Bits) : Bits := encBlock k3 (decBlock k2 (encBlock k1 block))
def tdesDecBlock (k1 k2 k3 block : Bits) : Bits := decBlock k1 (encBlock k2 (decBlock k3 block))

/-! ### bytes -/

def bitsOfByte (x : Nat) : Bits := (List.range 8).map (fun i => (x / 2 ^ (7 - i)) % 2 == 1)
def bitsOfBytes (b : Bytes) : Bits := b.flatMap bitsOfByte

def bytesOfBits : Bits → Bytes
  | b0 :: b1 :: b2 :: b3 :: b4 :: b5 :: b6 :: b7 :: rest =>
    (128 * b2n b0 + 64 * b2n b1 + 32 * b2n b2 + 16 * b2n b3 + 8 * b2n b4 + 4 * b2n b5 + 2 * b2n b6 + b2n b7) :: bytesOfBits rest
  | _ => []

def blocks8 : Bytes → List Bytes
  | a :: b :: c :: d :: e :: f :: g :: h :: rest => [a, b, c, d, e, f, g, h] :: blocks8 rest
  | _ => []

/-- the three DES keys of an 8-, 16- or 24-byte Triple DES key (`cryptography` repeats K1 as K3 for 16 bytes and uses
    K1 three times for 8); any other size is `ValueError: Invalid key size` -/
def splitKey (key : Bytes) : Option (Bits × Bits × Bits) :=
  if key.length = 24 then some (bitsOfBytes (key.take 8), bitsOfBytes ((key.drop 8).take 8), bitsOfBytes (key.drop 16))
  else if key.length = 16 then some (bitsOfBytes (key.take 8), bitsOfBytes (key.drop 8), bitsOfBytes (key.take 8))
  else if key.length = 8 then some (bitsOfBytes key, bitsOfBytes key, bitsOfBytes key)
  else none

/-- Triple DES in ECB mode over whole 8-byte blocks (`Cipher(TripleDES(key), ECB())`): ValueError for a key of another
    size or data that is not a whole number of blocks -/
def tdesEcb (decrypt : Bool) (key data : Bytes) : Outcome Bytes :=
  match splitKey key with
  | none => .escape .valueError
  | some (k1, k2, k3) =>
    if data.length % 8 ≠ 0 then .escape .valueError
    else .ok ((blocks8 data).flatMap (fun blk =>
      bytesOfBits ((if decrypt then tdesDecBlock else tdesEncBlock) k1 k2 k3 (bitsOfBytes blk))))

/-- `Cipher(TripleDES(key), ECB()).encryptor().update(block)` as a function of the block (a key of another size or a
    ragged block raises in the code; those inputs are outside the properties) -/
def tdesFn (key : Bytes) : Bytes → Bytes := fun b =>
  match tdesEcb false key b with
  | .ok c => c
  | _ => []

def hexBytes (s : String) : Bytes :=
  let v (c : Char) : Nat := if c.isDigit then c.toNat - 48 else c.toLower.toNat - 87
  let rec go : List Char → Bytes
    | a :: b :: rest => (16 * v a + v b) :: go rest
    | _ => []
  go s.toList

-- known answers (FIPS 46-3 worked example; SP 800-17 variable-plaintext vector; a two-key EDE value computed with the
-- reference implementation)
#guard bytesOfBits (encBlock (bitsOfBytes (hexBytes "133457799BBCDFF1")) (bitsOfBytes (hexBytes "0123456789ABCDEF"))) == hexBytes "85E813540F0AB405"
#guard bytesOfBits (decBlock (bitsOfBytes (hexBytes "133457799BBCDFF1")) (bitsOfBytes (hexBytes "85E813540F0AB405"))) == hexBytes "0123456789ABCDEF"
#guard bytesOfBits (encBlock (bitsOfBytes (hexBytes "0101010101010101")) (bitsOfBytes (hexBytes "8000000000000000"))) == hexBytes "95F8A5E5DD31D900"
#guard tdesEcb false (hexBytes "0123456789ABCDEFFEDCBA9876543210") (hexBytes "0123456789ABCDEF0000000000000000") ==
  .ok (hexBytes "1a4d672dca6cb33508d7b4fb629d0885")
#guard tdesEcb false (hexBytes "0123456789ABCDEFFEDCBA987654321089ABCDEF01234567") (hexBytes "0123456789ABCDEF") ==
  .ok (hexBytes "691747fd88b6d228")

end Cardutil.Des
