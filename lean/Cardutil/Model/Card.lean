import Cardutil.Basic
/-
  Model of `cardutil.card`: Luhn check digit, validation, append, masking.
  Text is a list of code points; '0'..'9' are 48..57.
-/
namespace Cardutil.Card

/-- `sum(divmod(x, 10))` -/
def dsum (x : Nat) : Nat := x / 10 + x % 10

/-- `sum(sum(divmod(m*d,10)) for d, m in zip(ds, cycle([2,1])))` when `dbl`, `cycle([1,2])` otherwise -/
def wsum : Bool → List Nat → Nat
  | _, [] => 0
  | dbl, d :: ds => dsum ((if dbl then 2 else 1) * d) + wsum (!dbl) ds

/-- check digit of a digit list (digits[::-1] zipped with 2,1,2,1…; `(total * 9) % 10`) -/
def checkDigit (ds : List Nat) : Nat := (wsum true ds.reverse * 9) % 10

/-- `[int(c) for c in s if c.isdigit()]` on ASCII text: keep '0'..'9' -/
def digitsOf (t : Text) : List Nat := (t.filter (fun c => decide (48 ≤ c ∧ c ≤ 57))).map (· - 48)

/-- `calculate_check_digit` -/
def calcText (t : Text) : Text := [48 + checkDigit (digitsOf t)]

/-- `validate_check_digit`: `ok` = accepted, `escape assertionError` = rejected, empty input is an
    IndexError (`card_number[-1]`). -/
def validateText (t : Text) : Outcome Unit :=
  match t.getLast? with
  | none => .escape .indexError
  | some l => if calcText t.dropLast = [l] then .ok () else .escape .assertionError

/-- `add_check_digit` -/
def addCheckDigit (t : Text) : Text := t ++ calcText t

/-- `mask(card_number, mask_char)` for a single mask character -/
def mask (c : Text) (m : Nat) : Text := c.take 6 ++ List.replicate (c.length - 10) m ++ c.drop (c.length - 4)

/-- `_pan_prefix` -/
def panPrefix (c : Text) : Text := c.take 9

end Cardutil.Card
