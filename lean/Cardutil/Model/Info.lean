import Cardutil.Model.Vbs
import Cardutil.Model.Iso8583
/-
  Model of `cardutil.mciipm.ipm_info` (file inspection) and its helpers
  `block_1014_check`, `bitmap_check`, `encoding_check`.
-/
namespace Cardutil.Info

open Cardutil Cardutil.Block

inductive Enc | latin1 | cp037 | unknown
  deriving Repr, DecidableEq

inductive Reason | tooShort | firstLengthTooLong | bitmapUsesUnconfigured (bit : Nat)
  deriving Repr, DecidableEq

inductive Result
  | invalid (r : Reason)
  | valid (isBlocked : Bool) (enc : Enc)
  deriving Repr, DecidableEq

/-- `block_1014_check` on the (at most 2500-byte) sample, for payload size `P` (1012 in the code):
    trailer of the first block, and of the second block when the sample reaches it; a sample
    longer than one block but shorter than two is "not blocked". -/
def blockCheck (P : Nat) (s : Bytes) : Bool :=
  if s.length < P + 2 then false
  else if (s.drop P).take 2 == PP then
    if s.length = P + 2 then true
    else if 2 * (P + 2) ≤ s.length ∧ (s.drop (P + 2 + P)).take 2 == PP then true
    else false
  else false

def block1014Check (s : Bytes) : Bool := blockCheck 1012 s

/-- `bitmap_check`: first bit (2..128) flagged in the bitmap that has no configuration -/
def bitmapCheck (configured : List Nat) (bitmap : Bytes) : Option Nat :=
  (Iso.presentBits bitmap).find? (fun b => !configured.contains b)

/-- `str.isnumeric()` of the decoded MTI bytes, through the generated per-byte tables -/
def allNumeric (tbl : List Nat) (b : Bytes) : Bool := !b.isEmpty && b.all tbl.contains

def encodingCheck (latin1Numeric cp037Numeric : List Nat) (mti : Bytes) : Enc :=
  if allNumeric latin1Numeric mti then .latin1
  else if allNumeric cp037Numeric mti then .cp037
  else .unknown

/-- `ipm_info`, with the sample size and payload size as parameters (2500 and 1012 in the code) -/
def ipmInfoP (S P : Nat) (configured : List Nat) (maxLen : Nat) (latin1Numeric cp037Numeric : List Nat) (file : Bytes) :
    Result :=
  let s := file.take S
  if s.length < 24 then .invalid .tooShort
  else if maxLen < be32dec (s.take 4) then .invalid .firstLengthTooLong
  else
    match bitmapCheck configured ((s.drop 8).take 16) with
    | some b => .invalid (.bitmapUsesUnconfigured b)
    | none => .valid (blockCheck P s) (encodingCheck latin1Numeric cp037Numeric ((s.drop 4).take 4))

/-- `ipm_info` -/
def ipmInfo (configured : List Nat) (maxLen : Nat) (latin1Numeric cp037Numeric : List Nat) (file : Bytes) : Result :=
  ipmInfoP 2500 1012 configured maxLen latin1Numeric cp037Numeric file

end Cardutil.Info
