import Cardutil.Model.Iso8583
import Cardutil.Model.Vbs
/-
  Models of the conversion and CSV tools (the function entry points of `cardutil.cli.*`):
  `mci_ipm_encode`, `mideu convert`, `mci_ipm_param_encode` / `paramconv`, `mci_csv_to_ipm`,
  `mci_ipm_to_csv`.  File-system / argparse glue is exercised by the harness, not modelled.
-/
namespace Cardutil.Cli

open Cardutil Cardutil.Iso Cardutil.Py

/-- `mci_ipm_encode.get_config()`: the configuration with the PDS field processors removed -/
def noPds (cfg : Config) : Config :=
  cfg.map (fun e => (e.1, if e.2.proc == .pds then { e.2 with proc := .none } else e.2))

def readerOf (blocked : Bool) (P maxLen : Nat) {α} (dec : Bytes → Outcome α) (file : Bytes) : List α × Vbs.End :=
  if blocked then Vbs.ipmReadAll (unblockSrc P) maxLen dec (file.length + 1) (Vbs.init ⟨file, []⟩)
  else Vbs.ipmReadAll plainSrc maxLen dec (file.length + 1) (Vbs.init file)

/-- reader(in encoding, read configuration) piped into writer(out encoding, write configuration):
    every record is decoded and re-encoded; a reader error aborts the tool (`none` + the ending) -/
def convertIpm (P maxLen : Nat) (envA envB : Env) (cfgRead cfgWrite : Config) (inBlocked outBlocked : Bool)
    (file : Bytes) : Outcome Bytes × Vbs.End :=
  let r := readerOf inBlocked P maxLen (decode envA cfgRead false) file
  match r.2 with
  | .eof =>
    (((Outcome.mapO (encode envB cfgWrite false) r.1).bind
      (fun recs => .ok (Writer.listToBytes P outBlocked recs))), .eof)
  | e => (.dataError, e)

/-- `mci_ipm_encode`: PDS expansion disabled on read, packaged configuration on write -/
def mciIpmEncode (P maxLen : Nat) (envA envB : Env) (cfg : Config) (inBlocked outBlocked : Bool) (file : Bytes) :=
  convertIpm P maxLen envA envB (noPds cfg) cfg inBlocked outBlocked file

/-- `record.decode(A).encode(B)`: an undecodable byte or unencodable character is a UnicodeError -/
def recodeRecord (a b : Codec) (rec : Bytes) : Outcome Bytes :=
  match a.decode rec with
  | none => .escape .unicodeError
  | some t => match b.encode t with
    | none => .escape .unicodeError
    | some x => .ok x

/-- record-wise `record.decode(A).encode(B)` of a parameter file -/
def convertParam (P maxLen : Nat) (a b : Codec) (inBlocked outBlocked : Bool) (file : Bytes) : Outcome Bytes × Vbs.End :=
  let r := vbsBytesToList P maxLen inBlocked file
  match r.2 with
  | .eof =>
    ((Outcome.mapO (recodeRecord a b) r.1).bind (fun recs => .ok (Writer.listToBytes P outBlocked recs)), .eof)
  | e => (.dataError, e)

/-! ## CSV cells -/

def pad2 (n : Nat) : Text := [48 + n / 10 % 10, 48 + n % 10]

/-- `str(value)` as `csv.DictWriter` renders a decoded value -/
def cellOf : Val → Text
  | .str t => t
  | .int i => strInt i
  | .bytes b => b          -- not reached for the configured output columns
  | .dec _ => []           -- str(Decimal): not modelled (no packaged column is decimal)
  | .dt d =>
    (Cardutil.Digits.toDigits 10 4 d.year).map (48 + ·) ++ [45] ++ pad2 d.month ++ [45] ++ pad2 d.day ++ [32] ++
      pad2 d.hour ++ [58] ++ pad2 d.minute ++ [58] ++ pad2 d.second

/-- one CSV row → IPM record → CSV row: cells are strings, empty cells mean absent; the returned
    cells are the decoded values rendered with `str()` -/
def csvRow (envW envR : Env) (cfg : Config) (row : Dict) : Outcome (List (Key × Text)) := do
  let msg : Dict := row.filter (fun kv => present kv.2)
  let rec ← encode envW cfg false msg
  let d ← decode envR cfg false rec
  .ok (d.map (fun kv => (kv.1, cellOf kv.2)))

end Cardutil.Cli
