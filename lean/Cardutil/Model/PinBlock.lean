import Cardutil.Py.Digits
import Cardutil.Py.Hex
/-
  Models of `cardutil.pinblock` (ISO 9564 formats 0 and 4, PVV) and `cardutil.key`
  (component combination, KCV, key encryption), generic in the block cipher.
  Text = code points; hex is lowercase as Python's format/hexlify produce.
-/
namespace Cardutil.Pin

open Cardutil Cardutil.Digits

/-- `card_number[-13:-1]` -/
def rightmost12 (pan : Text) : Text := (pan.take (pan.length - 1)).drop (pan.length - 13)

/-- `card_number[-12:-1]` -/
def rightmost11 (pan : Text) : Text := (pan.take (pan.length - 1)).drop (pan.length - 12)

/-- the PIN-length field: one hex digit for lengths up to 15 (`format(len(pin), 'x')`) -/
def lenField (pin : Text) : Text := (hexMin pin.length).map hexChar

/-- `Iso0PinBlock.to_bytes` -/
def iso0ToBytes (pin pan : Text) : Outcome Bytes := do
  let p1 ← intHex (ljust 16 102 ([48] ++ lenField pin ++ pin))
  let p2 ← intHex ([48, 48, 48, 48] ++ rightmost12 pan)
  let v := p1 ^^^ p2
  if v < 2 ^ 64 then .ok (toDigits 256 8 v) else .escape .overflowError

/-- `Iso0PinBlock.from_bytes(...).pin` -/
def iso0FromBytes (block : Bytes) (pan : Text) : Outcome Text := do
  let p2 ← intHex ([48, 48, 48, 48] ++ rightmost12 pan)
  let v := fromDigits 256 block ^^^ p2
  let p1 := (fmtHexW 16 v).map hexChar
  let l ← intHex ((p1.drop 1).take 1)
  .ok ((p1.drop 2).take l)

/-- `Iso4PinBlock.to_bytes` with a supplied random value -/
def iso4ToBytes (pin : Text) (rnd : Nat) : Outcome Bytes :=
  unhexlify (ljust 16 97 ([52] ++ lenField pin ++ pin) ++ (fmtHexW 16 rnd).map hexChar)

/-- `Iso4PinBlock.from_bytes(...).pin` -/
def iso4FromBytes (block : Bytes) : Outcome Text := do
  let p1 := (bytesToNibbles block).map hexChar
  let l ← intHex ((p1.drop 1).take 1)
  .ok ((p1.drop 2).take l)

/-! ## PVV -/

/-- `_get_tsp`: 11 rightmost PAN digits excluding the check digit, key index, leftmost 4 PIN digits -/
def tsp (pan : Text) (idx : Text) (pin : Text) : Text := rightmost11 pan ++ idx ++ pin.take 4

/-- two-pass decimalisation of the 16 hex digits of the ciphertext -/
def decimalise (ct : List Nat) : Text :=
  let pass1 := (ct.filter (· < 10)).map hexChar
  let pass2 := if pass1.length < 4 then ((ct.filter (fun n => decide (10 ≤ n))).map (fun n => 48 + (n - 10))) else []
  (pass1 ++ pass2).take 4

/-- `calculate_pvv` for a block cipher `enc` (3DES-ECB of 8 bytes under the PVV key) -/
def pvv (enc : Bytes → Bytes) (pin : Text) (idx : Text) (pan : Text) : Outcome Text := do
  let block ← unhexlify (tsp pan idx pin)
  .ok (decimalise (bytesToNibbles (enc block)))

/-! ## key.py -/

/-- `get_zone_master_key`: XOR of the components as numbers, formatted with the width of the widest
    component, at least 32 hex digits (`:0{max(len(p1), len(key_part))}x` starting from 32 zeros) -/
def combineVal (parts : List Nat) : Nat := parts.foldl (· ^^^ ·) 0

def combineWidth (parts : List Text) : Nat := parts.foldl (fun w p => max w p.length) 32

def combine (parts : List Text) : Outcome Text := do
  let vals ← Outcome.mapO intHex parts
  .ok ((fmtHexW (combineWidth parts) (combineVal vals)).map hexChar)

/-- `calculate_kcv`: leading hex digits of the encryption of 16 zero bytes -/
def kcv (enc : Bytes → Bytes) (n : Nat) : Text := ((bytesToNibbles (enc (List.replicate 16 0))).map hexChar).take n

end Cardutil.Pin
