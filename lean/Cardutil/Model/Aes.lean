import Cardutil.Basic
/-
  AES (FIPS 197) on lists of byte values: the block cipher behind `AESEncryptedPinBlockMixin` (C13), in the clear —
  S-box, ShiftRows, MixColumns over GF(2^8), AddRoundKey, the key schedule for 128 / 192 / 256-bit keys, the cipher and
  the direct inverse cipher, ECB over 16-byte blocks.  Known-answer vectors of FIPS 197 Appendix C are checked below;
  Lemmas/Aes.lean proves that decryption inverts encryption.  Bytes are `Nat`s below 256.
-/
namespace Cardutil.Aes

def sbox : List Nat := [99, 124, 119, 123, 242, 107, 111, 197, 48, 1, 103, 43, 254, 215, 171, 118, 202, 130, 201, 125, 250, 89, 71, 240, 173, 212, 162, 175, 156, 164, 114, 192, 183, 253, 147, 38, 54, 63, 247, 204, 52, 165, 229, 241, 113, 216, 49, 21, 4, 199, 35, 195, 24, 150, 5, 154, 7, 18, 128, 226, 235, 39, 178, 117, 9, 131, 44, 26, 27, 110, 90, 160, 82, 59, 214, 179, 41, 227, 47, 132, 83, 209, 0, 237, 32, 252, 177, 91, 106, 203, 190, 57, 74, 76, 88, 207, 208, 239, 170, 251, 67, 77, 51, 133, 69, 249, 2, 127, 80, 60, 159, 168, 81, 163, 64, 143, 146, 157, 56, 245, 188, 182, 218, 33, 16, 255, 243, 210, 205, 12, 19, 236, 95, 151, 68, 23, 196, 167, 126, 61, 100, 93, 25, 115, 96, 129, 79, 220, 34, 42, 144, 136, 70, 238, 184, 20, 222, 94, 11, 219, 224, 50, 58, 10, 73, 6, 36, 92, 194, 211, 172, 98, 145, 149, 228, 121, 231, 200, 55, 109, 141, 213, 78, 169, 108, 86, 244, 234, 101, 122, 174, 8, 186, 120, 37, 46, 28, 166, 180, 198, 232, 221, 116, 31, 75, 189, 139, 138, 112, 62, 181, 102, 72, 3, 246, 14, 97, 53, 87, 185, 134, 193, 29, 158, 225, 248, 152, 17, 105, 217, 142, 148, 155, 30, 135, 233, 206, 85, 40, 223, 140, 161, 137, 13, 191, 230, 66, 104, 65, 153, 45, 15, 176, 84, 187, 22]
def invSbox : List Nat := [82, 9, 106, 213, 48, 54, 165, 56, 191, 64, 163, 158, 129, 243, 215, 251, 124, 227, 57, 130, 155, 47, 255, 135, 52, 142, 67, 68, 196, 222, 233, 203, 84, 123, 148, 50, 166, 194, 35, 61, 238, 76, 149, 11, 66, 250, 195, 78, 8, 46, 161, 102, 40, 217, 36, 178, 118, 91, 162, 73, 109, 139, 209, 37, 114, 248, 246, 100, 134, 104, 152, 22, 212, 164, 92, 204, 93, 101, 182, 146, 108, 112, 72, 80, 253, 237, 185, 218, 94, 21, 70, 87, 167, 141, 157, 132, 144, 216, 171, 0, 140, 188, 211, 10, 247, 228, 88, 5, 184, 179, 69, 6, 208, 44, 30, 143, 202, 63, 15, 2, 193, 175, 189, 3, 1, 19, 138, 107, 58, 145, 17, 65, 79, 103, 220, 234, 151, 242, 207, 206, 240, 180, 230, 115, 150, 172, 116, 34, 231, 173, 53, 133, 226, 249, 55, 232, 28, 117, 223, 110, 71, 241, 26, 113, 29, 41, 197, 137, 111, 183, 98, 14, 170, 24, 190, 27, 252, 86, 62, 75, 198, 210, 121, 32, 154, 219, 192, 254, 120, 205, 90, 244, 31, 221, 168, 51, 136, 7, 199, 49, 177, 18, 16, 89, 39, 128, 236, 95, 96, 81, 127, 169, 25, 181, 74, 13, 45, 229, 122, 159, 147, 201, 156, 239, 160, 224, 59, 77, 174, 42, 245, 176, 200, 235, 187, 60, 131, 83, 153, 97, 23, 43, 4, 126, 186, 119, 214, 38, 225, 105, 20, 99, 85, 33, 12, 125]

/-- multiplication by x (= 2) in GF(2^8) modulo x^8 + x^4 + x^3 + x + 1 -/
def xtime (a : Nat) : Nat := if a < 128 then 2 * a else (2 * a - 256) ^^^ 27

def g2 (a : Nat) : Nat := xtime a
def g3 (a : Nat) : Nat := xtime a ^^^ a
def g9 (a : Nat) : Nat := xtime (xtime (xtime a)) ^^^ a
def g11 (a : Nat) : Nat := xtime (xtime (xtime a)) ^^^ xtime a ^^^ a
def g13 (a : Nat) : Nat := xtime (xtime (xtime a)) ^^^ xtime (xtime a) ^^^ a
def g14 (a : Nat) : Nat := xtime (xtime (xtime a)) ^^^ xtime (xtime a) ^^^ xtime a

def subBytes (s : List Nat) : List Nat := s.map (fun b => sbox.getD b 0)
def invSubBytes (s : List Nat) : List Nat := s.map (fun b => invSbox.getD b 0)

/-- the state is the 16 input bytes in order: byte `r + 4c` is row r of column c -/
def shiftRows : List Nat → List Nat
  | [s0, s1, s2, s3, s4, s5, s6, s7, s8, s9, s10, s11, s12, s13, s14, s15] =>
    [s0, s5, s10, s15, s4, s9, s14, s3, s8, s13, s2, s7, s12, s1, s6, s11]
  | s => s

def invShiftRows : List Nat → List Nat
  | [s0, s1, s2, s3, s4, s5, s6, s7, s8, s9, s10, s11, s12, s13, s14, s15] =>
    [s0, s13, s10, s7, s4, s1, s14, s11, s8, s5, s2, s15, s12, s9, s6, s3]
  | s => s

def mixColumn (a b c d : Nat) : List Nat :=
  [g2 a ^^^ g3 b ^^^ c ^^^ d, a ^^^ g2 b ^^^ g3 c ^^^ d, a ^^^ b ^^^ g2 c ^^^ g3 d, g3 a ^^^ b ^^^ c ^^^ g2 d]

def invMixColumn (a b c d : Nat) : List Nat :=
  [g14 a ^^^ g11 b ^^^ g13 c ^^^ g9 d, g9 a ^^^ g14 b ^^^ g11 c ^^^ g13 d,
   g13 a ^^^ g9 b ^^^ g14 c ^^^ g11 d, g11 a ^^^ g13 b ^^^ g9 c ^^^ g14 d]

def mixColumns : List Nat → List Nat
  | [s0, s1, s2, s3, s4, s5, s6, s7, s8, s9, s10, s11, s12, s13, s14, s15] =>
    mixColumn s0 s1 s2 s3 ++ mixColumn s4 s5 s6 s7 ++ mixColumn s8 s9 s10 s11 ++ mixColumn s12 s13 s14 s15
  | s => s

def invMixColumns : List Nat → List Nat
  | [s0, s1, s2, s3, s4, s5, s6, s7, s8, s9, s10, s11, s12, s13, s14, s15] =>
    invMixColumn s0 s1 s2 s3 ++ invMixColumn s4 s5 s6 s7 ++ invMixColumn s8 s9 s10 s11 ++ invMixColumn s12 s13 s14 s15
  | s => s

/-- the state XOR a round key (16 bytes; a key byte is taken modulo 256, so that any list is a key) -/
def addRoundKey (s k : List Nat) : List Nat :=
  (List.range 16).map (fun i => s.getD i 0 ^^^ (k.getD i 0 % 256))

/-! ### key schedule -/

def xorWord (a b : List Nat) : List Nat := List.zipWith (· ^^^ ·) a b
def rotWord : List Nat → List Nat
  | [a, b, c, d] => [b, c, d, a]
  | w => w
def rcon : List Nat := [1, 2, 4, 8, 16, 32, 64, 128, 27, 54, 108, 216, 171, 77]

/-- one more word of the schedule: `ws` holds the words so far (latest LAST), `nk` is the key length in words -/
def nextWord (nk : Nat) (ws : List (List Nat)) : List Nat :=
  let i := ws.length
  let prev := ws.getD (i - 1) []
  let temp :=
    if i % nk = 0 then xorWord (subBytes (rotWord prev)) [rcon.getD (i / nk - 1) 0, 0, 0, 0]
    else if 6 < nk ∧ i % nk = 4 then subBytes prev
    else prev
  xorWord (ws.getD (i - nk) []) temp

def expandGo (nk : Nat) : Nat → List (List Nat) → List (List Nat)
  | 0, ws => ws
  | n + 1, ws => expandGo nk n (ws ++ [nextWord nk ws])

def words (key : List Nat) : List (List Nat) :=
  (List.range (key.length / 4)).map (fun i => (key.drop (4 * i)).take 4)

/-- the round keys (Nr + 1 of them, 16 bytes each) of a 16-, 24- or 32-byte key; `none` for another length -/
def roundKeys (key : List Nat) : Option (List (List Nat)) :=
  if key.length = 16 ∨ key.length = 24 ∨ key.length = 32 then
    let nk := key.length / 4
    let ws := expandGo nk (4 * (nk + 7) - nk) (words key)
    some ((List.range (nk + 7)).map (fun r => ((ws.drop (4 * r)).take 4).flatten))
  else none

/-! ### the cipher and its inverse, over any list of round keys -/

def round (k s : List Nat) : List Nat := addRoundKey (mixColumns (shiftRows (subBytes s))) k
def invRound (k s : List Nat) : List Nat := invSubBytes (invShiftRows (invMixColumns (addRoundKey s k)))
def finalRound (k s : List Nat) : List Nat := addRoundKey (shiftRows (subBytes s)) k
def invFinalRound (k s : List Nat) : List Nat := invSubBytes (invShiftRows (addRoundKey s k))

/-- `rks` = first round key, the middle ones, the last one -/
def cipher (k0 : List Nat) (mids : List (List Nat)) (kl : List Nat) (x : List Nat) : List Nat :=
  finalRound kl (mids.foldl (fun s k => round k s) (addRoundKey x k0))

def invCipher (k0 : List Nat) (mids : List (List Nat)) (kl : List Nat) (y : List Nat) : List Nat :=
  addRoundKey (mids.foldr (fun k s => invRound k s) (invFinalRound kl y)) k0

/-- split a round-key list into first / middle / last -/
def splitKeys (rks : List (List Nat)) : Option (List Nat × List (List Nat) × List Nat) :=
  match rks with
  | k0 :: rest =>
    match rest.reverse with
    | kl :: revMids => some (k0, revMids.reverse, kl)
    | [] => none
  | [] => none

def encryptBlock (key x : List Nat) : Option (List Nat) :=
  (roundKeys key).bind (fun rks => (splitKeys rks).map (fun k => cipher k.1 k.2.1 k.2.2 x))

def decryptBlock (key y : List Nat) : Option (List Nat) :=
  (roundKeys key).bind (fun rks => (splitKeys rks).map (fun k => invCipher k.1 k.2.1 k.2.2 y))

/-- 16-byte blocks of a byte string (the last one may be short) -/
def blocks : Nat → List Nat → List (List Nat)
  | 0, _ => []
  | _ + 1, [] => []
  | n + 1, l => l.take 16 :: blocks n (l.drop 16)

/-- AES-ECB over whole 16-byte blocks; `none` for a key of another length or data that is not whole blocks -/
def ecbEncrypt (key data : List Nat) : Option (List Nat) :=
  if data.length % 16 ≠ 0 then none
  else (blocks data.length data).foldr (fun b acc => (encryptBlock key b).bind (fun c => acc.map (c ++ ·))) (some [])

def ecbDecrypt (key data : List Nat) : Option (List Nat) :=
  if data.length % 16 ≠ 0 then none
  else (blocks data.length data).foldr (fun b acc => (decryptBlock key b).bind (fun c => acc.map (c ++ ·))) (some [])

/-! ### FIPS 197 Appendix C known answers -/
def kat_pt : List Nat := [0, 17, 34, 51, 68, 85, 102, 119, 136, 153, 170, 187, 204, 221, 238, 255]
#guard encryptBlock (List.range 16) kat_pt ==
  some [0x69, 0xc4, 0xe0, 0xd8, 0x6a, 0x7b, 0x04, 0x30, 0xd8, 0xcd, 0xb7, 0x80, 0x70, 0xb4, 0xc5, 0x5a]
#guard encryptBlock (List.range 24) kat_pt ==
  some [0xdd, 0xa9, 0x7c, 0xa4, 0x86, 0x4c, 0xdf, 0xe0, 0x6e, 0xaf, 0x70, 0xa0, 0xec, 0x0d, 0x71, 0x91]
#guard encryptBlock (List.range 32) kat_pt ==
  some [0x8e, 0xa2, 0xb7, 0xca, 0x51, 0x67, 0x45, 0xbf, 0xea, 0xfc, 0x49, 0x90, 0x4b, 0x49, 0x60, 0x89]
#guard decryptBlock (List.range 16)
  [0x69, 0xc4, 0xe0, 0xd8, 0x6a, 0x7b, 0x04, 0x30, 0xd8, 0xcd, 0xb7, 0x80, 0x70, 0xb4, 0xc5, 0x5a] == some kat_pt
#guard decryptBlock (List.range 32)
  [0x8e, 0xa2, 0xb7, 0xca, 0x51, 0x67, 0x45, 0xbf, 0xea, 0xfc, 0x49, 0x90, 0x4b, 0x49, 0x60, 0x89] == some kat_pt
#guard (roundKeys (List.range 16)).map List.length == some 11
#guard (roundKeys (List.range 32)).map List.length == some 15

end Cardutil.Aes
