import Cardutil.Basic
/-
  Line-protocol helpers for the driver: hex, dotted code points, FNV-1a 64, position-coded content.
  Core Lean only.
-/
namespace Cardutil.Wire

def hexDigit (c : Char) : Option Nat :=
  if '0' ≤ c ∧ c ≤ '9' then some (c.toNat - 48)
  else if 'a' ≤ c ∧ c ≤ 'f' then some (c.toNat - 87)
  else if 'A' ≤ c ∧ c ≤ 'F' then some (c.toNat - 55)
  else none

partial def parseHexAux : List Char → List Nat → Option (List Nat)
  | [], acc => some acc.reverse
  | [_], _ => none
  | a :: b :: rest, acc =>
    match hexDigit a, hexDigit b with
    | some x, some y => parseHexAux rest ((x * 16 + y) :: acc)
    | _, _ => none

def parseHex (s : String) : Option Bytes := parseHexAux s.toList []

def hexChar (n : Nat) : Char := if n < 10 then Char.ofNat (48 + n) else Char.ofNat (87 + n)

def toHex (b : Bytes) : String :=
  String.ofList (b.foldr (fun x acc => hexChar (x / 16 % 16) :: hexChar (x % 16) :: acc) [])

/-- dotted decimal code points: "49.50.51"; the empty string is the empty list -/
def parseDotted (s : String) : Option (List Nat) :=
  if s.isEmpty then some []
  else (s.splitOn ".").mapM (fun t => t.toNat?)

def toDotted (t : List Nat) : String := ".".intercalate (t.map toString)

/-- fingerprint modulus: the largest prime below 2^55, so `h * 256 + x` fits in 64 bits -/
def sigMod : UInt64 := 36028797018963913

/-- Horner evaluation of the bytes as a base-256 number modulo `sigMod`
    (Python: `int.from_bytes(b, 'big') % 36028797018963913`) -/
def fnv (b : Bytes) : UInt64 :=
  b.foldl (fun h x => (h * 256 + x.toUInt64) % sigMod) 0

def sig (b : Bytes) : String := s!"{b.length}:{(fnv b).toNat}"

/-- position-coded content: byte at absolute offset `i` -/
def pcByte (i : Nat) : Nat := (i * 131 + i / 256 * 7 + 17) % 256

def pc (off n : Nat) : Bytes := (List.range n).map (fun i => pcByte (off + i))

def parseNatList (s : String) : Option (List Nat) :=
  if s.isEmpty then some [] else (s.splitOn ",").mapM (fun t => t.toNat?)

/-- file / byte-string spec: `hex:<hex>` or `pc:<n>` (n position-coded bytes from offset 0)
    or `pcx:<n>:<cut>` -/
def parseBytes (s : String) : Option Bytes :=
  match s.splitOn ":" with
  | ["hex", h] => parseHex h
  | ["pc", n] => n.toNat?.map (pc 0)
  | _ => none

end Cardutil.Wire
