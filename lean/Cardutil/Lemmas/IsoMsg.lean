import Cardutil.Lemmas.IsoLoop
/-
  Message-level round trip: `decode (encodeCore m) = applyItems [(MTI, mti)] items`.
-/
namespace Cardutil.Iso

open Cardutil Cardutil.Py Cardutil.Digits

/-- elements 2..128 in ascending order -/
def allBits : List Nat := (List.range 127).map (· + 2)

theorem core_roundtrip {env : Env} (h : EnvOK env) (cfg : Config) (hexBitmap : Bool) (m : Dict)
    (ds : List Nat) (hds : ∀ d ∈ ds, d < 10) (hl : ds.length = 4)
    (hmti : Dict.get m .mti = some (.str (digitText ds)))
    (hwf : ElemsWF env cfg m allBits) :
    ∃ (bs : Bytes) (items : List Item),
      encodeCore env cfg hexBitmap m = .ok bs ∧
      decode env cfg hexBitmap bs = .ok (applyItems [(.mti, .str (digitText ds))] items) ∧
      (items.map (·.bit)).Sublist allBits ∧
      (∀ it ∈ items, ItemFor env cfg m it) ∧
      (∀ bit ∈ allBits, ∀ v, Dict.get m (.de bit) = some v → present v = true → bit ∈ items.map (·.bit)) := by
  obtain ⟨pres, data, items, henc, hsub, hmap, hitems, hcover, hdec⟩ := bits_roundtrip h cfg m allBits hwf
  obtain ⟨mb, hmb⟩ := encode_digits h ds hds
  have hmbl : mb.length = 4 := by
    have := Codec.encode_length hmb; simpa [digitText, hl] using this
  have hne : (digitText ds).isEmpty = false := by
    cases ds with
    | nil => simp at hl
    | cons _ _ => simp [digitText]
  have hbl := bitmapOf_length pres
  have hpres : presentBits (bitmapOf pres) = pres := presentBits_bitmapOf_sublist pres hsub
  have hmtiInt : ∃ i, pyInt env.classes (digitText ds) = some i :=
    ⟨_, pyInt_digits h.sane ds hds (by intro h0; subst h0; simp at hl)⟩
  obtain ⟨i, hi⟩ := hmtiInt
  have hdecm : env.codec.decode mb = some (digitText ds) := Codec.decode_encode h.lawful hmb
  have hbody : decodeBody env cfg (digitText ds) (bitmapOf pres) data =
      .ok (applyItems [(.mti, .str (digitText ds))] items) := by
    unfold decodeBody
    rw [hpres]
    have := hdec [] [] [(.mti, .str (digitText ds))]
    simp only [List.nil_append, List.append_nil, List.length_nil, Nat.zero_add] at this
    rw [this]
    simp [Outcome.bind]
  refine ⟨mb ++ (if hexBitmap then hexlify (bitmapOf pres) else bitmapOf pres) ++ data, items, ?_, ?_,
    by rw [hmap]; exact hsub, hitems, by rw [hmap]; exact hcover⟩
  · simp only [encodeCore, allBits] at henc ⊢
    simp only [henc, Outcome.bind, encodeMti, hmti, hne, Bool.false_eq_true, if_false, encodeText_ok hmb]
  · unfold decode
    cases hexBitmap
    · -- binary bitmap
      have hhdr : decodeHeader env false (mb ++ bitmapOf pres ++ data) =
          .ok (digitText ds, bitmapOf pres, data) := by
        unfold decodeHeader
        simp only [Bool.false_eq_true, if_false]
        have hlen : ¬ (mb ++ bitmapOf pres ++ data).length < 20 := by
          simp only [List.length_append, hmbl, hbl]; omega
        have h4 : (mb ++ bitmapOf pres ++ data).take 4 = mb := by
          rw [List.append_assoc]; exact List.take_left' hmbl
        have hbm : ((mb ++ bitmapOf pres ++ data).drop 4).take 16 = bitmapOf pres := by
          rw [List.append_assoc, List.drop_left' hmbl]; exact List.take_left' hbl
        have hd : (mb ++ bitmapOf pres ++ data).drop 20 = data := by
          apply List.drop_left'
          simp only [List.length_append, hmbl, hbl]
        rw [if_neg hlen, hbm, h4, hdecm]
        simp only [hi, hd]
      simp only [Bool.false_eq_true, if_false, hhdr, Outcome.bind, hbody]
    · -- hexadecimal bitmap
      have hhl : (hexlify (bitmapOf pres)).length = 32 := by rw [hexlify_length, hbl]
      have hhdr : decodeHeader env true (mb ++ hexlify (bitmapOf pres) ++ data) =
          .ok (digitText ds, bitmapOf pres, data) := by
        unfold decodeHeader
        simp only [if_true]
        have hlen : ¬ (mb ++ hexlify (bitmapOf pres) ++ data).length < 36 := by
          simp only [List.length_append, hmbl, hhl]; omega
        have h4 : (mb ++ hexlify (bitmapOf pres) ++ data).take 4 = mb := by
          rw [List.append_assoc]; exact List.take_left' hmbl
        have hbm : ((mb ++ hexlify (bitmapOf pres) ++ data).drop 4).take 32 = hexlify (bitmapOf pres) := by
          rw [List.append_assoc, List.drop_left' hmbl]; exact List.take_left' hhl
        have hd : (mb ++ hexlify (bitmapOf pres) ++ data).drop 36 = data := by
          apply List.drop_left'
          simp only [List.length_append, hmbl, hhl]
        rw [if_neg hlen, hbm, unhexlify_hexlify _ (bitmapOf_lt pres), h4, hdecm]
        simp only [hi, hd]
      simp only [if_true, hhdr, Outcome.bind, hbody]

end Cardutil.Iso
