import Cardutil.Lemmas.IsoField
import Cardutil.Lemmas.Bitmap
/-
  Element-loop round trip: what `encodeBits` writes, `decodeBits` reads back, element by element.
-/
namespace Cardutil.Iso

open Cardutil Cardutil.Py

/-- one decoded element: its bit, the value returned for `DE<bit>`, the derived entries -/
structure Item where
  bit : Nat
  exp : Val
  sub : Dict

/-- the dictionary entries one element contributes -/
def Item.dict (i : Item) : Dict := Dict.update [(Key.de i.bit, i.exp)] i.sub

/-- the decoder's accumulation over the elements, in order -/
def applyItems (acc : Dict) (items : List Item) : Dict := items.foldl (fun a i => Dict.update a i.dict) acc

/-- element `bit` of message `m` is present and well formed, with decoded form `it` -/
def ItemFor (env : Env) (cfg : Config) (m : Dict) (it : Item) : Prop :=
  ∃ v f, Dict.get m (.de it.bit) = some v ∧ present v = true ∧ cfg.get it.bit = some f ∧
    WFField env it.bit f v it.exp it.sub

/-- every present element among `bits` is configured and well formed -/
def ElemsWF (env : Env) (cfg : Config) (m : Dict) (bits : List Nat) : Prop :=
  ∀ bit ∈ bits, ∀ v, Dict.get m (.de bit) = some v → present v = true →
    ∃ f exp sub, cfg.get bit = some f ∧ WFField env bit f v exp sub

theorem bits_roundtrip {env : Env} (h : EnvOK env) (cfg : Config) (m : Dict) (bits : List Nat)
    (hwf : ElemsWF env cfg m bits) :
    ∃ (pres : List Nat) (data : Bytes) (items : List Item),
      encodeBits env cfg m bits = .ok (pres, data) ∧
      pres.Sublist bits ∧ items.map (·.bit) = pres ∧
      (∀ it ∈ items, ItemFor env cfg m it) ∧
      (∀ bit ∈ bits, ∀ v, Dict.get m (.de bit) = some v → present v = true → bit ∈ pres) ∧
      ∀ (pre rest : Bytes) (acc : Dict),
        decodeBits env cfg pres (pre ++ (data ++ rest)) acc pre.length =
          .ok (applyItems acc items, pre.length + data.length) := by
  induction bits with
  | nil =>
    refine ⟨[], [], [], rfl, List.Sublist.refl _, rfl, by simp, by simp, ?_⟩
    intro pre rest acc
    simp [decodeBits, applyItems]
  | cons bit bits ih =>
    obtain ⟨pres, data, items, henc, hsub, hmap, hitems, hcover, hdec⟩ :=
      ih (fun b hb => hwf b (by simp [hb]))
    cases hget : Dict.get m (.de bit) with
    | none =>
      refine ⟨pres, data, items, by simp [encodeBits, hget, henc], hsub.cons _, hmap, hitems, ?_, hdec⟩
      intro b hb v hv hp
      rcases List.mem_cons.mp hb with rfl | hb'
      · rw [hget] at hv; simp at hv
      · exact hcover b hb' v hv hp
    | some v =>
      by_cases hp : present v = true
      · obtain ⟨f, exp, sub, hcfg, hw⟩ := hwf bit (by simp) v hget hp
        obtain ⟨bs, hbs, _⟩ := field_roundtrip h hw []
        refine ⟨bit :: pres, bs ++ data, ⟨bit, exp, sub⟩ :: items, ?_, hsub.cons_cons _, by simp [hmap], ?_, ?_, ?_⟩
        · simp [encodeBits, hget, hp, hcfg, hbs, henc, Outcome.bind]
        · intro it hit
          rcases List.mem_cons.mp hit with rfl | hit'
          · exact ⟨v, f, hget, hp, hcfg, hw⟩
          · exact hitems it hit'
        · intro b hb v' hv' hp'
          rcases List.mem_cons.mp hb with rfl | hb'
          · simp
          · exact List.mem_cons_of_mem _ (hcover b hb' v' hv' hp')
        · intro pre rest acc
          obtain ⟨bs', hbs', hfield⟩ := field_roundtrip h hw (data ++ rest)
          have hbb : bs' = bs := by rw [hbs] at hbs'; injection hbs' with e; exact e.symm
          subst hbb
          simp only [decodeBits, hcfg]
          rw [List.drop_left' rfl, List.append_assoc, hfield]
          simp only [Outcome.bind]
          have := hdec (pre ++ bs') rest (Dict.update acc (Dict.update [(Key.de bit, exp)] sub))
          simp only [List.append_assoc, List.length_append] at this
          rw [this]
          simp [applyItems, Item.dict, Nat.add_assoc]
      · have hp' : present v = false := by simpa using hp
        refine ⟨pres, data, items, by simp [encodeBits, hget, hp', henc], hsub.cons _, hmap, hitems, ?_, hdec⟩
        intro b hb v' hv' hpv
        rcases List.mem_cons.mp hb with rfl | hb'
        · rw [hget] at hv'; injection hv' with e; subst e; rw [hp'] at hpv; simp at hpv
        · exact hcover b hb' v' hv' hpv

end Cardutil.Iso
