import Cardutil.Py.Time
import Cardutil.Lemmas.PyInt
/-
  `strptime(strftime(d, fmt), fmt) = d` for the model of Py/Time.lean: the hypothesis `hback` of
  `WFField.date` (C01) discharged for every format made of the numeric directives and every
  date-time the format can express (years 1969..2068 under %y, 1000..9999 under %Y; the fields the
  format does not mention at their defaults).  The matcher backtracks over CPython's alternatives
  exactly like the regular expression `_strptime` builds; a canonical two-digit rendering always
  takes the first alternative that fits it, whatever follows.
-/
namespace Cardutil.Py

open Cardutil.Digits

theorem pad2_eq (v : Nat) (h : v < 100) : pad2 v = [48 + v / 10, 48 + v % 10] := by
  unfold pad2
  have : v / 10 % 10 = v / 10 := by omega
  rw [this]

theorem ok_digit {k : IntClasses} (hk : k.Sane) (d : Nat) (h : d < 10) : CC.ok k .digit (48 + d) = true := by
  simp [CC.ok, hk.digit d h]

theorem ok_range (k : IntClasses) (lo hi c : Nat) (h : lo ≤ c ∧ c ≤ hi) : CC.ok k (.range lo hi) c = true := by
  simp [CC.ok, h]

theorem ok_range_not (k : IntClasses) (lo hi c : Nat) (h : ¬ (lo ≤ c ∧ c ≤ hi)) : CC.ok k (.range lo hi) c = false := by
  simp only [CC.ok, decide_eq_false_iff_not]; exact h

theorem ok_ch (k : IntClasses) (x c : Nat) : CC.ok k (.ch x) c = (x == c) := rfl

/-- a two-character alternative on a two-character rendering followed by anything -/
theorem matchAlt_two (k : IntClasses) (a b : CC) (c1 c2 : Nat) (rest : Text) :
    matchAlt k [a, b] (c1 :: c2 :: rest) =
      if a.ok k c1 && b.ok k c2 then some ([c1, c2], rest) else none := by
  simp only [matchAlt]
  cases a.ok k c1 <;> cases b.ok k c2 <;> simp

theorem matchAlts_hit (k : IntClasses) (a : List CC) (as : List (List CC)) (ds : List Directive) (t m rest : Text)
    (ms : List Text) (r : Text) (ha : matchAlt k a t = some (m, rest)) (hs : matchSeq k ds rest = some (ms, r)) :
    matchAlts k (a :: as) ds t = some (m :: ms, r) := by
  rw [matchAlts, ha]
  simp only [hs]

theorem matchAlts_skip (k : IntClasses) (a : List CC) (as : List (List CC)) (ds : List Directive) (t : Text)
    (ha : matchAlt k a t = none) : matchAlts k (a :: as) ds t = matchAlts k as ds t := by
  rw [matchAlts, ha]

/-- a two-character alternative that accepts the rendering -/
theorem two_hit (k : IntClasses) (a b : CC) (c1 c2 : Nat) (rest : Text) (h1 : a.ok k c1 = true) (h2 : b.ok k c2 = true) :
    matchAlt k [a, b] (c1 :: c2 :: rest) = some ([c1, c2], rest) := by
  rw [matchAlt_two, h1, h2]; rfl

theorem two_miss1 (k : IntClasses) (a b : CC) (c1 c2 : Nat) (rest : Text) (h1 : a.ok k c1 = false) :
    matchAlt k [a, b] (c1 :: c2 :: rest) = none := by
  rw [matchAlt_two, h1]; rfl

theorem two_miss2 (k : IntClasses) (a b : CC) (c1 c2 : Nat) (rest : Text) (h2 : b.ok k c2 = false) :
    matchAlt k [a, b] (c1 :: c2 :: rest) = none := by
  rw [matchAlt_two, h2]; simp

theorem ch_ok (k : IntClasses) (x : Nat) : CC.ok k (.ch x) x = true := by simp [CC.ok]

theorem ch_not (k : IntClasses) (x c : Nat) (h : x ≠ c) : CC.ok k (.ch x) c = false := by
  simp [CC.ok, h]

section directives
variable {k : IntClasses} (hk : k.Sane)
variable (ds : List Directive) (rest : Text) (ms : List Text) (r : Text)

include hk in
theorem alts_y (v : Nat) (hv : v < 100) (h : matchSeq k ds rest = some (ms, r)) :
    matchAlts k Directive.y.alts ds (pad2 v ++ rest) = some (pad2 v :: ms, r) := by
  rw [pad2_eq v hv]
  exact matchAlts_hit k _ _ ds _ _ rest ms r
    (two_hit k _ _ _ _ rest (ok_digit hk _ (by omega)) (ok_digit hk _ (by omega))) h

include hk in
theorem alts_M (v : Nat) (hv : v < 60) (h : matchSeq k ds rest = some (ms, r)) :
    matchAlts k Directive.M.alts ds (pad2 v ++ rest) = some (pad2 v :: ms, r) := by
  rw [pad2_eq v (by omega)]
  exact matchAlts_hit k _ _ ds _ _ rest ms r
    (two_hit k _ _ _ _ rest (ok_range k _ _ _ (by omega)) (ok_digit hk _ (by omega))) h

include hk in
theorem alts_S (v : Nat) (hv : v < 60) (h : matchSeq k ds rest = some (ms, r)) :
    matchAlts k Directive.S.alts ds (pad2 v ++ rest) = some (pad2 v :: ms, r) := by
  rw [pad2_eq v (by omega)]
  simp only [Directive.alts, List.cons_append, List.nil_append]
  rw [matchAlts_skip k _ _ ds _ (two_miss1 k _ _ _ _ rest (ch_not k _ _ (by omega)))]
  exact matchAlts_hit k _ _ ds _ _ rest ms r
    (two_hit k _ _ _ _ rest (ok_range k _ _ _ (by omega)) (ok_digit hk _ (by omega))) h

include hk in
theorem alts_H (v : Nat) (hv : v < 24) (h : matchSeq k ds rest = some (ms, r)) :
    matchAlts k Directive.H.alts ds (pad2 v ++ rest) = some (pad2 v :: ms, r) := by
  rw [pad2_eq v (by omega)]
  simp only [Directive.alts, List.cons_append, List.nil_append]
  by_cases c : 20 ≤ v
  · have e : v / 10 = 2 := by omega
    rw [e]
    exact matchAlts_hit k _ _ ds _ _ rest ms r
      (two_hit k _ _ _ _ rest (ch_ok k _) (ok_range k _ _ _ (by omega))) h
  · rw [matchAlts_skip k _ _ ds _ (two_miss1 k _ _ _ _ rest (ch_not k _ _ (by omega)))]
    exact matchAlts_hit k _ _ ds _ _ rest ms r
      (two_hit k _ _ _ _ rest (ok_range k _ _ _ (by omega)) (ok_digit hk _ (by omega))) h

include hk in
theorem alts_m (v : Nat) (hv : 1 ≤ v ∧ v ≤ 12) (h : matchSeq k ds rest = some (ms, r)) :
    matchAlts k Directive.m.alts ds (pad2 v ++ rest) = some (pad2 v :: ms, r) := by
  rw [pad2_eq v (by omega)]
  simp only [Directive.alts, List.cons_append, List.nil_append]
  by_cases c : 10 ≤ v
  · have e : v / 10 = 1 := by omega
    rw [e]
    exact matchAlts_hit k _ _ ds _ _ rest ms r
      (two_hit k _ _ _ _ rest (ch_ok k _) (ok_range k _ _ _ (by omega))) h
  · have e : v / 10 = 0 := by omega
    rw [e]
    rw [matchAlts_skip k _ _ ds _ (two_miss1 k _ _ _ _ rest (ch_not k _ _ (by omega)))]
    exact matchAlts_hit k _ _ ds _ _ rest ms r
      (two_hit k _ _ _ _ rest (ch_ok k _) (ok_range k _ _ _ (by omega))) h

include hk in
theorem alts_d (v : Nat) (hv : 1 ≤ v ∧ v ≤ 31) (h : matchSeq k ds rest = some (ms, r)) :
    matchAlts k Directive.d.alts ds (pad2 v ++ rest) = some (pad2 v :: ms, r) := by
  rw [pad2_eq v (by omega)]
  simp only [Directive.alts, List.cons_append, List.nil_append]
  by_cases c3 : 30 ≤ v
  · have e : v / 10 = 3 := by omega
    rw [e]
    exact matchAlts_hit k _ _ ds _ _ rest ms r
      (two_hit k _ _ _ _ rest (ch_ok k _) (ok_range k _ _ _ (by omega))) h
  · rw [matchAlts_skip k _ _ ds _ (two_miss1 k _ _ _ _ rest (ch_not k _ _ (by omega)))]
    by_cases c1 : 10 ≤ v
    · exact matchAlts_hit k _ _ ds _ _ rest ms r
        (two_hit k _ _ _ _ rest (ok_range k _ _ _ (by omega)) (ok_digit hk _ (by omega))) h
    · have e : v / 10 = 0 := by omega
      rw [e]
      rw [matchAlts_skip k _ _ ds _ (two_miss1 k _ _ _ _ rest (ok_range_not k _ _ _ (by omega)))]
      exact matchAlts_hit k _ _ ds _ _ rest ms r
        (two_hit k _ _ _ _ rest (ch_ok k _) (ok_range k _ _ _ (by omega))) h

include hk in
theorem matchAlt_digits (dsn : List Nat) (h : ∀ d ∈ dsn, d < 10) (tail : Text) :
    matchAlt k (List.replicate dsn.length .digit) (dsn.map (48 + ·) ++ tail) = some (dsn.map (48 + ·), tail) := by
  induction dsn with
  | nil => rfl
  | cons d dsn ih =>
    have hd := ok_digit hk d (h d (by simp))
    have := ih (fun x hx => h x (by simp [hx]))
    simp only [List.length_cons, List.replicate_succ, List.map_cons, List.cons_append, matchAlt, hd, if_true, this,
      Option.map_some]

include hk in
theorem alts_Y (v : Nat) (h : matchSeq k ds rest = some (ms, r)) :
    matchAlts k Directive.Y.alts ds ((toDigits 10 4 v).map (48 + ·) ++ rest) = some ((toDigits 10 4 v).map (48 + ·) :: ms, r) := by
  have hm := matchAlt_digits hk (toDigits 10 4 v) (toDigits_lt (by decide) 4 v) rest
  rw [length_toDigits] at hm
  exact matchAlts_hit k _ _ ds _ _ rest ms r hm h

theorem alts_lit (c : Nat) (h : matchSeq k ds rest = some (ms, r)) :
    matchAlts k (Directive.lit c).alts ds ([c] ++ rest) = some ([c] :: ms, r) := by
  have hm : matchAlt k [.ch c] ([c] ++ rest) = some ([c], rest) := by
    simp [matchAlt, CC.ok]
  exact matchAlts_hit k _ _ ds _ _ rest ms r hm h

end directives

/-- the values a directive can render and read back -/
def DirOK (dt : DateTime) : Directive → Prop
  | .y => 1969 ≤ dt.year ∧ dt.year ≤ 2068
  | .Y => 1000 ≤ dt.year ∧ dt.year ≤ 9999
  | .m => 1 ≤ dt.month ∧ dt.month ≤ 12
  | .d => 1 ≤ dt.day ∧ dt.day ≤ 31
  | .H => dt.hour < 24
  | .M => dt.minute < 60
  | .S => dt.second < 60
  | .lit _ => True

/-- the matcher takes a rendering apart into exactly the groups it was made of -/
theorem matchSeq_strftime {k : IntClasses} (hk : k.Sane) (dt : DateTime) (fmt : List Directive)
    (h : ∀ D ∈ fmt, DirOK dt D) :
    matchSeq k fmt (strftime fmt dt) = some (fmt.map (strftimeDir dt), []) := by
  induction fmt with
  | nil => simp [matchSeq, strftime]
  | cons D fmt ih =>
    have ih' := ih (fun E hE => h E (by simp [hE]))
    have hD := h D (by simp)
    have e : strftime (D :: fmt) dt = strftimeDir dt D ++ strftime fmt dt := by simp [strftime]
    rw [e, matchSeq, List.map_cons]
    cases D with
    | y => exact alts_y hk fmt _ _ _ (dt.year % 100) (by omega) ih'
    | Y => exact alts_Y hk fmt _ _ _ dt.year ih'
    | m => exact alts_m hk fmt _ _ _ dt.month hD ih'
    | d => exact alts_d hk fmt _ _ _ dt.day hD ih'
    | H => exact alts_H hk fmt _ _ _ dt.hour hD ih'
    | M => exact alts_M hk fmt _ _ _ dt.minute hD ih'
    | S => exact alts_S hk fmt _ _ _ dt.second hD ih'
    | lit c => exact alts_lit fmt _ _ _ c ih'

/-! ### reading the groups back -/

theorem groupVal_pad2 {k : IntClasses} (hk : k.Sane) (v : Nat) (h : v < 100) : groupVal k (pad2 v) = v := by
  have hp : pad2 v = digitText [v / 10, v % 10] := by rw [pad2_eq v h]; rfl
  have hd := pyInt_digits hk [v / 10, v % 10] (by intro d hd; simp at hd; omega) (by simp)
  unfold groupVal
  rw [hp, hd]
  simp [fromDigits]
  omega

theorem groupVal_year4 {k : IntClasses} (hk : k.Sane) (v : Nat) (h : v < 10000) :
    groupVal k ((toDigits 10 4 v).map (48 + ·)) = v := by
  have hd := pyInt_digits hk (toDigits 10 4 v) (toDigits_lt (by decide) 4 v) (by
    intro h0
    have := length_toDigits 10 4 v
    rw [h0] at this; simp at this)
  unfold groupVal
  have e : (toDigits 10 4 v).map (48 + ·) = digitText (toDigits 10 4 v) := rfl
  rw [e, hd, fromDigits_toDigits 4 v (by omega)]

/-- one step of the fold: the directive's field takes the date-time's own value, the others stay -/
theorem applyGroup_render {k : IntClasses} (hk : k.Sane) (dt acc : DateTime) (D : Directive) (h : DirOK dt D) :
    applyGroup k acc (D, strftimeDir dt D) =
      match D with
      | .y => { acc with year := dt.year }
      | .Y => { acc with year := dt.year }
      | .m => { acc with month := dt.month }
      | .d => { acc with day := dt.day }
      | .H => { acc with hour := dt.hour }
      | .M => { acc with minute := dt.minute }
      | .S => { acc with second := dt.second }
      | .lit _ => acc := by
  cases D with
  | y =>
    simp only [applyGroup, strftimeDir, groupVal_pad2 hk (dt.year % 100) (by omega)]
    simp only [DirOK] at h
    congr 1
    split <;> omega
  | Y => simp only [applyGroup, strftimeDir, groupVal_year4 hk dt.year (by simp only [DirOK] at h; omega)]
  | m => simp only [applyGroup, strftimeDir, groupVal_pad2 hk dt.month (by simp only [DirOK] at h; omega)]
  | d => simp only [applyGroup, strftimeDir, groupVal_pad2 hk dt.day (by simp only [DirOK] at h; omega)]
  | H => simp only [applyGroup, strftimeDir, groupVal_pad2 hk dt.hour (by simp only [DirOK] at h; omega)]
  | M => simp only [applyGroup, strftimeDir, groupVal_pad2 hk dt.minute (by simp only [DirOK] at h; omega)]
  | S => simp only [applyGroup, strftimeDir, groupVal_pad2 hk dt.second (by simp only [DirOK] at h; omega)]
  | lit c => rfl

/-- what is still to be set: each field already has the date-time's value or its directive is yet to come -/
def Pending (dt acc : DateTime) (l : List Directive) : Prop :=
  (acc.year = dt.year ∨ Directive.y ∈ l ∨ Directive.Y ∈ l) ∧ (acc.month = dt.month ∨ Directive.m ∈ l) ∧
  (acc.day = dt.day ∨ Directive.d ∈ l) ∧ (acc.hour = dt.hour ∨ Directive.H ∈ l) ∧
  (acc.minute = dt.minute ∨ Directive.M ∈ l) ∧ (acc.second = dt.second ∨ Directive.S ∈ l)

theorem fold_groups {k : IntClasses} (hk : k.Sane) (dt : DateTime) : ∀ (l : List Directive) (acc : DateTime),
    (∀ D ∈ l, DirOK dt D) → Pending dt acc l →
    (l.zip (l.map (strftimeDir dt))).foldl (applyGroup k) acc = dt := by
  intro l
  induction l with
  | nil =>
    intro acc _ hp
    obtain ⟨h1, h2, h3, h4, h5, h6⟩ := hp
    simp only [List.not_mem_nil, or_false] at h1 h2 h3 h4 h5 h6
    cases acc; cases dt
    simp_all
  | cons D l ih =>
    intro acc hok hp
    simp only [List.map_cons, List.zip_cons_cons, List.foldl_cons]
    rw [applyGroup_render hk dt acc D (hok D (by simp))]
    apply ih _ (fun E hE => hok E (by simp [hE]))
    obtain ⟨h1, h2, h3, h4, h5, h6⟩ := hp
    cases D <;> simp_all [Pending]

/-- a date-time the format can express: every directive's value in range (the two-digit year inside the
    1969..2068 window, the four-digit year 1000..9999), the fields the format does not mention at `strptime`'s
    defaults (1900-01-01 00:00:00), and a real calendar date -/
structure Expressible (fmt : List Directive) (dt : DateTime) : Prop where
  inRange : ∀ D ∈ fmt, DirOK dt D
  defaults : Pending dt ⟨1900, 1, 1, 0, 0, 0⟩ fmt
  valid : 1 ≤ dt.year ∧ dt.year ≤ 9999 ∧ 1 ≤ dt.month ∧ dt.month ≤ 12 ∧ 1 ≤ dt.day ∧
    dt.day ≤ daysInMonth dt.year dt.month ∧ dt.hour ≤ 23 ∧ dt.minute ≤ 59 ∧ dt.second ≤ 59

/-- `datetime.strptime(format(d, fmt), fmt) = d` -/
theorem strptime_strftime {k : IntClasses} (hk : k.Sane) (fmt : List Directive) (dt : DateTime)
    (h : Expressible fmt dt) : strptime k fmt (strftime fmt dt) = some dt := by
  unfold strptime
  rw [matchSeq_strftime hk dt fmt h.inRange]
  simp only [fold_groups hk dt fmt _ h.inRange h.defaults]
  rw [if_pos h.valid]

end Cardutil.Py
