import Cardutil.Model.Vbs
import Cardutil.Lemmas.Unblock
/-
  Lemmas for VBS framing: reader over a plain stream, reader over the unblocker (simulation),
  writer layout, truncation.  Used by C03, C05, C09, C10, C11.
-/
namespace Cardutil

open Cardutil.Block

theorem be32_length (n : Nat) : (be32 n).length = 4 := rfl

/-- 2^32, kept opaque so that no tactic or the kernel ever unfolds the literal -/
def lim32 : Nat := 4294967296

theorem be32dec_be32 {n : Nat} (h : n < lim32) : be32dec (be32 n) = n := by
  unfold lim32 at h
  simp only [be32, be32dec]; omega

theorem be32_zero : be32 0 = [0, 0, 0, 0] := rfl

/-- the VBS byte stream of a record list (without the terminator) -/
def vbsBytes (recs : List Bytes) : Bytes := (recs.map (fun r => be32 r.length ++ r)).flatten

theorem vbsBytes_nil : vbsBytes [] = [] := rfl
theorem vbsBytes_cons (r : Bytes) (rs : List Bytes) :
    vbsBytes (r :: rs) = be32 r.length ++ (r ++ vbsBytes rs) := by
  simp [vbsBytes, List.append_assoc]

theorem vbsBytes_append (a b : List Bytes) : vbsBytes (a ++ b) = vbsBytes a ++ vbsBytes b := by
  simp [vbsBytes]

theorem length_le_vbsBytes (recs : List Bytes) : recs.length ≤ (vbsBytes recs).length := by
  induction recs with
  | nil => simp
  | cons r rs ih => simp [vbsBytes_cons, be32_length]; omega

namespace Vbs

/-! ### one step of the reader on a plain stream -/

theorem next_plain (ml : Nat) (d : Bytes) (k : Nat) (l : Option Bytes) :
    next plainSrc ml ⟨d, k, l⟩ =
      if (d.take 4).length ≠ 4 then .done .eof
      else if ml < be32dec (d.take 4) then .done (.dataError k (d.take 4))
      else if be32dec (d.take 4) = 0 then .done .eof
      else if ((d.drop 4).take (be32dec (d.take 4))).length ≠ be32dec (d.take 4) then
        .done (.dataError k (d.take 4 ++ (d.drop 4).take (be32dec (d.take 4))))
      else .record ((d.drop 4).take (be32dec (d.take 4)))
        ⟨(d.drop 4).drop (be32dec (d.take 4)), k + 1,
          some (d.take 4 ++ (d.drop 4).take (be32dec (d.take 4)))⟩ := rfl

theorem next_short {ml : Nat} {d : Bytes} {k : Nat} {l : Option Bytes} (h : d.length < 4) :
    next plainSrc ml ⟨d, k, l⟩ = .done .eof := by
  rw [next_plain, if_pos]
  simp only [List.length_take]; omega

theorem next_zero {ml : Nat} {rest : Bytes} {k : Nat} {l : Option Bytes} :
    next plainSrc ml ⟨be32 0 ++ rest, k, l⟩ = .done .eof := by
  have ht : (be32 0 ++ rest).take 4 = be32 0 := List.take_left' (be32_length _)
  rw [next_plain, ht, if_neg (by simp [be32_length]), if_neg (by simp [be32, be32dec]), if_pos (by simp [be32, be32dec])]

theorem next_record {ml : Nat} {r rest : Bytes} {k : Nat} {l : Option Bytes}
    (h0 : 0 < r.length) (hml : r.length ≤ ml) (h32 : ml < lim32) :
    next plainSrc ml ⟨be32 r.length ++ (r ++ rest), k, l⟩ =
      .record r ⟨rest, k + 1, some (be32 r.length ++ r)⟩ := by
  have ht : (be32 r.length ++ (r ++ rest)).take 4 = be32 r.length := List.take_left' (be32_length _)
  have hd : (be32 r.length ++ (r ++ rest)).drop 4 = r ++ rest := List.drop_left' (be32_length _)
  have hdec : be32dec (be32 r.length) = r.length := be32dec_be32 (by omega)
  have h3 : (r ++ rest).take r.length = r := List.take_left' rfl
  have h4 : (r ++ rest).drop r.length = rest := List.drop_left' rfl
  rw [next_plain, ht, hd, hdec, h3, h4, if_neg (by simp [be32_length]), if_neg (by omega),
    if_neg (by omega), if_neg (by simp)]

/-- header complete, record cut short: library error carrying the bytes that could be read -/
theorem next_truncated {ml : Nat} {r : Bytes} {n k : Nat} {l : Option Bytes}
    (hml : r.length ≤ ml) (h32 : ml < lim32) (hn : n < r.length) :
    next plainSrc ml ⟨be32 r.length ++ r.take n, k, l⟩ = .done (.dataError k (be32 r.length ++ r.take n)) := by
  have ht : (be32 r.length ++ r.take n).take 4 = be32 r.length := List.take_left' (be32_length _)
  have hd : (be32 r.length ++ r.take n).drop 4 = r.take n := List.drop_left' (be32_length _)
  have hdec : be32dec (be32 r.length) = r.length := be32dec_be32 (by omega)
  have h4 : (r.take n).take r.length = r.take n := by
    rw [List.take_take]; congr 1; omega
  rw [next_plain, ht, hd, hdec, h4, if_neg (by simp [be32_length]), if_neg (by omega),
    if_neg (by omega), if_pos (by simp only [List.length_take]; omega)]

/-- a declared length above the maximum: library error carrying the four length bytes -/
theorem next_oversized {ml n : Nat} {rest : Bytes} {k : Nat} {l : Option Bytes}
    (hml : ml < n) (h32 : n < lim32) :
    next plainSrc ml ⟨be32 n ++ rest, k, l⟩ = .done (.dataError k (be32 n)) := by
  have ht : (be32 n ++ rest).take 4 = be32 n := List.take_left' (be32_length _)
  rw [next_plain, ht, be32dec_be32 h32, if_neg (by simp [be32_length]), if_pos hml]

/-! ### whole-file reading -/

/- NOTE: `readAll` is always unfolded with these propositional equations (`rw`), never with
   `simp only [readAll]`: a definitional unfolding makes the kernel evaluate `next` on the concrete
   prefix `be32 r.length ++ …`, which ends in unfolding `Nat.div` on a symbolic numerator. -/
theorem readAll_zero {σ} (S : Src σ) (ml : Nat) (st : RState σ) : readAll S ml 0 st = ([], .fuel) := rfl

theorem readAll_succ {σ} (S : Src σ) (ml fuel : Nat) (st : RState σ) :
    readAll S ml (fuel + 1) st =
      match next S ml st with
      | .done e => ([], e)
      | .record r st' => (r :: (readAll S ml fuel st').1, (readAll S ml fuel st').2) := rfl

theorem readAll_vbs {ml : Nat} (h32 : ml < lim32) (recs : List Bytes) (tail : Bytes)
    (h : ∀ r ∈ recs, 0 < r.length ∧ r.length ≤ ml) (fuel k : Nat) (l : Option Bytes)
    (hf : recs.length < fuel) :
    readAll plainSrc ml fuel ⟨vbsBytes recs ++ (be32 0 ++ tail), k, l⟩ = (recs, .eof) := by
  induction recs generalizing fuel k l with
  | nil =>
    cases fuel with
    | zero => omega
    | succ f => rw [readAll_succ, vbsBytes_nil, List.nil_append, next_zero]
  | cons r rs ih =>
    cases fuel with
    | zero => omega
    | succ f =>
      obtain ⟨h0, hml⟩ := h r (by simp)
      rw [readAll_succ, vbsBytes_cons, List.append_assoc, List.append_assoc, next_record h0 hml h32]
      simp only
      rw [ih (fun x hx => h x (by simp [hx])) f (k + 1) _ (by simpa using hf)]

/-- simulation: two byte sources related by `R` give the same records and the same ending -/
theorem readAll_sim {σ τ : Type} (S : Src σ) (T : Src τ) (R : σ → τ → Prop)
    (hread : ∀ s t n, R s t → (S.read s n).1 = (T.read t n).1 ∧ R (S.read s n).2 (T.read t n).2)
    (ml fuel : Nat) (s : σ) (t : τ) (k : Nat) (l : Option Bytes) (h : R s t) :
    readAll S ml fuel ⟨s, k, l⟩ = readAll T ml fuel ⟨t, k, l⟩ := by
  induction fuel generalizing s t k l with
  | zero => rfl
  | succ f ih =>
    obtain ⟨h1, h2⟩ := hread s t 4 h
    obtain ⟨h3, h4⟩ := hread _ _ (be32dec (T.read t 4).1) h2
    simp only [readAll, next, h1, h3]
    by_cases c1 : (T.read t 4).1.length ≠ 4
    · simp [c1]
    · by_cases c2 : ml < be32dec (T.read t 4).1
      · simp [c1, c2]
      · by_cases c3 : be32dec (T.read t 4).1 = 0
        · simp [c1, c2, c3]
        · by_cases c4 : ((T.read (T.read t 4).2 (be32dec (T.read t 4).1)).1).length ≠ be32dec (T.read t 4).1
          · simp [c1, c2, c3, c4]
          · simp only [c1, c2, c3, c4, if_false]
            rw [ih _ _ _ _ h4]

theorem ipmReadAll_sim {σ τ α : Type} (S : Src σ) (T : Src τ) (R : σ → τ → Prop)
    (hread : ∀ s t n, R s t → (S.read s n).1 = (T.read t n).1 ∧ R (S.read s n).2 (T.read t n).2)
    (ml : Nat) (dec : Bytes → Outcome α) (fuel : Nat) (s : σ) (t : τ) (k : Nat) (l : Option Bytes)
    (h : R s t) :
    ipmReadAll S ml dec fuel ⟨s, k, l⟩ = ipmReadAll T ml dec fuel ⟨t, k, l⟩ := by
  induction fuel generalizing s t k l with
  | zero => rfl
  | succ f ih =>
    obtain ⟨h1, h2⟩ := hread s t 4 h
    obtain ⟨h3, h4⟩ := hread _ _ (be32dec (T.read t 4).1) h2
    simp only [ipmReadAll, next, h1, h3]
    by_cases c1 : (T.read t 4).1.length ≠ 4
    · simp [c1]
    · by_cases c2 : ml < be32dec (T.read t 4).1
      · simp [c1, c2]
      · by_cases c3 : be32dec (T.read t 4).1 = 0
        · simp [c1, c2, c3]
        · by_cases c4 : ((T.read (T.read t 4).2 (be32dec (T.read t 4).1)).1).length ≠ be32dec (T.read t 4).1
          · simp [c1, c2, c3, c4]
          · simp only [c1, c2, c3, c4, if_false]
            cases dec (T.read (T.read t 4).2 (be32dec (T.read t 4).1)).1 with
            | ok d => simp only; rw [ih _ _ _ _ h4]
            | dataError => rfl
            | escape e => rfl
            | diverge => rfl

/-- the relation between an unblocker state and the plain payload stream it stands for -/
def UnblockRel (P : Nat) (s : Unblock.St) (t : Bytes) : Prop := Unblock.remaining P s = t

theorem unblock_hread (P : Nat) (s : Unblock.St) (t : Bytes) (n : Nat) (h : UnblockRel P s t) :
    ((unblockSrc P).read s n).1 = (plainSrc.read t n).1 ∧
    UnblockRel P ((unblockSrc P).read s n).2 (plainSrc.read t n).2 := by
  have := Unblock.read_some P s n
  unfold UnblockRel at *
  simp only [unblockSrc, plainSrc]
  rw [← h]; exact this

/-- C05: reading records through the unblocker = reading them from the payload stream -/
theorem readAll_unblock (P ml fuel : Nat) (s : Unblock.St) (k : Nat) (l : Option Bytes) :
    readAll (unblockSrc P) ml fuel ⟨s, k, l⟩ = readAll plainSrc ml fuel ⟨Unblock.remaining P s, k, l⟩ :=
  readAll_sim _ _ (UnblockRel P) (unblock_hread P) ml fuel s _ k l rfl

theorem ipmReadAll_unblock {α : Type} (P ml : Nat) (dec : Bytes → Outcome α) (fuel : Nat)
    (s : Unblock.St) (k : Nat) (l : Option Bytes) :
    ipmReadAll (unblockSrc P) ml dec fuel ⟨s, k, l⟩ =
      ipmReadAll plainSrc ml dec fuel ⟨Unblock.remaining P s, k, l⟩ :=
  ipmReadAll_sim _ _ (UnblockRel P) (unblock_hread P) ml dec fuel s _ k l rfl

/-! ### truncation (C09) on a plain stream -/

theorem readAll_truncated {ml : Nat} (h32 : ml < lim32) (recs : List Bytes) (tail : Bytes)
    (h : ∀ r ∈ recs, 0 < r.length ∧ r.length ≤ ml) (n fuel k : Nat) (l : Option Bytes)
    (hf : min recs.length n < fuel) :
    ∃ j e, readAll plainSrc ml fuel ⟨(vbsBytes recs ++ (be32 0 ++ tail)).take n, k, l⟩ = (recs.take j, e) ∧
      j ≤ recs.length ∧
      (vbsBytes (recs.take j)).length ≤ n ∧
      (j < recs.length → n < (vbsBytes (recs.take (j + 1))).length) ∧
      (e = .eof ∨ ∃ c, e = .dataError (k + j) c) := by
  induction recs generalizing n fuel k l with
  | nil =>
    cases fuel with
    | zero => omega
    | succ f =>
      refine ⟨0, .eof, ?_, by simp, by simp [vbsBytes_nil], by simp, Or.inl rfl⟩
      rw [readAll_succ, vbsBytes_nil, List.nil_append, List.take_zero]
      by_cases hn : n < 4
      · rw [next_short (by simp [List.length_take]; omega)]
      · have : (be32 0 ++ tail).take n = be32 0 ++ tail.take (n - 4) := by
          rw [List.take_append]; simp [be32_length]
          exact List.take_of_length_le (by simp [be32_length]; omega)
        rw [this, next_zero]
  | cons r rs ih =>
    cases fuel with
    | zero => omega
    | succ f =>
      obtain ⟨h0, hml⟩ := h r (by simp)
      simp only [vbsBytes_cons, List.append_assoc]
      by_cases hn4 : n < 4
      · refine ⟨0, .eof, ?_, by simp, by simp [vbsBytes_nil], ?_, Or.inl rfl⟩
        · rw [readAll_succ, List.take_zero, next_short (by simp [List.length_take]; omega)]
        · intro _; simp [vbsBytes_cons, be32_length]; omega
      · by_cases hnr : n < 4 + r.length
        · -- header complete, record cut
          refine ⟨0, .dataError k (be32 r.length ++ r.take (n - 4)), ?_, by simp, by simp [vbsBytes_nil], ?_,
            Or.inr ⟨be32 r.length ++ r.take (n - 4), by simp⟩⟩
          · have : (be32 r.length ++ (r ++ (vbsBytes rs ++ (be32 0 ++ tail)))).take n =
                be32 r.length ++ r.take (n - 4) := by
              rw [List.take_append, List.take_of_length_le (by simp [be32_length]; omega)]
              simp only [be32_length]
              rw [List.take_append_of_le_length (by omega)]
            rw [readAll_succ, List.take_zero, this, next_truncated hml h32 (by omega)]
          · intro _; simp [vbsBytes_cons, be32_length]; omega
        · -- whole record present
          have hsplit : (be32 r.length ++ (r ++ (vbsBytes rs ++ (be32 0 ++ tail)))).take n =
              be32 r.length ++ (r ++ (vbsBytes rs ++ (be32 0 ++ tail)).take (n - 4 - r.length)) := by
            rw [List.take_append, List.take_of_length_le (by simp [be32_length]; omega)]
            simp only [be32_length]
            rw [List.take_append, List.take_of_length_le (by omega)]
          obtain ⟨j, e, hr, hj, hlen, hnext, he⟩ :=
            ih (fun x hx => h x (by simp [hx])) (n - 4 - r.length) f (k + 1)
              (some (be32 r.length ++ r)) (by simp only [List.length_cons] at hf; omega)
          refine ⟨j + 1, e, ?_, by simpa using hj, ?_, ?_, ?_⟩
          · rw [readAll_succ, hsplit, next_record h0 hml h32]
            simp only [hr, List.take_succ_cons]
          · simp [List.take_succ_cons, vbsBytes_cons, be32_length]; omega
          · intro hlt
            have := hnext (by simpa using hlt)
            simp [List.take_succ_cons, vbsBytes_cons, be32_length] at this ⊢; omega
          · rcases he with he | ⟨c, he⟩
            · exact Or.inl he
            · exact Or.inr ⟨c, by rw [he]; congr 1; omega⟩

end Vbs

/-! ### writer layout -/
namespace Writer

theorem file_write_end (d b : Bytes) :
    File.write ⟨d, d.length⟩ b = ⟨d ++ b, (d ++ b).length⟩ := by
  simp [File.write]

/-- the raw `out_file.write` calls made for a record list: length, data, length, data, … -/
def rawWrites (recs : List Bytes) : List Bytes := (recs.map (fun r => [be32 r.length, r])).flatten

theorem rawWrites_flatten (recs : List Bytes) : (rawWrites recs).flatten = vbsBytes recs := by
  induction recs with
  | nil => rfl
  | cons r rs ih =>
    simp only [rawWrites, List.map_cons, List.flatten_cons] at ih ⊢
    simp [vbsBytes_cons, ih, vbsBytes]

theorem foldl_write_unblocked (P : Nat) (recs : List Bytes) (d : Bytes) (rem : Nat) (c : Bool) :
    recs.foldl (write P) ⟨⟨d, d.length⟩, false, rem, c⟩ =
      ⟨⟨d ++ vbsBytes recs, (d ++ vbsBytes recs).length⟩, false, rem, c⟩ := by
  induction recs generalizing d with
  | nil => simp [vbsBytes_nil]
  | cons r rs ih =>
    simp only [List.foldl_cons, write, rawWrite, Bool.false_eq_true, if_false, file_write_end]
    rw [ih]
    simp [vbsBytes_cons, List.append_assoc]

theorem writes_append (P : Nat) (rem : Nat) (a b : List Bytes) :
    Block.writes P rem (a ++ b) =
      ((Block.writes P rem a).1 ++ (Block.writes P (Block.writes P rem a).2 b).1,
       (Block.writes P (Block.writes P rem a).2 b).2) := by
  induction a generalizing rem with
  | nil => simp [Block.writes]
  | cons w ws ih => simp [Block.writes, ih, List.append_assoc]

theorem foldl_write_blocked (P : Nat) (recs : List Bytes) (d : Bytes) (rem : Nat) (c : Bool) :
    recs.foldl (write P) ⟨⟨d, d.length⟩, true, rem, c⟩ =
      ⟨⟨d ++ (Block.writes P rem (rawWrites recs)).1, (d ++ (Block.writes P rem (rawWrites recs)).1).length⟩,
        true, (Block.writes P rem (rawWrites recs)).2, c⟩ := by
  induction recs generalizing d rem with
  | nil => simp [rawWrites, Block.writes]
  | cons r rs ih =>
    simp only [List.foldl_cons, write, rawWrite, if_true, file_write_end]
    rw [ih]
    simp [rawWrites, Block.writes, List.append_assoc]

/-- unblocked layout: each record preceded by its 4-byte big-endian length, then a zero length;
    the file is left rewound -/
theorem run_unblocked (P : Nat) (recs : List Bytes) :
    (run P false recs [.close]).file = ⟨vbsBytes recs ++ be32 0, 0⟩ := by
  have := foldl_write_unblocked P recs [] P false
  simp only [List.length_nil, List.nil_append] at this
  simp only [run, List.foldl_cons, List.foldl_nil, fin, init, File.empty]
  rw [show (⟨[], 0⟩ : File) = ⟨[], ([] : Bytes).length⟩ from rfl] at *
  simp only [List.length_nil] at *
  rw [this]
  simp [close, rawWrite, file_write_end, File.seek0]

/-- blocked layout: the same writes pushed through the streaming blocker, then finalised -/
theorem run_blocked (P : Nat) (recs : List Bytes) :
    (run P true recs [.close]).file = ⟨Block.stream P (rawWrites recs ++ [be32 0]), 0⟩ := by
  have := foldl_write_blocked P recs [] P false
  simp only [List.length_nil, List.nil_append] at this
  simp only [run, List.foldl_cons, List.foldl_nil, fin, init, File.empty]
  rw [this]
  simp only [close, rawWrite, Bool.false_eq_true, if_false, if_true, file_write_end, File.seek0]
  simp [Block.stream, writes_append, Block.writes, List.append_assoc]

/-- any non-empty sequence of finalisations has the effect of one `close` (C11) -/
theorem close_closed (P : Nat) (s : St) : (close P s).closed = true := by
  unfold close
  by_cases h : s.closed = true
  · simp [h]
  · simp [h]

theorem close_of_closed (P : Nat) (s : St) (h : s.closed = true) : close P s = s := by
  simp [close, h]

theorem close_idem (P : Nat) (s : St) : close P (close P s) = close P s :=
  close_of_closed P _ (close_closed P s)

theorem foldl_fin_closed (P : Nat) (s : St) (h : s.closed = true) (fs : List Fin) :
    fs.foldl (fin P) s = s := by
  induction fs with
  | nil => rfl
  | cons f fs ih => simp only [List.foldl_cons, fin, close_of_closed P s h]; exact ih

theorem fins_eq_close (P : Nat) (s : St) (f : Fin) (fs : List Fin) :
    (f :: fs).foldl (fin P) s = close P s := by
  simp only [List.foldl_cons, fin]
  exact foldl_fin_closed P _ (close_closed P s) fs

end Writer
end Cardutil

namespace Cardutil.Vbs

/-! ### the IPM reader over a plain stream (C06, C10) -/

theorem ipmReadAll_succ {σ α} (S : Src σ) (ml : Nat) (dec : Bytes → Outcome α) (fuel : Nat) (st : RState σ) :
    ipmReadAll S ml dec (fuel + 1) st =
      match next S ml st with
      | .done e => ([], e)
      | .record r st' =>
        match dec r with
        | .ok d => (d :: (ipmReadAll S ml dec fuel st').1, (ipmReadAll S ml dec fuel st').2)
        | .dataError => ([], .dataError st.recno ((st'.last).getD []))
        | .escape k => ([], .escape k)
        | .diverge => ([], .diverge) := rfl

/-- all records decode: the messages come back in order, then end of data -/
theorem ipmReadAll_vbs {α} {ml : Nat} (h32 : ml < lim32) (dec : Bytes → Outcome α) (val : Bytes → α)
    (recs : List Bytes) (tail : Bytes)
    (h : ∀ r ∈ recs, 0 < r.length ∧ r.length ≤ ml ∧ dec r = .ok (val r)) (fuel k : Nat) (l : Option Bytes)
    (hf : recs.length < fuel) :
    ipmReadAll plainSrc ml dec fuel ⟨vbsBytes recs ++ (be32 0 ++ tail), k, l⟩ = (recs.map val, .eof) := by
  induction recs generalizing fuel k l with
  | nil =>
    cases fuel with
    | zero => omega
    | succ f => rw [ipmReadAll_succ, vbsBytes_nil, List.nil_append, next_zero]; rfl
  | cons r rs ih =>
    cases fuel with
    | zero => omega
    | succ f =>
      obtain ⟨h0, hml, hd⟩ := h r (by simp)
      rw [ipmReadAll_succ, vbsBytes_cons, List.append_assoc, List.append_assoc, next_record h0 hml h32]
      simp only [hd]
      rw [ih (fun x hx => h x (by simp [hx])) f (k + 1) _ (by simpa using hf)]
      rfl

/-- the k-th record does not decode: records before it are delivered, then the library error with
    the number of THAT record and its raw bytes including the length prefix -/
theorem ipmReadAll_bad {α} {ml : Nat} (h32 : ml < lim32) (dec : Bytes → Outcome α) (val : Bytes → α)
    (good : List Bytes) (bad : Bytes) (rest : Bytes)
    (h : ∀ r ∈ good, 0 < r.length ∧ r.length ≤ ml ∧ dec r = .ok (val r))
    (hb0 : 0 < bad.length) (hbl : bad.length ≤ ml) (hbad : dec bad = .dataError)
    (fuel k : Nat) (l : Option Bytes) (hf : good.length < fuel) :
    ipmReadAll plainSrc ml dec fuel ⟨vbsBytes good ++ (be32 bad.length ++ (bad ++ rest)), k, l⟩ =
      (good.map val, .dataError (k + good.length) (be32 bad.length ++ bad)) := by
  induction good generalizing fuel k l with
  | nil =>
    cases fuel with
    | zero => omega
    | succ f =>
      rw [ipmReadAll_succ, vbsBytes_nil, List.nil_append, next_record hb0 hbl h32]
      simp [hbad]
  | cons r rs ih =>
    cases fuel with
    | zero => omega
    | succ f =>
      obtain ⟨h0, hml, hd⟩ := h r (by simp)
      rw [ipmReadAll_succ, vbsBytes_cons, List.append_assoc, List.append_assoc, next_record h0 hml h32]
      simp only [hd]
      rw [ih (fun x hx => h x (by simp [hx])) f (k + 1) _ (by simpa using hf)]
      simp only [List.map_cons, List.length_cons]
      congr 2; omega

/-- framing-level fault in record k (oversized declared length): number k, the four length bytes -/
theorem ipmReadAll_oversized {α} {ml : Nat} (h32 : ml < lim32) (dec : Bytes → Outcome α) (val : Bytes → α)
    (good : List Bytes) (n : Nat) (rest : Bytes)
    (h : ∀ r ∈ good, 0 < r.length ∧ r.length ≤ ml ∧ dec r = .ok (val r))
    (hn : ml < n) (hn32 : n < lim32)
    (fuel k : Nat) (l : Option Bytes) (hf : good.length < fuel) :
    ipmReadAll plainSrc ml dec fuel ⟨vbsBytes good ++ (be32 n ++ rest), k, l⟩ =
      (good.map val, .dataError (k + good.length) (be32 n)) := by
  induction good generalizing fuel k l with
  | nil =>
    cases fuel with
    | zero => omega
    | succ f => rw [ipmReadAll_succ, vbsBytes_nil, List.nil_append, next_oversized hn hn32]; rfl
  | cons r rs ih =>
    cases fuel with
    | zero => omega
    | succ f =>
      obtain ⟨h0, hml, hd⟩ := h r (by simp)
      rw [ipmReadAll_succ, vbsBytes_cons, List.append_assoc, List.append_assoc, next_record h0 hml h32]
      simp only [hd]
      rw [ih (fun x hx => h x (by simp [hx])) f (k + 1) _ (by simpa using hf)]
      simp only [List.map_cons, List.length_cons]
      congr 2; omega

/-- framing-level fault in record k (record cut short): number k, length bytes + what could be read -/
theorem ipmReadAll_truncated {α} {ml : Nat} (h32 : ml < lim32) (dec : Bytes → Outcome α) (val : Bytes → α)
    (good : List Bytes) (bad : Bytes) (n : Nat)
    (h : ∀ r ∈ good, 0 < r.length ∧ r.length ≤ ml ∧ dec r = .ok (val r))
    (hbl : bad.length ≤ ml) (hn : n < bad.length)
    (fuel k : Nat) (l : Option Bytes) (hf : good.length < fuel) :
    ipmReadAll plainSrc ml dec fuel ⟨vbsBytes good ++ (be32 bad.length ++ bad.take n), k, l⟩ =
      (good.map val, .dataError (k + good.length) (be32 bad.length ++ bad.take n)) := by
  induction good generalizing fuel k l with
  | nil =>
    cases fuel with
    | zero => omega
    | succ f => rw [ipmReadAll_succ, vbsBytes_nil, List.nil_append, next_truncated hbl h32 hn]; rfl
  | cons r rs ih =>
    cases fuel with
    | zero => omega
    | succ f =>
      obtain ⟨h0, hml, hd⟩ := h r (by simp)
      rw [ipmReadAll_succ, vbsBytes_cons, List.append_assoc, List.append_assoc, next_record h0 hml h32]
      simp only [hd]
      rw [ih (fun x hx => h x (by simp [hx])) f (k + 1) _ (by simpa using hf)]
      simp only [List.map_cons, List.length_cons]
      congr 2; omega

end Cardutil.Vbs

namespace Cardutil.Vbs

/-- when every record the VBS layer delivers decodes, the IPM reader delivers their decodings and
    ends the same way -/
theorem ipmReadAll_of_readAll {σ α} (S : Src σ) (ml : Nat) (dec : Bytes → Outcome α) (val : Bytes → α)
    (fuel : Nat) (st : RState σ) (h : ∀ r ∈ (readAll S ml fuel st).1, dec r = .ok (val r)) :
    ipmReadAll S ml dec fuel st = ((readAll S ml fuel st).1.map val, (readAll S ml fuel st).2) := by
  induction fuel generalizing st with
  | zero => rfl
  | succ f ih =>
    rw [ipmReadAll_succ]
    rw [readAll_succ] at h ⊢
    cases hn : next S ml st with
    | done e => simp
    | record r st' =>
      rw [hn] at h
      simp only at h ⊢
      have hr := h r (by simp)
      rw [hr]
      simp only
      rw [ih st' (fun x hx => h x (by simp [hx]))]
      simp

end Cardutil.Vbs
