import Cardutil.Model.Iso8583
import Cardutil.Lemmas.PyInt
import Cardutil.Lemmas.Dict
/-
  Lemmas for PDS packing (`_pds_to_de`) and recovery (`_pds_to_dict`) — C12, reused by C01.
-/
namespace Cardutil.Iso

open Cardutil Cardutil.Py Cardutil.Digits

/-! ### greedy packing -/

theorem pdsPack_flatten (es : List Text) (cur : Text) : (pdsPack es cur).flatten = cur ++ es.flatten := by
  induction es generalizing cur with
  | nil =>
    simp only [pdsPack]
    by_cases h : cur.isEmpty = true
    · have : cur = [] := by simpa using h
      simp [h, this]
    · simp [h]
  | cons e es ih =>
    simp only [pdsPack]
    split
    · simp [ih]
    · simp [ih, List.append_assoc]

theorem pdsPack_le (es : List Text) (cur : Text) (hc : cur.length ≤ 999) (he : ∀ e ∈ es, e.length ≤ 999) :
    ∀ c ∈ pdsPack es cur, c.length ≤ 999 := by
  induction es generalizing cur with
  | nil =>
    intro c hcm
    simp only [pdsPack] at hcm
    split at hcm
    · simp at hcm
    · have : c = cur := by simpa using hcm
      subst this; exact hc
  | cons e es ih =>
    intro c hcm
    simp only [pdsPack] at hcm
    split at hcm
    · rcases List.mem_cons.mp hcm with rfl | h
      · exact hc
      · exact ih e (he e (by simp)) (fun x hx => he x (by simp [hx])) c h
    · rename_i hle
      exact ih (cur ++ e) (by omega) (fun x hx => he x (by simp [hx])) c hcm

/-- the same algorithm keeping the entries of each chunk apart -/
def pdsPackG : List Text → List Text → List (List Text)
  | [], g => if g.isEmpty then [] else [g]
  | e :: es, g =>
    if 999 < (g.flatten ++ e).length then g :: pdsPackG es [e]
    else pdsPackG es (g ++ [e])

theorem flatten_isEmpty_of_nonempty (g : List Text) (h : ∀ e ∈ g, e ≠ []) : g.flatten.isEmpty = g.isEmpty := by
  cases g with
  | nil => rfl
  | cons e es =>
    have := h e (by simp)
    cases e with
    | nil => exact absurd rfl this
    | cons _ _ => simp

/-- chunks are concatenations of whole entries: no sub-element is split between carriers -/
theorem pdsPack_groups (es : List Text) (g : List Text) (hes : ∀ e ∈ es, e ≠ []) (hg : ∀ e ∈ g, e ≠ []) :
    pdsPack es g.flatten = (pdsPackG es g).map List.flatten := by
  induction es generalizing g with
  | nil =>
    simp only [pdsPack, pdsPackG, flatten_isEmpty_of_nonempty g hg]
    by_cases h : g.isEmpty = true <;> simp [h]
  | cons e es ih =>
    have he := hes e (by simp)
    have hes' : ∀ x ∈ es, x ≠ [] := fun x hx => hes x (by simp [hx])
    have hsingle : ∀ x ∈ [e], x ≠ [] := by
      intro x hx
      have hxe : x = e := by simpa using hx
      rw [hxe]; exact he
    have happ : ∀ x ∈ g ++ [e], x ≠ [] := by
      intro x hx
      rcases List.mem_append.mp hx with h | h
      · exact hg x h
      · exact hsingle x h
    simp only [pdsPack, pdsPackG]
    split
    · have := ih [e] hes' hsingle
      simp only [List.flatten_cons, List.flatten_nil, List.append_nil] at this
      simp [this]
    · have := ih (g ++ [e]) hes' happ
      simp only [List.flatten_append, List.flatten_cons, List.flatten_nil, List.append_nil] at this
      exact this

/-- the groups are the entries in order: nothing dropped, duplicated or moved -/
theorem pdsPackG_flatten (es g : List Text) : (pdsPackG es g).flatten = g ++ es := by
  induction es generalizing g with
  | nil =>
    simp only [pdsPackG]
    by_cases h : g.isEmpty = true
    · have : g = [] := by simpa using h
      simp [h, this]
    · simp [h]
  | cons e es ih =>
    simp only [pdsPackG]
    split
    · simp [ih]
    · simp [ih, List.append_assoc]

/-- greedy maximality: a chunk is closed only when the next entry does not fit — for every two
    consecutive groups, the first entry of the later one would have pushed the earlier one over
    999 characters -/
def GreedyChain : List (List Text) → Prop
  | [] => True
  | [_] => True
  | g :: g' :: rest => (∀ e, g'.head? = some e → 999 < (g.flatten ++ e).length) ∧ GreedyChain (g' :: rest)

theorem pdsPackG_head (es g : List Text) (first : List Text) (rest : List (List Text))
    (h : pdsPackG es g = first :: rest) : ∃ tail, first = g ++ tail := by
  induction es generalizing g with
  | nil =>
    simp only [pdsPackG] at h
    split at h
    · simp at h
    · simp only [List.cons.injEq] at h
      exact ⟨[], by simp [h.1]⟩
  | cons e es ih =>
    simp only [pdsPackG] at h
    split at h
    · simp only [List.cons.injEq] at h
      exact ⟨[], by simp [h.1]⟩
    · obtain ⟨tail, ht⟩ := ih (g ++ [e]) h
      exact ⟨e :: tail, by simp [ht]⟩

theorem pdsPackG_ne_nil (es g : List Text) (hg : g ≠ []) : pdsPackG es g ≠ [] := by
  induction es generalizing g with
  | nil =>
    simp only [pdsPackG]
    have : g.isEmpty = false := by cases g <;> simp_all
    simp [this]
  | cons e es ih =>
    simp only [pdsPackG]
    split
    · simp
    · exact ih (g ++ [e]) (by simp)

theorem pdsPackG_greedy (es g : List Text) : GreedyChain (pdsPackG es g) := by
  induction es generalizing g with
  | nil =>
    simp only [pdsPackG]
    split <;> simp [GreedyChain]
  | cons e es ih =>
    simp only [pdsPackG]
    split
    · rename_i hgt
      cases hr : pdsPackG es [e] with
      | nil => exact absurd hr (pdsPackG_ne_nil es [e] (by simp))
      | cons first rest =>
        obtain ⟨tail, ht⟩ := pdsPackG_head es [e] first rest hr
        have hchain := ih [e]
        rw [hr] at hchain
        refine ⟨?_, hchain⟩
        intro x hx
        subst ht
        simp only [List.cons_append, List.nil_append, List.head?_cons, Option.some.injEq] at hx
        subst hx
        exact hgt
    · exact ih (g ++ [e])

/-! ### recovery: the tag(4) length(3) value walk -/

/-- a well-formed sub-element text: 4-character tag, 3-digit length, value -/
def entryOf (tag4 : Text) (v : Text) : Text := tag4 ++ (fmtNat 3 v.length ++ v)

theorem pdsWalk_step {k : IntClasses} (hk : k.Sane) (fuel : Nat) (tag4 v rest : Text) (acc : Dict)
    (ht : tag4.length = 4) (hv : v.length < 1000) :
    pdsWalk k (fuel + 1) (entryOf tag4 v ++ rest) acc =
      pdsWalk k fuel rest (Dict.set acc (.pds tag4) (.str v)) := by
  have h3 : (fmtNat 3 v.length).length = 3 := fmtNat_length 3 _ (by decide) (by simpa using hv)
  have hne : (entryOf tag4 v ++ rest).isEmpty = false := by
    cases tag4 with
    | nil => simp at ht
    | cons _ _ => simp [entryOf]
  have hlen : ((entryOf tag4 v ++ rest).drop 4).take 3 = fmtNat 3 v.length := by
    simp only [entryOf, List.append_assoc]
    rw [List.drop_left' ht, List.take_left' h3]
  have htag : (entryOf tag4 v ++ rest).take 4 = tag4 := by
    simp only [entryOf, List.append_assoc]
    exact List.take_left' ht
  have hval : ((entryOf tag4 v ++ rest).drop 7).take v.length = v := by
    have : (tag4 ++ fmtNat 3 v.length).length = 7 := by simp [ht, h3]
    simp only [entryOf, List.append_assoc]
    rw [← List.append_assoc, List.drop_left' this, List.take_left' rfl]
  have hrest : (entryOf tag4 v ++ rest).drop (7 + v.length) = rest := by
    have : (tag4 ++ (fmtNat 3 v.length ++ v)).length = 7 + v.length := by simp [ht, h3]; omega
    simp only [entryOf]
    exact List.drop_left' this
  rw [pdsWalk]
  simp only [hne, Bool.false_eq_true, if_false, hlen, pyInt_fmtNat hk 3 v.length (by decide) (by simpa using hv),
    htag, hval, hrest]

/-- walking a concatenation of well-formed sub-elements stores each of them, in order -/
theorem pdsWalk_entries {k : IntClasses} (hk : k.Sane) (ents : List (Text × Text)) (acc : Dict) (fuel : Nat)
    (h : ∀ e ∈ ents, e.1.length = 4 ∧ e.2.length < 1000) (hf : ents.length < fuel) :
    pdsWalk k fuel (ents.flatMap (fun e => entryOf e.1 e.2)) acc =
      .ok (ents.foldl (fun a e => Dict.set a (.pds e.1) (.str e.2)) acc) := by
  induction ents generalizing acc fuel with
  | nil =>
    cases fuel with
    | zero => omega
    | succ f => simp [pdsWalk]
  | cons e es ih =>
    cases fuel with
    | zero => omega
    | succ f =>
      obtain ⟨ht, hv⟩ := h e (by simp)
      simp only [List.flatMap_cons, List.foldl_cons]
      rw [pdsWalk_step hk f e.1 e.2 _ acc ht hv]
      exact ih _ f (fun x hx => h x (by simp [hx])) (by simpa using hf)

theorem entryOf_length (tag4 v : Text) (ht : tag4.length = 4) (hv : v.length < 1000) :
    (entryOf tag4 v).length = 7 + v.length := by
  have h3 : (fmtNat 3 v.length).length = 3 := fmtNat_length 3 _ (by decide) (by simpa using hv)
  simp [entryOf, ht, h3]; omega

/-- `_pds_to_dict` on a carrier that is a concatenation of well-formed sub-elements -/
theorem pdsToDict_entries {k : IntClasses} (hk : k.Sane) (ents : List (Text × Text))
    (h : ∀ e ∈ ents, e.1.length = 4 ∧ e.2.length < 1000) :
    pdsToDict k (ents.flatMap (fun e => entryOf e.1 e.2)) =
      .ok (ents.foldl (fun a e => Dict.set a (.pds e.1) (.str e.2)) []) := by
  unfold pdsToDict
  apply pdsWalk_entries hk ents [] _ h
  have : ents.length ≤ (ents.flatMap (fun e => entryOf e.1 e.2)).length := by
    clear hk
    induction ents with
    | nil => simp
    | cons e es ih =>
      obtain ⟨ht, hv⟩ := h e (by simp)
      have := ih (fun x hx => h x (by simp [hx]))
      simp only [List.flatMap_cons, List.length_append, List.length_cons, entryOf_length e.1 e.2 ht hv]
      omega
  omega

/-- the packed strings go to the carriers in ascending order; other entries are untouched -/
theorem assignCarriers_spec (carriers : List Nat) (chunks : List Text) (m : Dict) (hlen : chunks.length ≤ carriers.length)
    (hnd : carriers.Nodup) :
    ∃ m', assignCarriers carriers chunks m = .ok m' ∧
      (∀ i (hi : i < chunks.length), Dict.get m' (.de (carriers[i]'(by omega))) = some (.str chunks[i])) ∧
      (∀ k, (∀ i (hi : i < chunks.length), k ≠ .de (carriers[i]'(by omega))) → Dict.get m' k = Dict.get m k) := by
  induction chunks generalizing carriers m with
  | nil => exact ⟨m, by cases carriers <;> rfl, by intro i hi; simp at hi, fun _ _ => rfl⟩
  | cons t ts ih =>
    cases carriers with
    | nil => simp at hlen
    | cons c cs =>
      simp only [List.nodup_cons] at hnd
      obtain ⟨m', hm', hget, hother⟩ := ih cs (Dict.set m (.de c) (.str t)) (by simpa using hlen) hnd.2
      refine ⟨m', by simpa [assignCarriers] using hm', ?_, ?_⟩
      · intro i hi
        cases i with
        | zero =>
          simp only [List.getElem_cons_zero]
          rw [hother (.de c) (by
            intro j hj heq
            have : c = cs[j]'(by simp at hlen; omega) := by simpa using heq
            exact hnd.1 (this ▸ List.getElem_mem _)), Dict.get_set_same]
        | succ j =>
          simp only [List.getElem_cons_succ]
          exact hget j (by simpa using hi)
      · intro k hk
        rw [hother k (fun j hj => hk (j + 1) (by simpa using hj)), Dict.get_set_other]
        exact (hk 0 (by simp)).symm


end Cardutil.Iso
