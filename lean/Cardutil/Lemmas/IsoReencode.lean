import Cardutil.Lemmas.IsoDict
/-
  Re-encoding what was decoded: `encodeCore (decode (encodeCore m)) = encodeCore m`
  for configurations without PAN masking — the step behind the reversibility of the IPM
  conversion tools (C19).
-/
namespace Cardutil.Iso

open Cardutil Cardutil.Py Cardutil.Digits

/-- the present value of element `bit` -/
def presentVal (m : Dict) (bit : Nat) : Option Val :=
  match Dict.get m (.de bit) with
  | some v => if present v then some v else none
  | none => none

/-- two messages the encoder cannot tell apart: the same elements are present and each encodes to
    the same bytes -/
def sameEnc (env : Env) (cfg : Config) (d m : Dict) (bits : List Nat) : Prop :=
  ∀ bit ∈ bits,
    ((presentVal d bit).isSome = (presentVal m bit).isSome) ∧
    ∀ x v, presentVal d bit = some x → presentVal m bit = some v →
      ∀ f, cfg.get bit = some f → encodeField env f x = encodeField env f v

theorem encodeBits_step (env : Env) (cfg : Config) (m : Dict) (bit : Nat) (bits : List Nat) :
    encodeBits env cfg m (bit :: bits) =
      match presentVal m bit with
      | some v =>
        (match cfg.get bit with
         | none => .escape .keyError
         | some f => (encodeField env f v).bind (fun b =>
            (encodeBits env cfg m bits).bind (fun r => .ok (bit :: r.1, b ++ r.2))))
      | none => encodeBits env cfg m bits := by
  simp only [encodeBits, presentVal]
  cases Dict.get m (.de bit) with
  | none => rfl
  | some v =>
    by_cases hp : present v = true
    · simp only [hp, if_true]
      cases cfg.get bit <;> rfl
    · simp only [hp]; rfl

theorem encodeBits_congr (env : Env) (cfg : Config) (d m : Dict) (bits : List Nat) (h : sameEnc env cfg d m bits) :
    encodeBits env cfg d bits = encodeBits env cfg m bits := by
  induction bits with
  | nil => rfl
  | cons bit bits ih =>
    obtain ⟨hsome, henc⟩ := h bit (by simp)
    have ih' := ih (fun b hb' => h b (by simp [hb']))
    rw [encodeBits_step, encodeBits_step]
    cases hd : presentVal d bit with
    | none =>
      rw [hd] at hsome
      cases hm : presentVal m bit with
      | none => simp [ih']
      | some v => rw [hm] at hsome; simp at hsome
    | some x =>
      rw [hd] at hsome
      cases hm : presentVal m bit with
      | none => rw [hm] at hsome; simp at hsome
      | some v =>
        simp only
        cases hc : cfg.get bit with
        | none => rfl
        | some f => simp only [henc x v hd hm f hc, ih']

theorem encodeCore_congr (env : Env) (cfg : Config) (hexBitmap : Bool) (d m : Dict)
    (hmti : Dict.get d .mti = Dict.get m .mti) (h : sameEnc env cfg d m allBits) :
    encodeCore env cfg hexBitmap d = encodeCore env cfg hexBitmap m := by
  unfold encodeCore encodeMti
  have := encodeBits_congr env cfg d m allBits h
  simp only [allBits] at this
  rw [this, hmti]

theorem mem_of_get {d : Dict} {k : Key} {v : Val} (h : Dict.get d k = some v) : (k, v) ∈ d := by
  induction d with
  | nil => simp [Dict.get_nil] at h
  | cons kv rest ih =>
    rw [Dict.get_cons] at h
    by_cases he : kv.1 = k
    · rw [if_pos he] at h
      injection h with e
      have : kv = (k, v) := by cases kv; simp_all
      rw [this]; simp
    · rw [if_neg he] at h
      exact List.mem_cons_of_mem _ (ih h)

/-- without PAN masking, the decoded value of a well-formed element encodes to the same bytes
    as the original value (it IS the original value, except that a number / date-time supplied as
    text comes back typed) -/
theorem wf_reencode {env : Env} {bit : Nat} {f : FieldCfg} {v exp : Val} {sub : Dict}
    (hw : WFField env bit f v exp sub) (hnp : f.proc ≠ .pan ∧ f.proc ≠ .panPrefix) :
    encodeField env f exp = encodeField env f v ∧ present exp = true := by
  cases hw with
  | text t bs sub hproc hty henc hne hfix hvar hsub =>
    have : transform f t = t := by
      unfold transform
      split
      · rename_i h; exact absurd h hnp.1
      · rename_i h; exact absurd h hnp.2
      · rfl
    rw [this]
    exact ⟨rfl, by cases t <;> simp_all [present]⟩
  | int n => exact ⟨rfl, rfl⟩
  | intText t n hproc hty hfix hw hne hint hn =>
    exact ⟨by simp only [encodeField, pyTypeToString, hty, hint], rfl⟩
  | dateText t d bs hproc hty hfix hne hparse =>
    exact ⟨by simp only [encodeField, pyTypeToString, hty, hparse], rfl⟩
  | date d bs => exact ⟨rfl, rfl⟩
  | icc b sub hproc hty hne => exact ⟨rfl, by cases b <;> simp_all [present]⟩

/-- the expected decoded value of a well-formed element does not depend on the codec: two
    environments with the same character classes and date parser expect the same value -/
theorem wf_exp_det {envA envB : Env} (hcl : envA.classes = envB.classes) (hpd : envA.parseDate = envB.parseDate)
    {bit : Nat} {f : FieldCfg} {v expA expB : Val} {subA subB : Dict}
    (ha : WFField envA bit f v expA subA) (hb : WFField envB bit f v expB subB) : expA = expB := by
  cases ha with
  | text t bs sub hproc hty =>
    cases hb with
    | text => rfl
    | intText t n hproc' hty' => rw [hty] at hty'; simp at hty'
    | dateText t d bs hproc' hty' => rw [hty] at hty'; simp at hty'
  | int n => cases hb with | int => rfl
  | intText t n hproc hty hfix hw hne hint =>
    cases hb with
    | text t bs sub hproc' hty' => rw [hty] at hty'; simp at hty'
    | intText t n' _ _ _ _ _ hint' =>
      rw [hcl, hint'] at hint
      injection hint with e
      rw [e]
    | dateText t d bs hproc' hty' => rw [hty] at hty'; simp at hty'
  | dateText t d bs hproc hty hfix hne hparse =>
    cases hb with
    | text t bs sub hproc' hty' => rw [hty] at hty'; simp at hty'
    | intText t n hproc' hty' => rw [hty] at hty'; simp at hty'
    | dateText t d' bs' _ _ _ _ hparse' =>
      rw [hpd, hparse'] at hparse
      injection hparse with e
      rw [e]
  | date d bs => cases hb with | date => rfl
  | icc b sub => cases hb with | icc => rfl

/-- a dictionary `d` whose elements are, bit for bit, values that encode like those of `m` (and
    which has no other data elements) is indistinguishable from `m` for the encoder -/
theorem sameEnc_of_elements (env : Env) (cfg : Config) (m d : Dict)
    (hel : ∀ bit ∈ allBits, ∀ v, Dict.get m (.de bit) = some v → present v = true →
      ∃ f exp, cfg.get bit = some f ∧ Dict.get d (.de bit) = some exp ∧ present exp = true ∧
        encodeField env f exp = encodeField env f v)
    (hkeys : ∀ kv ∈ d, kv.1 = .mti ∨
        (∃ bit v, kv.1 = .de bit ∧ Dict.get m (.de bit) = some v ∧ present v = true) ∨
        kv.1.isDerived = true) :
    sameEnc env cfg d m allBits := by
  intro bit hb
  have hnone : ¬ (∃ v, Dict.get m (.de bit) = some v ∧ present v = true) → Dict.get d (.de bit) = none := by
    intro hno
    cases hd : Dict.get d (.de bit) with
    | none => rfl
    | some x =>
      exfalso
      rcases hkeys _ (mem_of_get hd) with h6 | ⟨bit', v', hk, hv', hp''⟩ | h6
      · simp at h6
      · simp only at hk
        injection hk with e
        subst e
        exact hno ⟨v', hv', hp''⟩
      · simp [Key.isDerived] at h6
  by_cases hex : ∃ v, Dict.get m (.de bit) = some v ∧ present v = true
  · obtain ⟨v, hm, hp⟩ := hex
    obtain ⟨f, exp, hcfg, hget, hpe, hre⟩ := hel bit hb v hm hp
    have hpd : presentVal d bit = some exp := by simp [presentVal, hget, hpe]
    have hpm : presentVal m bit = some v := by simp [presentVal, hm, hp]
    refine ⟨by rw [hpd, hpm]; rfl, ?_⟩
    intro x v' hx hv' f' hf'
    rw [hpd] at hx; rw [hpm] at hv'
    injection hx with e1; injection hv' with e2
    subst e1; subst e2
    rw [hcfg] at hf'
    injection hf' with e3
    subst e3
    exact hre
  · have hd := hnone hex
    have hpd : presentVal d bit = none := by simp [presentVal, hd]
    have hpm : presentVal m bit = none := by
      unfold presentVal
      cases hm : Dict.get m (.de bit) with
      | none => rfl
      | some v =>
        by_cases hp : present v = true
        · exact absurd ⟨v, hm, hp⟩ hex
        · simp [hp]
    refine ⟨by rw [hpd, hpm], ?_⟩
    intro x v' hx
    rw [hpd] at hx
    simp at hx

end Cardutil.Iso
