import Cardutil.Lemmas.IsoDict
/-
  Re-encoding what was decoded: `encodeCore (decode (encodeCore m)) = encodeCore m`
  for configurations without PAN masking — the step behind the reversibility of the IPM
  conversion tools (C19).
-/
namespace Cardutil.Iso

open Cardutil Cardutil.Py Cardutil.Digits

/-- the encoder looks at a message only through `MTI` and the present `DE<bit>` entries -/
def sameElems (d m : Dict) (bits : List Nat) : Prop :=
  ∀ bit ∈ bits, (match Dict.get d (.de bit) with | some v => if present v then some v else none | none => none) =
                (match Dict.get m (.de bit) with | some v => if present v then some v else none | none => none)

theorem encodeBits_congr (env : Env) (cfg : Config) (d m : Dict) (bits : List Nat) (h : sameElems d m bits) :
    encodeBits env cfg d bits = encodeBits env cfg m bits := by
  induction bits with
  | nil => rfl
  | cons bit bits ih =>
    have hb := h bit (by simp)
    have ih' := ih (fun b hb' => h b (by simp [hb']))
    simp only [encodeBits]
    cases hd : Dict.get d (.de bit) with
    | none =>
      rw [hd] at hb
      cases hm : Dict.get m (.de bit) with
      | none => simp [ih']
      | some v =>
        rw [hm] at hb
        simp only at hb
        by_cases hp : present v = true
        · simp [hp] at hb
        · have : present v = false := by simpa using hp
          simp [this, ih']
    | some x =>
      rw [hd] at hb
      simp only at hb
      by_cases hpx : present x = true
      · simp only [hpx, if_true] at hb
        cases hm : Dict.get m (.de bit) with
        | none => rw [hm] at hb; simp at hb
        | some v =>
          rw [hm] at hb
          simp only at hb
          by_cases hp : present v = true
          · simp only [hp, if_true, Option.some.injEq] at hb
            subst hb
            simp [hpx, ih']
          · have : present v = false := by simpa using hp
            simp [this] at hb
      · have hpx' : present x = false := by simpa using hpx
        simp only [hpx', Bool.false_eq_true, if_false] at hb
        cases hm : Dict.get m (.de bit) with
        | none => simp [hpx', ih']
        | some v =>
          rw [hm] at hb
          simp only at hb
          by_cases hp : present v = true
          · simp [hp] at hb
          · have : present v = false := by simpa using hp
            simp [hpx', this, ih']

theorem encodeCore_congr (env : Env) (cfg : Config) (hexBitmap : Bool) (d m : Dict)
    (hmti : Dict.get d .mti = Dict.get m .mti) (h : sameElems d m allBits) :
    encodeCore env cfg hexBitmap d = encodeCore env cfg hexBitmap m := by
  unfold encodeCore encodeMti
  have := encodeBits_congr env cfg d m allBits h
  simp only [allBits] at this
  rw [this, hmti]

theorem mem_of_get {d : Dict} {k : Key} {v : Val} (h : Dict.get d k = some v) : (k, v) ∈ d := by
  induction d with
  | nil => simp [Dict.get_nil] at h
  | cons kv rest ih =>
    rw [Dict.get_cons] at h
    by_cases he : kv.1 = k
    · rw [if_pos he] at h
      injection h with e
      have : kv = (k, v) := by cases kv; simp_all
      rw [this]; simp
    · rw [if_neg he] at h
      exact List.mem_cons_of_mem _ (ih h)

/-- without PAN masking the decoded value of a well-formed element is the value itself -/
theorem wf_exp_eq {env : Env} {bit : Nat} {f : FieldCfg} {v exp : Val} {sub : Dict}
    (hw : WFField env bit f v exp sub) (hnp : f.proc ≠ .pan ∧ f.proc ≠ .panPrefix) : exp = v := by
  cases hw with
  | text t bs sub hproc hty henc hne hfix hvar hsub =>
    have : transform f t = t := by
      unfold transform
      split
      · rename_i h; exact absurd h hnp.1
      · rename_i h; exact absurd h hnp.2
      · rfl
    rw [this]
  | int n => rfl
  | date d bs => rfl
  | icc b sub => rfl

end Cardutil.Iso
