import Cardutil.Lemmas.Pds
import Cardutil.Lemmas.IsoDict
/-
  Round trip of messages that supply PDSxxxx keys: the encoder packs them into the carrier
  elements, the decoder walks the carriers.  Builds on Lemmas/Pds.lean (packing, walk) and
  Lemmas/IsoMsg.lean (message round trip for the message with the carriers assigned).
-/
namespace Cardutil.Iso

open Cardutil Cardutil.Py Cardutil.Digits

/-- text of a (tag, value) pair -/
def entryP (e : Text × Text) : Text := entryOf e.1 e.2

/-- greedy packing on (tag, value) pairs — same algorithm as `pdsPack`, keeping the pairs -/
def pdsPackP : List (Text × Text) → List (Text × Text) → List (List (Text × Text))
  | [], g => if g.isEmpty then [] else [g]
  | e :: es, g =>
    if 999 < ((g.map entryP).flatten ++ entryP e).length then g :: pdsPackP es [e]
    else pdsPackP es (g ++ [e])

def chunkOf (g : List (Text × Text)) : Text := (g.map entryP).flatten

theorem entryP_ne_nil (e : Text × Text) (h : e.1.length = 4) : entryP e ≠ [] := by
  intro h0
  have : (entryP e).length = 0 := by rw [h0]; rfl
  simp [entryP, entryOf, h] at this

theorem chunkOf_isEmpty (g : List (Text × Text)) (h : ∀ e ∈ g, e.1.length = 4) : (chunkOf g).isEmpty = g.isEmpty := by
  cases g with
  | nil => rfl
  | cons e es =>
    have := entryP_ne_nil e (h e (by simp))
    simp only [chunkOf, List.map_cons, List.flatten_cons, List.isEmpty_cons]
    cases hh : entryP e with
    | nil => exact absurd hh this
    | cons _ _ => simp

theorem pdsPack_pairs (es g : List (Text × Text)) (hes : ∀ e ∈ es, e.1.length = 4) (hg : ∀ e ∈ g, e.1.length = 4) :
    pdsPack (es.map entryP) (chunkOf g) = (pdsPackP es g).map chunkOf := by
  induction es generalizing g with
  | nil =>
    simp only [List.map_nil, pdsPack, pdsPackP, chunkOf_isEmpty g hg]
    by_cases h : g.isEmpty = true <;> simp [h]
  | cons e es ih =>
    have hes' : ∀ x ∈ es, x.1.length = 4 := fun x hx => hes x (by simp [hx])
    have hsingle : ∀ x ∈ [e], x.1.length = 4 := by
      intro x hx
      have : x = e := by simpa using hx
      rw [this]; exact hes e (by simp)
    have happ : ∀ x ∈ g ++ [e], x.1.length = 4 := by
      intro x hx
      rcases List.mem_append.mp hx with h | h
      · exact hg x h
      · exact hsingle x h
    simp only [List.map_cons, pdsPack, pdsPackP]
    have hc : chunkOf g = (g.map entryP).flatten := rfl
    rw [hc]
    split
    · have := ih [e] hes' hsingle
      simp only [chunkOf, List.map_cons, List.map_nil, List.flatten_cons, List.flatten_nil, List.append_nil] at this
      simp [this, chunkOf]
    · have := ih (g ++ [e]) hes' happ
      simp only [chunkOf, List.map_append, List.flatten_append, List.map_cons, List.map_nil, List.flatten_cons,
        List.flatten_nil, List.append_nil] at this
      exact this

theorem pdsPackP_flatten (es g : List (Text × Text)) : (pdsPackP es g).flatten = g ++ es := by
  induction es generalizing g with
  | nil =>
    simp only [pdsPackP]
    by_cases h : g.isEmpty = true
    · have : g = [] := by simpa using h
      simp [h, this]
    · simp [h]
  | cons e es ih =>
    simp only [pdsPackP]
    split
    · simp [ih]
    · simp [ih, List.append_assoc]

/-- every group is non-empty and (given entries of at most 999 characters) at most 999 long -/
theorem pdsPackP_groups (es g : List (Text × Text)) (hle : ∀ e ∈ es, (entryP e).length ≤ 999)
    (hg : (chunkOf g).length ≤ 999) :
    ∀ grp ∈ pdsPackP es g, (chunkOf grp).length ≤ 999 ∧ (grp = [] → g = [] ∧ False) := by
  induction es generalizing g with
  | nil =>
    intro grp hm
    simp only [pdsPackP] at hm
    split at hm
    · simp at hm
    · rename_i hne
      have : grp = g := by simpa using hm
      subst this
      exact ⟨hg, fun h0 => by subst h0; simp at hne⟩
  | cons e es ih =>
    intro grp hm
    simp only [pdsPackP] at hm
    split at hm
    · rename_i hgt
      rcases List.mem_cons.mp hm with h0 | h0
      · subst h0
        refine ⟨hg, fun h0 => ?_⟩
        subst h0
        have := hle e (by simp)
        simp [chunkOf] at hgt
        omega
      · have := ih [e] (fun x hx => hle x (by simp [hx])) (by simpa [chunkOf] using hle e (by simp)) grp h0
        exact ⟨this.1, fun h1 => absurd (this.2 h1).1 (by simp)⟩
    · rename_i hle'
      have := ih (g ++ [e]) (fun x hx => hle x (by simp [hx])) (by
        simp only [chunkOf, List.map_append, List.flatten_append, List.map_cons, List.map_nil, List.flatten_cons,
          List.flatten_nil, List.append_nil] at hle' ⊢
        omega) grp hm
      exact ⟨this.1, fun h1 => absurd (this.2 h1).1 (by simp)⟩

/-! ### insertion sort is a permutation -/

theorem insertSorted_perm (x : Text × Val) (l : List (Text × Val)) : (insertSorted x l).Perm (x :: l) := by
  induction l with
  | nil => exact List.Perm.refl _
  | cons y ys ih =>
    simp only [insertSorted]
    split
    · exact (List.Perm.cons y ih).trans (List.Perm.swap x y ys)
    · exact List.Perm.refl _

theorem sortPds_perm (l : List (Text × Val)) : (sortPds l).Perm l := by
  unfold sortPds
  induction l with
  | nil => exact List.Perm.refl _
  | cons x xs ih =>
    simp only [List.foldr_cons]
    exact (insertSorted_perm x _).trans (List.Perm.cons x ih)

end Cardutil.Iso

namespace Cardutil.Iso

open Cardutil Cardutil.Py Cardutil.Digits

/-- a message's PDS sub-elements and the configuration's carriers, as the property admits them -/
structure PdsOK (env : Env) (cfg : Config) (m : Dict) (ents : List (Text × Text)) : Prop where
  /-- `ents` are the message's PDSxxxx entries (tag, value) in the encoder's (sorted) order -/
  entries : sortPds (pdsEntriesOf m) = ents.map (fun e => (e.1, Val.str e.2))
  /-- distinct 4-digit tags -/
  tags : ∀ e ∈ ents, ∃ ds, e.1 = digitText ds ∧ ds.length = 4 ∧ ∀ d ∈ ds, d < 10
  nodup : (ents.map (·.1)).Nodup
  /-- values of 0..992 encodable characters -/
  values : ∀ e ∈ ents, e.2.length ≤ 992 ∧ ∃ bs, env.codec.encode e.2 = some bs
  /-- total within the capacity of the configured carriers -/
  fits : (pdsPackP ents []).length ≤ (pdsCarriers cfg).length
  /-- the carriers are elements 2..128 configured as LLLVAR text with the PDS processor -/
  carriers : ∀ c ∈ pdsCarriers cfg, c ∈ allBits ∧
    ∃ f, cfg.get c = some f ∧ f.proc = .pds ∧ f.pytype = .str ∧ f.prefixLen = 3
  carriersNodup : (pdsCarriers cfg).Nodup
  /-- every element configured with the PDS processor is one of the carriers -/
  allCarriers : ∀ b f, cfg.get b = some f → f.proc = .pds → b ∈ pdsCarriers cfg
  /-- PDS keys are not mixed with directly supplied carrier values -/
  noDirect : ∀ c ∈ pdsCarriers cfg, Dict.get m (.de c) = none

theorem tag_len {env : Env} {cfg : Config} {m : Dict} {ents : List (Text × Text)} (h : PdsOK env cfg m ents) :
    ∀ e ∈ ents, e.1.length = 4 := by
  intro e he
  obtain ⟨ds, h1, h2, _⟩ := h.tags e he
  rw [h1]; simp [digitText, h2]

theorem encode_append {env : Env} {a b : Text} {x y : Bytes} (ha : env.codec.encode a = some x)
    (hb : env.codec.encode b = some y) : env.codec.encode (a ++ b) = some (x ++ y) :=
  mapM_append_some _ a b x y ha hb

theorem entry_encodable {env : Env} (henv : EnvOK env) {cfg : Config} {m : Dict} {ents : List (Text × Text)}
    (h : PdsOK env cfg m ents) (e : Text × Text) (he : e ∈ ents) :
    ∃ bs, env.codec.encode (entryP e) = some bs := by
  obtain ⟨ds, h1, h2, h3⟩ := h.tags e he
  obtain ⟨hv, vb, hvb⟩ := h.values e he
  obtain ⟨tb, htb⟩ := encode_digits henv ds h3
  have hlen : fmtNat 3 e.2.length = digitText (toDigits 10 3 e.2.length) := by
    unfold fmtNat; rw [if_pos ⟨by decide, by omega⟩]; rfl
  obtain ⟨lb, hlb⟩ := encode_digits henv (toDigits 10 3 e.2.length) (toDigits_lt (by decide) _ _)
  refine ⟨tb ++ (lb ++ vb), ?_⟩
  unfold entryP entryOf
  rw [h1, hlen]
  exact encode_append htb (encode_append hlb hvb)

theorem chunk_encodable {env : Env} (henv : EnvOK env) {cfg : Config} {m : Dict} {ents : List (Text × Text)}
    (h : PdsOK env cfg m ents) (g : List (Text × Text)) (hg : ∀ e ∈ g, e ∈ ents) :
    ∃ bs, env.codec.encode (chunkOf g) = some bs := by
  induction g with
  | nil => exact ⟨[], rfl⟩
  | cons e es ih =>
    obtain ⟨b1, h1⟩ := entry_encodable henv h e (hg e (by simp))
    obtain ⟨b2, h2⟩ := ih (fun x hx => hg x (by simp [hx]))
    exact ⟨b1 ++ b2, by simpa [chunkOf] using encode_append h1 h2⟩

/-- what the encoder computes for the PDS keys: the chunks of the pair-level packing -/
theorem pdsToDe_eq {env : Env} (henv : EnvOK env) {cfg : Config} {m : Dict} {ents : List (Text × Text)}
    (h : PdsOK env cfg m ents) :
    pdsToDe env.classes m = .ok ((pdsPackP ents []).map chunkOf) := by
  have hmap : ∀ (l : List (Text × Text)), (∀ e ∈ l, e ∈ ents) →
      Outcome.mapO (pdsEntryFor env.classes) (l.map (fun e => (e.1, Val.str e.2))) = .ok (l.map entryP) := by
    intro l
    induction l with
    | nil => intro _; rfl
    | cons e es ih =>
      intro hl
      obtain ⟨ds, h1, h2, h3⟩ := h.tags e (hl e (by simp))
      have hint : pyInt env.classes e.1 = some (Int.ofNat (fromDigits 10 ds)) := by
        rw [h1]; exact pyInt_digits henv.sane ds h3 (by intro h0; subst h0; simp at h2)
      have hent : pdsEntry (Int.ofNat (fromDigits 10 ds)) e.2 = entryP e := by
        have hlt : fromDigits 10 ds < 10 ^ 4 := by
          have := fromDigits_lt ds h3; rwa [h2] at this
        have hf : fmtNat 4 (fromDigits 10 ds) = digitText ds := by
          unfold fmtNat
          rw [if_pos ⟨by decide, hlt⟩]
          have := toDigits_fromDigits ds h3
          rw [h2] at this
          rw [this]; rfl
        simp [pdsEntry, fmtInt, hf, entryP, entryOf, h1, List.append_assoc]
      simp only [List.map_cons, Outcome.mapO, pdsEntryFor, hint, Outcome.bind, hent,
        ih (fun x hx => hl x (by simp [hx]))]
  unfold pdsToDe
  rw [h.entries, hmap ents (fun _ he => he)]
  simp only [Outcome.bind]
  have := pdsPack_pairs ents [] (tag_len h) (by simp)
  simp only [chunkOf, List.map_nil, List.flatten_nil] at this
  rw [this]

/-- every group consists of entries of the message, and the groups partition them -/
theorem group_mem {ents : List (Text × Text)} {g : List (Text × Text)} (hg : g ∈ pdsPackP ents []) :
    ∀ e ∈ g, e ∈ ents := by
  intro e he
  have := pdsPackP_flatten ents []
  simp only [List.nil_append] at this
  rw [← this]
  exact List.mem_flatten.mpr ⟨g, hg, he⟩

end Cardutil.Iso

namespace Cardutil.Iso

open Cardutil Cardutil.Py Cardutil.Digits

theorem entryP_length {env : Env} {cfg : Config} {m : Dict} {ents : List (Text × Text)} (h : PdsOK env cfg m ents)
    (e : Text × Text) (he : e ∈ ents) : (entryP e).length = 7 + e.2.length :=
  entryOf_length e.1 e.2 (tag_len h e he) (by have := (h.values e he).1; omega)

/-- the dictionary a carrier holding the group `g` decodes to -/
def groupDict (g : List (Text × Text)) : Dict := g.foldl (fun a e => Dict.set a (.pds e.1) (.str e.2)) []

/-- a carrier element holding a packed group is a well-formed text element -/
theorem carrier_wf {env : Env} (henv : EnvOK env) {cfg : Config} {m : Dict} {ents : List (Text × Text)}
    (h : PdsOK env cfg m ents) (g : List (Text × Text)) (hg : g ∈ pdsPackP ents []) (c : Nat) (f : FieldCfg)
    (hproc : f.proc = .pds) (hty : f.pytype = .str) (hls : f.prefixLen = 3) :
    WFField env c f (.str (chunkOf g)) (.str (chunkOf g)) (groupDict g) := by
  have hmem := group_mem hg
  have hle : ∀ e ∈ ents, (entryP e).length ≤ 999 := by
    intro e he
    rw [entryP_length h e he]
    have := (h.values e he).1; omega
  obtain ⟨hlen, hne⟩ := pdsPackP_groups ents [] hle (by simp [chunkOf]) g hg
  have hgne : g ≠ [] := fun h0 => (hne h0).2
  obtain ⟨bs, hbs⟩ := chunk_encodable henv h g hmem
  have htr : transform f (chunkOf g) = chunkOf g := by simp [transform, hproc]
  have hchunk : chunkOf g ≠ [] := by
    cases g with
    | nil => exact absurd rfl hgne
    | cons e es =>
      have := entryP_ne_nil e (tag_len h e (hmem e (by simp)))
      intro h0
      simp only [chunkOf, List.map_cons, List.flatten_cons, List.append_eq_nil_iff] at h0
      exact this h0.1
  have hd : derived env c f (.str (chunkOf g)) = .ok (groupDict g) := by
    unfold derived
    rw [hproc]
    simp only
    have hflat : chunkOf g = g.flatMap (fun e => entryOf e.1 e.2) := by
      rw [List.flatMap_def]; rfl
    rw [hflat, pdsToDict_entries henv.sane g (fun e he => ⟨tag_len h e (hmem e he), by
      have := (h.values e (hmem e he)).1; omega⟩)]
    rfl
  have := WFField.text (env := env) (bit := c) (f := f) (chunkOf g) bs (groupDict g)
    (by rw [hproc]; simp) hty hbs hchunk (by intro h0; rw [hls] at h0; simp at h0)
    (by intro _; rw [hls]; omega) (by rw [htr]; exact hd)
  rw [htr] at this
  exact this

theorem groupDict_get (g : List (Text × Text)) (hnd : (g.map (·.1)).Nodup) (e : Text × Text) (he : e ∈ g) :
    Dict.get (groupDict g) (.pds e.1) = some (.str e.2) := by
  unfold groupDict
  have hfold : g.foldl (fun a e => Dict.set a (.pds e.1) (.str e.2)) [] =
      (g.map (fun e => ((Key.pds e.1, Val.str e.2) : Key × Val))).foldl (fun a e => Dict.set a e.1 e.2) [] := by
    rw [List.foldl_map]
  rw [hfold]
  apply Dict.get_foldl_set
  · rw [List.map_map]
    have hmap : ∀ l : List Text, l.Nodup → (l.map Key.pds).Nodup := by
      intro l hl
      induction l with
      | nil => simp
      | cons x xs ih =>
        simp only [List.nodup_cons, List.map_cons] at hl ⊢
        refine ⟨?_, ih hl.2⟩
        intro hx
        obtain ⟨y, hy, hxy⟩ := List.mem_map.mp hx
        injection hxy with e1
        exact hl.1 (e1 ▸ hy)
    have := hmap _ hnd
    rw [List.map_map] at this
    exact this
  · exact List.mem_map.mpr ⟨e, he, rfl⟩

/-- a key that is not one of the group's tags is absent from the group's dictionary -/
theorem groupDict_get_none (g : List (Text × Text)) (k : Key) (h : ∀ e ∈ g, Key.pds e.1 ≠ k) :
    Dict.get (groupDict g) k = none := by
  unfold groupDict
  have : ∀ (l : List (Text × Text)) (acc : Dict), (∀ e ∈ l, Key.pds e.1 ≠ k) →
      Dict.get (l.foldl (fun a e => Dict.set a (.pds e.1) (.str e.2)) acc) k = Dict.get acc k := by
    intro l
    induction l with
    | nil => intro acc _; rfl
    | cons x xs ih =>
      intro acc hx
      simp only [List.foldl_cons]
      rw [ih _ (fun y hy => hx y (by simp [hy])), Dict.get_set_other _ _ _ _ (hx x (by simp))]
  rw [this g [] h]; rfl

end Cardutil.Iso

namespace Cardutil.Iso

open Cardutil Cardutil.Py Cardutil.Digits

def NoPdsKeys (d : Dict) : Prop := ∀ kv ∈ d, ∀ t, kv.1 ≠ Key.pds t

theorem noPds_set {d : Dict} (h : NoPdsKeys d) (k : Key) (v : Val) (hk : ∀ t, k ≠ Key.pds t) : NoPdsKeys (Dict.set d k v) := by
  intro kv hkv
  rcases mem_set hkv with h1 | h1
  · subst h1; exact hk
  · exact h kv h1

theorem iccWalk_nopds (fuel : Nat) (b : Bytes) (acc d : Dict) (ha : NoPdsKeys acc)
    (h : iccWalk fuel b acc = .ok d) : NoPdsKeys d := by
  induction fuel generalizing b acc with
  | zero => simp [iccWalk] at h
  | succ f ih =>
    rw [iccWalk] at h
    split at h
    · injection h with e; subst e; exact ha
    · split at h
      · injection h with e; subst e; exact ha
      · split at h
        · simp at h
        · exact ih _ _ (noPds_set ha _ _ (by intro t; simp)) h

theorem wf_sub_nopds {env : Env} (henv : EnvOK env) {bit : Nat} {f : FieldCfg} {v exp : Val} {sub : Dict}
    (hw : WFField env bit f v exp sub) (hp : f.proc ≠ .pds) : NoPdsKeys sub := by
  cases hw with
  | text t bs sub hproc hty henc hne hfix hvar hsub =>
    unfold derived at hsub
    split at hsub
    · rename_i heq; exact absurd heq hp
    · simp only at hsub
      injection hsub with e
      subst e
      intro kv hkv t'
      obtain ⟨n, hn⟩ := henv.de43keys _ _ kv hkv
      rw [hn]; simp
    · injection hsub with e; subst e; intro kv hkv; simp at hkv
  | int n => intro kv hkv; simp at hkv
  | intText t n => intro kv hkv; simp at hkv
  | dateText t d bs => intro kv hkv; simp at hkv
  | date d bs => intro kv hkv; simp at hkv
  | icc b sub hproc hty hne hfix hvar hsub =>
    unfold iccToDict at hsub
    exact iccWalk_nopds _ _ _ _ (by
      intro kv hkv t
      have : kv = (Key.iccData, Val.str (hexTextLower b)) := by simpa using hkv
      subst this; simp) hsub

theorem item_get_pds_none (it : Item) (h : NoPdsKeys it.sub) (t : Text) : Dict.get it.dict (.pds t) = none := by
  apply get_none_of_not_mem
  intro hm
  obtain ⟨kv, hkv, hk⟩ := List.mem_map.mp hm
  rcases item_mem_cases it kv hkv with h1 | h1
  · subst h1; simp at hk
  · exact h kv h1 t hk

/-- a key held by exactly one element reads back that element's value -/
theorem applyItems_get_unique (acc : Dict) (items : List Item) (hnd : (items.map (·.bit)).Nodup)
    (k : Key) (v : Val) (it : Item) (hit : it ∈ items) (hv : Dict.get it.dict k = some v)
    (hothers : ∀ o ∈ items, o.bit ≠ it.bit → Dict.get o.dict k = none) :
    Dict.get (applyItems acc items) k = some v := by
  induction items generalizing acc with
  | nil => simp at hit
  | cons x rest ih =>
    simp only [List.map_cons, List.nodup_cons] at hnd
    rw [applyItems_cons]
    rcases List.mem_cons.mp hit with h1 | h1
    · subst h1
      rw [applyItems_get_untouched _ rest _ (by
        intro y hy
        apply hothers y (by simp [hy])
        intro e
        exact hnd.1 (e ▸ List.mem_map.mpr ⟨y, hy, rfl⟩)),
        get_update_nodup _ _ (item_dict_nodup it), hv]
      simp
    · exact ih _ hnd.2 h1 (fun o ho hne => hothers o (by simp [ho]) hne)

/-- the sub-dictionary of an element whose value is a text: it is what `derived` returned -/
theorem wf_text_sub {env : Env} {bit : Nat} {f : FieldCfg} {t : Text} {exp : Val} {sub : Dict}
    (hw : WFField env bit f (.str t) exp sub) (hpds : f.proc = .pds) :
    exp = .str (transform f t) ∧ derived env bit f (.str (transform f t)) = .ok sub := by
  cases hw with
  | text t bs sub hproc hty henc hne hfix hvar hsub => exact ⟨rfl, hsub⟩
  | intText t n hproc => rw [hproc] at hpds; simp at hpds
  | dateText t d bs hproc => rw [hproc] at hpds; simp at hpds

end Cardutil.Iso

namespace Cardutil.Iso

open Cardutil Cardutil.Py Cardutil.Digits

theorem get_some_of_mem_keys {d : Dict} {k : Key} (h : k ∈ keys d) : ∃ v, Dict.get d k = some v := by
  induction d with
  | nil => simp [keys] at h
  | cons kv rest ih =>
    rw [Dict.get_cons]
    by_cases he : kv.1 = k
    · exact ⟨kv.2, by simp [he]⟩
    · simp only [keys, List.map_cons, List.mem_cons] at h
      rcases h with h1 | h1
      · exact absurd h1.symm he
      · rw [if_neg he]; exact ih h1

theorem item_get_none (it : Item) (k : Key) (hk : k ≠ .de it.bit) (hsub : Dict.get it.sub k = none) :
    Dict.get it.dict k = none := by
  apply get_none_of_not_mem
  intro hm
  obtain ⟨kv, hkv, hkk⟩ := List.mem_map.mp hm
  rcases item_mem_cases it kv hkv with h1 | h1
  · subst h1; exact hk hkk.symm
  · obtain ⟨v, hv⟩ := get_some_of_mem_keys (List.mem_map.mpr ⟨kv, h1, hkk⟩ : k ∈ keys it.sub)
    rw [hsub] at hv; simp at hv

theorem item_get_sub (it : Item) (k : Key) (v : Val) (hk : k ≠ .de it.bit) (hnd : (keys it.sub).Nodup)
    (hsub : Dict.get it.sub k = some v) : Dict.get it.dict k = some v := by
  unfold Item.dict
  rw [get_update_nodup _ _ hnd, hsub]; rfl

theorem groupDict_nodup (g : List (Text × Text)) : (keys (groupDict g)).Nodup := by
  unfold groupDict
  have : g.foldl (fun a e => Dict.set a (.pds e.1) (.str e.2)) [] =
      Dict.update [] (g.map (fun e => ((Key.pds e.1, Val.str e.2) : Key × Val))) := by
    rw [Dict.update_eq_foldl, List.foldl_map]
  rw [this]
  exact nodup_update (by simp [keys]) _

/-- the derived entries of a carrier that holds a packed group -/
theorem carrier_derived {env : Env} (henv : EnvOK env) {cfg : Config} {m : Dict} {ents : List (Text × Text)}
    (h : PdsOK env cfg m ents) (g : List (Text × Text)) (hg : g ∈ pdsPackP ents []) (c : Nat) (f : FieldCfg)
    (hproc : f.proc = .pds) :
    transform f (chunkOf g) = chunkOf g ∧ derived env c f (.str (chunkOf g)) = .ok (groupDict g) := by
  have hmem := group_mem hg
  refine ⟨by simp [transform, hproc], ?_⟩
  unfold derived
  rw [hproc]
  simp only
  have hflat : chunkOf g = g.flatMap (fun e => entryOf e.1 e.2) := by
    rw [List.flatMap_def]; rfl
  rw [hflat, pdsToDict_entries henv.sane g (fun e he => ⟨tag_len h e (hmem e he), by
    have := (h.values e (hmem e he)).1; omega⟩)]
  rfl

/-- tags of the groups: pairwise different inside a group and across groups -/
theorem groups_tags {ents : List (Text × Text)} (hnd : (ents.map (·.1)).Nodup) :
    (∀ g ∈ pdsPackP ents [], (g.map (·.1)).Nodup) ∧
    ∀ i j (hi : i < (pdsPackP ents []).length) (hj : j < (pdsPackP ents []).length), i ≠ j →
      ∀ e ∈ (pdsPackP ents [])[i], ∀ e' ∈ (pdsPackP ents [])[j], e.1 ≠ e'.1 := by
  have hflat : ((pdsPackP ents []).map (List.map (·.1))).flatten = ents.map (·.1) := by
    rw [← List.map_flatten, pdsPackP_flatten]; simp
  rw [← hflat] at hnd
  unfold List.Nodup at hnd
  rw [List.pairwise_flatten] at hnd
  obtain ⟨h1, h2⟩ := hnd
  refine ⟨fun g hg => h1 _ (List.mem_map.mpr ⟨g, hg, rfl⟩), ?_⟩
  intro i j hi hj hij e he e' he'
  rw [List.pairwise_iff_getElem] at h2
  have hi' : i < ((pdsPackP ents []).map (List.map (·.1))).length := by simpa using hi
  have hj' : j < ((pdsPackP ents []).map (List.map (·.1))).length := by simpa using hj
  rcases Nat.lt_or_gt_of_ne hij with hlt | hgt
  · have := h2 i j hi' hj' hlt e.1 (by simp; exact ⟨e.2, he⟩) e'.1 (by simp; exact ⟨e'.2, he'⟩)
    exact this
  · have := h2 j i hj' hi' hgt e'.1 (by simp; exact ⟨e'.2, he'⟩) e.1 (by simp; exact ⟨e.2, he⟩)
    exact fun h => this h.symm

end Cardutil.Iso

namespace Cardutil.Iso

open Cardutil Cardutil.Py Cardutil.Digits

theorem wf_text_ne {env : Env} {bit : Nat} {f : FieldCfg} {t : Text} {exp : Val} {sub : Dict}
    (hw : WFField env bit f (.str t) exp sub) : t ≠ [] := by
  cases hw with
  | text t bs sub hproc hty henc hne hfix hvar hsub => exact hne
  | intText t n hproc hty hfix hw hne => exact hne
  | dateText t d bs hproc hty hfix hne => exact hne

theorem nodup_getElem_inj {l : List Nat} (h : l.Nodup) (i j : Nat) (hi : i < l.length) (hj : j < l.length)
    (heq : l[i] = l[j]) : i = j := by
  unfold List.Nodup at h
  rw [List.pairwise_iff_getElem] at h
  rcases Nat.lt_trichotomy i j with hlt | he | hgt
  · exact absurd heq (h i j hi hj hlt)
  · exact he
  · exact absurd heq.symm (h j i hj hi hgt)

/-- round trip of a message that supplies PDSxxxx keys -/
theorem pds_roundtrip {env : Env} (henv : EnvOK env) (cfg : Config) (hexBitmap : Bool) (m : Dict)
    (ents : List (Text × Text)) (hp : PdsOK env cfg m ents)
    (ds : List Nat) (hds : ∀ d ∈ ds, d < 10) (hl : ds.length = 4)
    (hmti : Dict.get m .mti = some (.str (digitText ds)))
    (hwf : ElemsWF env cfg m allBits) :
    ∃ bs d, encode env cfg hexBitmap m = .ok bs ∧ decode env cfg hexBitmap bs = .ok d ∧
      Dict.get d .mti = some (.str (digitText ds)) ∧
      (∀ bit ∈ allBits, ∀ v, Dict.get m (.de bit) = some v → present v = true →
        ∃ f exp sub, cfg.get bit = some f ∧ WFField env bit f v exp sub ∧ Dict.get d (.de bit) = some exp) ∧
      (∀ e ∈ ents, Dict.get d (.pds e.1) = some (.str e.2)) := by
  have hde := pdsToDe_eq henv hp
  have hfits : ((pdsPackP ents []).map chunkOf).length ≤ (pdsCarriers cfg).length := by simpa using hp.fits
  obtain ⟨m', hm', hget, hother⟩ :=
    assignCarriers_spec (pdsCarriers cfg) ((pdsPackP ents []).map chunkOf) m hfits hp.carriersNodup
  have hlenmap : ((pdsPackP ents []).map chunkOf).length = (pdsPackP ents []).length := by simp
  -- F1: the i-th carrier holds the i-th chunk
  have F1 : ∀ i (hi : i < (pdsPackP ents []).length),
      Dict.get m' (.de ((pdsCarriers cfg)[i]'(by omega))) = some (.str (chunkOf (pdsPackP ents [])[i])) := by
    intro i hi
    have := hget i (by omega)
    simpa using this
  -- F2: every other key is untouched
  have F2 : ∀ k, (∀ i (hi : i < (pdsPackP ents []).length), k ≠ .de ((pdsCarriers cfg)[i]'(by omega))) →
      Dict.get m' k = Dict.get m k := by
    intro k hk
    exact hother k (fun i hi => hk i (by omega))
  -- a carrier index is determined by its bit
  have hidx : ∀ i j (hi : i < (pdsCarriers cfg).length) (hj : j < (pdsCarriers cfg).length),
      (pdsCarriers cfg)[i] = (pdsCarriers cfg)[j] → i = j := by
    intro i j hi hj h
    exact nodup_getElem_inj hp.carriersNodup i j hi hj h
  have hwf' : ElemsWF env cfg m' allBits := by
    intro bit hb v hv hpv
    by_cases hc : ∃ i, ∃ hi : i < (pdsPackP ents []).length, bit = (pdsCarriers cfg)[i]'(by omega)
    · obtain ⟨i, hi, rfl⟩ := hc
      rw [F1 i hi] at hv
      injection hv with e
      subst e
      have hci : i < (pdsCarriers cfg).length := by omega
      obtain ⟨_, f, hf, hproc, hty, hls⟩ := hp.carriers _ (List.getElem_mem hci)
      exact ⟨f, _, _, hf, carrier_wf henv hp _ (List.getElem_mem hi) _ f hproc hty hls⟩
    · rw [F2 (.de bit) (fun i hi heq => hc ⟨i, hi, by injection heq⟩)] at hv
      exact hwf bit hb v hv hpv
  have hmti' : Dict.get m' .mti = some (.str (digitText ds)) := by
    rw [F2 .mti (by intro i hi; simp)]; exact hmti
  obtain ⟨bs, items, henc, hdec, hsub, hitems, hcover⟩ := core_roundtrip henv cfg hexBitmap m' ds hds hl hmti' hwf'
  have hnd : (items.map (·.bit)).Nodup := sublist_nodup hsub range2_nodup
  have hder : ∀ it ∈ items, DerivedOnly it.sub := by
    intro it hit
    obtain ⟨v, f, _, _, _, hw⟩ := hitems it hit
    exact wf_sub_derived henv hw
  refine ⟨bs, _, ?_, hdec, ?_, ?_, ?_⟩
  · unfold encode
    rw [hde]
    simp only [Outcome.bind, hm', henc]
  · rw [applyItems_get_untouched _ items _ (fun it hit => item_get_mti it (hder it hit)), Dict.get_cons]
    simp
  · -- the data elements the caller supplied (none of them is a carrier)
    intro bit hb v hv hpv
    have hnc : ∀ i (hi : i < (pdsPackP ents []).length), (Key.de bit) ≠ .de ((pdsCarriers cfg)[i]'(by omega)) := by
      intro i hi heq
      injection heq with e
      have hci : i < (pdsCarriers cfg).length := by omega
      have := hp.noDirect _ (List.getElem_mem hci)
      rw [← e, hv] at this; simp at this
    have hv' : Dict.get m' (.de bit) = some v := by rw [F2 _ hnc]; exact hv
    have hmem := hcover bit hb v hv' hpv
    obtain ⟨it, hit, hbit⟩ := List.mem_map.mp hmem
    obtain ⟨v2, f, hv2, _, hcfg, hw⟩ := hitems it hit
    rw [hbit] at hv2 hcfg hw
    rw [hv'] at hv2
    injection hv2 with e
    subst e
    refine ⟨f, it.exp, it.sub, hcfg, hw, ?_⟩
    rw [← hbit]
    exact applyItems_get_de _ items hnd hder it hit
  · -- the PDS sub-elements
    intro e he
    obtain ⟨hgnd, hdisj⟩ := groups_tags hp.nodup
    -- the group and carrier that hold `e`
    have hein : e ∈ (pdsPackP ents []).flatten := by
      rw [pdsPackP_flatten]; simpa using he
    obtain ⟨g, hg, heg⟩ := List.mem_flatten.mp hein
    obtain ⟨i, hi, hgi⟩ := List.getElem_of_mem hg
    have hci : i < (pdsCarriers cfg).length := by omega
    obtain ⟨hcall, f, hf, hproc, hty, hls⟩ := hp.carriers _ (List.getElem_mem hci)
    have hvi := F1 i hi
    have hne : (chunkOf (pdsPackP ents [])[i]) ≠ [] :=
      wf_text_ne (carrier_wf henv hp _ (List.getElem_mem hi) ((pdsCarriers cfg)[i]) f hproc hty hls)
    have hpres : present (Val.str (chunkOf (pdsPackP ents [])[i])) = true := by
      cases hh : chunkOf (pdsPackP ents [])[i] with
      | nil => exact absurd hh hne
      | cons _ _ => simp [present]
    have hmem := hcover _ hcall _ hvi hpres
    obtain ⟨it, hit, hbit⟩ := List.mem_map.mp hmem
    obtain ⟨v2, f2, hv2, _, hcfg2, hw2⟩ := hitems it hit
    rw [hbit] at hv2 hcfg2 hw2
    rw [hvi] at hv2
    injection hv2 with ev
    subst ev
    rw [hf] at hcfg2
    injection hcfg2 with ef
    subst ef
    obtain ⟨_, hsub2⟩ := wf_text_sub hw2 hproc
    obtain ⟨htr, hd⟩ := carrier_derived henv hp _ (List.getElem_mem hi) ((pdsCarriers cfg)[i]) f hproc
    rw [htr, hd] at hsub2
    injection hsub2 with esub
    have hitget : Dict.get it.dict (.pds e.1) = some (.str e.2) := by
      apply item_get_sub it _ _ (by simp)
      · rw [← esub]; exact groupDict_nodup _
      · rw [← esub]
        exact groupDict_get _ (hgnd _ (List.getElem_mem hi)) e (by rw [hgi]; exact heg)
    apply applyItems_get_unique _ items hnd _ _ it hit hitget
    intro o ho hob
    obtain ⟨vo, fo, hvo, _, hcfgo, hwo⟩ := hitems o ho
    by_cases hpo : fo.proc = .pds
    · -- another carrier: it holds another group, whose tags are different
      have hoc := hp.allCarriers _ _ hcfgo hpo
      obtain ⟨j, hj, hcj⟩ := List.getElem_of_mem hoc
      by_cases hjl : j < (pdsPackP ents []).length
      · have hvj := F1 j hjl
        rw [hcj] at hvj
        rw [hvo] at hvj
        injection hvj with evj
        subst evj
        obtain ⟨_, hsubo⟩ := wf_text_sub hwo hpo
        obtain ⟨htro, hdo⟩ := carrier_derived henv hp _ (List.getElem_mem hjl) o.bit fo hpo
        rw [htro, hdo] at hsubo
        injection hsubo with esubo
        have hij : i ≠ j := by
          intro hij
          subst hij
          exact hob (by rw [← hcj, ← hbit])
        apply item_get_none o _ (by simp)
        rw [← esubo]
        apply groupDict_get_none
        intro e' he' heq
        injection heq with et
        exact hdisj i j hi hjl hij e (by rw [hgi]; exact heg) e' he' et.symm
      · -- a carrier beyond the packed ones: not in the message at all
        have : Dict.get m' (.de o.bit) = Dict.get m (.de o.bit) := by
          apply F2
          intro i' hi' heq
          injection heq with eb
          rw [← hcj] at eb
          have := hidx j i' hj (by omega) eb
          omega
        rw [this, hp.noDirect _ hoc] at hvo
        simp at hvo
    · exact item_get_pds_none o (wf_sub_nopds henv hwo hpo) _

end Cardutil.Iso
