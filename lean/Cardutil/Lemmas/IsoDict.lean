import Cardutil.Lemmas.IsoMsg
/-
  Reading the decoded dictionary: which key maps to what after the per-element accumulation.
-/
namespace Cardutil.Iso

open Cardutil Cardutil.Py

def keys (d : Dict) : List Key := d.map (·.1)

theorem get_none_of_not_mem (d : Dict) (k : Key) (h : k ∉ keys d) : Dict.get d k = none := by
  induction d with
  | nil => rfl
  | cons kv rest ih =>
    simp only [keys, List.map_cons, List.mem_cons, not_or] at h
    rw [Dict.get_cons, if_neg (fun e => h.1 e.symm)]
    exact ih h.2

theorem mem_keys_of_get {d : Dict} {k : Key} {v : Val} (h : Dict.get d k = some v) : k ∈ keys d := by
  by_cases hm : k ∈ keys d
  · exact hm
  · rw [get_none_of_not_mem d k hm] at h; simp at h

theorem mem_set {d : Dict} {k : Key} {v : Val} {x : Key × Val} (h : x ∈ Dict.set d k v) : x = (k, v) ∨ x ∈ d := by
  induction d with
  | nil => simp [Dict.set] at h; exact Or.inl h
  | cons kv rest ih =>
    simp only [Dict.set] at h
    split at h
    · rcases List.mem_cons.mp h with h1 | h1
      · exact Or.inl h1
      · exact Or.inr (List.mem_cons_of_mem _ h1)
    · rcases List.mem_cons.mp h with h1 | h1
      · exact Or.inr (by simp [h1])
      · rcases ih h1 with h2 | h2
        · exact Or.inl h2
        · exact Or.inr (List.mem_cons_of_mem _ h2)

theorem keys_set (d : Dict) (k : Key) (v : Val) :
    keys (Dict.set d k v) = if k ∈ keys d then keys d else keys d ++ [k] := by
  induction d with
  | nil => simp [Dict.set, keys]
  | cons kv rest ih =>
    obtain ⟨k', v'⟩ := kv
    simp only [Dict.set]
    by_cases h : k' = k
    · subst h; simp [keys]
    · have hb : (k' == k) = false := by simpa using h
      simp only [hb, Bool.false_eq_true, if_false]
      simp only [keys, List.map_cons, List.mem_cons] at ih ⊢
      rw [ih]
      have hk : ¬ k = k' := fun e => h e.symm
      by_cases hm : k ∈ List.map (·.1) rest
      · simp [hm]
      · simp [hm, hk]

theorem nodup_set {d : Dict} (h : (keys d).Nodup) (k : Key) (v : Val) : (keys (Dict.set d k v)).Nodup := by
  rw [keys_set]
  split
  · exact h
  · rename_i hm
    rw [List.nodup_append]
    exact ⟨h, by simp, by intro a ha b hb; simp at hb; subst hb; intro e; subst e; exact hm ha⟩

theorem nodup_update {d : Dict} (h : (keys d).Nodup) (e : Dict) : (keys (Dict.update d e)).Nodup := by
  unfold Dict.update
  induction e generalizing d with
  | nil => exact h
  | cons kv es ih => simp only [List.foldl_cons]; exact ih (nodup_set h _ _)

/-- `d.update(e)`: entries of `e` win, everything else is kept -/
theorem get_update_nodup (acc e : Dict) (he : (keys e).Nodup) (k : Key) :
    Dict.get (Dict.update acc e) k = (Dict.get e k).or (Dict.get acc k) := by
  unfold Dict.update
  induction e generalizing acc with
  | nil => simp [Dict.get_nil]
  | cons kv es ih =>
    obtain ⟨k1, v1⟩ := kv
    simp only [keys, List.map_cons, List.nodup_cons] at he
    simp only [List.foldl_cons]
    rw [ih _ he.2, Dict.get_cons]
    by_cases h : k1 = k
    · subst h
      rw [get_none_of_not_mem es k1 he.1, Dict.get_set_same]
      simp
    · rw [if_neg h, Dict.get_set_other _ _ _ _ h]

/-! ### derived keys -/

def DerivedOnly (d : Dict) : Prop := ∀ kv ∈ d, kv.1.isDerived = true

theorem derivedOnly_set {d : Dict} (h : DerivedOnly d) (k : Key) (v : Val) (hk : k.isDerived = true) :
    DerivedOnly (Dict.set d k v) := by
  intro kv hkv
  rcases mem_set hkv with h1 | h1
  · subst h1; exact hk
  · exact h kv h1

theorem pdsWalk_derived (k : IntClasses) (fuel : Nat) (t : Text) (acc d : Dict) (ha : DerivedOnly acc)
    (h : pdsWalk k fuel t acc = .ok d) : DerivedOnly d := by
  induction fuel generalizing t acc with
  | zero => simp [pdsWalk] at h
  | succ f ih =>
    rw [pdsWalk] at h
    split at h
    · injection h with e; subst e; exact ha
    · split at h
      · simp at h
      · simp at h
      · exact ih _ _ (derivedOnly_set ha _ _ rfl) h

theorem iccWalk_derived (fuel : Nat) (b : Bytes) (acc d : Dict) (ha : DerivedOnly acc)
    (h : iccWalk fuel b acc = .ok d) : DerivedOnly d := by
  induction fuel generalizing b acc with
  | zero => simp [iccWalk] at h
  | succ f ih =>
    rw [iccWalk] at h
    split at h
    · injection h with e; subst e; exact ha
    · split at h
      · injection h with e; subst e; exact ha
      · split at h
        · simp at h
        · exact ih _ _ (derivedOnly_set ha _ _ rfl) h

theorem catchAs_ok {α} {o : Outcome α} {p : ExcKind → Bool} {a : α} (h : o.catchAs p = .ok a) : o = .ok a := by
  cases o with
  | ok x => simpa [Outcome.catchAs] using h
  | dataError => simp [Outcome.catchAs] at h
  | escape k => simp only [Outcome.catchAs] at h; split at h <;> simp at h
  | diverge => simp [Outcome.catchAs] at h

theorem wf_sub_derived {env : Env} (henv : EnvOK env) {bit : Nat} {f : FieldCfg} {v exp : Val} {sub : Dict}
    (hw : WFField env bit f v exp sub) : DerivedOnly sub := by
  cases hw with
  | text t bs sub hproc hty henc hne hfix hvar hsub =>
    unfold derived at hsub
    split at hsub
    · -- PDS
      simp only at hsub
      have := catchAs_ok hsub
      unfold pdsToDict at this
      exact pdsWalk_derived _ _ _ _ _ (by intro kv hkv; simp at hkv) this
    · simp only at hsub
      injection hsub with e
      subst e
      intro kv hkv
      obtain ⟨n, hn⟩ := henv.de43keys _ _ kv hkv
      rw [hn]; rfl
    · injection hsub with e; subst e; intro kv hkv; simp at hkv
  | int n => intro kv hkv; simp at hkv
  | intText t n => intro kv hkv; simp at hkv
  | dateText t d bs => intro kv hkv; simp at hkv
  | date d bs => intro kv hkv; simp at hkv
  | icc b sub hproc hty hne hfix hvar hsub =>
    unfold iccToDict at hsub
    exact iccWalk_derived _ _ _ _ (by
      intro kv hkv
      have : kv = (Key.iccData, Val.str (hexTextLower b)) := by simpa using hkv
      subst this; rfl) hsub

end Cardutil.Iso

namespace Cardutil.Iso

open Cardutil Cardutil.Py

theorem derived_ne_de {k : Key} (h : k.isDerived = true) (b : Nat) : k ≠ .de b := by
  intro e; subst e; simp [Key.isDerived] at h

theorem derived_ne_mti {k : Key} (h : k.isDerived = true) : k ≠ .mti := by
  intro e; subst e; simp [Key.isDerived] at h

theorem item_dict_nodup (it : Item) : (keys it.dict).Nodup := by
  unfold Item.dict
  exact nodup_update (by simp [keys]) _

/-- what one element contributes under `DE<bit>`: its (expected) value -/
theorem item_get_own (it : Item) (hs : DerivedOnly it.sub) : Dict.get it.dict (.de it.bit) = some it.exp := by
  unfold Item.dict
  rw [Dict.update_eq_foldl, Dict.get_foldl_set_other _ _ _ (fun e he => derived_ne_de (hs e he) _), Dict.get_cons]
  simp

theorem item_mem_cases (it : Item) (kv : Key × Val) (h : kv ∈ it.dict) : kv = (.de it.bit, it.exp) ∨ kv ∈ it.sub := by
  unfold Item.dict Dict.update at h
  have key : ∀ (e acc : Dict), kv ∈ e.foldl (fun a x => Dict.set a x.1 x.2) acc → kv ∈ acc ∨ kv ∈ e := by
    intro e
    induction e with
    | nil => intro acc h; exact Or.inl h
    | cons x xs ih =>
      intro acc h
      simp only [List.foldl_cons] at h
      rcases ih _ h with h1 | h1
      · rcases mem_set h1 with h2 | h2
        · exact Or.inr (by simp [h2])
        · exact Or.inl h2
      · exact Or.inr (List.mem_cons_of_mem _ h1)
  rcases key _ _ h with h1 | h1
  · exact Or.inl (by simpa using h1)
  · exact Or.inr h1

/-- an element contributes nothing under another element's key or under MTI -/
theorem item_get_other_de (it : Item) (hs : DerivedOnly it.sub) (b : Nat) (hb : b ≠ it.bit) :
    Dict.get it.dict (.de b) = none := by
  apply get_none_of_not_mem
  intro hm
  obtain ⟨kv, hkv, hk⟩ := List.mem_map.mp hm
  rcases item_mem_cases it kv hkv with h1 | h1
  · subst h1; simp at hk; exact hb hk.symm
  · exact derived_ne_de (hs kv h1) b hk

theorem item_get_mti (it : Item) (hs : DerivedOnly it.sub) : Dict.get it.dict .mti = none := by
  apply get_none_of_not_mem
  intro hm
  obtain ⟨kv, hkv, hk⟩ := List.mem_map.mp hm
  rcases item_mem_cases it kv hkv with h1 | h1
  · subst h1; simp at hk
  · exact derived_ne_mti (hs kv h1) hk

theorem applyItems_cons (acc : Dict) (it : Item) (items : List Item) :
    applyItems acc (it :: items) = applyItems (Dict.update acc it.dict) items := rfl

/-- a key no element touches keeps the value it had -/
theorem applyItems_get_untouched (acc : Dict) (items : List Item) (k : Key)
    (h : ∀ it ∈ items, Dict.get it.dict k = none) : Dict.get (applyItems acc items) k = Dict.get acc k := by
  induction items generalizing acc with
  | nil => rfl
  | cons it rest ih =>
    rw [applyItems_cons, ih _ (fun x hx => h x (by simp [hx])), get_update_nodup _ _ (item_dict_nodup it),
      h it (by simp)]
    simp

/-- each present element reads back its own expected value -/
theorem applyItems_get_de (acc : Dict) (items : List Item) (hnd : (items.map (·.bit)).Nodup)
    (hs : ∀ it ∈ items, DerivedOnly it.sub) (it : Item) (hit : it ∈ items) :
    Dict.get (applyItems acc items) (.de it.bit) = some it.exp := by
  induction items generalizing acc with
  | nil => simp at hit
  | cons x rest ih =>
    simp only [List.map_cons, List.nodup_cons] at hnd
    rw [applyItems_cons]
    rcases List.mem_cons.mp hit with h1 | h1
    · subst h1
      rw [applyItems_get_untouched _ rest _ (by
        intro y hy
        apply item_get_other_de y (hs y (by simp [hy]))
        intro e
        exact hnd.1 (e ▸ List.mem_map.mpr ⟨y, hy, rfl⟩)),
        get_update_nodup _ _ (item_dict_nodup it), item_get_own it (hs it (by simp))]
      simp
    · exact ih _ hnd.2 (fun y hy => hs y (by simp [hy])) h1

theorem sublist_nodup {l₁ l₂ : List Nat} (h : l₁.Sublist l₂) (hn : l₂.Nodup) : l₁.Nodup := by
  induction h with
  | slnil => simp
  | cons a hs ih => exact ih (List.nodup_cons.mp hn).2
  | cons_cons a hs ih =>
    have := List.nodup_cons.mp hn
    exact List.nodup_cons.mpr ⟨fun hm => this.1 (hs.subset hm), ih this.2⟩

/-- every entry of the decoded dictionary is the MTI, a present element's own `DE<bit>` entry, or
    a derived entry — nothing else -/
theorem applyItems_mem (acc : Dict) (items : List Item) (kv : Key × Val) (h : kv ∈ applyItems acc items) :
    kv ∈ acc ∨ ∃ it ∈ items, kv.1 = .de it.bit ∨ kv ∈ it.sub ∨ (∃ v, (kv.1, v) ∈ it.sub) := by
  induction items generalizing acc with
  | nil => exact Or.inl h
  | cons it rest ih =>
    rw [applyItems_cons] at h
    rcases ih _ h with h1 | ⟨x, hx, hk⟩
    · -- entry of `acc.update(it.dict)`
      unfold Dict.update at h1
      have key : ∀ (e a : Dict), kv ∈ e.foldl (fun a x => Dict.set a x.1 x.2) a → kv ∈ a ∨ kv ∈ e := by
        intro e
        induction e with
        | nil => intro a h; exact Or.inl h
        | cons y ys ihy =>
          intro a h
          simp only [List.foldl_cons] at h
          rcases ihy _ h with h2 | h2
          · rcases mem_set h2 with h3 | h3
            · exact Or.inr (by simp [h3])
            · exact Or.inl h3
          · exact Or.inr (List.mem_cons_of_mem _ h2)
      rcases key _ _ h1 with h2 | h2
      · exact Or.inl h2
      · rcases item_mem_cases it kv h2 with h3 | h3
        · exact Or.inr ⟨it, by simp, Or.inl (by rw [h3])⟩
        · exact Or.inr ⟨it, by simp, Or.inr (Or.inl h3)⟩
    · exact Or.inr ⟨x, by simp [hx], hk⟩

end Cardutil.Iso
