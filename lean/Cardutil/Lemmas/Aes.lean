import Cardutil.Model.Aes
/-
  AES: decryption inverts encryption.  Byte-level facts (S-box inverse, closure, linearity of `xtime` over XOR, the
  sixteen entries of InvMixColumns x MixColumns) are decided by kernel evaluation over all 256 (65 536 for linearity)
  cases; the rest is structure: every step of a round has its inverse on 16-byte states, and the inverse cipher
  unwinds the rounds in reverse order, for ANY list of round keys.
-/
namespace Cardutil.Aes

theorem all_range {p : Nat → Bool} {n : Nat} (h : (List.range n).all p = true) (b : Nat) (hb : b < n) : p b = true :=
  List.all_eq_true.mp h b (List.mem_range.mpr hb)

theorem xor_lt {a b : Nat} (ha : a < 256) (hb : b < 256) : a ^^^ b < 256 := Nat.xor_lt_two_pow (n := 8) ha hb

theorem sbox_inv_tbl : (List.range 256).all (fun b => invSbox.getD (sbox.getD b 0) 0 == b) = true := by decide +kernel
theorem sbox_lt_tbl : (List.range 256).all (fun b => decide (sbox.getD b 0 < 256)) = true := by decide +kernel
theorem invSbox_lt_tbl : (List.range 256).all (fun b => decide (invSbox.getD b 0 < 256)) = true := by decide +kernel
theorem xtime_lt_tbl : (List.range 256).all (fun a => decide (xtime a < 256)) = true := by decide +kernel
theorem xtime_lin_tbl :
    (List.range 256).all (fun a => (List.range 256).all (fun b => xtime (a ^^^ b) == (xtime a ^^^ xtime b))) = true := by
  decide +kernel

theorem sbox_inv (b : Nat) (hb : b < 256) : invSbox.getD (sbox.getD b 0) 0 = b := by
  simpa using all_range sbox_inv_tbl b hb
theorem sbox_lt (b : Nat) (hb : b < 256) : sbox.getD b 0 < 256 := by simpa using all_range sbox_lt_tbl b hb
theorem xtime_lt (a : Nat) (ha : a < 256) : xtime a < 256 := by simpa using all_range xtime_lt_tbl a ha
theorem xtime_lin (a b : Nat) (ha : a < 256) (hb : b < 256) : xtime (a ^^^ b) = xtime a ^^^ xtime b := by
  have := all_range (all_range xtime_lin_tbl a ha) b hb
  simpa using this

theorem x2_lin (a b : Nat) (ha : a < 256) (hb : b < 256) :
    xtime (xtime (a ^^^ b)) = xtime (xtime a) ^^^ xtime (xtime b) := by
  rw [xtime_lin a b ha hb, xtime_lin _ _ (xtime_lt a ha) (xtime_lt b hb)]
theorem x3_lin (a b : Nat) (ha : a < 256) (hb : b < 256) :
    xtime (xtime (xtime (a ^^^ b))) = xtime (xtime (xtime a)) ^^^ xtime (xtime (xtime b)) := by
  rw [x2_lin a b ha hb, xtime_lin _ _ (xtime_lt _ (xtime_lt a ha)) (xtime_lt _ (xtime_lt b hb))]

theorem g2_lin (a b : Nat) (ha : a < 256) (hb : b < 256) : g2 (a ^^^ b) = g2 a ^^^ g2 b := xtime_lin a b ha hb
theorem g3_lin (a b : Nat) (ha : a < 256) (hb : b < 256) : g3 (a ^^^ b) = g3 a ^^^ g3 b := by
  unfold g3; rw [xtime_lin a b ha hb]; ac_rfl
theorem g9_lin (a b : Nat) (ha : a < 256) (hb : b < 256) : g9 (a ^^^ b) = g9 a ^^^ g9 b := by
  unfold g9; rw [x3_lin a b ha hb]; ac_rfl
theorem g11_lin (a b : Nat) (ha : a < 256) (hb : b < 256) : g11 (a ^^^ b) = g11 a ^^^ g11 b := by
  unfold g11; rw [x3_lin a b ha hb, xtime_lin a b ha hb]; ac_rfl
theorem g13_lin (a b : Nat) (ha : a < 256) (hb : b < 256) : g13 (a ^^^ b) = g13 a ^^^ g13 b := by
  unfold g13; rw [x3_lin a b ha hb, x2_lin a b ha hb]; ac_rfl
theorem g14_lin (a b : Nat) (ha : a < 256) (hb : b < 256) : g14 (a ^^^ b) = g14 a ^^^ g14 b := by
  unfold g14; rw [x3_lin a b ha hb, x2_lin a b ha hb, xtime_lin a b ha hb]; ac_rfl

theorem g2_lt (a : Nat) (ha : a < 256) : g2 a < 256 := xtime_lt a ha
theorem g3_lt (a : Nat) (ha : a < 256) : g3 a < 256 := xor_lt (xtime_lt a ha) ha
theorem g9_lt (a : Nat) (ha : a < 256) : g9 a < 256 := xor_lt (xtime_lt _ (xtime_lt _ (xtime_lt a ha))) ha
theorem g11_lt (a : Nat) (ha : a < 256) : g11 a < 256 :=
  xor_lt (xor_lt (xtime_lt _ (xtime_lt _ (xtime_lt a ha))) (xtime_lt a ha)) ha
theorem g13_lt (a : Nat) (ha : a < 256) : g13 a < 256 :=
  xor_lt (xor_lt (xtime_lt _ (xtime_lt _ (xtime_lt a ha))) (xtime_lt _ (xtime_lt a ha))) ha
theorem g14_lt (a : Nat) (ha : a < 256) : g14 a < 256 :=
  xor_lt (xor_lt (xtime_lt _ (xtime_lt _ (xtime_lt a ha))) (xtime_lt _ (xtime_lt a ha))) (xtime_lt a ha)

/-- a map that distributes over XOR of bytes distributes over a four-term XOR -/
theorem lin4 (f : Nat → Nat) (hf : ∀ a b, a < 256 → b < 256 → f (a ^^^ b) = f a ^^^ f b)
    (w x y z : Nat) (hw : w < 256) (hx : x < 256) (hy : y < 256) (hz : z < 256) :
    f (w ^^^ x ^^^ y ^^^ z) = f w ^^^ f x ^^^ f y ^^^ f z := by
  rw [hf _ _ (xor_lt (xor_lt hw hx) hy) hz, hf _ _ (xor_lt hw hx) hy, hf _ _ hw hx]

theorem e00_tbl : (List.range 256).all (fun x => (g14 (g2 x) ^^^ g11 x ^^^ g13 x ^^^ g9 (g3 x)) == x) = true := by decide +kernel
theorem e00 (x : Nat) (hx : x < 256) : g14 (g2 x) ^^^ g11 x ^^^ g13 x ^^^ g9 (g3 x) = x := by simpa using all_range e00_tbl x hx
theorem e01_tbl : (List.range 256).all (fun x => (g14 (g3 x) ^^^ g11 (g2 x) ^^^ g13 x ^^^ g9 x) == 0) = true := by decide +kernel
theorem e01 (x : Nat) (hx : x < 256) : g14 (g3 x) ^^^ g11 (g2 x) ^^^ g13 x ^^^ g9 x = 0 := by simpa using all_range e01_tbl x hx
theorem e02_tbl : (List.range 256).all (fun x => (g14 x ^^^ g11 (g3 x) ^^^ g13 (g2 x) ^^^ g9 x) == 0) = true := by decide +kernel
theorem e02 (x : Nat) (hx : x < 256) : g14 x ^^^ g11 (g3 x) ^^^ g13 (g2 x) ^^^ g9 x = 0 := by simpa using all_range e02_tbl x hx
theorem e03_tbl : (List.range 256).all (fun x => (g14 x ^^^ g11 x ^^^ g13 (g3 x) ^^^ g9 (g2 x)) == 0) = true := by decide +kernel
theorem e03 (x : Nat) (hx : x < 256) : g14 x ^^^ g11 x ^^^ g13 (g3 x) ^^^ g9 (g2 x) = 0 := by simpa using all_range e03_tbl x hx
theorem e10_tbl : (List.range 256).all (fun x => (g9 (g2 x) ^^^ g14 x ^^^ g11 x ^^^ g13 (g3 x)) == 0) = true := by decide +kernel
theorem e10 (x : Nat) (hx : x < 256) : g9 (g2 x) ^^^ g14 x ^^^ g11 x ^^^ g13 (g3 x) = 0 := by simpa using all_range e10_tbl x hx
theorem e11_tbl : (List.range 256).all (fun x => (g9 (g3 x) ^^^ g14 (g2 x) ^^^ g11 x ^^^ g13 x) == x) = true := by decide +kernel
theorem e11 (x : Nat) (hx : x < 256) : g9 (g3 x) ^^^ g14 (g2 x) ^^^ g11 x ^^^ g13 x = x := by simpa using all_range e11_tbl x hx
theorem e12_tbl : (List.range 256).all (fun x => (g9 x ^^^ g14 (g3 x) ^^^ g11 (g2 x) ^^^ g13 x) == 0) = true := by decide +kernel
theorem e12 (x : Nat) (hx : x < 256) : g9 x ^^^ g14 (g3 x) ^^^ g11 (g2 x) ^^^ g13 x = 0 := by simpa using all_range e12_tbl x hx
theorem e13_tbl : (List.range 256).all (fun x => (g9 x ^^^ g14 x ^^^ g11 (g3 x) ^^^ g13 (g2 x)) == 0) = true := by decide +kernel
theorem e13 (x : Nat) (hx : x < 256) : g9 x ^^^ g14 x ^^^ g11 (g3 x) ^^^ g13 (g2 x) = 0 := by simpa using all_range e13_tbl x hx
theorem e20_tbl : (List.range 256).all (fun x => (g13 (g2 x) ^^^ g9 x ^^^ g14 x ^^^ g11 (g3 x)) == 0) = true := by decide +kernel
theorem e20 (x : Nat) (hx : x < 256) : g13 (g2 x) ^^^ g9 x ^^^ g14 x ^^^ g11 (g3 x) = 0 := by simpa using all_range e20_tbl x hx
theorem e21_tbl : (List.range 256).all (fun x => (g13 (g3 x) ^^^ g9 (g2 x) ^^^ g14 x ^^^ g11 x) == 0) = true := by decide +kernel
theorem e21 (x : Nat) (hx : x < 256) : g13 (g3 x) ^^^ g9 (g2 x) ^^^ g14 x ^^^ g11 x = 0 := by simpa using all_range e21_tbl x hx
theorem e22_tbl : (List.range 256).all (fun x => (g13 x ^^^ g9 (g3 x) ^^^ g14 (g2 x) ^^^ g11 x) == x) = true := by decide +kernel
theorem e22 (x : Nat) (hx : x < 256) : g13 x ^^^ g9 (g3 x) ^^^ g14 (g2 x) ^^^ g11 x = x := by simpa using all_range e22_tbl x hx
theorem e23_tbl : (List.range 256).all (fun x => (g13 x ^^^ g9 x ^^^ g14 (g3 x) ^^^ g11 (g2 x)) == 0) = true := by decide +kernel
theorem e23 (x : Nat) (hx : x < 256) : g13 x ^^^ g9 x ^^^ g14 (g3 x) ^^^ g11 (g2 x) = 0 := by simpa using all_range e23_tbl x hx
theorem e30_tbl : (List.range 256).all (fun x => (g11 (g2 x) ^^^ g13 x ^^^ g9 x ^^^ g14 (g3 x)) == 0) = true := by decide +kernel
theorem e30 (x : Nat) (hx : x < 256) : g11 (g2 x) ^^^ g13 x ^^^ g9 x ^^^ g14 (g3 x) = 0 := by simpa using all_range e30_tbl x hx
theorem e31_tbl : (List.range 256).all (fun x => (g11 (g3 x) ^^^ g13 (g2 x) ^^^ g9 x ^^^ g14 x) == 0) = true := by decide +kernel
theorem e31 (x : Nat) (hx : x < 256) : g11 (g3 x) ^^^ g13 (g2 x) ^^^ g9 x ^^^ g14 x = 0 := by simpa using all_range e31_tbl x hx
theorem e32_tbl : (List.range 256).all (fun x => (g11 x ^^^ g13 (g3 x) ^^^ g9 (g2 x) ^^^ g14 x) == 0) = true := by decide +kernel
theorem e32 (x : Nat) (hx : x < 256) : g11 x ^^^ g13 (g3 x) ^^^ g9 (g2 x) ^^^ g14 x = 0 := by simpa using all_range e32_tbl x hx
theorem e33_tbl : (List.range 256).all (fun x => (g11 x ^^^ g13 x ^^^ g9 (g3 x) ^^^ g14 (g2 x)) == x) = true := by decide +kernel
theorem e33 (x : Nat) (hx : x < 256) : g11 x ^^^ g13 x ^^^ g9 (g3 x) ^^^ g14 (g2 x) = x := by simpa using all_range e33_tbl x hx

/-- row 0 of InvMixColumns applied to a mixed column -/
theorem inv0 (a b c d : Nat) (ha : a < 256) (hb : b < 256) (hc : c < 256) (hd : d < 256) :
    g14 (g2 a ^^^ g3 b ^^^ c ^^^ d) ^^^ g11 (a ^^^ g2 b ^^^ g3 c ^^^ d) ^^^ g13 (a ^^^ b ^^^ g2 c ^^^ g3 d) ^^^ g9 (g3 a ^^^ b ^^^ c ^^^ g2 d) = a := by
  rw [lin4 g14 g14_lin (g2 a) (g3 b) c d (g2_lt a ha) (g3_lt b hb) hc hd]
  rw [lin4 g11 g11_lin a (g2 b) (g3 c) d ha (g2_lt b hb) (g3_lt c hc) hd]
  rw [lin4 g13 g13_lin a b (g2 c) (g3 d) ha hb (g2_lt c hc) (g3_lt d hd)]
  rw [lin4 g9 g9_lin (g3 a) b c (g2 d) (g3_lt a ha) hb hc (g2_lt d hd)]
  have h : ∀ (p0 p1 p2 p3 q0 q1 q2 q3 r0 r1 r2 r3 s0 s1 s2 s3 : Nat),
      (p0 ^^^ p1 ^^^ p2 ^^^ p3) ^^^ (q0 ^^^ q1 ^^^ q2 ^^^ q3) ^^^ (r0 ^^^ r1 ^^^ r2 ^^^ r3) ^^^ (s0 ^^^ s1 ^^^ s2 ^^^ s3) =
      (p0 ^^^ q0 ^^^ r0 ^^^ s0) ^^^ (p1 ^^^ q1 ^^^ r1 ^^^ s1) ^^^ (p2 ^^^ q2 ^^^ r2 ^^^ s2) ^^^ (p3 ^^^ q3 ^^^ r3 ^^^ s3) := by
    intros; ac_rfl
  rw [h, e00 a ha, e01 b hb, e02 c hc, e03 d hd]
  simp

/-- row 1 of InvMixColumns applied to a mixed column -/
theorem inv1 (a b c d : Nat) (ha : a < 256) (hb : b < 256) (hc : c < 256) (hd : d < 256) :
    g9 (g2 a ^^^ g3 b ^^^ c ^^^ d) ^^^ g14 (a ^^^ g2 b ^^^ g3 c ^^^ d) ^^^ g11 (a ^^^ b ^^^ g2 c ^^^ g3 d) ^^^ g13 (g3 a ^^^ b ^^^ c ^^^ g2 d) = b := by
  rw [lin4 g9 g9_lin (g2 a) (g3 b) c d (g2_lt a ha) (g3_lt b hb) hc hd]
  rw [lin4 g14 g14_lin a (g2 b) (g3 c) d ha (g2_lt b hb) (g3_lt c hc) hd]
  rw [lin4 g11 g11_lin a b (g2 c) (g3 d) ha hb (g2_lt c hc) (g3_lt d hd)]
  rw [lin4 g13 g13_lin (g3 a) b c (g2 d) (g3_lt a ha) hb hc (g2_lt d hd)]
  have h : ∀ (p0 p1 p2 p3 q0 q1 q2 q3 r0 r1 r2 r3 s0 s1 s2 s3 : Nat),
      (p0 ^^^ p1 ^^^ p2 ^^^ p3) ^^^ (q0 ^^^ q1 ^^^ q2 ^^^ q3) ^^^ (r0 ^^^ r1 ^^^ r2 ^^^ r3) ^^^ (s0 ^^^ s1 ^^^ s2 ^^^ s3) =
      (p0 ^^^ q0 ^^^ r0 ^^^ s0) ^^^ (p1 ^^^ q1 ^^^ r1 ^^^ s1) ^^^ (p2 ^^^ q2 ^^^ r2 ^^^ s2) ^^^ (p3 ^^^ q3 ^^^ r3 ^^^ s3) := by
    intros; ac_rfl
  rw [h, e10 a ha, e11 b hb, e12 c hc, e13 d hd]
  simp

/-- row 2 of InvMixColumns applied to a mixed column -/
theorem inv2 (a b c d : Nat) (ha : a < 256) (hb : b < 256) (hc : c < 256) (hd : d < 256) :
    g13 (g2 a ^^^ g3 b ^^^ c ^^^ d) ^^^ g9 (a ^^^ g2 b ^^^ g3 c ^^^ d) ^^^ g14 (a ^^^ b ^^^ g2 c ^^^ g3 d) ^^^ g11 (g3 a ^^^ b ^^^ c ^^^ g2 d) = c := by
  rw [lin4 g13 g13_lin (g2 a) (g3 b) c d (g2_lt a ha) (g3_lt b hb) hc hd]
  rw [lin4 g9 g9_lin a (g2 b) (g3 c) d ha (g2_lt b hb) (g3_lt c hc) hd]
  rw [lin4 g14 g14_lin a b (g2 c) (g3 d) ha hb (g2_lt c hc) (g3_lt d hd)]
  rw [lin4 g11 g11_lin (g3 a) b c (g2 d) (g3_lt a ha) hb hc (g2_lt d hd)]
  have h : ∀ (p0 p1 p2 p3 q0 q1 q2 q3 r0 r1 r2 r3 s0 s1 s2 s3 : Nat),
      (p0 ^^^ p1 ^^^ p2 ^^^ p3) ^^^ (q0 ^^^ q1 ^^^ q2 ^^^ q3) ^^^ (r0 ^^^ r1 ^^^ r2 ^^^ r3) ^^^ (s0 ^^^ s1 ^^^ s2 ^^^ s3) =
      (p0 ^^^ q0 ^^^ r0 ^^^ s0) ^^^ (p1 ^^^ q1 ^^^ r1 ^^^ s1) ^^^ (p2 ^^^ q2 ^^^ r2 ^^^ s2) ^^^ (p3 ^^^ q3 ^^^ r3 ^^^ s3) := by
    intros; ac_rfl
  rw [h, e20 a ha, e21 b hb, e22 c hc, e23 d hd]
  simp

/-- row 3 of InvMixColumns applied to a mixed column -/
theorem inv3 (a b c d : Nat) (ha : a < 256) (hb : b < 256) (hc : c < 256) (hd : d < 256) :
    g11 (g2 a ^^^ g3 b ^^^ c ^^^ d) ^^^ g13 (a ^^^ g2 b ^^^ g3 c ^^^ d) ^^^ g9 (a ^^^ b ^^^ g2 c ^^^ g3 d) ^^^ g14 (g3 a ^^^ b ^^^ c ^^^ g2 d) = d := by
  rw [lin4 g11 g11_lin (g2 a) (g3 b) c d (g2_lt a ha) (g3_lt b hb) hc hd]
  rw [lin4 g13 g13_lin a (g2 b) (g3 c) d ha (g2_lt b hb) (g3_lt c hc) hd]
  rw [lin4 g9 g9_lin a b (g2 c) (g3 d) ha hb (g2_lt c hc) (g3_lt d hd)]
  rw [lin4 g14 g14_lin (g3 a) b c (g2 d) (g3_lt a ha) hb hc (g2_lt d hd)]
  have h : ∀ (p0 p1 p2 p3 q0 q1 q2 q3 r0 r1 r2 r3 s0 s1 s2 s3 : Nat),
      (p0 ^^^ p1 ^^^ p2 ^^^ p3) ^^^ (q0 ^^^ q1 ^^^ q2 ^^^ q3) ^^^ (r0 ^^^ r1 ^^^ r2 ^^^ r3) ^^^ (s0 ^^^ s1 ^^^ s2 ^^^ s3) =
      (p0 ^^^ q0 ^^^ r0 ^^^ s0) ^^^ (p1 ^^^ q1 ^^^ r1 ^^^ s1) ^^^ (p2 ^^^ q2 ^^^ r2 ^^^ s2) ^^^ (p3 ^^^ q3 ^^^ r3 ^^^ s3) := by
    intros; ac_rfl
  rw [h, e30 a ha, e31 b hb, e32 c hc, e33 d hd]
  simp

/-! ### states and the inverse of every step -/

/-- sixteen bytes -/
def IsState (s : List Nat) : Prop := s.length = 16 ∧ ∀ x ∈ s, x < 256

theorem state_lit {s : List Nat} (h : s.length = 16) :
    ∃ s0 s1 s2 s3 s4 s5 s6 s7 s8 s9 s10 s11 s12 s13 s14 s15, s = [s0, s1, s2, s3, s4, s5, s6, s7, s8, s9, s10, s11, s12, s13, s14, s15] := by
  match s, h with
  | [s0, s1, s2, s3, s4, s5, s6, s7, s8, s9, s10, s11, s12, s13, s14, s15], _ => exact ⟨s0, s1, s2, s3, s4, s5, s6, s7, s8, s9, s10, s11, s12, s13, s14, s15, rfl⟩

theorem subBytes_state {s : List Nat} (h : IsState s) : IsState (subBytes s) := by
  refine ⟨by simp [subBytes, h.1], ?_⟩
  intro x hx
  simp only [subBytes, List.mem_map] at hx
  obtain ⟨b, hb, rfl⟩ := hx
  exact sbox_lt b (h.2 b hb)

theorem invSub_sub {s : List Nat} (h : IsState s) : invSubBytes (subBytes s) = s := by
  unfold invSubBytes subBytes
  rw [List.map_map]
  have : ∀ b ∈ s, ((fun b => invSbox.getD b 0) ∘ (fun b => sbox.getD b 0)) b = b := fun b hb => sbox_inv b (h.2 b hb)
  rw [List.map_congr_left this, List.map_id']

theorem shiftRows_state {s : List Nat} (h : IsState s) : IsState (shiftRows s) := by
  obtain ⟨s0, s1, s2, s3, s4, s5, s6, s7, s8, s9, s10, s11, s12, s13, s14, s15, rfl⟩ := state_lit h.1
  refine ⟨rfl, ?_⟩
  intro x hx
  simp only [shiftRows, List.mem_cons, List.mem_nil_iff, or_false] at hx
  apply h.2
  rcases hx with rfl | rfl | rfl | rfl | rfl | rfl | rfl | rfl | rfl | rfl | rfl | rfl | rfl | rfl | rfl | rfl <;> simp

theorem invShift_shift {s : List Nat} (h : s.length = 16) : invShiftRows (shiftRows s) = s := by
  obtain ⟨s0, s1, s2, s3, s4, s5, s6, s7, s8, s9, s10, s11, s12, s13, s14, s15, rfl⟩ := state_lit h
  rfl

theorem mixColumns_state {s : List Nat} (h : IsState s) : IsState (mixColumns s) := by
  obtain ⟨s0, s1, s2, s3, s4, s5, s6, s7, s8, s9, s10, s11, s12, s13, s14, s15, rfl⟩ := state_lit h.1
  have hb : ∀ x ∈ [s0, s1, s2, s3, s4, s5, s6, s7, s8, s9, s10, s11, s12, s13, s14, s15], x < 256 := h.2
  simp only [List.mem_cons, List.mem_nil_iff, or_false, forall_eq_or_imp, forall_eq] at hb
  obtain ⟨h0, h1, h2, h3, h4, h5, h6, h7, h8, h9, h10, h11, h12, h13, h14, h15⟩ := hb
  refine ⟨rfl, ?_⟩
  intro x hx
  simp only [mixColumns, mixColumn, List.cons_append, List.nil_append, List.mem_cons, List.mem_nil_iff, or_false] at hx
  rcases hx with rfl | rfl | rfl | rfl | rfl | rfl | rfl | rfl | rfl | rfl | rfl | rfl | rfl | rfl | rfl | rfl <;>
    first
      | exact xor_lt (xor_lt (xor_lt (g2_lt _ ‹_›) (g3_lt _ ‹_›)) ‹_›) ‹_›
      | exact xor_lt (xor_lt (xor_lt ‹_› (g2_lt _ ‹_›)) (g3_lt _ ‹_›)) ‹_›
      | exact xor_lt (xor_lt (xor_lt ‹_› ‹_›) (g2_lt _ ‹_›)) (g3_lt _ ‹_›)
      | exact xor_lt (xor_lt (xor_lt (g3_lt _ ‹_›) ‹_›) ‹_›) (g2_lt _ ‹_›)

theorem invMix_mix {s : List Nat} (h : IsState s) : invMixColumns (mixColumns s) = s := by
  obtain ⟨s0, s1, s2, s3, s4, s5, s6, s7, s8, s9, s10, s11, s12, s13, s14, s15, rfl⟩ := state_lit h.1
  have hb : ∀ x ∈ [s0, s1, s2, s3, s4, s5, s6, s7, s8, s9, s10, s11, s12, s13, s14, s15], x < 256 := h.2
  simp only [List.mem_cons, List.mem_nil_iff, or_false, forall_eq_or_imp, forall_eq] at hb
  obtain ⟨h0, h1, h2, h3, h4, h5, h6, h7, h8, h9, h10, h11, h12, h13, h14, h15⟩ := hb
  simp only [mixColumns, mixColumn, List.cons_append, List.nil_append, invMixColumns, invMixColumn]
  rw [inv0 s0 s1 s2 s3 h0 h1 h2 h3, inv1 s0 s1 s2 s3 h0 h1 h2 h3, inv2 s0 s1 s2 s3 h0 h1 h2 h3, inv3 s0 s1 s2 s3 h0 h1 h2 h3,
    inv0 s4 s5 s6 s7 h4 h5 h6 h7, inv1 s4 s5 s6 s7 h4 h5 h6 h7, inv2 s4 s5 s6 s7 h4 h5 h6 h7, inv3 s4 s5 s6 s7 h4 h5 h6 h7,
    inv0 s8 s9 s10 s11 h8 h9 h10 h11, inv1 s8 s9 s10 s11 h8 h9 h10 h11, inv2 s8 s9 s10 s11 h8 h9 h10 h11,
    inv3 s8 s9 s10 s11 h8 h9 h10 h11, inv0 s12 s13 s14 s15 h12 h13 h14 h15, inv1 s12 s13 s14 s15 h12 h13 h14 h15,
    inv2 s12 s13 s14 s15 h12 h13 h14 h15, inv3 s12 s13 s14 s15 h12 h13 h14 h15]

theorem addRoundKey_state {s : List Nat} (h : IsState s) (k : List Nat) : IsState (addRoundKey s k) := by
  refine ⟨by simp [addRoundKey], ?_⟩
  intro x hx
  simp only [addRoundKey, List.mem_map, List.mem_range] at hx
  obtain ⟨i, hi, rfl⟩ := hx
  have hs : s.getD i 0 < 256 := by
    rw [List.getD_eq_getElem?_getD, List.getElem?_eq_getElem (by rw [h.1]; exact hi)]
    exact h.2 _ (List.getElem_mem _)
  exact xor_lt hs (Nat.mod_lt _ (by decide))

theorem addRoundKey_cancel {s : List Nat} (h : IsState s) (k : List Nat) : addRoundKey (addRoundKey s k) k = s := by
  apply List.ext_getElem
  · simp [addRoundKey, h.1]
  · intro i h1 h2
    have hi : i < 16 := by simpa [addRoundKey] using h1
    simp only [addRoundKey, List.getElem_map, List.getElem_range]
    have : ((List.range 16).map (fun i => s.getD i 0 ^^^ (k.getD i 0 % 256))).getD i 0 = s.getD i 0 ^^^ (k.getD i 0 % 256) := by
      rw [List.getD_eq_getElem?_getD, List.getElem?_eq_getElem (by simpa using hi)]
      simp
    rw [this, Nat.xor_assoc, Nat.xor_self, Nat.xor_zero, List.getD_eq_getElem?_getD, List.getElem?_eq_getElem h2]
    rfl

/-! ### rounds, the cipher, blocks -/

theorem round_state {s : List Nat} (h : IsState s) (k : List Nat) : IsState (round k s) :=
  addRoundKey_state (mixColumns_state (shiftRows_state (subBytes_state h))) k

theorem invRound_round {s : List Nat} (h : IsState s) (k : List Nat) : invRound k (round k s) = s := by
  unfold invRound round
  rw [addRoundKey_cancel (mixColumns_state (shiftRows_state (subBytes_state h))),
    invMix_mix (shiftRows_state (subBytes_state h)), invShift_shift (subBytes_state h).1, invSub_sub h]

theorem invFinal_final {s : List Nat} (h : IsState s) (k : List Nat) : invFinalRound k (finalRound k s) = s := by
  unfold invFinalRound finalRound
  rw [addRoundKey_cancel (shiftRows_state (subBytes_state h)), invShift_shift (subBytes_state h).1, invSub_sub h]

theorem rounds_state (mids : List (List Nat)) : ∀ {s : List Nat}, IsState s → IsState (mids.foldl (fun s k => round k s) s) := by
  induction mids with
  | nil => intro s h; exact h
  | cons k ks ih => intro s h; exact ih (round_state h k)

theorem invRounds_rounds (mids : List (List Nat)) : ∀ {s : List Nat}, IsState s →
    mids.foldr (fun k s => invRound k s) (mids.foldl (fun s k => round k s) s) = s := by
  induction mids with
  | nil => intro s _; rfl
  | cons k ks ih =>
    intro s h
    simp only [List.foldl_cons, List.foldr_cons]
    rw [ih (round_state h k), invRound_round h]

/-- the inverse cipher undoes the cipher, for ANY round keys (first, middle ones, last) -/
theorem invCipher_cipher (k0 : List Nat) (mids : List (List Nat)) (kl : List Nat) {x : List Nat} (h : IsState x) :
    invCipher k0 mids kl (cipher k0 mids kl x) = x := by
  unfold invCipher cipher
  rw [invFinal_final (rounds_state mids (addRoundKey_state h k0)), invRounds_rounds mids (addRoundKey_state h k0),
    addRoundKey_cancel h]

theorem cipher_state (k0 : List Nat) (mids : List (List Nat)) (kl : List Nat) {x : List Nat} (h : IsState x) :
    IsState (cipher k0 mids kl x) :=
  addRoundKey_state (shiftRows_state (subBytes_state (rounds_state mids (addRoundKey_state h k0)))) kl

/-- one block: whenever encryption gives a block, decryption under the same key gives the plaintext back -/
theorem decryptBlock_encryptBlock (key x c : List Nat) (hx : IsState x) (h : encryptBlock key x = some c) :
    decryptBlock key c = some x ∧ IsState c := by
  unfold encryptBlock at h
  unfold decryptBlock
  cases hr : roundKeys key with
  | none => rw [hr] at h; cases h
  | some rks =>
    rw [hr] at h
    simp only [Option.bind_some] at h ⊢
    cases hs : splitKeys rks with
    | none => rw [hs] at h; cases h
    | some k =>
      rw [hs] at h
      simp only [Option.map_some] at h ⊢
      injection h with h
      subst h
      exact ⟨by rw [invCipher_cipher _ _ _ hx], cipher_state _ _ _ hx⟩

end Cardutil.Aes
