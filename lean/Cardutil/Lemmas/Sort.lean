import Cardutil.Model.Iso8583
/-
  The key order of `_pds_to_de`: `sorted(keys)` modelled as an insertion sort by `textLt`
  (code-point-wise lexicographic comparison, Python's string order).  Here: `textLt` is a strict
  total order and the sort's output is ordered by it.
-/
namespace Cardutil.Iso

theorem textLt_irrefl (a : Text) : textLt a a = false := by
  induction a with
  | nil => rfl
  | cons x xs ih => simp [textLt, ih]

theorem textLt_trans {a b c : Text} (h1 : textLt a b = true) (h2 : textLt b c = true) : textLt a c = true := by
  induction a generalizing b c with
  | nil =>
    cases b with
    | nil => simp [textLt] at h1
    | cons y ys =>
      cases c with
      | nil => simp [textLt] at h2
      | cons z zs => simp [textLt]
  | cons x xs ih =>
    cases b with
    | nil => simp [textLt] at h1
    | cons y ys =>
      cases c with
      | nil => simp [textLt] at h2
      | cons z zs =>
        simp only [textLt] at h1 h2 ⊢
        by_cases hxy : x < y
        · by_cases hyz : y < z
          · have : x < z := by omega
            simp [this]
          · by_cases hzy : z < y
            · simp [hyz, hzy] at h2
            · have : y = z := by omega
              subst this
              simp [hxy]
        · by_cases hyx : y < x
          · simp [hxy, hyx] at h1
          · have hxy' : x = y := by omega
            subst hxy'
            simp only [Nat.lt_irrefl, if_false] at h1
            by_cases hxz : x < z
            · simp [hxz]
            · by_cases hzx : z < x
              · simp [hxz, hzx] at h2
              · have : x = z := by omega
                subst this
                simp only [Nat.lt_irrefl, if_false] at h2 ⊢
                exact ih h1 h2

theorem textLt_total (a b : Text) : textLt a b = true ∨ a = b ∨ textLt b a = true := by
  induction a generalizing b with
  | nil =>
    cases b with
    | nil => exact Or.inr (Or.inl rfl)
    | cons y ys => exact Or.inl (by simp [textLt])
  | cons x xs ih =>
    cases b with
    | nil => exact Or.inr (Or.inr (by simp [textLt]))
    | cons y ys =>
      simp only [textLt]
      by_cases hxy : x < y
      · exact Or.inl (by simp [hxy])
      · by_cases hyx : y < x
        · exact Or.inr (Or.inr (by simp [hyx]))
        · have : x = y := by omega
          subst this
          simp only [Nat.lt_irrefl, if_false]
          rcases ih ys with h | h | h
          · exact Or.inl h
          · exact Or.inr (Or.inl (by rw [h]))
          · exact Or.inr (Or.inr h)

/-- non-decreasing by key -/
def SortedByKey (l : List (Text × Val)) : Prop := l.Pairwise (fun a b => textLt b.1 a.1 = false)

theorem le_of_lt {a b : Text} (h : textLt a b = true) : textLt b a = false := by
  by_cases hba : textLt b a = true
  · have := textLt_trans h hba
    rw [textLt_irrefl] at this; simp at this
  · simpa using hba

theorem le_trans {a b c : Text} (h1 : textLt b a = false) (h2 : textLt c b = false) : textLt c a = false := by
  -- a ≤ b, b ≤ c ⇒ a ≤ c
  by_cases hca : textLt c a = true
  · rcases textLt_total a b with h | h | h
    · have := textLt_trans hca h
      rw [this] at h2; simp at h2
    · subst h; rw [hca] at h2; simp at h2
    · rw [h] at h1; simp at h1
  · simpa using hca

theorem insertSorted_mem (x : Text × Val) (l : List (Text × Val)) (y : Text × Val) :
    y ∈ insertSorted x l ↔ y = x ∨ y ∈ l := by
  induction l with
  | nil => simp [insertSorted]
  | cons z zs ih =>
    simp only [insertSorted]
    split
    · simp only [List.mem_cons, ih]
      constructor
      · rintro (h | h | h)
        · exact Or.inr (Or.inl h)
        · exact Or.inl h
        · exact Or.inr (Or.inr h)
      · rintro (h | h | h)
        · exact Or.inr (Or.inl h)
        · exact Or.inl h
        · exact Or.inr (Or.inr h)
    · simp [List.mem_cons]

theorem insertSorted_sorted (x : Text × Val) (l : List (Text × Val)) (h : SortedByKey l) :
    SortedByKey (insertSorted x l) := by
  induction l with
  | nil => simp [insertSorted, SortedByKey]
  | cons z zs ih =>
    unfold SortedByKey at h
    rw [List.pairwise_cons] at h
    simp only [insertSorted]
    split
    · rename_i hzx
      unfold SortedByKey
      rw [List.pairwise_cons]
      refine ⟨?_, ih h.2⟩
      intro y hy
      rcases (insertSorted_mem x zs y).mp hy with rfl | hy'
      · exact le_of_lt hzx
      · exact h.1 y hy'
    · rename_i hzx
      have hxz : textLt z.1 x.1 = false := by simpa using hzx
      unfold SortedByKey
      rw [List.pairwise_cons, List.pairwise_cons]
      refine ⟨?_, h.1, h.2⟩
      intro y hy
      rcases List.mem_cons.mp hy with rfl | hy'
      · exact hxz
      · exact le_trans hxz (h.1 y hy')

/-- the encoder visits the PDS keys in ascending (string) order -/
theorem sortPds_sorted (l : List (Text × Val)) : SortedByKey (sortPds l) := by
  unfold sortPds
  induction l with
  | nil => simp [SortedByKey]
  | cons x xs ih => simp only [List.foldr_cons]; exact insertSorted_sorted x _ ih

/-- for 4-digit tags the string order is the numeric order of the tags -/
theorem textLt_digits (a b : List Nat) (hl : a.length = b.length) (ha : ∀ d ∈ a, d < 10) (hb : ∀ d ∈ b, d < 10) :
    textLt (a.map (48 + ·)) (b.map (48 + ·)) = true ↔
      Cardutil.Digits.fromDigits 10 a < Cardutil.Digits.fromDigits 10 b := by
  induction a generalizing b with
  | nil =>
    have : b = [] := by simpa using hl.symm
    subst this; simp [textLt, Cardutil.Digits.fromDigits]
  | cons x xs ih =>
    cases b with
    | nil => simp at hl
    | cons y ys =>
      have hl' : xs.length = ys.length := by simpa using hl
      have hx := ha x (by simp)
      have hy := hb y (by simp)
      have hvx := Cardutil.Digits.fromDigits_lt (b := 10) xs (fun d hd => ha d (by simp [hd]))
      have hvy := Cardutil.Digits.fromDigits_lt (b := 10) ys (fun d hd => hb d (by simp [hd]))
      have hfx : Cardutil.Digits.fromDigits 10 (x :: xs) = x * 10 ^ xs.length + Cardutil.Digits.fromDigits 10 xs := by
        have := Cardutil.Digits.fromDigits_lt (b := 10) [x] (by intro d hd; simp at hd; omega)
        clear this
        unfold Cardutil.Digits.fromDigits
        have key : ∀ (l : List Nat) (a : Nat), l.foldl (fun a d => 10 * a + d) a =
            a * 10 ^ l.length + l.foldl (fun a d => 10 * a + d) 0 := by
          intro l
          induction l with
          | nil => intro a; simp
          | cons z zs ihz =>
            intro a
            simp only [List.foldl_cons, List.length_cons]
            rw [ihz (10 * a + z), ihz (10 * 0 + z), Nat.pow_succ]
            simp [Nat.add_mul, Nat.mul_assoc, Nat.mul_comm, Nat.add_assoc]
        simp only [List.foldl_cons]
        rw [key xs (10 * 0 + x)]
        simp
      have hfy : Cardutil.Digits.fromDigits 10 (y :: ys) = y * 10 ^ ys.length + Cardutil.Digits.fromDigits 10 ys := by
        unfold Cardutil.Digits.fromDigits
        have key : ∀ (l : List Nat) (a : Nat), l.foldl (fun a d => 10 * a + d) a =
            a * 10 ^ l.length + l.foldl (fun a d => 10 * a + d) 0 := by
          intro l
          induction l with
          | nil => intro a; simp
          | cons z zs ihz =>
            intro a
            simp only [List.foldl_cons, List.length_cons]
            rw [ihz (10 * a + z), ihz (10 * 0 + z), Nat.pow_succ]
            simp [Nat.add_mul, Nat.mul_assoc, Nat.mul_comm, Nat.add_assoc]
        simp only [List.foldl_cons]
        rw [key ys (10 * 0 + y)]
        simp
      rw [hfx, hfy, hl']
      simp only [List.map_cons, textLt]
      have hih := ih ys hl' (fun d hd => ha d (by simp [hd])) (fun d hd => hb d (by simp [hd]))
      rw [hl'] at hvx
      by_cases hxy : x < y
      · have h1 : 48 + x < 48 + y := by omega
        simp only [h1, if_true, true_iff]
        have : (x + 1) * 10 ^ ys.length ≤ y * 10 ^ ys.length := Nat.mul_le_mul_right _ (by omega)
        rw [Nat.add_mul] at this
        omega
      · by_cases hyx : y < x
        · have h1 : ¬ 48 + x < 48 + y := by omega
          have h2 : 48 + y < 48 + x := by omega
          simp only [h1, if_false, h2, if_true, Bool.false_eq_true, false_iff]
          have : (y + 1) * 10 ^ ys.length ≤ x * 10 ^ ys.length := Nat.mul_le_mul_right _ (by omega)
          rw [Nat.add_mul] at this
          omega
        · have : x = y := by omega
          subst this
          simp only [Nat.lt_irrefl, if_false, hih]
          omega

end Cardutil.Iso
