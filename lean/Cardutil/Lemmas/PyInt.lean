import Cardutil.Py.Int
/-
  `int()` on the canonical zero-padded decimal text that `format(n, '0{w}d')` produces.
-/
namespace Cardutil.Py

open Cardutil.Digits

/-- what the proofs need from the measured character classes: ASCII digits are digits with their
    value and are not stripped as whitespace (checked by `decide` on the generated table) -/
structure IntClasses.Sane (k : IntClasses) : Prop where
  digit : ∀ d, d < 10 → k.digit (48 + d) = some d
  notSpace : ∀ d, d < 10 → k.isSpace (48 + d) = false

def digitText (ds : List Nat) : Text := ds.map (48 + ·)

theorem intBody_digits {k : IntClasses} (hk : k.Sane) (ds : List Nat) (h : ∀ d ∈ ds, d < 10) (acc : Nat) (prev : Bool)
    (hne : ds ≠ [] ∨ prev = true) :
    intBody k (digitText ds) acc prev = some (acc * 10 ^ ds.length + fromDigits 10 ds) := by
  induction ds generalizing acc prev with
  | nil =>
    rcases hne with h0 | h0
    · exact absurd rfl h0
    · simp [digitText, intBody, h0, fromDigits]
  | cons d ds ih =>
    have hd := h d (by simp)
    simp only [digitText, List.map_cons, intBody, hk.digit d hd]
    have := ih (fun x hx => h x (by simp [hx])) (10 * acc + d) true (Or.inr rfl)
    simp only [digitText] at this
    rw [this]
    congr 1
    have hf : fromDigits 10 (d :: ds) = d * 10 ^ ds.length + fromDigits 10 ds := by
      unfold fromDigits
      have : ∀ (l : List Nat) (a : Nat), l.foldl (fun a d => 10 * a + d) a = a * 10 ^ l.length + l.foldl (fun a d => 10 * a + d) 0 := by
        intro l
        induction l with
        | nil => intro a; simp
        | cons x xs ihx =>
          intro a
          simp only [List.foldl_cons, List.length_cons]
          rw [ihx (10 * a + x), ihx (10 * 0 + x), Nat.pow_succ]
          simp [Nat.add_mul, Nat.mul_assoc, Nat.mul_comm, Nat.add_assoc]
      simp only [List.foldl_cons]
      rw [this ds (10 * 0 + d)]
      simp
    rw [hf, List.length_cons, Nat.pow_succ]
    simp [Nat.add_mul, Nat.mul_assoc, Nat.mul_comm, Nat.add_assoc]

theorem dropWhile_head_false {α} (p : α → Bool) (x : α) (xs : List α) (h : p x = false) :
    (x :: xs).dropWhile p = x :: xs := by
  simp [List.dropWhile, h]

/-- `int()` of a non-empty all-digit text is the value of the digits -/
theorem pyInt_digits {k : IntClasses} (hk : k.Sane) (ds : List Nat) (h : ∀ d ∈ ds, d < 10) (hne : ds ≠ []) :
    pyInt k (digitText ds) = some (Int.ofNat (fromDigits 10 ds)) := by
  have hns : ∀ c ∈ digitText ds, k.isSpace c = false := by
    intro c hc
    obtain ⟨d, hd, rfl⟩ := List.mem_map.mp hc
    exact hk.notSpace d (h d hd)
  have hstrip : dropWhileEnd k.isSpace ((digitText ds).dropWhile k.isSpace) = digitText ds := by
    have h1 : (digitText ds).dropWhile k.isSpace = digitText ds := by
      cases hds : digitText ds with
      | nil => rfl
      | cons c cs => exact dropWhile_head_false _ _ _ (hns c (by simp [hds]))
    rw [h1]
    unfold dropWhileEnd
    have h2 : (digitText ds).reverse.dropWhile k.isSpace = (digitText ds).reverse := by
      cases hr : (digitText ds).reverse with
      | nil => rfl
      | cons c cs =>
        apply dropWhile_head_false
        apply hns
        have : c ∈ (digitText ds).reverse := by simp [hr]
        simpa using this
    rw [h2, List.reverse_reverse]
  unfold pyInt
  simp only [hstrip]
  cases ds with
  | nil => exact absurd rfl hne
  | cons d rest =>
    have hd := h d (by simp)
    have hbody := intBody_digits hk (d :: rest) h 0 false (Or.inl (by simp))
    simp only [digitText, List.map_cons] at hbody ⊢
    have h43 : 48 + d ≠ 43 := by omega
    have h45 : 48 + d ≠ 45 := by omega
    split
    · rename_i heq; simp at heq
    · rename_i heq; simp only [List.cons.injEq] at heq; omega
    · rename_i heq; simp only [List.cons.injEq] at heq; omega
    · rw [hbody]; simp

/-- the length prefix round trip: `int(format(n, '0{w}d')) = n` for `n < 10^w`, `w ≥ 1` -/
theorem pyInt_fmtNat {k : IntClasses} (hk : k.Sane) (w n : Nat) (hw : 0 < w) (hn : n < 10 ^ w) :
    pyInt k (fmtNat w n) = some (Int.ofNat n) := by
  unfold fmtNat
  rw [if_pos ⟨hw, hn⟩]
  have := pyInt_digits hk (toDigits 10 w n) (toDigits_lt (by decide) w n) (by
    intro h0
    have := length_toDigits 10 w n
    rw [h0] at this; simp at this; omega)
  rw [fromDigits_toDigits w n hn] at this
  exact this

theorem fmtNat_length (w n : Nat) (hw : 0 < w) (hn : n < 10 ^ w) : (fmtNat w n).length = w := by
  unfold fmtNat
  rw [if_pos ⟨hw, hn⟩]; simp

theorem asciiClasses_sane : asciiClasses.Sane := by
  constructor
  · intro d hd
    simp only [asciiClasses]
    have : 48 ≤ 48 + d ∧ 48 + d ≤ 57 := by omega
    simp [this]
  · intro d hd
    simp only [asciiClasses]
    have h : ∀ x, x < 48 → ¬ (48 + d = x) := by intro x hx; omega
    simp [Nat.add_comm] <;> omega

end Cardutil.Py
