import Cardutil.Model.Iso8583
import Cardutil.Lemmas.PyInt
import Cardutil.Lemmas.Dict
import Cardutil.Lemmas.IsoSafe
/-
  Field-level round trip: `decodeField (encodeField v ++ rest)` for a well-formed value.
  Used by C01 (round trip), C02 (layout), C08 (completeness).
-/
namespace Cardutil.Iso

open Cardutil Cardutil.Py Cardutil.Digits

/-- what the round trip needs from the environment: measured `int()` classes are sane, the codec
    decodes what it encodes, decimal digits are encodable, and the DE43 splitter only produces
    DE43_* keys -/
structure EnvOK (env : Env) : Prop where
  sane : env.classes.Sane
  lawful : env.codec.Lawful
  digits : ∀ d, d < 10 → ∃ b, env.codec.enc (48 + d) = some b
  de43keys : ∀ bit t kv, kv ∈ env.de43 bit t → ∃ n, kv.1 = Key.de43 n

/-- keys that only a field processor produces -/
def Key.isDerived : Key → Bool
  | .pds _ => true
  | .tag _ => true
  | .iccData => true
  | .de43 _ => true
  | _ => false

/-! ### codec helpers -/

theorem mapM_append_some {α β} (f : α → Option β) (a b : List α) (x y : List β)
    (ha : a.mapM f = some x) (hb : b.mapM f = some y) : (a ++ b).mapM f = some (x ++ y) := by
  induction a generalizing x with
  | nil => simp at ha; subst ha; simpa using hb
  | cons c cs ih =>
    rw [List.mapM_cons] at ha
    cases hc : f c with
    | none => simp [hc] at ha
    | some v =>
      cases hcs : cs.mapM f with
      | none => simp [hc, hcs] at ha
      | some vs =>
        simp [hc, hcs] at ha
        subst ha
        rw [List.cons_append, List.mapM_cons, hc, ih vs hcs]
        rfl

theorem encode_digits {env : Env} (h : EnvOK env) (ds : List Nat) (hd : ∀ d ∈ ds, d < 10) :
    ∃ bs, env.codec.encode (digitText ds) = some bs := by
  induction ds with
  | nil => exact ⟨[], rfl⟩
  | cons d ds ih =>
    obtain ⟨b, hb⟩ := h.digits d (hd d (by simp))
    obtain ⟨bs, hbs⟩ := ih (fun x hx => hd x (by simp [hx]))
    refine ⟨b :: bs, ?_⟩
    unfold Codec.encode at hbs ⊢
    simp only [digitText, List.map_cons, List.mapM_cons, hb]
    simp only [digitText] at hbs
    rw [hbs]; rfl

theorem encodeText_ok {env : Env} {t : Text} {bs : Bytes} (h : env.codec.encode t = some bs) :
    encodeText env t = .ok bs := by simp [encodeText, h]

theorem decode_append {env : Env} {a b : Bytes} {x y : Text} (ha : env.codec.decode a = some x)
    (hb : env.codec.decode b = some y) : env.codec.decode (a ++ b) = some (x ++ y) :=
  mapM_append_some _ a b x y ha hb

/-- the length prefix: encodes, has `w` bytes, and reads back as `n` from the front of any data -/
theorem prefix_roundtrip {env : Env} (h : EnvOK env) (w n : Nat) (hw : 0 < w) (hn : n < 10 ^ w) :
    ∃ p, env.codec.encode (fmtInt w (Int.ofNat n)) = some p ∧ p.length = w ∧
      env.codec.decode p = some (fmtNat w n) ∧ pyInt env.classes (fmtNat w n) = some (Int.ofNat n) := by
  have hf : fmtInt w (Int.ofNat n) = fmtNat w n := rfl
  have hd : fmtNat w n = digitText (toDigits 10 w n) := by
    unfold fmtNat; rw [if_pos ⟨hw, hn⟩]; rfl
  obtain ⟨p, hp⟩ := encode_digits h (toDigits 10 w n) (toDigits_lt (by decide) w n)
  refine ⟨p, by rw [hf, hd]; exact hp, ?_, ?_, pyInt_fmtNat h.sane w n hw hn⟩
  · have := Codec.encode_length hp
    simpa [digitText] using this
  · rw [hd]; exact Codec.decode_encode h.lawful hp

end Cardutil.Iso

namespace Cardutil.Iso

open Cardutil Cardutil.Py Cardutil.Digits

/-- `WFField env bit f v exp sub`: `v` is a well-formed value for element `bit` configured as
    `f` (the property's "fits its configured field"); decoding returns `exp` for the element and
    the derived entries `sub`. -/
inductive WFField (env : Env) (bit : Nat) (f : FieldCfg) : Val → Val → Dict → Prop
  /-- text: encodable, non-empty; exactly the width (fixed) or countable by the prefix (variable);
      for a PDS carrier the text is PDS-structured (the walk succeeds) -/
  | text (t : Text) (bs : Bytes) (sub : Dict)
      (hproc : f.proc ≠ .icc) (hty : f.pytype = .str)
      (henc : env.codec.encode t = some bs) (hne : t ≠ [])
      (hfix : f.prefixLen = 0 → t.length = f.length)
      (hvar : 0 < f.prefixLen → t.length < 10 ^ f.prefixLen)
      (hsub : derived env bit f (.str (transform f t)) = .ok sub) :
      WFField env bit f (.str t) (.str (transform f t)) sub
  /-- number: a fixed field of `w ≥ 1` digits holds `0 ≤ n < 10^w` (zero included) -/
  | int (n : Nat)
      (hproc : f.proc = .none) (hty : f.pytype = .int) (hfix : f.prefixLen = 0) (hw : 0 < f.length)
      (hn : n < 10 ^ f.length) :
      WFField env bit f (.int (Int.ofNat n)) (.int (Int.ofNat n)) []
  /-- number given as text (the CSV tools): `int(t)` succeeds with a value that fits the field -/
  | intText (t : Text) (n : Nat)
      (hproc : f.proc = .none) (hty : f.pytype = .int) (hfix : f.prefixLen = 0) (hw : 0 < f.length)
      (hne : t ≠ []) (hint : pyInt env.classes t = some (Int.ofNat n)) (hn : n < 10 ^ f.length) :
      WFField env bit f (.str t) (.int (Int.ofNat n)) []
  /-- date-time given as text (the CSV tools): the date parser accepts it; then as `date` -/
  | dateText (t : Text) (d : DateTime) (bs : Bytes)
      (hproc : f.proc = .none) (hty : f.pytype = .datetime) (hfix : f.prefixLen = 0)
      (hne : t ≠ []) (hparse : env.parseDate t = some d)
      (hlen : (strftime f.dateFmt d).length = f.length)
      (henc : env.codec.encode (strftime f.dateFmt d) = some bs)
      (hback : strptime env.classes f.dateFmt (strftime f.dateFmt d) = some d) :
      WFField env bit f (.str t) (.dt d) []
  /-- date-time: its rendering has the field's width, is encodable, and parses back -/
  | date (d : DateTime) (bs : Bytes)
      (hproc : f.proc = .none) (hty : f.pytype = .datetime) (hfix : f.prefixLen = 0)
      (hlen : (strftime f.dateFmt d).length = f.length) (hne : strftime f.dateFmt d ≠ [])
      (henc : env.codec.encode (strftime f.dateFmt d) = some bs)
      (hback : strptime env.classes f.dateFmt (strftime f.dateFmt d) = some d) :
      WFField env bit f (.dt d) (.dt d) []
  /-- ICC: binary TLV data, untouched, of a length the prefix can count; complete TLVs -/
  | icc (b : Bytes) (sub : Dict)
      (hproc : f.proc = .icc) (hty : f.pytype = .str) (hne : b ≠ [])
      (hfix : f.prefixLen = 0 → b.length = f.length)
      (hvar : 0 < f.prefixLen → b.length < 10 ^ f.prefixLen)
      (hsub : iccToDict b = .ok sub) :
      WFField env bit f (.bytes b) (.bytes b) sub

theorem prefixLen_cases (f : FieldCfg) : f.prefixLen = 0 ∨ f.prefixLen = 2 ∨ f.prefixLen = 3 := by
  unfold FieldCfg.prefixLen
  cases f.ftype <;> simp

/-- reading the declared length back from `prefix ++ body ++ rest` -/
theorem fieldLength_var {env : Env} (h : EnvOK env) (f : FieldCfg) (hls : 0 < f.prefixLen) (n : Nat)
    (hn : n < 10 ^ f.prefixLen) (p : Bytes) (tail : Bytes)
    (hp : env.codec.decode p = some (fmtNat f.prefixLen n)) (hl : p.length = f.prefixLen)
    (hint : pyInt env.classes (fmtNat f.prefixLen n) = some (Int.ofNat n)) :
    fieldLength env f (p ++ tail) = .ok n := by
  unfold fieldLength
  rw [if_neg (by omega), List.take_left' hl, hp]
  simp only [hint]

theorem fieldLength_fixed (env : Env) (f : FieldCfg) (hls : f.prefixLen = 0) (data : Bytes) :
    fieldLength env f data = .ok f.length := by
  unfold fieldLength; rw [if_pos hls]

/-- the text part of the decoder on exactly the encoded bytes -/
theorem decodeTextField_ok {env : Env} (h : EnvOK env) (bit : Nat) (f : FieldCfg) (t : Text) (bs : Bytes) (sub : Dict)
    (hty : f.pytype = .str) (henc : env.codec.encode t = some bs)
    (hsub : derived env bit f (.str (transform f t)) = .ok sub) :
    decodeTextField env bit f bs = .ok (Dict.update [(Key.de bit, .str (transform f t))] sub) := by
  unfold decodeTextField
  rw [Codec.decode_encode h.lawful henc]
  simp only
  rw [stringToPyType_str env f _ hty]
  simp only [Outcome.catchAs, Outcome.bind, hsub]

end Cardutil.Iso

namespace Cardutil.Iso

open Cardutil Cardutil.Py Cardutil.Digits

theorem wf_present {env : Env} {bit : Nat} {f : FieldCfg} {v exp : Val} {sub : Dict}
    (hw : WFField env bit f v exp sub) : present v = true := by
  cases hw with
  | text t bs sub hproc hty henc hne hfix hvar hsub => cases t <;> simp_all [present]
  | int n => rfl
  | intText t n hproc hty hfix hw hne => cases t <;> simp_all [present]
  | dateText t d bs hproc hty hfix hne => cases t <;> simp_all [present]
  | date d bs => rfl
  | icc b sub hproc hty hne => cases b <;> simp_all [present]

/-- the text an element is rendered as, before the length prefix (what `_pytype_to_string`
    returns), and its byte encoding -/
theorem field_roundtrip {env : Env} (h : EnvOK env) {bit : Nat} {f : FieldCfg} {v exp : Val} {sub : Dict}
    (hw : WFField env bit f v exp sub) (rest : Bytes) :
    ∃ bs, encodeField env f v = .ok bs ∧
      decodeField env bit f (bs ++ rest) = .ok (Dict.update [(Key.de bit, exp)] sub, bs.length) := by
  cases hw with
  | text t bs sub hproc hty henc hne hfix hvar hsub =>
    have hlen : bs.length = t.length := Codec.encode_length henc
    have hicc : (f.proc == Proc.icc) = false := by
      cases hp : f.proc <;> simp_all
    rcases Nat.eq_zero_or_pos f.prefixLen with hls | hls
    · -- fixed width: exactly the width, so no padding and no truncation
      have hw : t.length = f.length := hfix hls
      have hfit : fitLeft f.length t = t := by
        unfold fitLeft
        rw [List.take_of_length_le (by omega), hw]; simp
      refine ⟨bs, ?_, ?_⟩
      · simp only [encodeField, pyTypeToString, hty, Outcome.bind, hls, if_true, hfit, encodeText_ok henc]
      · unfold decodeField
        rw [fieldLength_fixed env f hls]
        simp only [Outcome.bind, hls, List.drop_zero, hicc, Bool.false_eq_true, if_false]
        rw [← hw, ← hlen, List.take_left' rfl, decodeTextField_ok h bit f t bs sub hty henc hsub]
        simp
    · -- variable length: prefix then the bytes
      have hlt : t.length < 10 ^ f.prefixLen := hvar hls
      obtain ⟨p, hpe, hpl, hpd, hpi⟩ := prefix_roundtrip h f.prefixLen t.length hls hlt
      refine ⟨p ++ bs, ?_, ?_⟩
      · simp only [encodeField, pyTypeToString, hty, Outcome.bind]
        rw [if_neg (by omega), if_neg (by omega)]
        simp only [encodeText_ok hpe, encodeText_ok henc, Outcome.bind]
      · unfold decodeField
        rw [List.append_assoc, fieldLength_var h f hls t.length hlt p (bs ++ rest) hpd hpl hpi]
        simp only [Outcome.bind, hicc, Bool.false_eq_true, if_false]
        rw [← hpl, List.drop_left' rfl, ← hlen, List.take_left' rfl,
          decodeTextField_ok h bit f t bs sub hty henc hsub]
        simp [Nat.add_comm]
  | int n hproc hty hfix hw hn =>
    -- zero-padded digits of exactly the width
    have hd : fmtNat f.length n = digitText (toDigits 10 f.length n) := by
      unfold fmtNat; rw [if_pos ⟨hw, hn⟩]; rfl
    obtain ⟨bs, hbs⟩ := encode_digits h (toDigits 10 f.length n) (toDigits_lt (by decide) _ _)
    have hlen : bs.length = f.length := by
      have := Codec.encode_length hbs
      simpa [digitText] using this
    have hfit : fitLeft f.length (fmtNat f.length n) = fmtNat f.length n := by
      unfold fitLeft
      have hl : (fmtNat f.length n).length = f.length := fmtNat_length _ _ hw hn
      rw [List.take_of_length_le (by omega), hl]; simp
    have hicc : (f.proc == Proc.icc) = false := by simp [hproc]
    refine ⟨bs, ?_, ?_⟩
    · simp only [encodeField, pyTypeToString, hty, fmtInt, Outcome.bind, hfix, if_true, hfit]
      rw [hd]; exact encodeText_ok hbs
    · unfold decodeField
      rw [fieldLength_fixed env f hfix]
      simp only [Outcome.bind, hfix, List.drop_zero, hicc, Bool.false_eq_true, if_false]
      rw [← hlen, List.take_left' rfl]
      unfold decodeTextField
      rw [Codec.decode_encode h.lawful hbs]
      have htr : transform f (digitText (toDigits 10 f.length n)) = digitText (toDigits 10 f.length n) := by
        simp [transform, hproc]
      simp only [htr, stringToPyType, hty]
      rw [← hd, pyInt_fmtNat h.sane f.length n hw hn]
      simp [Outcome.catchAs, Outcome.bind, derived, hproc, Dict.update]
  | intText t n hproc hty hfix hw hne hint hn =>
    have hd : fmtNat f.length n = digitText (toDigits 10 f.length n) := by
      unfold fmtNat; rw [if_pos ⟨hw, hn⟩]; rfl
    obtain ⟨bs, hbs⟩ := encode_digits h (toDigits 10 f.length n) (toDigits_lt (by decide) _ _)
    have hlen : bs.length = f.length := by
      have := Codec.encode_length hbs
      simpa [digitText] using this
    have hfit : fitLeft f.length (fmtNat f.length n) = fmtNat f.length n := by
      unfold fitLeft
      have hl : (fmtNat f.length n).length = f.length := fmtNat_length _ _ hw hn
      rw [List.take_of_length_le (by omega), hl]; simp
    have hicc : (f.proc == Proc.icc) = false := by simp [hproc]
    refine ⟨bs, ?_, ?_⟩
    · simp only [encodeField, pyTypeToString, hty, hint, fmtInt, Outcome.bind, hfix, if_true, hfit]
      rw [hd]; exact encodeText_ok hbs
    · unfold decodeField
      rw [fieldLength_fixed env f hfix]
      simp only [Outcome.bind, hfix, List.drop_zero, hicc, Bool.false_eq_true, if_false]
      rw [← hlen, List.take_left' rfl]
      unfold decodeTextField
      rw [Codec.decode_encode h.lawful hbs]
      have htr : transform f (digitText (toDigits 10 f.length n)) = digitText (toDigits 10 f.length n) := by
        simp [transform, hproc]
      simp only [htr, stringToPyType, hty]
      rw [← hd, pyInt_fmtNat h.sane f.length n hw hn]
      simp [Outcome.catchAs, Outcome.bind, derived, hproc, Dict.update]
  | dateText t d bs hproc hty hfix hne hparse hlen henc hback =>
    have hl : bs.length = f.length := by rw [Codec.encode_length henc, hlen]
    have hfit : fitLeft f.length (strftime f.dateFmt d) = strftime f.dateFmt d := by
      unfold fitLeft
      rw [List.take_of_length_le (by omega), hlen]; simp
    have hicc : (f.proc == Proc.icc) = false := by simp [hproc]
    refine ⟨bs, ?_, ?_⟩
    · simp only [encodeField, pyTypeToString, hty, hparse, Outcome.bind, hfix, if_true, hfit, encodeText_ok henc]
    · unfold decodeField
      rw [fieldLength_fixed env f hfix]
      simp only [Outcome.bind, hfix, List.drop_zero, hicc, Bool.false_eq_true, if_false]
      rw [← hl, List.take_left' rfl]
      unfold decodeTextField
      rw [Codec.decode_encode h.lawful henc]
      have htr : transform f (strftime f.dateFmt d) = strftime f.dateFmt d := by simp [transform, hproc]
      simp only [htr, stringToPyType, hty, hback]
      simp [Outcome.catchAs, Outcome.bind, derived, hproc, Dict.update]
  | date d bs hproc hty hfix hlen hne henc hback =>
    have hl : bs.length = f.length := by rw [Codec.encode_length henc, hlen]
    have hfit : fitLeft f.length (strftime f.dateFmt d) = strftime f.dateFmt d := by
      unfold fitLeft
      rw [List.take_of_length_le (by omega), hlen]; simp
    have hicc : (f.proc == Proc.icc) = false := by simp [hproc]
    refine ⟨bs, ?_, ?_⟩
    · simp only [encodeField, pyTypeToString, hty, Outcome.bind, hfix, if_true, hfit, encodeText_ok henc]
    · unfold decodeField
      rw [fieldLength_fixed env f hfix]
      simp only [Outcome.bind, hfix, List.drop_zero, hicc, Bool.false_eq_true, if_false]
      rw [← hl, List.take_left' rfl]
      unfold decodeTextField
      rw [Codec.decode_encode h.lawful henc]
      have htr : transform f (strftime f.dateFmt d) = strftime f.dateFmt d := by simp [transform, hproc]
      simp only [htr, stringToPyType, hty, hback]
      simp [Outcome.catchAs, Outcome.bind, derived, hproc, Dict.update]
  | icc b sub hproc hty hne hfix hvar hsub =>
    have hicc : (f.proc == Proc.icc) = true := by simp [hproc]
    rcases Nat.eq_zero_or_pos f.prefixLen with hls | hls
    · have hw : b.length = f.length := hfix hls
      refine ⟨b, ?_, ?_⟩
      · simp only [encodeField, pyTypeToString, hty, Outcome.bind, hls, if_true]
        rw [← hw, List.take_length]
      · unfold decodeField
        rw [fieldLength_fixed env f hls]
        simp only [Outcome.bind, hls, List.drop_zero, hicc, if_true]
        rw [← hw, List.take_left' rfl]
        simp only [decodeIcc, hty, hsub, Outcome.catchAs, Outcome.bind]
        simp
    · have hlt : b.length < 10 ^ f.prefixLen := hvar hls
      obtain ⟨p, hpe, hpl, hpd, hpi⟩ := prefix_roundtrip h f.prefixLen b.length hls hlt
      refine ⟨p ++ b, ?_, ?_⟩
      · simp only [encodeField, pyTypeToString, hty, Outcome.bind]
        rw [if_neg (by omega), if_neg (by omega)]
        simp only [encodeText_ok hpe, Outcome.bind]
      · unfold decodeField
        rw [List.append_assoc, fieldLength_var h f hls b.length hlt p (b ++ rest) hpd hpl hpi]
        simp only [Outcome.bind, hicc, if_true]
        rw [← hpl, List.drop_left' rfl, List.take_left' rfl]
        simp only [decodeIcc, hty, hsub, Outcome.catchAs, Outcome.bind]
        simp [Nat.add_comm]

end Cardutil.Iso
