import Cardutil.Model.Iso8583
/-
  Bitmap lemmas: bits <-> bytes (BitArray), hexlify / unhexlify, present-bit lists.
-/
namespace Cardutil.Iso

open Cardutil

def b2n (b : Bool) : Nat := if b then 1 else 0

/-- value of 8 booleans, most significant first -/
def byteOf (b0 b1 b2 b3 b4 b5 b6 b7 : Bool) : Nat :=
  ((((((b2n b0 * 2 + b2n b1) * 2 + b2n b2) * 2 + b2n b3) * 2 + b2n b4) * 2 + b2n b5) * 2 + b2n b6) * 2 + b2n b7

theorem byteOf_lt (b0 b1 b2 b3 b4 b5 b6 b7 : Bool) : byteOf b0 b1 b2 b3 b4 b5 b6 b7 < 256 := by
  cases b0 <;> cases b1 <;> cases b2 <;> cases b3 <;> cases b4 <;> cases b5 <;> cases b6 <;> cases b7 <;> decide

theorem bits_byteOf (b0 b1 b2 b3 b4 b5 b6 b7 : Bool) :
    (List.range 8).map (fun i => (byteOf b0 b1 b2 b3 b4 b5 b6 b7 / 2 ^ (7 - i)) % 2 == 1) =
      [b0, b1, b2, b3, b4, b5, b6, b7] := by
  cases b0 <;> cases b1 <;> cases b2 <;> cases b3 <;> cases b4 <;> cases b5 <;> cases b6 <;> cases b7 <;> decide

theorem bytesOfBits_cons8 (b0 b1 b2 b3 b4 b5 b6 b7 : Bool) (rest : List Bool) :
    bytesOfBits (b0 :: b1 :: b2 :: b3 :: b4 :: b5 :: b6 :: b7 :: rest) =
      byteOf b0 b1 b2 b3 b4 b5 b6 b7 :: bytesOfBits rest := by
  simp [bytesOfBits, byteOf, b2n]

/-- `BitArray.fromlist(l).tolist() = l` for whole bytes -/
theorem bitsOfBytes_bytesOfBits (n : Nat) (l : List Bool) (h : l.length = 8 * n) :
    bitsOfBytes (bytesOfBits l) = l := by
  induction n generalizing l with
  | zero =>
    have : l = [] := by simpa using h
    subst this; rfl
  | succ n ih =>
    match l, h with
    | b0 :: b1 :: b2 :: b3 :: b4 :: b5 :: b6 :: b7 :: rest, h =>
      have hr : rest.length = 8 * n := by simp at h; omega
      rw [bytesOfBits_cons8]
      simp only [bitsOfBytes, List.flatMap_cons]
      rw [bits_byteOf]
      have := ih rest hr
      simp only [bitsOfBytes] at this
      rw [this]
      rfl

theorem bytesOfBits_length (n : Nat) (l : List Bool) (h : l.length = 8 * n) : (bytesOfBits l).length = n := by
  induction n generalizing l with
  | zero =>
    have : l = [] := by simpa using h
    subst this; rfl
  | succ n ih =>
    match l, h with
    | b0 :: b1 :: b2 :: b3 :: b4 :: b5 :: b6 :: b7 :: rest, h =>
      have hr : rest.length = 8 * n := by simp at h; omega
      rw [bytesOfBits_cons8]
      simp [ih rest hr]

theorem bytesOfBits_lt (n : Nat) (l : List Bool) (h : l.length = 8 * n) : ∀ b ∈ bytesOfBits l, b < 256 := by
  induction n generalizing l with
  | zero =>
    have : l = [] := by simpa using h
    subst this; simp [bytesOfBits]
  | succ n ih =>
    match l, h with
    | b0 :: b1 :: b2 :: b3 :: b4 :: b5 :: b6 :: b7 :: rest, h =>
      have hr : rest.length = 8 * n := by simp at h; omega
      rw [bytesOfBits_cons8]
      intro b hb
      rcases List.mem_cons.mp hb with rfl | hb
      · exact byteOf_lt _ _ _ _ _ _ _ _
      · exact ih rest hr b hb

/-! ### hex rendering -/

theorem hexVal_hexDigitLower (n : Nat) (h : n < 16) : hexVal? (hexDigitLower n) = some n := by
  unfold hexVal? hexDigitLower
  by_cases h10 : n < 10
  · have : 48 ≤ 48 + n ∧ 48 + n ≤ 57 := by omega
    simp only [h10, if_true, this, and_self]; congr 1; omega
  · have h1 : ¬ (48 ≤ 87 + n ∧ 87 + n ≤ 57) := by omega
    have h2 : 97 ≤ 87 + n ∧ 87 + n ≤ 102 := by omega
    simp only [h10, if_false, h1, h2, and_self, if_true]; congr 1; omega

/-- `binascii.unhexlify(binascii.hexlify(b)) = b` -/
theorem unhexlify_hexlify (b : Bytes) (h : ∀ x ∈ b, x < 256) : unhexlify? (hexlify b) = some b := by
  induction b with
  | nil => rfl
  | cons x xs ih =>
    have hx := h x (by simp)
    have := ih (fun y hy => h y (by simp [hy]))
    simp only [hexlify, List.flatMap_cons] at this ⊢
    simp only [List.cons_append, List.nil_append, unhexlify?]
    rw [hexVal_hexDigitLower _ (by omega), hexVal_hexDigitLower _ (by omega), this]
    simp only
    congr 2
    omega

theorem hexlify_length (b : Bytes) : (hexlify b).length = 2 * b.length := by
  induction b with
  | nil => rfl
  | cons x xs ih => simp only [hexlify, List.flatMap_cons] at ih ⊢; simp [ih]; omega

/-! ### present bits -/

/-- the 128 flags the encoder writes: bit 1 always, bit n iff element n is present -/
def flagsOf (bits : List Nat) : List Bool := (List.range 128).map (fun i => i == 0 || bits.contains (i + 1))

theorem flagsOf_length (bits : List Nat) : (flagsOf bits).length = 128 := by simp [flagsOf]

theorem bitmapOf_eq (bits : List Nat) : bitmapOf bits = bytesOfBits (flagsOf bits) := rfl

theorem bitmapOf_length (bits : List Nat) : (bitmapOf bits).length = 16 :=
  bytesOfBits_length 16 _ (by simp [flagsOf])

theorem bitmapOf_lt (bits : List Nat) : ∀ b ∈ bitmapOf bits, b < 256 :=
  bytesOfBits_lt 16 _ (by simp [flagsOf])

theorem filterMap_ite_eq {α β} (l : List α) (p : α → Bool) (f : α → β) (q : β → Bool)
    (h : ∀ i ∈ l, p i = q (f i)) :
    l.filterMap (fun i => if p i = true then some (f i) else none) = (l.map f).filter q := by
  induction l with
  | nil => rfl
  | cons x xs ih =>
    have hx := h x (by simp)
    have := ih (fun i hi => h i (by simp [hi]))
    simp only [List.filterMap_cons, List.map_cons, List.filter_cons]
    by_cases hp : p x = true
    · rw [hp] at hx
      simp [hp, ← hx, this]
    · have hp' : p x = false := by simpa using hp
      rw [hp'] at hx
      simp [hp', ← hx, this]

theorem flagsOf_getD (bits : List Nat) (i : Nat) (hi : i < 127) :
    (flagsOf bits).getD (i + 1) false = bits.contains (i + 2) := by
  unfold flagsOf
  rw [List.getD_eq_getElem?_getD, List.getElem?_map, List.getElem?_range (by omega)]
  simp

/-- decoding the bitmap the encoder wrote gives back exactly the elements 2..128 that were
    flagged, in ascending order -/
theorem presentBits_bitmapOf (bits : List Nat) :
    presentBits (bitmapOf bits) = ((List.range 127).map (· + 2)).filter (fun b => bits.contains b) := by
  unfold presentBits
  rw [bitmapOf_eq, bitsOfBytes_bytesOfBits 16 _ (by simp [flagsOf])]
  simp only
  apply filterMap_ite_eq
  intro i hi
  exact flagsOf_getD bits i (by simpa using hi)

/-- … which is the list itself when it is a sub-list of 2..128 (as the encoder's list is) -/
theorem filter_contains_of_sublist {l₁ l₂ : List Nat} (h : l₁.Sublist l₂) (hnd : l₂.Nodup) :
    l₂.filter (fun b => l₁.contains b) = l₁ := by
  induction h with
  | slnil => rfl
  | cons a hs ih =>
    rename_i l₁' l₂'
    simp only [List.nodup_cons] at hnd
    have hnot : l₁'.contains a = false := by
      simp only [List.contains_eq_mem, decide_eq_false_iff_not]
      intro hm
      exact hnd.1 (hs.subset hm)
    simp only [List.filter_cons, hnot, Bool.false_eq_true, if_false]
    exact ih hnd.2
  | cons_cons a hs ih =>
    rename_i l₁' l₂'
    simp only [List.nodup_cons] at hnd
    simp only [List.filter_cons, List.contains_cons, beq_self_eq_true, Bool.true_or, if_true]
    congr 1
    have hc : l₂'.filter (fun b => b == a || l₁'.contains b) = l₂'.filter (fun b => l₁'.contains b) := by
      apply List.filter_congr
      intro x hx
      have : (x == a) = false := by
        simp only [beq_eq_false_iff_ne, ne_eq]
        intro hxa; subst hxa; exact hnd.1 hx
      simp only [this, Bool.false_or]
    rw [hc]
    exact ih hnd.2

theorem range2_nodup : ((List.range 127).map (· + 2)).Nodup := by
  have hinj : ∀ l : List Nat, l.Nodup → (l.map (· + 2)).Nodup := by
    intro l hl
    induction l with
    | nil => simp
    | cons x xs ih =>
      simp only [List.nodup_cons, List.map_cons] at hl ⊢
      refine ⟨?_, ih hl.2⟩
      intro hx
      obtain ⟨y, hy, hxy⟩ := List.mem_map.mp hx
      have : y = x := by omega
      exact hl.1 (this ▸ hy)
  exact hinj _ List.nodup_range

theorem presentBits_bitmapOf_sublist (bits : List Nat) (h : bits.Sublist ((List.range 127).map (· + 2))) :
    presentBits (bitmapOf bits) = bits := by
  rw [presentBits_bitmapOf]
  exact filter_contains_of_sublist h range2_nodup

end Cardutil.Iso
